# Sourced by run.sh / setup.sh: offline Go environment and the harness build function.
export GOFLAGS=-mod=mod GOPROXY=off GOSUMDB=off GOTOOLCHAIN=local
# The toolchain the repository's own test-suite is built with (go.mod: go 1.24.0).
GO124=/root/go/pkg/mod/golang.org/toolchain@v0.0.1-go1.24.0.linux-amd64/bin/go
if [ -x "$GO124" ]; then GO="$GO124"
elif command -v go1.26 >/dev/null 2>&1; then GO="$(command -v go1.26)"
else GO="$(command -v go)"; fi
export GO
# Checks whose verdict needs the race detector (built with -race).
VERIF_RACE_IDS="C17 C19"

# build_harness <output> [-race]   builds harness/cmd/check with the verif tag against
# ${VERIF_REPO:-/repo}. An alternate repo is selected through a generated -modfile, so the
# committed go.mod always points at /repo.
build_harness() {
  local out="$1" race="${2:-}" modflag=""
  local repo="${VERIF_REPO:-/repo}"
  local dir; dir="$(dirname "$out")"
  # always refresh go.sum from the repo under test (the harness has no dependencies of its own
  # beyond porcupine, whose sums are appended once at setup)
  if [ "$repo" != "/repo" ]; then
    sed "s#=> /repo#=> $repo#" "$ROOT/harness/go.mod" > "$dir/alt.mod"
    cp "$ROOT/harness/go.sum" "$dir/alt.sum"
    modflag="-modfile=$dir/alt.mod"
  fi
  # Non-race builds are static (CGO_ENABLED=0): the binary re-executes itself as the strace crash
  # victim (C11) and as the chrooted child (C12), where a dynamic loader is neither wanted nor,
  # inside the jail, available. The race detector needs cgo, so -race builds stay dynamic.
  local cgo=0
  [ -n "$race" ] && cgo=1
  ( cd "$ROOT/harness" && CGO_ENABLED=$cgo "$GO" build $modflag $race -tags verif -o "$out" ./cmd/check )
}
