#!/bin/bash
# Single entry point of the verification machinery.
#   ./run.sh <ID> quick|thorough            run the check for one property
#   ./run.sh <ID> --replay <file>           re-execute exactly one recorded case
# Rebuilds the harness against /repo's *current working tree* (build tag: verif) on every
# invocation, into a private scratch directory that is removed on exit.
# Env: VERIF_SEED (default 1), VERIF_TIER (used only when no tier argument is given),
#      VERIF_REPO (alternate checkout of la5nta/wl2k-go to test, default /repo),
#      VERIF_WORKERS (override worker count).
set -u
ROOT="$(cd "$(dirname "${BASH_SOURCE[0]}")" && pwd)"
. "$ROOT/env.sh"

ID="${1:-}"; shift || true
if [ -z "$ID" ]; then echo "usage: run.sh <ID> quick|thorough | --replay <file>"; exit 2; fi
TIER="${VERIF_TIER:-quick}"
REPLAY=""
while [ $# -gt 0 ]; do
  case "$1" in
    quick|thorough) TIER="$1";;
    --replay) shift; REPLAY="$1";;
    *) echo "unknown argument $1"; exit 2;;
  esac
  shift
done

SCRATCH="$(mktemp -d "${TMPDIR:-/tmp}/verif-run.XXXXXX")" || exit 2
cleanup() { rm -rf "$SCRATCH"; }
trap cleanup EXIT
trap 'cleanup; exit 130' INT TERM

RACE=""
case " $VERIF_RACE_IDS " in *" $ID "*) RACE="-race";; esac

build_harness "$SCRATCH/check" "$RACE" > "$SCRATCH/build.log" 2>&1
if [ $? -ne 0 ]; then
  echo "BUILD-FAILED property=$ID (harness could not be built against ${VERIF_REPO:-/repo})"
  tail -n 40 "$SCRATCH/build.log"
  exit 2
fi

ARGS=("$ID" --tier "$TIER" --root "$ROOT" --scratch "$SCRATCH")
[ -n "$REPLAY" ] && ARGS+=(--replay "$REPLAY")
[ -n "${VERIF_WORKERS:-}" ] && ARGS+=(--workers "$VERIF_WORKERS")
"$SCRATCH/check" "${ARGS[@]}"
rc=$?
exit $rc
