#!/bin/bash
# Runs the repository's own test-suite with the verif guard OFF (no build tag).
. "$(dirname "${BASH_SOURCE[0]}")/env.sh"
cd "${VERIF_REPO:-/repo}" && "$GO" test -vet=off -count=1 -timeout 25m ./...
