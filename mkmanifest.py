#!/usr/bin/env python3
"""Merge manifest.d/*.json fragments into MANIFEST.json (and validate against the schema when available)."""
import json, glob, os, sys, subprocess
root = os.path.dirname(os.path.abspath(__file__))
base = json.load(open(os.path.join(root, "manifest.d", "_base.json")))
checks = []
for f in sorted(glob.glob(os.path.join(root, "manifest.d", "C*.json"))):
    checks.append(json.load(open(f)))
base["checks"] = checks
claimed = {c["property_id"] for c in checks}
props = [json.loads(l)["id"] for l in open(os.path.join(root, "properties.jsonl")) if l.strip()]
na_file = os.path.join(root, "manifest.d", "_not_applicable.json")
na = json.load(open(na_file)) if os.path.exists(na_file) else {}
base["not_applicable"] = [
    {"property_id": p, "reason": na.get(p, "check not built yet in this work session (see DESIGN.md); not claimed")}
    for p in props if p not in claimed]
for e in base.get("engines", []):
    e["serves_properties"] = sorted(claimed)
try:
    commits = subprocess.check_output(["git", "-C", "/repo", "log", "--format=%h %s"], text=True).splitlines()
    base["hooks"]["source_commits"] = [c.split()[0] for c in commits if c.split(" ", 1)[1].startswith("verif hook")]
except Exception:
    pass
out = os.path.join(root, "MANIFEST.json")
json.dump(base, open(out + ".tmp", "w"), indent=1)
os.replace(out + ".tmp", out)
try:
    import jsonschema
    jsonschema.validate(json.load(open(out)), json.load(open("/root/.vp/MANIFEST.schema.json")))
    print("MANIFEST.json valid:", len(checks), "checks,", len(base["not_applicable"]), "not claimed")
except ImportError:
    print("MANIFEST.json written (jsonschema not available to validate)")
