package simagw

import (
	"bytes"
	"encoding/binary"
	"fmt"
	"io"
	"math/rand"
	"net"
	"sync"
	"time"
)

type DialPolicy int

const (
	DialAccept  DialPolicy = iota // reply 'C' "*** CONNECTED With Station <call>"
	DialRefuse                    // reply 'd' "*** DISCONNECTED RETRYOUT With <call>"
	DialBadText                   // reply 'C' whose text is not the expected one (malformed)
)

// Config describes how the simulated TNC behaves and what it expects from the application.
type Config struct {
	Port     uint8  // radio port the application is expected to use for everything
	MyCall   string // callsign the application is expected to register and use as its own
	MaxFrame uint8  // MAXFRAME reported in the 'g' reply
	TTLMax   int    // a received 'D' frame stays outstanding for 1..TTLMax 'Y' polls
	Seed     int64

	RegisterReplyKind byte // 'X' (AGWPE, Direwolf) or 'x' (QtSoundModem); 0 = 'X'
	Dial              DialPolicy
	// DialGreeting: data frames the TNC sends directly behind its 'C' reply to a connect request (a
	// remote station that greets at once): queued back to back with the reply.
	DialGreeting [][]byte

	// Deliberately malformed replies (-1 = well formed). The value is the number of data bytes sent.
	ShortX, ShortG, ShortR int
	ShortYAt, ShortYLen    int // the ShortYAt-th 'Y' poll (0-based) is answered with ShortYLen bytes

	// NoisePct percent of the replies are preceded by the frames Noise returns (frames for other
	// ports / stations, unknown kinds ...). They are unsolicited but legal or at least harmless.
	NoisePct int
	Noise    func(r *rand.Rand) []Frame

	// Cut, when set, splits an outgoing frame of n bytes into separately written pieces at the
	// returned ascending offsets (each in 1..n-1) with CutPause between the writes (loopback TCP).
	Cut      func(r *rand.Rand, n int) []int
	CutPause time.Duration

	// VaryPID: the connected-data frames the simulator sends carry other PIDs than 0xF0 as well (a remote station or a TNC
	// that marks its frames as NET/ROM, IP, segmentation fragment ...): they are connected data of the connection all the same.
	VaryPID bool
}

// dataPID is the PID of the k-th data frame the simulator sends on a connection.
func (s *Sim) dataPID(k int) uint8 {
	if !s.cfg.VaryPID {
		return 0xF0
	}
	pids := [...]uint8{0xF0, 0x00, 0xCF, 0xF0, 0xCC, 0x08, 0x01, 0xFF, 0xF0, 0xCD, 0x10, 0xF1}
	return pids[(k+int(uint64(s.cfg.Seed)%7))%len(pids)]
}

// Event is one entry of the exchange log.
type Event struct {
	Seq  int    `json:"seq"`
	Dir  string `json:"dir"` // "rx" = application -> TNC, "tx" = TNC -> application
	Kind string `json:"kind"`
	Port uint8  `json:"port"`
	From string `json:"from"`
	To   string `json:"to"`
	Len  int    `json:"len"`
	Note string `json:"note,omitempty"`
}

type Violation struct{ Key, Desc string }

// UIFrame is a received 'M' (unproto) frame.
type UIFrame struct {
	Port     uint8
	From, To string
	Data     []byte
}

// Conn is the TNC's view of one AX.25 connection of the application.
type Conn struct {
	Port          uint8
	Local, Remote string
	Inbound       bool
	Via           []string // digipeaters of the connect request ('v')
	ConnectKind   byte     // 'C' or 'v' (dial), 0 for inbound

	Rx       bytes.Buffer // concatenated payloads of the 'D' frames received from the application
	RxFrames int
	Tx       bytes.Buffer // concatenated payloads of the 'D' frames sent to the application
	TxFrames int
	TxSizes  []int // payload length of every 'D' frame sent, in order

	ttl               []int // outstanding frames: remaining polls
	Polls             int
	LastPollReply     int  // -1 before the first poll
	DSinceLastPoll    int  // 'D' frames received after the most recent poll
	DNeverPolled      int  // 'D' frames that were followed by another 'D' without a poll in between
	HostDisc          bool // application sent 'd'
	HostDiscUnflushed bool // ... while the most recent poll reply was not 0 or data came after it
	TNCDisc           bool // the simulator sent 'd'
	LateFrames        int  // D/Y/d frames received after the simulator's own 'd'
	YReversed         int  // 'Y' polls carrying the calls in connection-initiator order (inbound only)
}

type Sim struct {
	cfg Config
	rng *rand.Rand

	mu         sync.Mutex
	cond       *sync.Cond
	link       net.Conn
	halfClose  func() error
	events     []Event
	violations []Violation
	registered map[string]bool
	everReg    map[string]bool
	unreg      map[string]bool
	conns      map[string]*Conn
	ui         []UIFrame
	counters   map[string]int64
	yPolls     int

	outQ      [][]byte
	outQueued int64 // items ever queued
	outDone   int64 // items completely written (or discarded after a write error)
	outErr    error
	outClosed bool

	rxFrames  int
	rxEOF     bool
	rxErr     error
	rxPartial int // bytes of an incomplete frame at EOF
	stopped   bool
	readerEnd chan struct{}
	writerEnd chan struct{}
}

func New(cfg Config) *Sim {
	if cfg.TTLMax < 1 {
		cfg.TTLMax = 1
	}
	if cfg.RegisterReplyKind == 0 {
		cfg.RegisterReplyKind = 'X'
	}
	s := &Sim{cfg: cfg, rng: rand.New(rand.NewSource(cfg.Seed ^ 0x5eed)), registered: map[string]bool{}, everReg: map[string]bool{},
		unreg: map[string]bool{}, conns: map[string]*Conn{}, counters: map[string]int64{},
		readerEnd: make(chan struct{}), writerEnd: make(chan struct{})}
	s.cond = sync.NewCond(&s.mu)
	return s
}

// Attach starts serving the application link. halfClose (optional) closes only the TNC->host
// direction (TCP CloseWrite); it is used by DropLink so that nothing already written is lost.
func (s *Sim) Attach(link net.Conn, halfClose func() error) {
	s.mu.Lock()
	s.link, s.halfClose = link, halfClose
	s.mu.Unlock()
	go s.reader()
	go s.writer()
}

func connKey(port uint8, local, remote string) string {
	return fmt.Sprintf("%d|%s|%s", port, local, remote)
}

func (s *Sim) violate(key, format string, a ...any) {
	if len(s.violations) < 50 {
		s.violations = append(s.violations, Violation{Key: key, Desc: fmt.Sprintf(format, a...)})
	}
	s.counters["sim_violations"]++
}

func (s *Sim) logEvent(dir string, f Frame, note string) {
	s.events = append(s.events, Event{Seq: len(s.events), Dir: dir, Kind: string([]byte{f.Kind}), Port: f.Port, From: f.From, To: f.To, Len: len(f.Data), Note: note})
}

// ---------------------------------------------------------------------------------------------
// application -> TNC

func (s *Sim) reader() {
	defer close(s.readerEnd)
	hdr := make([]byte, HeaderLen)
	for {
		n, err := io.ReadFull(s.link, hdr)
		if err != nil {
			s.mu.Lock()
			s.rxEOF, s.rxErr, s.rxPartial = true, err, n
			if n != 0 {
				// the link was closed while a frame was being written: says nothing beyond "the link ended"
				s.counters["link_ended_inside_a_frame"]++
			}
			s.cond.Broadcast()
			s.mu.Unlock()
			return
		}
		f, dl := parseHeader(hdr)
		if dl > MaxData {
			s.mu.Lock()
			s.violate("tncframe:datalen", "frame header announces %d data bytes (kind %q): not a sane AGWPE frame / stream out of sync", dl, f.Kind)
			s.rxEOF = true
			s.cond.Broadcast()
			s.mu.Unlock()
			// keep draining so that the application never blocks on its writes
			io.Copy(io.Discard, s.link)
			return
		}
		f.Data = make([]byte, dl)
		if n, err := io.ReadFull(s.link, f.Data); err != nil {
			s.mu.Lock()
			s.rxEOF, s.rxErr, s.rxPartial = true, err, HeaderLen+n
			s.counters["link_ended_inside_a_frame"]++
			s.cond.Broadcast()
			s.mu.Unlock()
			return
		}
		s.mu.Lock()
		s.rxFrames++
		s.handle(f)
		s.cond.Broadcast()
		s.mu.Unlock()
	}
}

func (s *Sim) expectPort(f Frame) {
	if f.Port != s.cfg.Port {
		s.violate(fmt.Sprintf("tncframe:%c:port", f.Kind), "%q frame carries port %d, the application works on port %d (%v)", f.Kind, f.Port, s.cfg.Port, f)
	}
}

func (s *Sim) expectLocal(f Frame) {
	if f.From != s.cfg.MyCall || !validCallField(f.RawFrom) {
		s.violate(fmt.Sprintf("tncframe:%c:callfrom", f.Kind), "%q frame CallFrom field % x, want the registered callsign %q NUL-terminated", f.Kind, f.RawFrom, s.cfg.MyCall)
	}
}

func (s *Sim) expectRemoteField(f Frame) {
	if !validCallField(f.RawTo) {
		s.violate(fmt.Sprintf("tncframe:%c:callto", f.Kind), "%q frame CallTo field % x is not a NUL-terminated callsign", f.Kind, f.RawTo)
	}
}

func disconnectedText(remote string) []byte {
	return []byte("*** DISCONNECTED From Station " + remote + "\r\x00")
}

// handle processes one well-delimited frame from the application. s.mu is held.
func (s *Sim) handle(f Frame) {
	s.counters[fmt.Sprintf("rx_%c", f.Kind)]++
	if f.Reserved {
		s.counters["rx_reserved_nonzero"]++
	}
	switch f.Kind {
	case 'R':
		s.logEvent("rx", f, "")
		data := make([]byte, 8)
		binary.LittleEndian.PutUint16(data[0:], 2005)
		binary.LittleEndian.PutUint16(data[4:], 127)
		if s.cfg.ShortR >= 0 {
			data = make([]byte, s.cfg.ShortR)
		}
		s.reply(Frame{Kind: 'R', Data: data})
	case 'g':
		s.logEvent("rx", f, "")
		s.expectPort(f)
		data := make([]byte, 12)
		data[0], data[1], data[2], data[3], data[4], data[5] = 0, 0xff, 30, 10, 63, 10
		data[6] = s.cfg.MaxFrame
		if s.cfg.ShortG >= 0 {
			data = data[:s.cfg.ShortG]
		}
		s.reply(Frame{Kind: 'g', Port: f.Port, Data: data})
	case 'X':
		s.logEvent("rx", f, "")
		s.expectLocal(f)
		ok := byte(1)
		if s.registered[f.From] {
			ok = 0
		}
		s.registered[f.From] = true
		s.everReg[f.From] = true
		data := []byte{ok}
		if s.cfg.ShortX >= 0 {
			data = bytes.Repeat([]byte{1}, s.cfg.ShortX)
		}
		s.reply(Frame{Kind: s.cfg.RegisterReplyKind, Port: f.Port, From: f.From, Data: data})
	case 'x':
		s.logEvent("rx", f, "")
		s.expectLocal(f)
		if !s.registered[f.From] {
			s.counters["unregister_unknown_call"]++
		}
		delete(s.registered, f.From)
		s.unreg[f.From] = true
	case 'C', 'v':
		note := ""
		s.expectPort(f)
		s.expectLocal(f)
		s.expectRemoteField(f)
		if !s.registered[f.From] {
			s.violate("exchange:connect-before-register", "%q connect request from %q which is not registered ('X')", f.Kind, f.From)
		}
		c := &Conn{Port: f.Port, Local: f.From, Remote: f.To, ConnectKind: f.Kind, LastPollReply: -1}
		if f.Kind == 'v' {
			switch {
			case len(f.Data) < 1:
				s.violate("tncframe:v:digis", "'v' frame without digipeater count")
			case f.Data[0] < 1 || f.Data[0] > 7:
				s.violate("tncframe:v:digis", "'v' frame with digipeater count %d (1..7 allowed)", f.Data[0])
			case len(f.Data) < 1+10*int(f.Data[0]):
				s.violate("tncframe:v:digis", "'v' frame announces %d digipeaters but carries %d data bytes (need %d)", f.Data[0], len(f.Data), 1+10*int(f.Data[0]))
			default:
				for i := 0; i < int(f.Data[0]); i++ {
					var fld [10]byte
					copy(fld[:], f.Data[1+10*i:])
					if !validCallField(fld) {
						s.violate("tncframe:v:digis", "'v' frame digipeater field %d is % x: not a NUL-terminated callsign", i, fld)
					}
					c.Via = append(c.Via, callString(fld[:]))
				}
			}
			note = fmt.Sprintf("via %v", c.Via)
		}
		s.logEvent("rx", f, note)
		key := connKey(f.Port, f.From, f.To)
		if old := s.conns[key]; old != nil && !old.HostDisc && !old.TNCDisc {
			s.counters["connect_while_connected"]++
		}
		switch s.cfg.Dial {
		case DialAccept:
			s.conns[key] = c
			s.reply(Frame{Kind: 'C', Port: f.Port, From: f.To, To: f.From, Data: []byte("*** CONNECTED With Station " + f.To + "\r\x00")})
			if f.From == s.cfg.MyCall && f.Port == s.cfg.Port {
				for _, p := range s.cfg.DialGreeting {
					s.sendDataLocked(f.To, p)
				}
			}
		case DialRefuse:
			s.reply(Frame{Kind: 'd', Port: f.Port, From: f.To, To: f.From, Data: []byte("*** DISCONNECTED RETRYOUT With " + f.To + "\r\x00")})
		case DialBadText:
			c.TNCDisc = true // never established from the TNC's point of view
			s.conns[key] = c
			s.reply(Frame{Kind: 'C', Port: f.Port, From: f.To, To: f.From, Data: []byte("*** SOMETHING ELSE " + f.To + "\r\x00")})
		}
	case 'D':
		s.logEvent("rx", f, "")
		s.expectPort(f)
		s.expectLocal(f)
		s.expectRemoteField(f)
		if f.PID != 0xF0 {
			s.violate("tncframe:D:pid", "'D' frame with PID %#x, want 0xF0 (%v)", f.PID, f)
		}
		c := s.conns[connKey(f.Port, f.From, f.To)]
		switch {
		case c == nil:
			s.violate("tncframe:D:no-connection", "'D' frame for a connection that was never established: %v", f)
		case c.TNCDisc || c.HostDisc:
			c.LateFrames++
		default:
			if c.DSinceLastPoll > 0 {
				c.DNeverPolled++
			}
			c.DSinceLastPoll++
			c.Rx.Write(f.Data)
			c.RxFrames++
			c.ttl = append(c.ttl, 1+s.rng.Intn(s.cfg.TTLMax))
		}
	case 'Y':
		s.logEvent("rx", f, "")
		s.expectPort(f)
		c := s.conns[connKey(f.Port, f.From, f.To)]
		if c == nil {
			// AGWPE documents the initiator's order; accept it for inbound connections
			if rc := s.conns[connKey(f.Port, f.To, f.From)]; rc != nil && rc.Inbound {
				c = rc
				c.YReversed++
			}
		}
		n := 0
		if c == nil {
			s.violate("tncframe:Y:no-connection", "'Y' query for a connection that does not exist: %v", f)
		} else if c.TNCDisc || c.HostDisc {
			c.LateFrames++
		} else {
			for i := range c.ttl {
				if c.ttl[i] > 0 {
					n++
					c.ttl[i]--
				}
			}
			live := c.ttl[:0]
			for _, t := range c.ttl {
				if t > 0 {
					live = append(live, t)
				}
			}
			c.ttl = live
			c.Polls++
			c.LastPollReply = n
			c.DSinceLastPoll = 0
		}
		data := make([]byte, 4)
		binary.LittleEndian.PutUint32(data, uint32(n))
		if s.cfg.ShortYAt >= 0 && s.yPolls == s.cfg.ShortYAt {
			data = make([]byte, s.cfg.ShortYLen)
		}
		s.yPolls++
		s.reply(Frame{Kind: 'Y', Port: f.Port, From: f.From, To: f.To, Data: data})
	case 'd':
		s.logEvent("rx", f, "")
		s.expectPort(f)
		s.expectLocal(f)
		s.expectRemoteField(f)
		c := s.conns[connKey(f.Port, f.From, f.To)]
		switch {
		case c == nil:
			s.counters["disconnect_unknown_conn"]++
		case c.TNCDisc || c.HostDisc:
			c.LateFrames++
		default:
			c.HostDisc = true
			if c.LastPollReply != 0 || c.DSinceLastPoll != 0 {
				c.HostDiscUnflushed = c.RxFrames > 0
			}
		}
		s.reply(Frame{Kind: 'd', Port: f.Port, From: f.To, To: f.From, Data: disconnectedText(f.To)})
	case 'M':
		s.logEvent("rx", f, "")
		s.expectPort(f)
		s.expectLocal(f)
		s.expectRemoteField(f)
		s.ui = append(s.ui, UIFrame{Port: f.Port, From: f.From, To: f.To, Data: append([]byte(nil), f.Data...)})
	case 'y':
		s.logEvent("rx", f, "")
		s.reply(Frame{Kind: 'y', Port: f.Port, Data: []byte{0, 0, 0, 0}})
	case 'G', 'P', 'm', 'k', 'H', 'V', 'K':
		// documented application->TNC kinds this simulator has no use for
		s.logEvent("rx", f, "ignored")
	default:
		s.logEvent("rx", f, "unknown kind")
		s.violate("tncframe:unknown-kind", "frame of unknown kind %q (%#x) received: %v", f.Kind, f.Kind, f)
	}
}

// ---------------------------------------------------------------------------------------------
// TNC -> application

// reply queues a solicited frame, possibly preceded by noise. s.mu is held.
func (s *Sim) reply(f Frame) {
	if s.cfg.Noise != nil && s.rng.Intn(100) < s.cfg.NoisePct {
		for _, nf := range s.cfg.Noise(s.rng) {
			s.logEvent("tx", nf, "noise")
			s.counters["tx_noise"]++
			s.enqueue(nf.Encode())
		}
	}
	s.logEvent("tx", f, "")
	s.counters[fmt.Sprintf("tx_%c", f.Kind)]++
	s.enqueue(f.Encode())
}

func (s *Sim) enqueue(b []byte) {
	if s.outClosed {
		return
	}
	s.outQ = append(s.outQ, b)
	s.outQueued++
	s.cond.Broadcast()
}

func (s *Sim) writer() {
	defer close(s.writerEnd)
	cutRng := rand.New(rand.NewSource(s.cfg.Seed ^ 0xc07))
	for {
		s.mu.Lock()
		for len(s.outQ) == 0 && !s.outClosed {
			s.cond.Wait()
		}
		if len(s.outQ) == 0 && s.outClosed {
			s.mu.Unlock()
			return
		}
		batch := s.outQ
		s.outQ = nil
		failed := s.outErr != nil
		s.mu.Unlock()
		for _, b := range batch {
			var err error
			if !failed {
				err = s.writeItem(cutRng, b)
			}
			s.mu.Lock()
			s.outDone++
			if err != nil && s.outErr == nil {
				s.outErr = err
			}
			failed = s.outErr != nil
			s.cond.Broadcast()
			s.mu.Unlock()
		}
	}
}

func (s *Sim) writeItem(r *rand.Rand, b []byte) error {
	var cuts []int
	if s.cfg.Cut != nil && len(b) > 1 {
		cuts = s.cfg.Cut(r, len(b))
	}
	prev := 0
	for _, c := range cuts {
		if c <= prev || c >= len(b) {
			continue
		}
		if _, err := s.link.Write(b[prev:c]); err != nil {
			return err
		}
		prev = c
		s.mu.Lock()
		s.counters["tx_cut_points"]++
		if c < HeaderLen {
			s.counters["tx_cut_mid_header"]++
		} else if c > HeaderLen {
			s.counters["tx_cut_mid_data"]++
		}
		s.mu.Unlock()
		time.Sleep(s.cfg.CutPause)
	}
	_, err := s.link.Write(b[prev:])
	return err
}

// Sync blocks until everything queued so far has been written to the link (or the link failed, or
// the timeout expired). It reports whether the queue was flushed.
func (s *Sim) Sync(timeout time.Duration) bool {
	s.mu.Lock()
	target := s.outQueued
	s.mu.Unlock()
	return s.waitFor(timeout, func() bool { return s.outDone >= target })
}

// waitFor waits until pred (evaluated under s.mu) holds. State changes broadcast s.cond; a coarse
// ticker covers the timeout.
func (s *Sim) waitFor(timeout time.Duration, pred func() bool) bool {
	deadline := time.Now().Add(timeout)
	stop := make(chan struct{})
	defer close(stop)
	go func() {
		t := time.NewTicker(20 * time.Millisecond)
		defer t.Stop()
		for {
			select {
			case <-stop:
				return
			case <-t.C:
				s.mu.Lock()
				s.cond.Broadcast()
				s.mu.Unlock()
			}
		}
	}()
	s.mu.Lock()
	defer s.mu.Unlock()
	for !pred() {
		if time.Now().After(deadline) {
			return false
		}
		s.cond.Wait()
	}
	return true
}

// WaitState waits until pred over the simulator state holds (pred runs with the state locked and
// may use the accessors with the suffix Locked only).
func (s *Sim) WaitState(timeout time.Duration, pred func(v *View) bool) bool {
	return s.waitFor(timeout, func() bool { return pred(&View{s}) })
}

// View gives predicates access to the locked state.
type View struct{ s *Sim }

func (v *View) Conn(remote string) *Conn {
	return v.s.conns[connKey(v.s.cfg.Port, v.s.cfg.MyCall, remote)]
}
func (v *View) Registered(call string) bool { return v.s.registered[call] }
func (v *View) LinkEnded() bool             { return v.s.rxEOF }
func (v *View) RxFrames() int               { return v.s.rxFrames }

// Inbound announces an incoming connection from remote to the registered callsign.
func (s *Sim) Inbound(remote string) { s.InboundWithData(remote, nil) }

// SendData queues one connected-data frame of the connection with remote and books it in the ledger.
func (s *Sim) SendData(remote string, payload []byte) {
	s.mu.Lock()
	defer s.mu.Unlock()
	s.sendDataLocked(remote, payload)
}

func (s *Sim) sendDataLocked(remote string, payload []byte) {
	c := s.conns[connKey(s.cfg.Port, s.cfg.MyCall, remote)]
	if c == nil {
		panic("simagw: SendData on unknown connection " + remote)
	}
	f := Frame{Kind: 'D', Port: c.Port, PID: s.dataPID(c.TxFrames), From: c.Remote, To: c.Local, Data: payload}
	c.Tx.Write(payload)
	c.TxFrames++
	c.TxSizes = append(c.TxSizes, len(payload))
	s.logEvent("tx", f, "")
	s.counters["tx_D"]++
	s.enqueue(f.Encode())
}

// Item is one element of a batch: either a data frame of a connection (Remote != "") or an
// arbitrary frame / raw bytes that are not booked in any ledger.
type Item struct {
	Remote  string
	Payload []byte
	Frame   *Frame
	Raw     []byte
	Note    string
}

// SendBatch queues the items back to back (nothing else is interleaved by the simulator).
func (s *Sim) SendBatch(items []Item) {
	s.mu.Lock()
	defer s.mu.Unlock()
	for _, it := range items {
		switch {
		case it.Remote != "":
			s.sendDataLocked(it.Remote, it.Payload)
		case it.Frame != nil:
			s.logEvent("tx", *it.Frame, it.Note)
			s.counters["tx_foreign_or_odd"]++
			s.enqueue(it.Frame.Encode())
		default:
			s.events = append(s.events, Event{Seq: len(s.events), Dir: "tx", Kind: "raw", Len: len(it.Raw), Note: it.Note})
			s.counters["tx_raw"]++
			s.enqueue(it.Raw)
		}
	}
}

// Disconnect tells the application that the remote station (or the TNC) ended the connection.
func (s *Sim) Disconnect(remote string) {
	s.mu.Lock()
	defer s.mu.Unlock()
	c := s.conns[connKey(s.cfg.Port, s.cfg.MyCall, remote)]
	if c == nil {
		panic("simagw: Disconnect on unknown connection " + remote)
	}
	c.TNCDisc = true
	f := Frame{Kind: 'd', Port: c.Port, From: c.Remote, To: c.Local, Data: disconnectedText(c.Remote)}
	s.logEvent("tx", f, "tnc disconnect")
	s.counters["tx_d"]++
	s.enqueue(f.Encode())
}

// DropLink ends the TNC side of the link after everything queued has been written. With a
// half-close function only the TNC->host direction is closed and the simulator keeps reading.
func (s *Sim) DropLink(timeout time.Duration) {
	s.Sync(timeout)
	s.mu.Lock()
	s.outClosed = true
	hc := s.halfClose
	s.events = append(s.events, Event{Seq: len(s.events), Dir: "tx", Kind: "link-drop"})
	s.cond.Broadcast()
	s.mu.Unlock()
	if hc != nil {
		hc()
	} else {
		s.link.Close()
	}
}

// Stop tears the simulator down (closes the link) and waits for its goroutines.
func (s *Sim) Stop() {
	s.mu.Lock()
	s.outClosed = true
	s.stopped = true
	s.cond.Broadcast()
	link := s.link
	s.mu.Unlock()
	if link != nil {
		link.Close()
		<-s.readerEnd
		<-s.writerEnd
	}
}

// Report is a consistent copy of what the simulator observed.
type Report struct {
	Events     []Event
	Violations []Violation
	Conns      map[string]*Conn // by remote callsign
	UI         []UIFrame
	Counters   map[string]int64
	EverReg    map[string]bool
	Unreg      map[string]bool
	RxFrames   int
	LinkEnded  bool
	// LinkCleanEOF: the application's side ended with a clean end-of-stream. Anything else (e.g. a
	// TCP reset because the application closed a socket with unread data) may have discarded bytes
	// the application wrote last.
	LinkCleanEOF bool
	WriteErr     error
}

func (s *Sim) Report() Report {
	s.mu.Lock()
	defer s.mu.Unlock()
	r := Report{Events: append([]Event(nil), s.events...), Violations: append([]Violation(nil), s.violations...),
		Conns: map[string]*Conn{}, UI: append([]UIFrame(nil), s.ui...), Counters: map[string]int64{}, EverReg: map[string]bool{}, Unreg: map[string]bool{},
		RxFrames: s.rxFrames, LinkEnded: s.rxEOF, LinkCleanEOF: s.rxEOF && (s.rxErr == io.EOF || s.rxErr == io.ErrUnexpectedEOF), WriteErr: s.outErr}
	for _, c := range s.conns {
		cp := *c
		cp.Rx = *bytes.NewBuffer(append([]byte(nil), c.Rx.Bytes()...))
		cp.Tx = *bytes.NewBuffer(append([]byte(nil), c.Tx.Bytes()...))
		cp.ttl = nil
		cp.TxSizes = append([]int(nil), c.TxSizes...)
		r.Conns[c.Remote] = &cp
	}
	for k, v := range s.counters {
		r.Counters[k] = v
	}
	for k := range s.everReg {
		r.EverReg[k] = true
	}
	for k := range s.unreg {
		r.Unreg[k] = true
	}
	return r
}

// LinkEnded reports whether the application's side of the link has ended (EOF or error on read).
func (s *Sim) LinkEnded() bool {
	s.mu.Lock()
	defer s.mu.Unlock()
	return s.rxEOF
}

// Progress is a number that grows whenever the simulator receives or writes a frame.
func (s *Sim) Progress() int64 {
	s.mu.Lock()
	defer s.mu.Unlock()
	return int64(s.rxFrames) + s.outDone
}

// Flags is a small copy of a connection's protocol state.
type Flags struct {
	Exists, HostDisc, TNCDisc, Closed       bool
	RxFrames, LastPollReply, DSinceLastPoll int
	TxBytes                                 int // payload bytes sent to the application so far
}

func (s *Sim) ConnFlags(remote string) Flags {
	s.mu.Lock()
	defer s.mu.Unlock()
	c := s.conns[connKey(s.cfg.Port, s.cfg.MyCall, remote)]
	if c == nil {
		return Flags{}
	}
	return Flags{Exists: true, HostDisc: c.HostDisc, TNCDisc: c.TNCDisc, Closed: c.HostDisc || c.TNCDisc, RxFrames: c.RxFrames,
		LastPollReply: c.LastPollReply, DSinceLastPoll: c.DSinceLastPoll, TxBytes: c.Tx.Len()}
}

// InboundWithData announces an incoming connection and sends data frames of that connection
// directly behind the notice, nothing in between.
func (s *Sim) InboundWithData(remote string, payloads [][]byte) {
	s.mu.Lock()
	defer s.mu.Unlock()
	key := connKey(s.cfg.Port, s.cfg.MyCall, remote)
	s.conns[key] = &Conn{Port: s.cfg.Port, Local: s.cfg.MyCall, Remote: remote, Inbound: true, LastPollReply: -1}
	f := Frame{Kind: 'C', Port: s.cfg.Port, From: remote, To: s.cfg.MyCall, Data: []byte("*** CONNECTED To Station " + remote + "\r\x00")}
	s.logEvent("tx", f, "inbound")
	s.counters["tx_C"]++
	s.enqueue(f.Encode())
	for _, p := range payloads {
		s.sendDataLocked(remote, p)
	}
}
