package simagw

import (
	"io"
	"math/rand"
	"net"
	"sync"
	"time"
)

// Pipe returns the two ends of an in-memory full-duplex byte link. Each direction is an unbounded
// FIFO (it plays the role of a generous socket buffer: a Write never blocks), and every Read
// returns at most k bytes where k is drawn from a PRNG seeded by the caller, so that the way a byte
// stream is cut into reads is a pure function of the seed ("TCP segmentation" made deterministic).
// Close is graceful: bytes written before Close are still delivered to the peer before io.EOF.
// Deadlines are accepted and ignored.
func Pipe(seed int64, seg Segmenter) (host, tnc *PipeEnd) {
	a := &halfPipe{}
	b := &halfPipe{}
	a.cond = sync.NewCond(&a.mu)
	b.cond = sync.NewCond(&b.mu)
	rA := rand.New(rand.NewSource(seed*2 + 1))
	rB := rand.New(rand.NewSource(seed*2 + 2))
	// host reads from a (TNC -> host), writes to b (host -> TNC)
	host = &PipeEnd{rd: a, wr: b, rng: rA, seg: seg, name: "host"}
	tnc = &PipeEnd{rd: b, wr: a, rng: rB, seg: SegWhole, name: "tnc"}
	return host, tnc
}

// Segmenter draws the maximum size of the next Read.
type Segmenter func(r *rand.Rand) int

// SegWhole never limits a read.
func SegWhole(*rand.Rand) int { return 1 << 30 }

// SegHostile mixes single bytes, tiny pieces, pieces shorter than the 36-byte AGWPE header, medium
// pieces and unlimited reads, so that headers and data fields are cut at arbitrary points.
func SegHostile(r *rand.Rand) int {
	switch x := r.Intn(100); {
	case x < 25:
		return 1
	case x < 45:
		return 2 + r.Intn(6)
	case x < 65:
		return 8 + r.Intn(40)
	case x < 85:
		return 48 + r.Intn(400)
	default:
		return 1 << 30
	}
}

// SegBytes returns every byte in its own read.
func SegBytes(*rand.Rand) int { return 1 }

type halfPipe struct {
	mu      sync.Mutex
	cond    *sync.Cond
	buf     []byte
	off     int
	wclosed bool // writer side closed: reader gets EOF after draining
	rclosed bool // reader side closed: writes fail
	written int64
	read    int64
	reads   int64
}

type PipeEnd struct {
	rd, wr *halfPipe
	rng    *rand.Rand
	rngMu  sync.Mutex
	seg    Segmenter
	name   string
	// WritePause makes every Write of this end take that long (a slow link).
	WritePause time.Duration
}

func (p *PipeEnd) Read(b []byte) (int, error) {
	if len(b) == 0 {
		return 0, nil
	}
	p.rngMu.Lock()
	k := p.seg(p.rng)
	p.rngMu.Unlock()
	if k < 1 {
		k = 1
	}
	h := p.rd
	h.mu.Lock()
	defer h.mu.Unlock()
	for len(h.buf)-h.off == 0 {
		if h.rclosed {
			return 0, io.ErrClosedPipe
		}
		if h.wclosed {
			return 0, io.EOF
		}
		h.cond.Wait()
	}
	if h.rclosed {
		return 0, io.ErrClosedPipe
	}
	n := len(h.buf) - h.off
	if n > len(b) {
		n = len(b)
	}
	if n > k {
		n = k
	}
	copy(b, h.buf[h.off:h.off+n])
	h.off += n
	h.read += int64(n)
	h.reads++
	if h.off == len(h.buf) {
		h.buf, h.off = h.buf[:0], 0
	} else if h.off > 1<<16 {
		h.buf = append(h.buf[:0], h.buf[h.off:]...)
		h.off = 0
	}
	h.cond.Broadcast()
	return n, nil
}

func (p *PipeEnd) Write(b []byte) (int, error) {
	h := p.wr
	h.mu.Lock()
	defer h.mu.Unlock()
	if h.wclosed || h.rclosed {
		return 0, io.ErrClosedPipe
	}
	h.buf = append(h.buf, b...)
	h.written += int64(len(b))
	h.cond.Broadcast()
	if p.WritePause > 0 {
		// a slow link: the call returns only after a pause (the bytes are already on their way),
		// so that other goroutines writing to the same end can get in between two writes of one caller
		defer time.Sleep(p.WritePause)
	}
	return len(b), nil
}

// Close closes both directions of this end: the peer drains what was written, then sees EOF; the
// peer's writes fail from now on.
func (p *PipeEnd) Close() error {
	p.wr.mu.Lock()
	p.wr.wclosed = true
	p.wr.cond.Broadcast()
	p.wr.mu.Unlock()
	p.rd.mu.Lock()
	p.rd.rclosed = true
	p.rd.cond.Broadcast()
	p.rd.mu.Unlock()
	return nil
}

// CloseWrite closes only the outgoing direction: the peer drains what was written and then sees
// EOF, while this end can still read what the peer writes (like a TCP half-close).
func (p *PipeEnd) CloseWrite() error {
	p.wr.mu.Lock()
	p.wr.wclosed = true
	p.wr.cond.Broadcast()
	p.wr.mu.Unlock()
	return nil
}

// Unread reports how many bytes written by the peer have not yet been read by this end.
func (p *PipeEnd) Unread() int {
	p.rd.mu.Lock()
	defer p.rd.mu.Unlock()
	return len(p.rd.buf) - p.rd.off
}

// PeerUnread reports how many bytes written by this end have not yet been read by the peer.
func (p *PipeEnd) PeerUnread() int {
	p.wr.mu.Lock()
	defer p.wr.mu.Unlock()
	return len(p.wr.buf) - p.wr.off
}

// ReadCalls reports the number of successful Read calls on this end and the bytes they returned.
func (p *PipeEnd) ReadCalls() (calls, bytes int64) {
	p.rd.mu.Lock()
	defer p.rd.mu.Unlock()
	return p.rd.reads, p.rd.read
}

type pipeAddr string

func (a pipeAddr) Network() string { return "mem" }
func (a pipeAddr) String() string  { return string(a) }

func (p *PipeEnd) LocalAddr() net.Addr                { return pipeAddr(p.name) }
func (p *PipeEnd) RemoteAddr() net.Addr               { return pipeAddr("peer-of-" + p.name) }
func (p *PipeEnd) SetDeadline(t time.Time) error      { return nil }
func (p *PipeEnd) SetReadDeadline(t time.Time) error  { return nil }
func (p *PipeEnd) SetWriteDeadline(t time.Time) error { return nil }
