// Package simagw is a simulated AGWPE TNC ("AGW Packet Engine" TCP/IP API, as spoken by AGWPE,
// Direwolf, QtSoundModem) written from the protocol description, independent of the library under
// test: it imports nothing from github.com/la5nta/wl2k-go. It validates every frame it receives,
// keeps a per-connection byte ledger and an exchange log, and answers the way a TNC would.
package simagw

import (
	"encoding/binary"
	"fmt"
)

// HeaderLen is the fixed size of an AGWPE frame header.
//
//	offset 0      port (0 = first radio port)
//	offset 1..3   reserved
//	offset 4      data kind (ASCII letter)
//	offset 5      reserved
//	offset 6      PID
//	offset 7      reserved
//	offset 8..17  CallFrom, NUL terminated/padded
//	offset 18..27 CallTo, NUL terminated/padded
//	offset 28..31 DataLen, little endian
//	offset 32..35 user (reserved)
const HeaderLen = 36

// MaxData is the largest data field the simulator accepts or sends (the property bounds hostile
// DataLen values at 1 MiB).
const MaxData = 1 << 20

type Frame struct {
	Port uint8
	Kind byte
	PID  uint8
	From string // up to 9 characters
	To   string
	Data []byte
	// RawFrom/RawTo keep the complete 10-byte fields of a received frame.
	RawFrom, RawTo [10]byte
	// Reserved reports whether any reserved header byte of a received frame was non-zero.
	Reserved bool
	// DataLenOverride, when non-nil, is written into the DataLen field instead of len(Data)
	// (used to build malformed frames).
	DataLenOverride *uint32
}

func (f Frame) String() string {
	d := f.Data
	if len(d) > 24 {
		d = d[:24]
	}
	return fmt.Sprintf("port=%d kind=%q pid=%#x from=%q to=%q len=%d data=%q", f.Port, f.Kind, f.PID, f.From, f.To, len(f.Data), d)
}

func putCall(dst []byte, s string) {
	for i := range dst {
		dst[i] = 0
	}
	copy(dst, s)
}

// callString returns the bytes before the first NUL.
func callString(b []byte) string {
	for i, c := range b {
		if c == 0 {
			return string(b[:i])
		}
	}
	return string(b)
}

// Encode returns the wire form of f.
func (f Frame) Encode() []byte {
	b := make([]byte, HeaderLen+len(f.Data))
	b[0] = f.Port
	b[4] = f.Kind
	b[6] = f.PID
	putCall(b[8:18], f.From)
	putCall(b[18:28], f.To)
	n := uint32(len(f.Data))
	if f.DataLenOverride != nil {
		n = *f.DataLenOverride
	}
	binary.LittleEndian.PutUint32(b[28:32], n)
	copy(b[HeaderLen:], f.Data)
	return b
}

// parseHeader decodes a 36-byte header; the data length is returned separately.
func parseHeader(h []byte) (f Frame, dataLen uint32) {
	f.Port = h[0]
	f.Kind = h[4]
	f.PID = h[6]
	copy(f.RawFrom[:], h[8:18])
	copy(f.RawTo[:], h[18:28])
	f.From = callString(h[8:18])
	f.To = callString(h[18:28])
	dataLen = binary.LittleEndian.Uint32(h[28:32])
	f.Reserved = h[1] != 0 || h[2] != 0 || h[3] != 0 || h[5] != 0 || h[7] != 0
	return f, dataLen
}

// validCallField reports whether a 10-byte callsign field holds a well-formed callsign: 1..9
// characters out of [A-Z0-9-], NUL terminated within the field.
func validCallField(b [10]byte) bool {
	n := -1
	for i, c := range b {
		if c == 0 {
			n = i
			break
		}
	}
	if n < 1 {
		return false
	}
	for _, c := range b[:n] {
		if !(c >= 'A' && c <= 'Z' || c >= '0' && c <= '9' || c == '-') {
			return false
		}
	}
	return true
}
