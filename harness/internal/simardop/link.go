package simardop

import (
	"io"
	"sync"
	"sync/atomic"
)

// Link is the in-memory serial line between the host (library) and the simulated TNC.
//
// TNC -> host bytes are queued as *segments*: one host Read never returns bytes of more than one
// segment, so the segmentation chosen by the simulator is exactly what the host's reader sees
// (the library wraps the stream in a bufio.Reader, which only calls Read when it is empty, so the
// cut points survive the buffering).
//
// Host -> TNC writes never fail, even after the TNC side is gone (bytes are then discarded): the
// library panics on a failed data write from one of its own goroutines, which is a hazard outside
// the property and must not be provoked by tearing a scenario down.
type Link struct {
	mu   sync.Mutex
	cond *sync.Cond

	toHost     [][]byte
	toTNC      []byte
	hostClosed bool // host called Close
	tncClosed  bool // TNC hung up: host reads EOF after the queue is drained

	hostWaiting bool
	Activity    *atomic.Int64 // bumped on every transfer (progress-based watchdogs)

	HostReads     int64 // monitor counters
	HostReadBytes int64
	HostWrites    int64
}

func NewLink(activity *atomic.Int64) *Link {
	l := &Link{Activity: activity}
	l.cond = sync.NewCond(&l.mu)
	return l
}

type hostEnd struct{ l *Link }

// Host returns the end handed to the library.
func (l *Link) Host() io.ReadWriteCloser { return hostEnd{l} }

func (h hostEnd) Read(p []byte) (int, error) {
	l := h.l
	l.mu.Lock()
	defer l.mu.Unlock()
	if len(p) == 0 {
		return 0, nil
	}
	for len(l.toHost) == 0 {
		// After the host closed its own end reads end with io.EOF as well: the library's decoder
		// retries any other error forever (a busy loop that would outlive the scenario).
		if l.hostClosed || l.tncClosed {
			return 0, io.EOF
		}
		l.hostWaiting = true
		l.cond.Broadcast()
		l.cond.Wait()
	}
	l.hostWaiting = false
	seg := l.toHost[0]
	n := copy(p, seg)
	if n == len(seg) {
		l.toHost = l.toHost[1:]
	} else {
		l.toHost[0] = seg[n:]
	}
	l.HostReads++
	l.HostReadBytes += int64(n)
	l.Activity.Add(1)
	return n, nil
}

func (h hostEnd) Write(p []byte) (int, error) {
	l := h.l
	l.mu.Lock()
	defer l.mu.Unlock()
	l.HostWrites++
	if !l.tncClosed {
		l.toTNC = append(l.toTNC, p...)
		l.cond.Broadcast()
	}
	l.Activity.Add(1)
	return len(p), nil
}

func (h hostEnd) Close() error {
	l := h.l
	l.mu.Lock()
	defer l.mu.Unlock()
	l.hostClosed = true
	l.cond.Broadcast()
	return nil
}

// WriteSegments queues segments for the host atomically (a frame is never interleaved with
// another writer's frame). Empty segments are dropped.
func (l *Link) WriteSegments(segs [][]byte) {
	l.mu.Lock()
	defer l.mu.Unlock()
	if l.tncClosed || l.hostClosed {
		return
	}
	for _, s := range segs {
		if len(s) > 0 {
			l.toHost = append(l.toHost, append([]byte(nil), s...))
		}
	}
	l.Activity.Add(1)
	l.cond.Broadcast()
}

// ReadTNC blocks until the host has written something; io.EOF once the host closed its end (or
// the TNC side was shut down) and everything was consumed.
func (l *Link) ReadTNC(p []byte) (int, error) {
	l.mu.Lock()
	defer l.mu.Unlock()
	for len(l.toTNC) == 0 {
		if l.hostClosed || l.tncClosed {
			return 0, io.EOF
		}
		l.cond.Wait()
	}
	n := copy(p, l.toTNC)
	l.toTNC = l.toTNC[n:]
	return n, nil
}

// CloseTNC hangs up the TNC side: the host reads what is queued, then EOF.
func (l *Link) CloseTNC() {
	l.mu.Lock()
	defer l.mu.Unlock()
	l.tncClosed = true
	l.cond.Broadcast()
}

// HostIdle reports that the host consumed every byte queued for it and is blocked in Read (or
// has closed): nothing more can reach it unless the TNC sends more.
func (l *Link) HostIdle() bool {
	l.mu.Lock()
	defer l.mu.Unlock()
	return len(l.toHost) == 0 && (l.hostWaiting || l.hostClosed)
}

// HostClosed reports whether the library closed the line.
func (l *Link) HostClosed() bool {
	l.mu.Lock()
	defer l.mu.Unlock()
	return l.hostClosed
}
