package simardop

import (
	"bufio"
	"bytes"
	"encoding/binary"
	"fmt"
	"io"
	"net"
	"regexp"
	"strconv"
	"strings"
	"sync"
	"sync/atomic"
	"time"
)

type Mode int

const (
	Serial Mode = iota // "C:"/"D:" framing with CRC-16 over one byte stream
	TCP                // control port p (CR-terminated lines) + data port p+1 (length + data)
)

func (m Mode) String() string {
	if m == TCP {
		return "tcp"
	}
	return "serial"
}

// Splitter cuts one TNC->host frame into the pieces it is delivered in. crcOff is the offset of
// the two CRC bytes inside frame (-1 if there are none).
type Splitter func(frame []byte, crcOff int) [][]byte

// Stream selects where raw bytes go in TCP mode (serial mode has one stream).
type Stream int

const (
	Ctrl Stream = iota
	Data
)

type Options struct {
	Mode         Mode
	Seq          *atomic.Int64 // sequence shared with the application side
	Activity     *atomic.Int64 // progress counter for watchdogs
	MyCall       string        // answer to a MYCALL query before the host set one
	InitialState string        // DISC | OFFLINE
	// FaultSendID: SENDID while a connection is up is refused with "FAULT ..." (a real TNC sends its ID only from the
	// DISC state); the refusal is a broadcast line like any other and says nothing about data frames
	FaultSendID   bool
	EchoNow       bool // "CMD now VALUE" echoes (ARDOP_Win style) instead of "CMD VALUE"
	TrailingSpace bool // ARDOPc puts a trailing space after NEWSTATE values
	// DialGreeting: ARQ data frames delivered directly behind the CONNECTED report (of an ARQCALL: a remote
	// station that greets at once; of an incoming call: the caller's first frames), i.e. before any further
	// query of the host is answered.
	DialGreeting [][]byte
	Split        Splitter      // segmentation of frames the simulator originates itself
	PiecePause   time.Duration // TCP: pause between the pieces of one frame
	ProbeAfter   time.Duration // after CRCFAULT: unsolicited BUFFER if nothing is retransmitted
}

type Event struct {
	Seq  int64  `json:"seq"`
	Kind string `json:"kind"` // cmd | data | data-faulted | tx | txdata
	Text string `json:"text,omitempty"`
	N    int    `json:"n,omitempty"`
}

type Violation struct {
	Key  string
	Desc string
}

// PTTItem is one PTT line sent to the host: well-formed ones are requests that must reach the
// PTT controller; malformed ones (no / non-boolean parameter) may at most cause SetPTT(false).
type PTTItem struct {
	WellFormed bool
	On         bool
}

type Sim struct {
	opt  Options
	link *Link

	ln1, ln2       net.Listener
	ctrlC, dataC   net.Conn
	ctrlMu, dataMu sync.Mutex // one frame at a time per TNC->host stream (serial: ctrlMu only)

	mu         sync.Mutex
	events     []Event
	viol       []Violation
	ledger     bytes.Buffer
	queued     int
	mycall     string
	grid       string
	listen     bool
	connected  bool
	state      string
	ptt        []PTTItem
	counters   map[string]int64
	faultsLeft int
	faultAsync bool // an asynchronous BUFFER report precedes each CRCFAULT answer
	faulted    []byte
	faultGen   int
	notify     chan struct{}
	cmdSeen    chan string
	readersWG  sync.WaitGroup
	shut       bool
}

// NewSerial creates a simulator on an in-memory serial line; hand Link().Host() to the library.
func NewSerial(opt Options) *Sim {
	opt.Mode = Serial
	s := newSim(opt)
	s.link = NewLink(opt.Activity)
	s.readersWG.Add(1)
	go s.serialReader()
	return s
}

// NewTCP listens on 127.0.0.1:p and :p+1 (p chosen so that its last digit is not 9, because the
// host derives the data port from the text of the address) and serves the first host that
// connects. It returns the control address.
func NewTCP(opt Options) (*Sim, string, error) {
	opt.Mode = TCP
	s := newSim(opt)
	for attempt := 0; attempt < 200; attempt++ {
		l1, err := net.Listen("tcp", "127.0.0.1:0")
		if err != nil {
			return nil, "", err
		}
		p := l1.Addr().(*net.TCPAddr).Port
		if p%10 == 9 || p >= 65535 {
			l1.Close()
			continue
		}
		l2, err := net.Listen("tcp", fmt.Sprintf("127.0.0.1:%d", p+1))
		if err != nil {
			l1.Close()
			continue
		}
		s.ln1, s.ln2 = l1, l2
		s.readersWG.Add(1)
		go s.tcpServe()
		return s, fmt.Sprintf("127.0.0.1:%d", p), nil
	}
	return nil, "", fmt.Errorf("no free port pair")
}

func newSim(opt Options) *Sim {
	if opt.Seq == nil {
		opt.Seq = new(atomic.Int64)
	}
	if opt.Activity == nil {
		opt.Activity = new(atomic.Int64)
	}
	if opt.InitialState == "" {
		opt.InitialState = "DISC"
	}
	if opt.Split == nil {
		opt.Split = func(f []byte, _ int) [][]byte { return [][]byte{f} }
	}
	return &Sim{opt: opt, state: opt.InitialState, mycall: opt.MyCall, counters: map[string]int64{},
		notify: make(chan struct{}, 1), cmdSeen: make(chan string, 256)}
}

func (s *Sim) Link() *Link { return s.link }

func (s *Sim) count(name string, n int64) { s.counters[name] += n } // s.mu held

func (s *Sim) violate(key, format string, a ...any) { // s.mu held
	if len(s.viol) < 20 {
		s.viol = append(s.viol, Violation{key, fmt.Sprintf(format, a...)})
	}
}

func (s *Sim) logEvent(kind, text string, n int) int64 { // s.mu held
	seq := s.opt.Seq.Add(1)
	if len(s.events) < 4000 || (kind == "cmd" && len(s.events) < 8000) { // host commands (DISCONNECT ...) are what the ordering oracles look for: never crowded out by frames
		if len(text) > 80 {
			text = text[:80] + "..."
		}
		s.events = append(s.events, Event{seq, kind, text, n})
	}
	s.opt.Activity.Add(1)
	return seq
}

// ---------------------------------------------------------------- TNC -> host

// EncodeLine frames a control line for this mode.
func (s *Sim) EncodeLine(text string) (frame []byte, crcOff int) {
	if s.opt.Mode == TCP {
		return []byte(text + "\r"), -1
	}
	body := []byte(text + "\r")
	frame = append([]byte("c:"), body...)
	crcOff = len(frame)
	frame = binary.BigEndian.AppendUint16(frame, CRC16(body))
	return frame, crcOff
}

// EncodeData frames a data frame (normally a 3-byte type tag + payload) for this mode.
func (s *Sim) EncodeData(tagAndPayload []byte) (frame []byte, crcOff int) {
	body := binary.BigEndian.AppendUint16(nil, uint16(len(tagAndPayload)))
	body = append(body, tagAndPayload...)
	if s.opt.Mode == TCP {
		return body, -1
	}
	frame = append([]byte("d:"), body...)
	crcOff = len(frame)
	frame = binary.BigEndian.AppendUint16(frame, CRC16(body))
	return frame, crcOff
}

// SendEncoded delivers one frame (or arbitrary bytes) to the host in the pieces chosen by split
// (nil: the simulator's own splitter).
func (s *Sim) SendEncoded(st Stream, frame []byte, crcOff int, split Splitter) {
	mu := &s.ctrlMu
	if s.opt.Mode == TCP && st == Data {
		mu = &s.dataMu
	}
	mu.Lock()
	defer mu.Unlock()
	if split == nil {
		split = s.opt.Split
	}
	segs := split(frame, crcOff)
	if s.opt.Mode == Serial {
		s.link.WriteSegments(segs)
		return
	}
	c := s.ctrlC
	if st == Data {
		c = s.dataC
	}
	if c == nil {
		return
	}
	for i, seg := range segs {
		if len(seg) == 0 {
			continue
		}
		if i > 0 && s.opt.PiecePause > 0 {
			time.Sleep(s.opt.PiecePause)
		}
		c.SetWriteDeadline(time.Now().Add(30 * time.Second))
		if _, err := c.Write(seg); err != nil {
			return
		}
		s.opt.Activity.Add(1)
	}
}

var pttRe = regexp.MustCompile(`^(?i)PTT( .*)?$`)

// SendLine sends a control line (well-formed framing). The event is logged on the shared
// sequence *before* the bytes are written. Returns the sequence number.
func (s *Sim) SendLine(text string, split Splitter) int64 {
	s.mu.Lock()
	seq := s.logEvent("tx", text, 0)
	if pttRe.MatchString(strings.TrimSpace(text)) {
		f := strings.Fields(text)
		it := PTTItem{}
		if len(f) == 2 && (strings.EqualFold(f[1], "true") || strings.EqualFold(f[1], "false")) {
			it.WellFormed, it.On = true, strings.EqualFold(f[1], "true")
		}
		s.ptt = append(s.ptt, it)
	}
	s.count("tx_lines", 1)
	s.mu.Unlock()
	frame, off := s.EncodeLine(text)
	s.SendEncoded(Ctrl, frame, off, split)
	return seq
}

// SendData sends a well-formed data frame with the given 3-byte tag.
func (s *Sim) SendData(tag string, payload []byte, split Splitter) int64 {
	s.mu.Lock()
	seq := s.logEvent("txdata", tag, len(payload))
	s.count("tx_data_frames", 1)
	s.count("tx_data_bytes_"+strconv.QuoteToASCII(tag), int64(len(payload)))
	s.mu.Unlock()
	frame, off := s.EncodeData(append([]byte(tag), payload...))
	s.SendEncoded(Data, frame, off, split)
	return seq
}

func (s *Sim) newState(st string) {
	s.mu.Lock()
	s.state = st
	s.mu.Unlock()
	if s.opt.TrailingSpace {
		st += " "
	}
	s.SendLine("NEWSTATE "+st, nil)
}

// ---------------------------------------------------------------- host -> TNC

func (s *Sim) serialReader() {
	defer s.readersWG.Done()
	rd := bufio.NewReaderSize(readerFunc(s.link.ReadTNC), 1<<16)
	for {
		var prefix [2]byte
		if _, err := io.ReadFull(rd, prefix[:]); err != nil {
			if err == io.ErrUnexpectedEOF {
				s.mu.Lock()
				s.violate("host-frame-truncated", "host stream ended inside a frame prefix")
				s.mu.Unlock()
			}
			return
		}
		switch string(prefix[:]) {
		case "C:":
			line, err := rd.ReadBytes('\r')
			if err != nil {
				s.mu.Lock()
				s.violate("host-cframe-no-cr", "host stream ended inside a command frame (no CR): %q", clip(line))
				s.mu.Unlock()
				return
			}
			var crc [2]byte
			if _, err := io.ReadFull(rd, crc[:]); err != nil {
				s.mu.Lock()
				s.violate("host-frame-truncated", "host stream ended before the CRC of command %q", clip(line))
				s.mu.Unlock()
				return
			}
			if got, want := binary.BigEndian.Uint16(crc[:]), CRC16(line); got != want {
				s.mu.Lock()
				s.violate("host-cframe-crc", "command frame %q carries CRC %04x, expected %04x (CRC-16 over text+CR, big endian)", clip(line), got, want)
				s.count("host_bad_crc", 1)
				s.mu.Unlock()
				s.SendLine("CRCFAULT", nil)
				continue
			}
			s.SendLine("RDY", nil)
			s.handleCommand(string(line[:len(line)-1]))
		case "D:":
			var lb [2]byte
			if _, err := io.ReadFull(rd, lb[:]); err != nil {
				s.truncated("data frame length")
				return
			}
			n := int(binary.BigEndian.Uint16(lb[:]))
			body := make([]byte, 2+n+2)
			copy(body, lb[:])
			if _, err := io.ReadFull(rd, body[2:]); err != nil {
				s.truncated(fmt.Sprintf("data frame (length field %d)", n))
				return
			}
			payload := body[2 : 2+n]
			if got, want := binary.BigEndian.Uint16(body[2+n:]), CRC16(body[:2+n]); got != want {
				s.mu.Lock()
				s.violate("host-dframe-crc", "data frame of %d bytes carries CRC %04x, expected %04x (CRC-16 over length+data, excluding the D: prefix)", n, got, want)
				s.count("host_bad_crc", 1)
				s.mu.Unlock()
				s.SendLine("CRCFAULT", nil)
				continue
			}
			s.handleData(payload)
		default:
			s.mu.Lock()
			s.violate("host-frame-prefix", "host frame starts with %q, expected C: or D:", prefix[:])
			s.mu.Unlock()
			return // framing is lost for good
		}
	}
}

func (s *Sim) truncated(what string) {
	s.mu.Lock()
	s.violate("host-frame-truncated", "host stream ended inside a %s", what)
	s.mu.Unlock()
}

type readerFunc func([]byte) (int, error)

func (f readerFunc) Read(p []byte) (int, error) { return f(p) }

func clip(b []byte) string {
	if len(b) > 60 {
		return string(b[:60]) + "..."
	}
	return string(b)
}

func (s *Sim) tcpServe() {
	defer s.readersWG.Done()
	accept := func(l net.Listener) net.Conn {
		l.(*net.TCPListener).SetDeadline(time.Now().Add(60 * time.Second))
		c, err := l.Accept()
		if err != nil {
			return nil
		}
		return c
	}
	c1 := accept(s.ln1)
	if c1 == nil {
		return
	}
	c2 := accept(s.ln2)
	s.ctrlMu.Lock()
	s.dataMu.Lock()
	s.ctrlC, s.dataC = c1, c2
	s.dataMu.Unlock()
	s.ctrlMu.Unlock()
	if c2 == nil {
		return
	}
	s.readersWG.Add(1)
	go func() { // data port: 2-byte big-endian length + data
		defer s.readersWG.Done()
		rd := bufio.NewReaderSize(c2, 1<<16)
		for {
			var lb [2]byte
			if _, err := io.ReadFull(rd, lb[:]); err != nil {
				if err == io.ErrUnexpectedEOF {
					s.truncated("data frame length")
				}
				return
			}
			payload := make([]byte, binary.BigEndian.Uint16(lb[:]))
			if _, err := io.ReadFull(rd, payload); err != nil {
				s.truncated(fmt.Sprintf("data frame (length field %d)", len(payload)))
				return
			}
			s.handleData(payload)
		}
	}()
	rd := bufio.NewReaderSize(c1, 1<<16)
	for {
		line, err := rd.ReadBytes('\r')
		if err != nil {
			if len(line) > 0 {
				s.mu.Lock()
				s.violate("host-cframe-no-cr", "control connection ended inside a command (no CR): %q", clip(line))
				s.mu.Unlock()
			}
			return
		}
		s.handleCommand(string(line[:len(line)-1]))
	}
}

func (s *Sim) handleData(payload []byte) {
	s.mu.Lock()
	s.opt.Activity.Add(1)
	if s.faulted != nil && !bytes.Equal(payload, s.faulted) {
		s.violate("retransmit-differs", "after CRCFAULT the host sent a different data frame (%d bytes) instead of repeating the faulted one (%d bytes)", len(payload), len(s.faulted))
		s.faulted = nil
	}
	if s.faultsLeft > 0 && s.opt.Mode == Serial {
		s.faultsLeft--
		s.faulted = append([]byte{}, payload...)
		s.faultGen++
		gen := s.faultGen
		s.logEvent("data-faulted", "", len(payload))
		s.count("crcfault_sent", 1)
		async, q := s.faultAsync, s.queued
		s.mu.Unlock()
		if async {
			// BUFFER reports are asynchronous (the TNC sends one whenever its queue changes); this
			// one happens to leave just before the answer to the damaged frame.
			s.SendLine("BUFFER "+strconv.Itoa(q+1), nil)
		}
		s.SendLine("CRCFAULT", nil)
		if s.opt.ProbeAfter > 0 {
			time.AfterFunc(s.opt.ProbeAfter, func() { s.probe(gen) })
		}
		return
	}
	if s.faulted != nil {
		s.count("retransmissions_accepted", 1)
		s.faulted = nil
		s.faultGen++
	}
	if !s.connected {
		s.violate("host-data-not-connected", "host sent a data frame of %d bytes while no ARQ connection exists", len(payload))
	}
	s.ledger.Write(payload)
	s.queued += len(payload)
	q := s.queued
	s.logEvent("data", "", len(payload))
	s.count("host_data_frames", 1)
	s.count("host_data_bytes", int64(len(payload)))
	s.mu.Unlock()
	if s.opt.Mode == Serial {
		s.SendLine("RDY", nil)
	}
	// A TNC reports its queue after taking data. Never 0 here: the queue has just grown.
	if q > 0 {
		s.SendLine("BUFFER "+strconv.Itoa(q), nil)
	} else { // zero-length frame: nothing queued, but the host waits for a BUFFER report
		s.SendLine("BUFFER 1", nil)
	}
	select {
	case s.notify <- struct{}{}:
	default:
	}
}

// probe: the frame answered with CRCFAULT was not repeated for a long while. A host that ignores
// CRCFAULT would now sit in Write forever; an unsolicited (legal) BUFFER report releases it so
// that the verdict can be taken logically from the ledger. A host that is merely slow is not
// disturbed: it sees CRCFAULT before this line and repeats the frame first (and the repetition is
// then accepted, whatever number of CRCFAULT answers was planned).
func (s *Sim) probe(gen int) {
	s.mu.Lock()
	if s.shut || s.faulted == nil || s.faultGen != gen {
		s.mu.Unlock()
		return
	}
	q := s.queued + len(s.faulted) + 1
	s.count("crcfault_probe_sent", 1)
	// The probe releases the Write that repeats the frame, so the repetition must be taken: a
	// further CRCFAULT would find nobody listening (that is the recorded finding, not this test).
	s.faultsLeft = 0
	s.mu.Unlock()
	s.SendLine("BUFFER "+strconv.Itoa(q), nil)
}

var (
	callRe = `[A-Z0-9]{3,7}(-([0-9]|1[0-5]|[A-Z]))?`
	boolRe = `(?i:true|false)`
	// what the interface description allows the host to send (the subset a Winlink client uses)
	grammar = []struct {
		word string
		re   *regexp.Regexp
	}{
		{"INITIALIZE", regexp.MustCompile(`^$`)},
		{"STATE", regexp.MustCompile(`^$`)},
		{"VERSION", regexp.MustCompile(`^$`)},
		{"DISCONNECT", regexp.MustCompile(`^$`)},
		{"ABORT", regexp.MustCompile(`^$`)},
		{"SENDID", regexp.MustCompile(`^$`)},
		{"CLOSE", regexp.MustCompile(`^$`)},
		{"BUFFER", regexp.MustCompile(`^$`)},
		{"PROTOCOLMODE", regexp.MustCompile(`^( (ARQ|FEC))?$`)},
		{"ARQTIMEOUT", regexp.MustCompile(`^( (3[0-9]|[4-9][0-9]|1[0-9][0-9]|2[0-3][0-9]|240))?$`)},
		{"LISTEN", regexp.MustCompile(`^( ` + boolRe + `)?$`)},
		{"CODEC", regexp.MustCompile(`^( ` + boolRe + `)?$`)},
		{"CWID", regexp.MustCompile(`^( ` + boolRe + `)?$`)},
		{"AUTOBREAK", regexp.MustCompile(`^( ` + boolRe + `)?$`)},
		{"FSKONLY", regexp.MustCompile(`^( ` + boolRe + `)?$`)},
		{"MYCALL", regexp.MustCompile(`^( ` + callRe + `)?$`)},
		{"MYAUX", regexp.MustCompile(`^( ` + callRe + `(, ?` + callRe + `)*)?$`)},
		{"GRIDSQUARE", regexp.MustCompile(`^( (?i:[A-R]{2}[0-9]{2}([A-X]{2}([0-9]{2})?)?))?$`)},
		{"ARQBW", regexp.MustCompile(`^( (200|500|1000|2000)(MAX|FORCED))?$`)},
		{"ARQCALL", regexp.MustCompile(`^ ` + callRe + ` ([1-9]|[1-9][0-9])$`)},
	}
)

func (s *Sim) handleCommand(text string) {
	s.mu.Lock()
	s.logEvent("cmd", text, 0)
	s.count("host_commands", 1)
	word, rest := text, ""
	if i := strings.IndexByte(text, ' '); i >= 0 {
		word, rest = text[:i], text[i:]
	}
	found := false
	for _, g := range grammar {
		if g.word == word {
			found = true
			if !g.re.MatchString(rest) {
				s.violate("host-cmd-params:"+word, "command %q: parameters do not match the interface grammar", clip([]byte(text)))
			}
		}
	}
	if !found {
		s.violate("host-cmd-unknown", "host sent %q, not a command of the host interface (upper-case word, single spaces)", clip([]byte(text)))
		s.mu.Unlock()
		s.SendLine("FAULT Command not recognized", nil)
		return
	}
	arg := strings.TrimPrefix(rest, " ")
	echo := func(v string) string {
		if s.opt.EchoNow {
			return word + " now " + v
		}
		return word + " " + v
	}
	var out []string
	var after func()
	switch word {
	case "INITIALIZE":
		out = []string{"INITIALIZE"}
	case "STATE":
		out = []string{"STATE " + s.state}
	case "VERSION":
		out = []string{"VERSION ardopsim_1.0"}
	case "PROTOCOLMODE", "ARQTIMEOUT", "ARQBW", "CWID", "AUTOBREAK", "FSKONLY", "MYAUX":
		if arg == "" {
			arg = map[string]string{"PROTOCOLMODE": "ARQ", "ARQTIMEOUT": "90", "ARQBW": "500MAX", "MYAUX": ""}[word]
			if arg == "" {
				arg = "FALSE"
			}
			out = []string{word + " " + arg}
		} else {
			out = []string{echo(strings.ToUpper(arg))}
		}
	case "LISTEN":
		if arg != "" {
			s.listen = strings.EqualFold(arg, "true")
			out = []string{echo(strings.ToUpper(arg))}
		} else {
			out = []string{"LISTEN " + strings.ToUpper(strconv.FormatBool(s.listen))}
		}
	case "CODEC":
		out = []string{echo(strings.ToUpper(arg))}
		if strings.EqualFold(arg, "true") && s.state == "OFFLINE" {
			after = func() { s.newState("DISC") }
		}
	case "MYCALL":
		if arg != "" {
			s.mycall = arg
			out = []string{echo(arg)}
		} else {
			out = []string{"MYCALL " + s.mycall}
		}
	case "GRIDSQUARE":
		if arg != "" {
			s.grid = arg
			out = []string{echo(arg)}
		} else {
			out = []string{"GRIDSQUARE " + s.grid}
		}
	case "SENDID", "ABORT", "CLOSE":
		out = []string{word}
		if word == "SENDID" && s.connected && s.opt.FaultSendID {
			out = []string{"FAULT SENDID not from state " + s.state}
			s.count("sendid_refused_with_fault", 1)
		}
	case "BUFFER":
		out = []string{"BUFFER " + strconv.Itoa(max(s.queued, 0))}
	case "ARQCALL":
		if s.connected {
			out = []string{"FAULT not from state " + s.state}
			break
		}
		target := strings.Fields(arg)[0]
		s.connected = true
		after = func() {
			s.newState("ISS")
			s.SendLine("CONNECTED "+target+" 500", nil)
			for _, p := range s.opt.DialGreeting {
				s.SendData("ARQ", p, nil)
			}
		}
	case "DISCONNECT":
		s.count("disconnect_received", 1)
		if s.connected {
			s.connected = false
			s.queued = 0
			after = func() {
				s.SendLine("DISCONNECTED", nil)
				s.newState("DISC")
			}
		}
	}
	s.mu.Unlock()
	for _, l := range out {
		s.SendLine(l, nil)
	}
	if after != nil {
		after()
	}
	select {
	case s.cmdSeen <- word:
	default:
	}
}

// ---------------------------------------------------------------- driver API

// Inbound plays an incoming ARQ connection: PENDING, TARGET, NEWSTATE IRS, CONNECTED.
func (s *Sim) Inbound(remote, target string) {
	s.mu.Lock()
	s.connected = true
	s.mu.Unlock()
	s.SendLine("PENDING", nil)
	s.SendLine("TARGET "+target, nil)
	s.newState("IRS")
	s.SendLine("CONNECTED "+remote+" 500", nil)
	for _, p := range s.opt.DialGreeting {
		s.SendData("ARQ", p, nil) // the calling station's first frames follow the report directly
	}
}

// RemoteDisconnect ends the connection from the TNC side (the remote station disconnected).
func (s *Sim) RemoteDisconnect() {
	s.mu.Lock()
	s.connected = false
	s.queued = 0
	s.mu.Unlock()
	s.SendLine("DISCONNECTED", nil)
	s.newState("DISC")
}

// InjectFaults makes the simulator answer the next k data frames with CRCFAULT (serial mode).
func (s *Sim) InjectFaults(k int) {
	s.mu.Lock()
	s.faultsLeft, s.faultAsync = k, false
	s.mu.Unlock()
}

// InjectFaultsAsync is InjectFaults with an asynchronous (non-zero) BUFFER report sent just
// before each CRCFAULT answer.
func (s *Sim) InjectFaultsAsync(k int) {
	s.mu.Lock()
	s.faultsLeft, s.faultAsync = k, true
	s.mu.Unlock()
}

// AbandonFaulted: the host gave up on the faulted frame (Write returned an error).
func (s *Sim) AbandonFaulted() {
	s.mu.Lock()
	s.faulted = nil
	s.faultsLeft = 0
	s.faultGen++
	s.mu.Unlock()
}

// AwaitingRetransmission reports whether a frame answered with CRCFAULT has not been repeated.
func (s *Sim) AwaitingRetransmission() bool {
	s.mu.Lock()
	defer s.mu.Unlock()
	return s.faulted != nil
}

// LedgerLen is the number of payload bytes accepted so far.
func (s *Sim) LedgerLen() int64 {
	s.mu.Lock()
	defer s.mu.Unlock()
	return int64(s.ledger.Len())
}

func (s *Sim) Ledger() []byte {
	s.mu.Lock()
	defer s.mu.Unlock()
	return append([]byte(nil), s.ledger.Bytes()...)
}

// WaitLedger blocks until the ledger holds at least total bytes; false if abort fired first.
func (s *Sim) WaitLedger(total int64, abort <-chan struct{}) bool {
	for s.LedgerLen() < total {
		select {
		case <-s.notify:
		case <-abort:
			return s.LedgerLen() >= total
		case <-time.After(50 * time.Millisecond):
		}
	}
	return true
}

// ReportEmpty tells the host that the transmit queue drained: "BUFFER 0". The send is logged on
// the shared sequence before the first byte is written; the sequence number is returned.
func (s *Sim) ReportEmpty(split Splitter) int64 {
	s.mu.Lock()
	s.queued = 0
	s.count("buffer0_sent", 1)
	s.mu.Unlock()
	return s.SendLine("BUFFER 0", split)
}

// WaitCommand blocks until the host sent a command with this word (since the last call that
// consumed it); false if abort fired.
func (s *Sim) WaitCommand(word string, abort <-chan struct{}) bool {
	for {
		select {
		case w := <-s.cmdSeen:
			if w == word {
				return true
			}
		case <-abort:
			return false
		}
	}
}

func (s *Sim) Violations() []Violation {
	s.mu.Lock()
	defer s.mu.Unlock()
	return append([]Violation(nil), s.viol...)
}

func (s *Sim) PTTSent() []PTTItem {
	s.mu.Lock()
	defer s.mu.Unlock()
	return append([]PTTItem(nil), s.ptt...)
}

func (s *Sim) Counters() map[string]int64 {
	s.mu.Lock()
	defer s.mu.Unlock()
	m := map[string]int64{}
	for k, v := range s.counters {
		m[k] = v
	}
	return m
}

func (s *Sim) Events() []Event {
	s.mu.Lock()
	defer s.mu.Unlock()
	return append([]Event(nil), s.events...)
}

// CommandWords returns the command words received from the host, in order.
func (s *Sim) CommandWords() []string {
	s.mu.Lock()
	defer s.mu.Unlock()
	var w []string
	for _, e := range s.events {
		if e.Kind == "cmd" {
			word, _, _ := strings.Cut(e.Text, " ")
			w = append(w, word)
		}
	}
	return w
}

// HangUp closes one TNC->host stream without touching the other (TCP), or the line (serial).
func (s *Sim) HangUp(st Stream) {
	if s.opt.Mode == Serial {
		s.link.CloseTNC()
		return
	}
	s.ctrlMu.Lock()
	s.dataMu.Lock()
	c := s.ctrlC
	if st == Data {
		c = s.dataC
	}
	s.dataMu.Unlock()
	s.ctrlMu.Unlock()
	if c != nil {
		c.Close()
	}
}

// Shutdown releases everything. The control stream goes first so that the host winds down
// through its reader (never through a failed data write).
func (s *Sim) Shutdown() {
	s.mu.Lock()
	s.shut = true
	s.mu.Unlock()
	if s.opt.Mode == Serial {
		s.link.CloseTNC()
		return
	}
	s.ln1.Close()
	s.ln2.Close()
	s.HangUp(Ctrl)
	time.Sleep(20 * time.Millisecond)
	s.HangUp(Data)
}
