// Package simardop is a simulated ARDOP TNC speaking the host protocol in both of its forms
// (CRC-protected serial framing over one byte stream, and the two-socket TCP form). It validates
// everything the host sends, keeps a ledger of the payload bytes it accepted and logs what it did
// on a sequence counter shared with the application side.
//
// It is an oracle: it must not import the library under test.
package simardop

import "fmt"

// CRC16 is the ARDOP host-interface checksum, formulated from the TNC interface description
// (GenCRC16): a 16-bit register seeded with 0xFFFF; for every message bit, most significant bit of
// each byte first, the register is shifted left by one with the message bit entering as the new
// least significant bit, and if the bit that left the register was 1 the register is XORed with
// the constant 0x8810 ("x^16 + x^12 + x^5 + 1" in the description's notation). No final XOR; the
// result is transmitted high byte first.
func CRC16(data []byte) uint16 {
	reg := uint16(0xFFFF)
	for _, b := range data {
		for mask := byte(0x80); mask != 0; mask >>= 1 {
			out := reg&0x8000 != 0
			reg <<= 1
			if b&mask != 0 {
				reg |= 1
			}
			if out {
				reg ^= 0x8810
			}
		}
	}
	return reg
}

// crcVectors are copied from the repository's crc16_test.go (values only).
var crcVectors = map[string]uint16{
	"RDY\r":                  55805,
	"voluptatem accusantium": 24749,
	"hagavik":                44843,
	"Lorem ipsum dolor sit amet, consectetur adipiscing elit, sed do eiusmod tempor": 50066,
}

// SelfTest cross-checks the independent CRC against the published vectors.
func SelfTest() error {
	for s, want := range crcVectors {
		if got := CRC16([]byte(s)); got != want {
			return fmt.Errorf("simardop CRC16(%q) = %d, want %d", s, got, want)
		}
	}
	return nil
}
