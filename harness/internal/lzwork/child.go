package lzwork

import (
	"bytes"
	"encoding/json"
	"fmt"
	"io"
	"os"
	"os/exec"
	"strconv"
	"strings"
	"syscall"

	"github.com/la5nta/wl2k-go/lzhuf"
)

// ---------------------------------------------------------------------------------------------
// Decompression in a process whose address space is bounded (C08).
//
// "Terminates with end-of-stream or an error, without panicking" is a statement about the process
// that reads a hostile stream. On an unbounded 64-bit host a reservation of 2 GiB made on the word
// of a 10-byte input costs nothing and shows nothing; on a host with a bound (ulimit -v, a
// container, a 32-bit board) the same request ends the process. The child below is this binary
// again: it lowers RLIMIT_AS to its current size plus a fixed headroom and copies every stream of
// the batch into a bytes.Buffer with io.Copy, announcing each stream before it starts. The parent
// reads the announcements: a stream that was begun and never ended is the one that killed the child.

const childEnv = "VERIF_LZ_CHILD"

// CopyBatch is the child's work list.
type CopyBatch struct {
	Streams     [][]byte `json:"streams"`
	CRC         []bool   `json:"crc"`
	HeadroomMiB int      `json:"headroom_mib"`
}

// CopyOutcome is what the child reported for one stream.
type CopyOutcome struct {
	Begun, Ended bool
	N            int64
	Err, Close   string
	Panic        string
}

// CopyRun is the parent's view of one child.
type CopyRun struct {
	Outcomes []CopyOutcome
	ExitCode int
	Signal   string
	Stderr   string // first lines
	LimitSet bool   // the child confirmed that RLIMIT_AS was lowered
}

// ChildDispatch turns the process into the bounded decompressor when the environment says so (called
// from an init function of cmd/check).
func ChildDispatch() {
	if os.Getenv(childEnv) != "copy" {
		return
	}
	os.Unsetenv(childEnv)
	os.Exit(copyChild())
}

func vmSize() uint64 {
	b, err := os.ReadFile("/proc/self/statm")
	if err != nil {
		return 0
	}
	f := strings.Fields(string(b))
	if len(f) == 0 {
		return 0
	}
	pages, _ := strconv.ParseUint(f[0], 10, 64)
	return pages * uint64(os.Getpagesize())
}

func copyChild() int {
	in, err := io.ReadAll(os.Stdin)
	if err != nil {
		fmt.Println("SPEC-ERROR", err)
		return 3
	}
	var batch CopyBatch
	if err := json.Unmarshal(in, &batch); err != nil {
		fmt.Println("SPEC-ERROR", err)
		return 3
	}
	if sz := vmSize(); sz > 0 {
		lim := sz + uint64(batch.HeadroomMiB)<<20
		if err := syscall.Setrlimit(syscall.RLIMIT_AS, &syscall.Rlimit{Cur: lim, Max: lim}); err == nil {
			fmt.Println("LIMIT", lim)
		}
	}
	for i, s := range batch.Streams {
		fmt.Println("BEGIN", i)
		func() {
			defer func() {
				if r := recover(); r != nil {
					fmt.Printf("PANIC %d %q\n", i, fmt.Sprint(r))
				}
			}()
			rd, err := lzhuf.NewReader(bytes.NewReader(s), batch.CRC[i])
			if err != nil || rd == nil {
				fmt.Printf("END %d 0 %q %q\n", i, fmt.Sprint(err), "-")
				return
			}
			var dst bytes.Buffer
			n, err := io.Copy(&dst, rd)
			cerr := rd.Close()
			fmt.Printf("END %d %d %q %q\n", i, n, fmt.Sprint(err), fmt.Sprint(cerr))
		}()
	}
	return 0
}

// RunCopyBatch runs the batch in a child of this binary.
func RunCopyBatch(batch CopyBatch) (CopyRun, error) {
	spec, err := json.Marshal(batch)
	if err != nil {
		return CopyRun{}, err
	}
	exe, err := os.Executable()
	if err != nil {
		return CopyRun{}, err
	}
	cmd := exec.Command(exe)
	cmd.Env = append(os.Environ(), childEnv+"=copy")
	cmd.Stdin = bytes.NewReader(spec)
	var stdout, stderr bytes.Buffer
	cmd.Stdout, cmd.Stderr = &stdout, &stderr
	runErr := cmd.Run()
	run := CopyRun{Outcomes: make([]CopyOutcome, len(batch.Streams))}
	if ee, ok := runErr.(*exec.ExitError); ok {
		run.ExitCode = ee.ExitCode()
		if ws, ok := ee.Sys().(syscall.WaitStatus); ok && ws.Signaled() {
			run.Signal = ws.Signal().String()
		}
	} else if runErr != nil {
		return run, runErr
	}
	lines := strings.Split(stderr.String(), "\n")
	run.Stderr = strings.Join(lines[:min(len(lines), 6)], "\n")
	for _, l := range strings.Split(stdout.String(), "\n") {
		f := strings.SplitN(l, " ", 3)
		switch f[0] {
		case "LIMIT":
			run.LimitSet = true
		case "SPEC-ERROR":
			return run, fmt.Errorf("child could not read its work list: %s", l)
		case "BEGIN", "END", "PANIC":
			if len(f) < 2 {
				continue
			}
			i, err := strconv.Atoi(f[1])
			if err != nil || i < 0 || i >= len(run.Outcomes) {
				continue
			}
			o := &run.Outcomes[i]
			switch f[0] {
			case "BEGIN":
				o.Begun = true
			case "PANIC":
				o.Ended = true
				if len(f) > 2 {
					o.Panic = f[2]
				}
			case "END":
				o.Ended = true
				if len(f) > 2 {
					var n int64
					var e, c string
					if _, err := fmt.Sscanf(f[2], "%d %q %q", &n, &e, &c); err == nil {
						o.N, o.Err, o.Close = n, e, c
					}
				}
			}
		}
	}
	return run, nil
}
