package lzwork

import (
	"bufio"
	"bytes"
	"errors"
	"fmt"
	"io"
	"math/rand"
	"runtime/debug"
	"sync"
	"time"

	"github.com/la5nta/wl2k-go/lzhuf"

	"verif/internal/vrt"
)

// ---------------------------------------------------------------------------------------------
// compressor driver

// CompressResult is what was observed while driving lzhuf.Writer.
type CompressResult struct {
	Out       []byte
	WriteErr  string // a Write that did not return (len(p), nil): description, else ""
	CloseErr  error
	Panic     *vrt.Violation
	Spun      bool // the call burnt SpinCPU of CPU time without returning (worker must be retired)
	Abandoned bool // the call did not return within SpinWall without burning that CPU (inconclusive)
}

// OK reports whether every call succeeded.
func (c CompressResult) OK() bool {
	return c.Panic == nil && c.WriteErr == "" && c.CloseErr == nil && !c.Spun && !c.Abandoned
}

// Compress feeds in to a fresh lzhuf.Writer in the given write sizes (nil = one Write) and closes it.
func Compress(in []byte, crc bool, parts []int) (res CompressResult) {
	var r CompressResult
	returned, spun := vrt.CPUGuard(func() { r = compressRaw(in, crc, parts) }, SpinCPU, SpinWall)
	if !returned {
		return CompressResult{Spun: spun, Abandoned: !spun}
	}
	return r
}

// SpinCPU / SpinWall: a codec call that burns this much CPU without returning spins (see vrt.CPUGuard).
var (
	SpinCPU  = 8 * time.Second
	SpinWall = 240 * time.Second
)

func compressRaw(in []byte, crc bool, parts []int) (res CompressResult) {
	defer func() {
		if r := recover(); r != nil {
			v := vrt.PanicViolation(r, debug.Stack())
			res.Panic = &v
		}
	}()
	var buf bytes.Buffer
	w := lzhuf.NewWriter(&buf, crc)
	if parts == nil {
		parts = []int{len(in)}
	}
	// io.Writer: "Write must not modify the slice data, even temporarily" - the input is served from the middle of a
	// larger array and the whole array is compared afterwards
	original := in
	spool, view := inSpool(in)
	in = view
	defer func() {
		if d := spoolDamage(spool, original); d != "" && res.WriteErr == "" {
			res.WriteErr = "the Writer changed the memory its input was served from: " + d
		}
	}()
	off := 0
	for i, k := range parts {
		var n int
		var err error
		if i%4 == 2 && k > 0 {
			// ... or as a string (io.WriteString uses the Writer's WriteString when it has one)
			n, err = io.WriteString(w, string(in[off:off+k]))
		} else if i%2 == 1 && k > 0 {
			// every other piece reaches the Writer the way a relay feeds it: io.Copy from a plain io.Reader (which uses the
			// Writer's ReadFrom when it has one)
			var n64 int64
			n64, err = io.Copy(w, struct{ io.Reader }{bytes.NewReader(in[off : off+k])})
			n = int(n64)
		} else {
			n, err = w.Write(in[off : off+k])
		}
		if n != k || err != nil {
			res.WriteErr = fmt.Sprintf("Write #%d of %d bytes at offset %d returned (%d, %v)", i, k, off, n, err)
			return res
		}
		off += k
	}
	if off != len(in) {
		panic("lzwork: partition does not cover the input")
	}
	res.CloseErr = w.Close()
	res.Out = buf.Bytes()
	return res
}

// CompressAligned compresses the inputs in goroutines of their own (own Writer, own destination) and lines the
// goroutines up in front of Close, so that the Close calls - where header, size and checksum are put together - run at
// the same moment. What each goroutine gets must be what it would get alone.
func CompressAligned(inputs [][]byte, crc bool) []CompressResult {
	out := make([]CompressResult, len(inputs))
	var ready, done sync.WaitGroup
	start := make(chan struct{})
	ready.Add(len(inputs))
	done.Add(len(inputs))
	for g := range inputs {
		go func(g int) {
			defer done.Done()
			res := &out[g]
			released := false
			defer func() {
				if r := recover(); r != nil {
					v := vrt.PanicViolation(r, debug.Stack())
					res.Panic = &v
					if !released {
						ready.Done()
					}
				}
			}()
			var buf bytes.Buffer
			w := lzhuf.NewWriter(&buf, crc)
			if n, err := w.Write(inputs[g]); n != len(inputs[g]) || err != nil {
				res.WriteErr = fmt.Sprintf("Write of %d bytes returned (%d, %v)", len(inputs[g]), n, err)
			}
			released = true
			ready.Done()
			<-start
			res.CloseErr = w.Close()
			res.Out = buf.Bytes()
		}(g)
	}
	ready.Wait()
	close(start)
	done.Wait()
	return out
}

// failingWriter accepts `room` bytes and fails from then on (a link that drops during a transfer).
type failingWriter struct{ room int }

func (f *failingWriter) Write(p []byte) (int, error) {
	if len(p) <= f.room {
		f.room -= len(p)
		return len(p), nil
	}
	n := f.room
	f.room = 0
	return n, errors.New("lzwork: destination failed (link dropped)")
}

// CompressToFailingDestination compresses in to a destination that accepts only `room` bytes: a transfer
// that fails. Nothing is judged here (an error is the expected result); the point is what such a failed
// transfer leaves behind for the NEXT compression of the process. Panics of the library are returned.
func CompressToFailingDestination(in []byte, crc bool, room int) (pan *vrt.Violation) {
	defer func() {
		if r := recover(); r != nil {
			v := vrt.PanicViolation(r, debug.Stack())
			pan = &v
		}
	}()
	vrt.CPUGuard(func() {
		w := lzhuf.NewWriter(&failingWriter{room: room}, crc)
		w.Write(in)
		w.Close()
	}, SpinCPU, SpinWall)
	return nil
}

// ---------------------------------------------------------------------------------------------
// source readers handed to lzhuf.NewReader

// Source describes the io.Reader kind the compressed stream is served through.
type Source struct {
	Kind string `json:"kind"`           // bytes | chunk | dataerr | transient
	K    int    `json:"k,omitempty"`    // chunk: at most K bytes per Read (PRNG 1..K when Seed != 0)
	Seed int64  `json:"seed,omitempty"` //
}

func (s Source) String() string {
	if s.Kind == "transient" {
		return "transient"
	}
	if s.Kind == "chunk" || s.Kind == "dataerr" {
		return fmt.Sprintf("%s%d", s.Kind, s.K)
	}
	return s.Kind
}

// Sources used in rotation. bytes.Reader is an io.ByteReader/io.Seeker/io.WriterTo; the chunk
// readers are plain io.Readers that return short reads; dataerr returns the final bytes together
// with io.EOF, which io.Reader permits.
var Sources = []Source{{Kind: "bytes"}, {Kind: "chunk", K: 1}, {Kind: "chunk", K: 7, Seed: 1}, {Kind: "dataerr", K: 5}, {Kind: "chunk", K: 4096, Seed: 2}, {Kind: "buffer"}, {Kind: "open"}, {Kind: "idle"}}

// The compressed stream is always served out of the middle of a larger array (a spool that holds other data in front
// of and behind it, as a mail spool or a receive buffer does): the slice handed to the source ends at the stream's last
// byte but its capacity reaches further. Reading a stream must not change a single byte of that array - neither the
// stream nor its neighbours. spoolDamage says what changed.
const spoolMargin = 48

func inSpool(stream []byte) (spool, view []byte) {
	spool = make([]byte, len(stream)+2*spoolMargin)
	for i := range spool {
		spool[i] = 0xA5 ^ byte(i*7)
	}
	copy(spool[spoolMargin:], stream)
	return spool, spool[spoolMargin : spoolMargin+len(stream)] // cap(view) includes the bytes behind the stream
}

func spoolDamage(spool, stream []byte) string {
	for i := range spool {
		want := 0xA5 ^ byte(i*7)
		where := "in front of"
		switch {
		case i >= spoolMargin && i < spoolMargin+len(stream):
			want, where = stream[i-spoolMargin], "inside"
		case i >= spoolMargin+len(stream):
			where = "behind"
		}
		if spool[i] != want {
			return fmt.Sprintf("byte %d %s the stream (offset %d relative to its start) changed from %#02x to %#02x", i, where, i-spoolMargin, want, spool[i])
		}
	}
	return ""
}

type chunkReader struct {
	b       []byte
	k       int
	r       *rand.Rand
	dataErr bool
	// failAt >= 0: the Read that would deliver byte number failAt returns (0, ErrTransient) once; the
	// source carries on afterwards (an expired read deadline, iotest.TimeoutReader)
	failAt int
	off    int
	beyond int // Read calls made after the last byte had been delivered
	// idleEvery > 0: every idleEvery-th call returns (0, nil)
	idleEvery, calls int
}

// ErrTransient is the one-shot error of the "transient" source.
var ErrTransient = errors.New("lzwork: transient source error (i/o timeout)")

func (c *chunkReader) Read(p []byte) (int, error) {
	if len(p) == 0 {
		return 0, nil
	}
	if c.idleEvery > 0 && len(c.b) > 0 {
		if c.calls++; c.calls%c.idleEvery == 0 {
			return 0, nil
		}
	}
	if len(c.b) == 0 {
		// on a connection that stays open after the message (a TNC link, a TCP session in a request/response exchange)
		// this call would block until the remote says something else: remember that it was made
		c.beyond++
		return 0, io.EOF
	}
	n := c.k
	if c.r != nil {
		n = 1 + c.r.Intn(c.k)
	}
	n = min(n, len(p), len(c.b))
	if c.failAt >= 0 && c.off+n > c.failAt {
		if c.off == c.failAt {
			c.failAt = -1
			return 0, ErrTransient
		}
		n = c.failAt - c.off // deliver up to the failing byte first
	}
	copy(p, c.b[:n])
	c.b = c.b[n:]
	c.off += n
	if c.dataErr && len(c.b) == 0 {
		return n, io.EOF
	}
	return n, nil
}

// Open returns the reader for stream.
func (s Source) Open(stream []byte) io.Reader {
	switch s.Kind {
	case "bytes":
		return bytes.NewReader(stream)
	case "buffer": // what fbb hands over: a *bytes.Buffer (it exposes Bytes(), Len(), WriteTo, ReadByte ...)
		return bytes.NewBuffer(stream)
	case "chunk", "dataerr":
		c := &chunkReader{b: stream, k: max(s.K, 1), dataErr: s.Kind == "dataerr", failAt: -1}
		if s.Seed != 0 {
			c.r = vrt.Rand(s.Seed, "chunk", len(stream))
		}
		return c
	case "idle": // a polling source: every third Read returns (0, nil) - no progress this time, legal for an io.Reader
		return &chunkReader{b: stream, k: 7, failAt: -1, idleEvery: 3}
	case "open": // like chunk 61, and the driver reports Read calls made after the last byte (ReadResult.BeyondEnd)
		return &chunkReader{b: stream, k: 61, failAt: -1, r: vrt.Rand(7, "open", len(stream))}
	case "transient": // K = offset of the byte whose delivery fails once
		return &chunkReader{b: stream, k: 7, failAt: s.K}
	}
	panic("lzwork: unknown source " + s.Kind)
}

// ---------------------------------------------------------------------------------------------
// decompressor driver

// Limits are the logical stop conditions of the read loop (no wall clock anywhere).
type Limits struct {
	MaxZeroReads int   // consecutive (0,nil) results for a non-empty buffer that count as "no progress" (0 = 1000)
	MaxReads     int64 // stop after this many Read calls (0 = no limit)
	MaxBytes     int64 // stop after this many bytes (0 = no limit); protects the harness only
	Keep         int   // keep at most this many output bytes for comparison (0 = keep everything)
	StopAfter    int64 // >= 0: stop reading after exactly this many bytes (early Close); < 0: read to the end
	ExtraReads   int   // Read calls made after the terminating result (io.EOF or error), before Close
}

// ReadResult is everything the monitors need about one decompression.
type ReadResult struct {
	NewErr      error  // error of NewReader (then nothing else was done)
	Out         []byte // first Limits.Keep bytes read (all of them when Keep == 0)
	Total       int64  // bytes returned by Read in total (including ExtraReads)
	Reads       int64  // Read calls made (excluding ExtraReads)
	ReadErr     error  // terminating error of the read loop (io.EOF at a clean end); nil if stopped by a limit
	NoProgress  bool   // MaxZeroReads consecutive (0,nil) reads
	TooMany     bool   // MaxReads exceeded
	Runaway     bool   // MaxBytes exceeded
	Stopped     bool   // StopAfter reached before any terminating result
	BadCount    string // a Read returned n outside [0,len(p)]
	ExtraBytes  int64  // bytes returned by the ExtraReads
	ExtraNilErr int    // ExtraReads that returned (0, nil)
	Closed      bool   // Close was called
	CloseErr    error
	ClosedTwice bool  // Close was called a second time (a third of the runs)
	Close2Err   error // what the second Close returned
	Panic       *vrt.Violation
	PanicIn     string // NewReader | Read | Close
	Style       string // copy-style plans: how the bytes behind the head were taken
	GrowMax     int    // copy-style plans: the largest reservation the Reader asked its destination for (information)
	// BeyondEndAt (chunk-style sources): number of output bytes the driver had received when the Reader first called its
	// source after the stream's last byte had been delivered; -1 = never. On a source that stays open such a call blocks.
	BeyondEndAt  int64
	SourceDamage string // "" or which byte of the array the stream was served from was changed by reading it
	Spun         bool   // the call burnt SpinCPU of CPU time without returning (worker must be retired)
	Abandoned    bool   // the call did not return within SpinWall without burning that CPU (inconclusive)
}

// Decompress runs a fresh lzhuf.Reader over stream and records what it does. Close is always
// called when the Reader could be constructed and did not panic.
func Decompress(stream []byte, crc bool, src Source, plan ReadPlan, lim Limits) (res ReadResult) {
	var r ReadResult
	returned, spun := vrt.CPUGuard(func() { r = decompressRaw(stream, crc, src, plan, lim) }, SpinCPU, SpinWall)
	if !returned {
		return ReadResult{Spun: spun, Abandoned: !spun}
	}
	return r
}

func decompressRaw(stream []byte, crc bool, src Source, plan ReadPlan, lim Limits) (res ReadResult) {
	stage := "NewReader"
	sampleBeyond := func() {}
	defer func() {
		if r := recover(); r != nil {
			v := vrt.PanicViolation(r, debug.Stack())
			res.Panic = &v
			res.PanicIn = stage
		}
	}()
	if lim.MaxZeroReads == 0 {
		lim.MaxZeroReads = 1000
	}
	original := stream
	spool, view := inSpool(stream)
	stream = view
	defer func() { res.SourceDamage = spoolDamage(spool, original) }()
	source := src.Open(stream)
	if cr, ok := source.(*chunkReader); ok {
		// how many output bytes had been handed out when the Reader first asked its source for input beyond the stream's
		// last byte (-1: it never did). Sampled after every Read call of the driver.
		res.BeyondEndAt = -1
		defer func() {
			if cr.beyond > 0 && res.BeyondEndAt < 0 {
				res.BeyondEndAt = res.Total
			}
		}()
		sampleBeyond = func() {
			if cr.beyond > 0 && res.BeyondEndAt < 0 {
				res.BeyondEndAt = res.Total
			}
		}
	} else {
		res.BeyondEndAt = -1
	}
	rd, err := lzhuf.NewReader(source, crc)
	if err != nil {
		res.NewErr = err
		return res
	}
	if rd == nil {
		res.NewErr = errors.New("NewReader returned (nil, nil)")
		return res
	}
	stage = "Read"
	keep := func(p []byte) {
		if lim.Keep == 0 {
			res.Out = append(res.Out, p...)
		} else if room := lim.Keep - len(res.Out); room > 0 {
			res.Out = append(res.Out, p[:min(room, len(p))]...)
		}
	}
	copying := plan.CopyStyle() && lim.StopAfter < 0
	if plan.CopyStyle() && !copying {
		plan = ReadPlan{Kind: "prng", Seed: plan.Seed}
	}
	var head int64 = -1 // copy styles: Read calls up to this many bytes, the rest through io.Copy / bufio
	var hr *rand.Rand
	if copying {
		hr = vrt.Rand(plan.Seed, "copy-head")
		head = int64(vrt.Pick(hr, []int{0, 1, 2, 1 + hr.Intn(64), 1 + hr.Intn(200), 1 + hr.Intn(5000)}))
		if plan.Kind == "copy" {
			head = 0
		}
		plan = ReadPlan{Kind: "prng", Seed: plan.Seed}
	}
	size := plan.Sizer()
	var buf []byte
	zero := 0
	for {
		if copying && res.Total >= head {
			// the rest of the stream is taken the way io.Copy takes it (through the Reader's WriteTo when it has one,
			// else through Read calls with io.Copy's own buffer), directly or behind a bufio.Reader
			dst := &copyDst{keep: keep, max: lim.MaxBytes, base: res.Total}
			var src io.Reader = rd
			if plan2 := hr.Intn(3); plan2 == 0 {
				br := bufio.NewReaderSize(rd, 16+hr.Intn(5000))
				line, _ := br.ReadSlice('\n') // whatever came (also on ErrBufferFull / EOF) has been consumed
				res.Total += int64(len(line))
				keep(line)
				dst.base = res.Total
				src = br
				res.Style = "bufio-line-then-copy"
			} else {
				res.Style = "read-head-then-copy"
				if head == 0 {
					res.Style = "copy"
				}
			}
			n, err := io.Copy(dst, src)
			res.Reads++
			res.Total += n
			res.GrowMax = dst.growMax
			switch {
			case err == errRunaway:
				res.Runaway = true
			case err != nil:
				res.ReadErr = err
			default:
				res.ReadErr = io.EOF // io.Copy swallows the end-of-stream result
			}
			break
		}
		if lim.StopAfter >= 0 && res.Total >= lim.StopAfter {
			res.Stopped = true
			break
		}
		k := size()
		if lim.StopAfter >= 0 {
			k = int(min(int64(k), lim.StopAfter-res.Total))
		}
		if cap(buf) < k {
			buf = make([]byte, k)
		}
		p := buf[:k]
		sampleBeyond() // before the call: what the previous calls (and NewReader) did
		n, err := rd.Read(p)
		res.Reads++
		if n < 0 || n > len(p) {
			res.BadCount = fmt.Sprintf("Read(len %d) returned n=%d", len(p), n)
			break
		}
		res.Total += int64(n)
		keep(p[:n])
		if err != nil {
			res.ReadErr = err
			break
		}
		if n == 0 {
			zero++
			if zero >= lim.MaxZeroReads {
				res.NoProgress = true
				break
			}
		} else {
			zero = 0
		}
		if lim.MaxReads > 0 && res.Reads > lim.MaxReads {
			res.TooMany = true
			break
		}
		if lim.MaxBytes > 0 && res.Total > lim.MaxBytes {
			res.Runaway = true
			break
		}
	}
	if res.ReadErr != nil {
		for i := 0; i < lim.ExtraReads; i++ {
			p := make([]byte, 64)
			n, err := rd.Read(p)
			if n < 0 || n > len(p) {
				res.BadCount = fmt.Sprintf("Read(len %d) returned n=%d", len(p), n)
				break
			}
			res.Total += int64(n)
			res.ExtraBytes += int64(n)
			keep(p[:n])
			if n == 0 && err == nil {
				res.ExtraNilErr++
			}
		}
	}
	stage = "Close"
	res.CloseErr = rd.Close()
	res.Closed = true
	if (len(stream)+int(res.Total))%3 == 0 {
		// the usual "defer r.Close()" next to an explicit, error-checked r.Close(): a Reader closed twice
		res.Close2Err = rd.Close()
		res.ClosedTwice = true
	}
	return res
}

// Interleave keeps two Writers and one Reader alive at the same time in ONE goroutine and feeds them in turns
// (a program that compresses two messages while it decompresses a third). It returns the two compressed
// streams, the decompressed bytes, the Reader's results and a recovered panic, if any.
func Interleave(in1, in2, stream3 []byte, crc bool, seed int64) (out1, out2, dec3 []byte, readErr, closeErr error, pan *vrt.Violation, spun, abandoned bool) {
	returned, sp := vrt.CPUGuard(func() { out1, out2, dec3, readErr, closeErr, pan = interleaveRaw(in1, in2, stream3, crc, seed) }, SpinCPU, SpinWall)
	if !returned {
		return nil, nil, nil, nil, nil, nil, sp, !sp
	}
	return
}

func interleaveRaw(in1, in2, stream3 []byte, crc bool, seed int64) (out1, out2, dec3 []byte, readErr, closeErr error, pan *vrt.Violation) {
	defer func() {
		if r := recover(); r != nil {
			v := vrt.PanicViolation(r, debug.Stack())
			pan = &v
		}
	}()
	r := vrt.Rand(seed, "interleave")
	var b1, b2 bytes.Buffer
	w1, w2 := lzhuf.NewWriter(&b1, crc), lzhuf.NewWriter(&b2, crc)
	rd, err := lzhuf.NewReader(bytes.NewReader(stream3), crc)
	if err != nil {
		return nil, nil, nil, err, nil, nil
	}
	p1, p2 := in1, in2
	reading := true
	buf := make([]byte, 512)
	for len(p1) > 0 || len(p2) > 0 || reading {
		if k := min(len(p1), 1+r.Intn(300)); k > 0 {
			w1.Write(p1[:k])
			p1 = p1[k:]
		}
		if reading {
			n, err := rd.Read(buf[:1+r.Intn(len(buf))])
			dec3 = append(dec3, buf[:n]...)
			if err != nil {
				reading = false
				if err != io.EOF {
					readErr = err
				}
			}
		}
		if k := min(len(p2), 1+r.Intn(300)); k > 0 {
			w2.Write(p2[:k])
			p2 = p2[k:]
		}
	}
	w2.Close()
	closeErr = rd.Close()
	w1.Close()
	return b1.Bytes(), b2.Bytes(), dec3, readErr, closeErr, nil
}

var errRunaway = errors.New("lzwork: output limit of the harness reached")

// copyDst is the destination of the copy-style plans: it keeps the bytes like the Read loop does, stops a
// runaway stream, and offers (and records) the optional Grow method buffers have.
type copyDst struct {
	keep    func([]byte)
	max     int64
	base    int64
	n       int64
	growMax int
}

func (d *copyDst) Write(p []byte) (int, error) {
	d.keep(p)
	d.n += int64(len(p))
	if d.max > 0 && d.base+d.n > d.max {
		return len(p), errRunaway
	}
	return len(p), nil
}

func (d *copyDst) Grow(n int) { d.growMax = max(d.growMax, n) }

// Hex renders at most n bytes of b for violation details.
func Hex(b []byte, n int) string {
	if len(b) <= n {
		return fmt.Sprintf("%x", b)
	}
	return fmt.Sprintf("%x...(%d bytes in total)", b[:n], len(b))
}

// SaysCorrupt reports whether err is one of the package's verdicts about the stream (bad checksum, bad header) - as
// opposed to an answer about the call (for instance "already closed").
func SaysCorrupt(err error) bool {
	return errors.Is(err, lzhuf.ErrChecksum) || errors.Is(err, lzhuf.ErrHeader)
}
