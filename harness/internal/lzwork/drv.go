package lzwork

import (
	"bytes"
	"errors"
	"fmt"
	"io"
	"math/rand"
	"runtime/debug"
	"time"

	"github.com/la5nta/wl2k-go/lzhuf"

	"verif/internal/vrt"
)

// ---------------------------------------------------------------------------------------------
// compressor driver

// CompressResult is what was observed while driving lzhuf.Writer.
type CompressResult struct {
	Out       []byte
	WriteErr  string // a Write that did not return (len(p), nil): description, else ""
	CloseErr  error
	Panic     *vrt.Violation
	Spun      bool // the call burnt SpinCPU of CPU time without returning (worker must be retired)
	Abandoned bool // the call did not return within SpinWall without burning that CPU (inconclusive)
}

// OK reports whether every call succeeded.
func (c CompressResult) OK() bool {
	return c.Panic == nil && c.WriteErr == "" && c.CloseErr == nil && !c.Spun && !c.Abandoned
}

// Compress feeds in to a fresh lzhuf.Writer in the given write sizes (nil = one Write) and closes it.
func Compress(in []byte, crc bool, parts []int) (res CompressResult) {
	var r CompressResult
	returned, spun := vrt.CPUGuard(func() { r = compressRaw(in, crc, parts) }, SpinCPU, SpinWall)
	if !returned {
		return CompressResult{Spun: spun, Abandoned: !spun}
	}
	return r
}

// SpinCPU / SpinWall: a codec call that burns this much CPU without returning spins (see vrt.CPUGuard).
var (
	SpinCPU  = 8 * time.Second
	SpinWall = 240 * time.Second
)

func compressRaw(in []byte, crc bool, parts []int) (res CompressResult) {
	defer func() {
		if r := recover(); r != nil {
			v := vrt.PanicViolation(r, debug.Stack())
			res.Panic = &v
		}
	}()
	var buf bytes.Buffer
	w := lzhuf.NewWriter(&buf, crc)
	if parts == nil {
		parts = []int{len(in)}
	}
	off := 0
	for i, k := range parts {
		n, err := w.Write(in[off : off+k])
		if n != k || err != nil {
			res.WriteErr = fmt.Sprintf("Write #%d of %d bytes at offset %d returned (%d, %v)", i, k, off, n, err)
			return res
		}
		off += k
	}
	if off != len(in) {
		panic("lzwork: partition does not cover the input")
	}
	res.CloseErr = w.Close()
	res.Out = buf.Bytes()
	return res
}

// failingWriter accepts `room` bytes and fails from then on (a link that drops during a transfer).
type failingWriter struct{ room int }

func (f *failingWriter) Write(p []byte) (int, error) {
	if len(p) <= f.room {
		f.room -= len(p)
		return len(p), nil
	}
	n := f.room
	f.room = 0
	return n, errors.New("lzwork: destination failed (link dropped)")
}

// CompressToFailingDestination compresses in to a destination that accepts only `room` bytes: a transfer
// that fails. Nothing is judged here (an error is the expected result); the point is what such a failed
// transfer leaves behind for the NEXT compression of the process. Panics of the library are returned.
func CompressToFailingDestination(in []byte, crc bool, room int) (pan *vrt.Violation) {
	defer func() {
		if r := recover(); r != nil {
			v := vrt.PanicViolation(r, debug.Stack())
			pan = &v
		}
	}()
	vrt.CPUGuard(func() {
		w := lzhuf.NewWriter(&failingWriter{room: room}, crc)
		w.Write(in)
		w.Close()
	}, SpinCPU, SpinWall)
	return nil
}

// ---------------------------------------------------------------------------------------------
// source readers handed to lzhuf.NewReader

// Source describes the io.Reader kind the compressed stream is served through.
type Source struct {
	Kind string `json:"kind"`           // bytes | chunk | dataerr | transient
	K    int    `json:"k,omitempty"`    // chunk: at most K bytes per Read (PRNG 1..K when Seed != 0)
	Seed int64  `json:"seed,omitempty"` //
}

func (s Source) String() string {
	if s.Kind == "transient" {
		return "transient"
	}
	if s.Kind == "chunk" || s.Kind == "dataerr" {
		return fmt.Sprintf("%s%d", s.Kind, s.K)
	}
	return s.Kind
}

// Sources used in rotation. bytes.Reader is an io.ByteReader/io.Seeker/io.WriterTo; the chunk
// readers are plain io.Readers that return short reads; dataerr returns the final bytes together
// with io.EOF, which io.Reader permits.
var Sources = []Source{{Kind: "bytes"}, {Kind: "chunk", K: 1}, {Kind: "chunk", K: 7, Seed: 1}, {Kind: "dataerr", K: 5}, {Kind: "chunk", K: 4096, Seed: 2}}

type chunkReader struct {
	b       []byte
	k       int
	r       *rand.Rand
	dataErr bool
	// failAt >= 0: the Read that would deliver byte number failAt returns (0, ErrTransient) once; the
	// source carries on afterwards (an expired read deadline, iotest.TimeoutReader)
	failAt int
	off    int
}

// ErrTransient is the one-shot error of the "transient" source.
var ErrTransient = errors.New("lzwork: transient source error (i/o timeout)")

func (c *chunkReader) Read(p []byte) (int, error) {
	if len(p) == 0 {
		return 0, nil
	}
	if len(c.b) == 0 {
		return 0, io.EOF
	}
	n := c.k
	if c.r != nil {
		n = 1 + c.r.Intn(c.k)
	}
	n = min(n, len(p), len(c.b))
	if c.failAt >= 0 && c.off+n > c.failAt {
		if c.off == c.failAt {
			c.failAt = -1
			return 0, ErrTransient
		}
		n = c.failAt - c.off // deliver up to the failing byte first
	}
	copy(p, c.b[:n])
	c.b = c.b[n:]
	c.off += n
	if c.dataErr && len(c.b) == 0 {
		return n, io.EOF
	}
	return n, nil
}

// Open returns the reader for stream.
func (s Source) Open(stream []byte) io.Reader {
	switch s.Kind {
	case "bytes":
		return bytes.NewReader(stream)
	case "chunk", "dataerr":
		c := &chunkReader{b: stream, k: max(s.K, 1), dataErr: s.Kind == "dataerr", failAt: -1}
		if s.Seed != 0 {
			c.r = vrt.Rand(s.Seed, "chunk", len(stream))
		}
		return c
	case "transient": // K = offset of the byte whose delivery fails once
		return &chunkReader{b: stream, k: 7, failAt: s.K}
	}
	panic("lzwork: unknown source " + s.Kind)
}

// ---------------------------------------------------------------------------------------------
// decompressor driver

// Limits are the logical stop conditions of the read loop (no wall clock anywhere).
type Limits struct {
	MaxZeroReads int   // consecutive (0,nil) results for a non-empty buffer that count as "no progress" (0 = 1000)
	MaxReads     int64 // stop after this many Read calls (0 = no limit)
	MaxBytes     int64 // stop after this many bytes (0 = no limit); protects the harness only
	Keep         int   // keep at most this many output bytes for comparison (0 = keep everything)
	StopAfter    int64 // >= 0: stop reading after exactly this many bytes (early Close); < 0: read to the end
	ExtraReads   int   // Read calls made after the terminating result (io.EOF or error), before Close
}

// ReadResult is everything the monitors need about one decompression.
type ReadResult struct {
	NewErr      error  // error of NewReader (then nothing else was done)
	Out         []byte // first Limits.Keep bytes read (all of them when Keep == 0)
	Total       int64  // bytes returned by Read in total (including ExtraReads)
	Reads       int64  // Read calls made (excluding ExtraReads)
	ReadErr     error  // terminating error of the read loop (io.EOF at a clean end); nil if stopped by a limit
	NoProgress  bool   // MaxZeroReads consecutive (0,nil) reads
	TooMany     bool   // MaxReads exceeded
	Runaway     bool   // MaxBytes exceeded
	Stopped     bool   // StopAfter reached before any terminating result
	BadCount    string // a Read returned n outside [0,len(p)]
	ExtraBytes  int64  // bytes returned by the ExtraReads
	ExtraNilErr int    // ExtraReads that returned (0, nil)
	Closed      bool   // Close was called
	CloseErr    error
	Panic       *vrt.Violation
	PanicIn     string // NewReader | Read | Close
	Spun        bool   // the call burnt SpinCPU of CPU time without returning (worker must be retired)
	Abandoned   bool   // the call did not return within SpinWall without burning that CPU (inconclusive)
}

// Decompress runs a fresh lzhuf.Reader over stream and records what it does. Close is always
// called when the Reader could be constructed and did not panic.
func Decompress(stream []byte, crc bool, src Source, plan ReadPlan, lim Limits) (res ReadResult) {
	var r ReadResult
	returned, spun := vrt.CPUGuard(func() { r = decompressRaw(stream, crc, src, plan, lim) }, SpinCPU, SpinWall)
	if !returned {
		return ReadResult{Spun: spun, Abandoned: !spun}
	}
	return r
}

func decompressRaw(stream []byte, crc bool, src Source, plan ReadPlan, lim Limits) (res ReadResult) {
	stage := "NewReader"
	defer func() {
		if r := recover(); r != nil {
			v := vrt.PanicViolation(r, debug.Stack())
			res.Panic = &v
			res.PanicIn = stage
		}
	}()
	if lim.MaxZeroReads == 0 {
		lim.MaxZeroReads = 1000
	}
	rd, err := lzhuf.NewReader(src.Open(stream), crc)
	if err != nil {
		res.NewErr = err
		return res
	}
	if rd == nil {
		res.NewErr = errors.New("NewReader returned (nil, nil)")
		return res
	}
	stage = "Read"
	size := plan.Sizer()
	var buf []byte
	zero := 0
	keep := func(p []byte) {
		if lim.Keep == 0 {
			res.Out = append(res.Out, p...)
		} else if room := lim.Keep - len(res.Out); room > 0 {
			res.Out = append(res.Out, p[:min(room, len(p))]...)
		}
	}
	for {
		if lim.StopAfter >= 0 && res.Total >= lim.StopAfter {
			res.Stopped = true
			break
		}
		k := size()
		if lim.StopAfter >= 0 {
			k = int(min(int64(k), lim.StopAfter-res.Total))
		}
		if cap(buf) < k {
			buf = make([]byte, k)
		}
		p := buf[:k]
		n, err := rd.Read(p)
		res.Reads++
		if n < 0 || n > len(p) {
			res.BadCount = fmt.Sprintf("Read(len %d) returned n=%d", len(p), n)
			break
		}
		res.Total += int64(n)
		keep(p[:n])
		if err != nil {
			res.ReadErr = err
			break
		}
		if n == 0 {
			zero++
			if zero >= lim.MaxZeroReads {
				res.NoProgress = true
				break
			}
		} else {
			zero = 0
		}
		if lim.MaxReads > 0 && res.Reads > lim.MaxReads {
			res.TooMany = true
			break
		}
		if lim.MaxBytes > 0 && res.Total > lim.MaxBytes {
			res.Runaway = true
			break
		}
	}
	if res.ReadErr != nil {
		for i := 0; i < lim.ExtraReads; i++ {
			p := make([]byte, 64)
			n, err := rd.Read(p)
			if n < 0 || n > len(p) {
				res.BadCount = fmt.Sprintf("Read(len %d) returned n=%d", len(p), n)
				break
			}
			res.Total += int64(n)
			res.ExtraBytes += int64(n)
			keep(p[:n])
			if n == 0 && err == nil {
				res.ExtraNilErr++
			}
		}
	}
	stage = "Close"
	res.CloseErr = rd.Close()
	res.Closed = true
	return res
}

// Hex renders at most n bytes of b for violation details.
func Hex(b []byte, n int) string {
	if len(b) <= n {
		return fmt.Sprintf("%x", b)
	}
	return fmt.Sprintf("%x...(%d bytes in total)", b[:n], len(b))
}
