// Package lzwork holds what the three LZHUF checks (C06, C07, C08) share: the deterministic input
// families, write partitions, read-buffer plans, hostile source readers and the drivers that run
// the real github.com/la5nta/wl2k-go/lzhuf Writer/Reader under them. It contains no oracle: the
// verdicts are formed in the check packages (identity, and verif/internal/ref/lzref).
package lzwork

import (
	"fmt"
	"math/rand"
	"sort"
	"strings"

	"verif/internal/ref/lzref"
	"verif/internal/vrt"
)

// ---------------------------------------------------------------------------------------------
// exhaustive short strings

// Pow returns k^n.
func Pow(k, n int) uint64 {
	r := uint64(1)
	for i := 0; i < n; i++ {
		r *= uint64(k)
	}
	return r
}

// ShortString returns string number idx (0 <= idx < k^n) of length n over alpha (k = len(alpha)).
func ShortString(alpha []byte, n int, idx uint64) []byte {
	s := make([]byte, n)
	k := uint64(len(alpha))
	for i := n - 1; i >= 0; i-- {
		s[i] = alpha[idx%k]
		idx /= k
	}
	return s
}

// Range is a slice [Lo,Hi) of the k^Len strings of one length over one alphabet.
type Range struct {
	Alpha string `json:"alpha"`
	Len   int    `json:"len"`
	Lo    uint64 `json:"lo"`
	Hi    uint64 `json:"hi"`
	// Prefix is put in front of every string (used to move the exhaustive tail across the
	// 60-byte look-ahead boundary).
	Prefix string `json:"prefix,omitempty"`
}

// ShortRanges enumerates all strings over alpha with lengths 0..maxLen in batches of at most batch.
func ShortRanges(alpha string, maxLen int, batch uint64, prefix string) []Range {
	var out []Range
	for n := 0; n <= maxLen; n++ {
		total := Pow(len(alpha), n)
		for lo := uint64(0); lo < total; lo += batch {
			out = append(out, Range{Alpha: alpha, Len: n, Lo: lo, Hi: min(lo+batch, total), Prefix: prefix})
		}
	}
	return out
}

// Each calls f for every string of the range (the slice is reused between calls).
func (r Range) Each(f func(idx uint64, s []byte)) {
	alpha := []byte(r.Alpha)
	for idx := r.Lo; idx < r.Hi; idx++ {
		s := ShortString(alpha, r.Len, idx)
		if r.Prefix != "" {
			s = append([]byte(r.Prefix), s...)
		}
		f(idx, s)
	}
}

// ---------------------------------------------------------------------------------------------
// generated long families

// Spec names one generated input; Bytes() is a pure function of it.
type Spec struct {
	Fam  string `json:"fam"`
	Size int    `json:"size"`
	P    int    `json:"p,omitempty"` // family parameter: period, alphabet size, max run length, ...
	Seed int64  `json:"seed"`
}

func (s Spec) String() string {
	return fmt.Sprintf("%s/size=%d/p=%d/seed=%d", s.Fam, s.Size, s.P, s.Seed)
}

var goldenText []byte

func text() []byte {
	if goldenText == nil {
		goldenText = lzref.Golden()["Mark.Twain-Tom.Sawyer.txt"]
	}
	return goldenText
}

// Bytes materialises the input.
func (s Spec) Bytes() []byte {
	r := vrt.Rand(s.Seed, "lzwork", s.Fam, s.Size, s.P)
	n := s.Size
	out := make([]byte, 0, n)
	switch s.Fam {
	case "random": // incompressible: only literals (n > 33k: several adaptive-tree rebuilds)
		return vrt.Bytes(r, n)
	case "alpha": // uniform over an alphabet of P letters (literals and short matches in every mixture)
		p := min(max(s.P, 2), 256)
		syms := r.Perm(256)[:p]
		for len(out) < n {
			out = append(out, byte(syms[r.Intn(p)]))
		}
	case "align":
		// A repeat of L bytes placed at a chosen offset relative to the ring buffer, whose two
		// occurrences are followed by different bytes: Size = offset of the first occurrence,
		// P = L + 256*variant (which bytes follow). The compressor must find a match of exactly L.
		l, variant := s.P&0xff, s.P>>8
		tails := [][2]byte{{0xEE, 0x00}, {0x00, 0xEE}, {0xEE, ' '}, {' ', 0xEE}}[variant%4]
		a := vrt.Bytes(r, l)
		out = append(out, vrt.Bytes(r, n)...)
		out = append(out, a...)
		out = append(out, tails[0])
		out = append(out, vrt.Bytes(r, 100)...)
		out = append(out, a...)
		out = append(out, tails[1])
		out = append(out, vrt.Bytes(r, 7)...)
		return out
	case "alignrun":
		// ordinary text of Size bytes, then a run of P equal bytes (distance-1 matches), then text again:
		// the run starts, and its matches end, at a chosen offset relative to the ring buffer
		out = append(out, Spec{Fam: "text", Size: n, Seed: s.Seed}.Bytes()...)
		for k := 0; k < s.P; k++ {
			out = append(out, '-')
		}
		out = append(out, " end of the ruler line\r\n"...)
		return out
	case "lowent": // P symbols with a geometric distribution
		p := max(s.P, 2)
		syms := vrt.Bytes(r, p)
		if r.Intn(2) == 0 {
			syms[0] = ' '
		}
		for len(out) < n {
			i := 0
			for i < p-1 && r.Intn(2) == 0 {
				i++
			}
			out = append(out, syms[i])
		}
	case "onebyte": // one symbol: every match has the maximal length 60
		b := byte(s.P)
		for len(out) < n {
			out = append(out, b)
		}
	case "runs": // runs of 1..P equal bytes (P > 60: full-length matches followed by a rest)
		p := max(s.P, 1)
		for len(out) < n {
			b := byte(r.Intn(256))
			if r.Intn(4) == 0 {
				b = ' '
			}
			for k := 1 + r.Intn(p); k > 0 && len(out) < n; k-- {
				out = append(out, b)
			}
		}
	case "period": // a random block of P bytes repeated (window wrap at 2048, far matches)
		p := max(s.P, 1)
		blk := vrt.Bytes(r, p)
		for len(out) < n {
			out = append(out, blk[:min(p, n-len(out))]...)
		}
	case "dict": // words of 3..8 letters from a dictionary of P words: very many short matches
		p := max(s.P, 2)
		words := make([][]byte, p)
		for i := range words {
			w := make([]byte, 3+r.Intn(6))
			for j := range w {
				w[j] = "abcdefghijklmnop"[r.Intn(16)]
			}
			words[i] = w
		}
		for len(out) < n {
			w := words[r.Intn(p)]
			out = append(out, w[:min(len(w), n-len(out))]...)
		}
	case "text": // a slice of real English text
		t := text()
		if n >= len(t) {
			n = len(t)
		}
		off := 0
		if len(t) > n {
			off = r.Intn(len(t) - n)
		}
		return append(out, t[off:off+n]...)
	case "spaces": // P leading spaces (the window is pre-filled with spaces), then space-rich text
		for len(out) < min(s.P, n) {
			out = append(out, ' ')
		}
		for len(out) < n {
			out = append(out, " ab  c"[r.Intn(6)])
		}
	case "golden": // file number P of the golden corpus (sorted by name), whole
		return append(out, GoldenPlain()[s.P%len(GoldenPlain())].Data...)
	case "mixed": // segments of all the shapes above
		fams := []string{"random", "lowent", "onebyte", "runs", "period", "dict", "text", "spaces"}
		for len(out) < n {
			seg := Spec{Fam: vrt.Pick(r, fams), Size: min(1+r.Intn(3000), n-len(out)), Seed: r.Int63()}
			switch seg.Fam {
			case "lowent":
				seg.P = 2 + r.Intn(6)
			case "onebyte":
				seg.P = r.Intn(256)
			case "runs":
				seg.P = 1 + r.Intn(200)
			case "period":
				seg.P = 1 + r.Intn(2100)
			case "dict":
				seg.P = 8 + r.Intn(200)
			case "spaces":
				seg.P = r.Intn(100)
			}
			out = append(out, seg.Bytes()...)
		}
	default:
		panic("lzwork: unknown family " + s.Fam)
	}
	return out
}

// GoldenFile is one pair of the repository's golden corpus (embedded copy in lzref).
type GoldenFile struct {
	Name string
	Data []byte // plain file
	LZH  []byte // canonical B2 stream (produced by the original FBB/Winlink tool chain)
}

var goldenFiles []GoldenFile

// GoldenPlain returns the golden corpus sorted by name.
func GoldenPlain() []GoldenFile {
	if goldenFiles == nil {
		g := lzref.Golden()
		var names []string
		for n := range g {
			if !strings.HasSuffix(n, ".lzh") {
				names = append(names, n)
			}
		}
		sort.Strings(names)
		for _, n := range names {
			goldenFiles = append(goldenFiles, GoldenFile{Name: n, Data: g[n], LZH: g[n+".lzh"]})
		}
	}
	return goldenFiles
}

// Boundary sizes around the 60-byte look-ahead pre-fill and the 2048-byte window.
var edgeSizes = []int{0, 1, 2, 3, 4, 58, 59, 60, 61, 62, 63, 119, 120, 121, 122}

// FixedSpecs is the deterministic part of the long workload (both tiers; independent of the seed):
// one input per boundary named in the property.
func FixedSpecs() []Spec {
	var out []Spec
	// adaptive-tree rebuild (root frequency 0x8000 after ~32.4k symbols), one and several rebuilds
	out = append(out,
		Spec{Fam: "random", Size: 33000, Seed: 41},            // > 33k literals, one rebuild
		Spec{Fam: "random", Size: 70000, Seed: 42},            // three rebuilds
		Spec{Fam: "random", Size: 200000, Seed: 43},           // many rebuilds
		Spec{Fam: "dict", Size: 200000, P: 64, Seed: 44},      // > 33k matches
		Spec{Fam: "dict", Size: 400000, P: 300, Seed: 45},     // > 66k matches
		Spec{Fam: "lowent", Size: 100000, P: 3, Seed: 46},     // long matches, all far positions
		Spec{Fam: "onebyte", Size: 100000, P: 0, Seed: 47},    // only length-60 matches
		Spec{Fam: "onebyte", Size: 2100000, P: ' ', Seed: 48}, // > 33k matches of length 60
		Spec{Fam: "runs", Size: 60000, P: 200, Seed: 49},
		Spec{Fam: "text", Size: 400000, Seed: 50},
		Spec{Fam: "mixed", Size: 150000, Seed: 51},
		Spec{Fam: "mixed", Size: 400000, Seed: 52},
	)
	for _, n := range edgeSizes {
		out = append(out,
			Spec{Fam: "random", Size: n, Seed: 11},
			Spec{Fam: "onebyte", Size: n, P: ' ', Seed: 12},
			Spec{Fam: "onebyte", Size: n, P: 'a', Seed: 13},
			Spec{Fam: "lowent", Size: n, P: 2, Seed: 14},
			Spec{Fam: "text", Size: n, Seed: 15},
			Spec{Fam: "spaces", Size: n, P: 30, Seed: 16})
	}
	// periods around the look-ahead, the window (2048), window minus look-ahead (1988) and beyond
	// the window (no match may reach that far; a codec with a larger window would use them)
	for _, p := range []int{1, 2, 3, 59, 60, 61, 62, 1987, 1988, 1989, 2046, 2047, 2048, 2049, 2050, 2100, 3000, 4095, 4096, 4097} {
		out = append(out, Spec{Fam: "period", Size: 2*p + 100, P: p, Seed: 21}, Spec{Fam: "period", Size: 5*p + 7, P: p, Seed: 22})
	}
	// window wrap: sizes around multiples of 2048
	for _, n := range []int{2047, 2048, 2049, 4095, 4096, 4097, 6144} {
		out = append(out, Spec{Fam: "text", Size: n, Seed: 31}, Spec{Fam: "random", Size: n, Seed: 32}, Spec{Fam: "dict", Size: n, P: 40, Seed: 33})
	}
	for i := range GoldenPlain() {
		out = append(out, Spec{Fam: "golden", P: i, Size: len(GoldenPlain()[i].Data), Seed: 60})
	}
	return out
}

// RandomSpec draws one input description.
func RandomSpec(r *rand.Rand) Spec {
	s := Spec{Seed: r.Int63()}
	s.Fam = vrt.Pick(r, []string{"random", "lowent", "lowent", "onebyte", "runs", "runs", "period", "period", "dict", "dict", "text", "text", "spaces", "mixed", "mixed"})
	switch x := r.Intn(100); {
	case x < 10:
		s.Size = vrt.Pick(r, edgeSizes)
	case x < 50:
		s.Size = r.Intn(400)
	case x < 80:
		s.Size = r.Intn(6000)
	case x < 96:
		s.Size = r.Intn(70000)
	default:
		s.Size = 70000 + r.Intn(330000)
	}
	switch s.Fam {
	case "lowent":
		s.P = 2 + r.Intn(7)
	case "onebyte":
		s.P = vrt.Pick(r, []int{' ', 'a', 0, 255, r.Intn(256)})
	case "runs":
		s.P = vrt.Pick(r, []int{2, 10, 59, 60, 61, 62, 120, 300})
	case "period":
		s.P = vrt.Pick(r, []int{1, 2, 3, 4, 7, 59, 60, 61, 100, 1000, 1988, 2047, 2048, 2049, 1 + r.Intn(5000)})
	case "dict":
		s.P = vrt.Pick(r, []int{4, 16, 64, 256, 1000})
	case "spaces":
		s.P = r.Intn(130)
	}
	return s
}

// RebuildSpecs returns n inputs that each take the adaptive Huffman tree through at least one
// rebuild (more than ~32.4k symbols) with many different symbol neighbourhoods at the moment of the
// rebuild: uniform text over alphabets of 3..256 letters, 50-140 kB. What happens right at a rebuild
// (which symbol triggers it, which one follows, whether codes change) differs from input to input, so
// this family is about volume: a codec fault tied to the rebuild moment shows in a few percent of them.
func RebuildSpecs(seed int64, n int) []Spec {
	r := vrt.Rand(seed, "lzwork-rebuild")
	out := make([]Spec, n)
	for i := range out {
		out[i] = Spec{Fam: "alpha", Size: 50000 + r.Intn(90000), P: vrt.Pick(r, []int{3, 4, 6, 8, 12, 16, 16, 16, 24, 32, 64, 128, 256}), Seed: r.Int63()}
		if out[i].P <= 6 {
			out[i].Size *= 3 // long matches: more bytes per symbol
		}
	}
	return out
}

// AlignSpecs sweeps a long repeat over every alignment relative to the 2048-byte ring buffer (and
// its mirrored first 59 bytes): first-occurrence offsets 0..2047+130, repeat lengths 59 (one short of
// the look-ahead: the 60th byte decides) always, 3 and 60 for every seventh offset (all when full).
func AlignSpecs(full bool) []Spec {
	var out []Spec
	for off := 0; off < 2048+130; off++ {
		for v := 0; v < 4; v++ {
			if full || v < 2 || off%3 == 0 {
				out = append(out, Spec{Fam: "align", Size: off, P: 59 + 256*v, Seed: int64(off)})
			}
		}
		out = append(out, Spec{Fam: "alignrun", Size: off, P: 130, Seed: int64(off % 97)})
		if full || off%5 == 0 {
			out = append(out, Spec{Fam: "alignrun", Size: off, P: 61 + off%200, Seed: int64(off % 89)})
		}
		if full || off%7 == 0 {
			out = append(out, Spec{Fam: "align", Size: off, P: 3 + 256*(off%4), Seed: int64(off)}, Spec{Fam: "align", Size: off, P: 60 + 256*(off%4), Seed: int64(off)},
				Spec{Fam: "align", Size: off, P: 58 + 256*(off%4), Seed: int64(off)})
		}
	}
	return out
}

// LongChunks cuts the index range of LongSpecs(seed, n) into batches [lo,hi): the 12 big inputs at
// the front two by two, the other fixed ones in sixes, the PRNG ones in tens.
func LongChunks(n int) [][2]int {
	nFixed := len(FixedSpecs())
	total := nFixed + n
	var out [][2]int
	for lo := 0; lo < total; {
		step, lim := 10, total
		switch {
		case lo < 12:
			step, lim = 2, 12
		case lo < nFixed:
			step, lim = 6, nFixed
		}
		hi := min(lo+step, lim)
		out = append(out, [2]int{lo, hi})
		lo = hi
	}
	return out
}

// LongSpecs returns the fixed specs followed by n PRNG-drawn ones.
func LongSpecs(seed int64, n int) []Spec {
	out := FixedSpecs()
	r := vrt.Rand(seed, "lzwork-long")
	for i := 0; i < n; i++ {
		out = append(out, RandomSpec(r))
	}
	return out
}

// ---------------------------------------------------------------------------------------------
// write partitions

// CutPartitions calls f with every partition of n bytes whose boundaries are a subset of cuts
// (positions 1..n-1, ascending): 2^len(cuts) partitions. The slice passed to f is reused.
func CutPartitions(n int, cuts []int, f func(parts []int)) {
	parts := make([]int, 0, len(cuts)+1)
	for mask := uint64(0); mask < 1<<len(cuts); mask++ {
		parts = parts[:0]
		prev := 0
		for i, c := range cuts {
			if mask>>i&1 == 1 {
				parts = append(parts, c-prev)
				prev = c
			}
		}
		f(append(parts, n-prev))
	}
}

// PartitionKinds are the named write partitions used for long inputs.
var PartitionKinds = []string{"bytewise", "cut59", "cut60", "cut61", "prng-small", "prng-large", "prng-mixed", "with-empty-writes"}

// Partition returns the write sizes of one named partition of n bytes. Sizes may be 0 (an empty
// Write is a legal call). The sum is always n.
func Partition(kind string, n int, r *rand.Rand) []int {
	var parts []int
	rest := n
	take := func(k int) {
		k = min(k, rest)
		parts = append(parts, k)
		rest -= k
	}
	switch kind {
	case "whole":
		take(n)
	case "bytewise":
		for rest > 0 {
			take(1)
		}
	case "cut59", "cut60", "cut61": // first write ends just before / at / after the look-ahead fill
		take(map[string]int{"cut59": 59, "cut60": 60, "cut61": 61}[kind])
		for rest > 0 {
			take(1 + r.Intn(130))
		}
	case "prng-small":
		for rest > 0 {
			take(1 + r.Intn(7))
		}
	case "prng-large":
		for rest > 0 {
			take(1 + r.Intn(9000))
		}
	case "prng-mixed":
		for rest > 0 {
			take(vrt.Pick(r, []int{1, 1, 2, 3, 59, 60, 61, 62, 2047, 2048, 2049, 1 + r.Intn(300)}))
		}
	case "with-empty-writes":
		take(0)
		for rest > 0 {
			if r.Intn(3) == 0 {
				take(0)
			}
			take(1 + r.Intn(100))
		}
		parts = append(parts, 0)
	default:
		panic("lzwork: unknown partition " + kind)
	}
	if len(parts) == 0 {
		parts = []int{0}
	}
	return parts
}

// ---------------------------------------------------------------------------------------------
// read-buffer plans

// ReadPlan decides the buffer length passed to each Reader.Read call.
type ReadPlan struct {
	Kind string `json:"kind"` // fixed | prng | prng-small | copy | head-copy
	K    int    `json:"k,omitempty"`
	Seed int64  `json:"seed,omitempty"`
}

func (p ReadPlan) String() string {
	if p.Kind == "fixed" {
		return fmt.Sprintf("fixed%d", p.K)
	}
	return p.Kind
}

// CopyStyle: the plan takes (part of) the stream through io.Copy instead of Read calls of its own:
// "copy" from the first byte, "head-copy" after a PRNG number of bytes taken with Read calls (directly or
// through a bufio.Reader that has read a line). The buffer sizes of the Read calls are those of "prng".
func (p ReadPlan) CopyStyle() bool { return p.Kind == "copy" || p.Kind == "head-copy" }

// FixedBufs are the buffer sizes named in the properties.
var FixedBufs = []int{1, 2, 3, 7, 59, 60, 61, 4096}

// Sizer returns the function giving the next buffer length.
func (p ReadPlan) Sizer() func() int {
	switch p.Kind {
	case "fixed":
		k := max(p.K, 1)
		return func() int { return k }
	case "prng": // mixes 1-byte reads, look-ahead-sized reads and large reads
		r := vrt.Rand(p.Seed, "readplan")
		return func() int {
			return vrt.Pick(r, []int{1, 1, 2, 3, 5, 58, 59, 60, 61, 62, 100, 512, 4096, 1 + r.Intn(200)})
		}
	case "prng-small":
		r := vrt.Rand(p.Seed, "readplan-small")
		return func() int { return 1 + r.Intn(5) }
	}
	panic("lzwork: unknown read plan " + p.Kind)
}

// PickReadPlan rotates through the fixed buffer sizes, the two PRNG plans and the two copy-style plans.
func PickReadPlan(i uint64, seed int64) ReadPlan {
	n := uint64(len(FixedBufs) + 4)
	switch j := i % n; {
	case j < uint64(len(FixedBufs)):
		return ReadPlan{Kind: "fixed", K: FixedBufs[j]}
	case j == uint64(len(FixedBufs)):
		return ReadPlan{Kind: "prng", Seed: seed + int64(i)}
	case j == uint64(len(FixedBufs))+1:
		return ReadPlan{Kind: "copy", Seed: seed + int64(i)}
	case j == uint64(len(FixedBufs))+2:
		return ReadPlan{Kind: "head-copy", Seed: seed + int64(i)}
	default:
		return ReadPlan{Kind: "prng-small", Seed: seed + int64(i)}
	}
}

// LeadWithOneOfEach moves the first case of every kind to the front of the plan (the evidence file
// shows the samples of the first few cases, which should not all be of one kind). The order of the
// remaining cases is kept.
func LeadWithOneOfEach(cs []vrt.Case, kind func(vrt.Case) string) []vrt.Case {
	seen := map[string]bool{}
	var lead, rest []vrt.Case
	for _, c := range cs {
		if k := kind(c); !seen[k] {
			seen[k] = true
			lead = append(lead, c)
		} else {
			rest = append(rest, c)
		}
	}
	return append(lead, rest...)
}
