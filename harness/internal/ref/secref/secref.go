// Package secref is an independent implementation of the Winlink secure-login response:
// MD5(challenge ‖ password ‖ salt); the first four digest bytes read as a little-endian integer,
// masked to 30 bits; printed in decimal, zero padded to at least 8 digits; the last 8 digits.
// The salt is the fixed 64-byte Winlink constant (published in paclink-unix); it is a trusted copy.
package secref

import (
	"crypto/md5"
	"encoding/binary"
	"errors"
	"strconv"
	"strings"
)

var salt = [64]byte{
	0x4d, 0xc5, 0x65, 0xce, 0xbe, 0xf9, 0x5d, 0xc8, 0x33, 0xf3, 0x5d, 0xed, 0x47, 0x5e, 0xef, 0x8a,
	0x44, 0x6c, 0x46, 0xb9, 0xe1, 0x89, 0xd9, 0x10, 0x33, 0x7a, 0xc1, 0x30, 0xc2, 0xc3, 0xc6, 0xaf,
	0xac, 0xa9, 0x46, 0x54, 0x3d, 0x3e, 0x68, 0xba, 0x72, 0x34, 0x3d, 0xa8, 0x42, 0x81, 0xc0, 0xd0,
	0xbb, 0xf9, 0xe8, 0xc1, 0x29, 0x71, 0x29, 0x2d, 0xf0, 0x10, 0x1d, 0xe4, 0xd0, 0xe4, 0x3d, 0x14,
}

// Response computes the 8-digit answer to a ;PQ challenge.
func Response(challenge, password string) string {
	h := md5.New()
	h.Write([]byte(challenge))
	h.Write([]byte(password))
	h.Write(salt[:])
	d := h.Sum(nil)
	v := binary.LittleEndian.Uint32(d[:4]) & 0x3fffffff
	s := strconv.FormatUint(uint64(v), 10)
	if len(s) < 8 {
		s = strings.Repeat("0", 8-len(s)) + s
	}
	return s[len(s)-8:]
}

// SelfTest checks the implementation against the publicly known vector.
func SelfTest() error {
	if got := Response("23753528", "FOOBAR"); got != "72768415" {
		return errors.New("secure login reference: vector (23753528, FOOBAR) gives " + got + ", want 72768415")
	}
	if got := Response("23753528", "FooBar"); got != "95074758" {
		return errors.New("secure login reference: vector (23753528, FooBar) gives " + got + ", want 95074758")
	}
	return nil
}
