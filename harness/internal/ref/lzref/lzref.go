// Independent port of the classic LZHUF.C (Yoshizaki/Okumura 1988) with the
// FBB parameters (N=2048, F=60, THRESHOLD=2). Written from the C original's
// structure; shares no code with /repo/lzhuf.
package lzref

import (
	"bytes"
	"encoding/binary"
	"errors"
)

const (
	rN       = 2048
	rF       = 60
	rThresh  = 2
	rNIL     = rN
	rNChar   = 256 - rThresh + rF
	rT       = rNChar*2 - 1
	rR       = rT - 1
	rMaxFreq = 0x8000
)

// position code: canonical prefix code with these many codes per length
var posLenCount = [][2]int{{3, 1}, {4, 3}, {5, 8}, {6, 12}, {7, 24}, {8, 16}}

var (
	pLenT  [64]int
	pCodeT [64]int // left aligned in 8 bits
	dCodeT [256]int
	dLenT  [256]int
)

func init() {
	i := 0
	code := 0
	prevLen := 0
	for _, lc := range posLenCount {
		l, cnt := lc[0], lc[1]
		for k := 0; k < cnt; k++ {
			if prevLen != 0 {
				code = (code + 1) << (l - prevLen)
			}
			prevLen = l
			pLenT[i] = l
			pCodeT[i] = code << (8 - l)
			i++
		}
	}
	if i != 64 {
		panic("pos table")
	}
	for s := 0; s < 64; s++ {
		span := 1 << (8 - pLenT[s])
		for k := 0; k < span; k++ {
			dCodeT[pCodeT[s]+k] = s
			dLenT[pCodeT[s]+k] = pLenT[s]
		}
	}
}

type huff struct {
	freq     [rT + 1]int
	prnt     [rT + rNChar]int
	son      [rT]int
	rebuilds int // number of reconst() calls (observability only)
}

func (h *huff) start() {
	for i := 0; i < rNChar; i++ {
		h.freq[i] = 1
		h.son[i] = i + rT
		h.prnt[i+rT] = i
	}
	i, j := 0, rNChar
	for j <= rR {
		h.freq[j] = h.freq[i] + h.freq[i+1]
		h.son[j] = i
		h.prnt[i] = j
		h.prnt[i+1] = j
		i += 2
		j++
	}
	h.freq[rT] = 0xffff
	h.prnt[rR] = 0
}

func (h *huff) reconst() {
	h.rebuilds++
	j := 0
	for i := 0; i < rT; i++ {
		if h.son[i] >= rT {
			h.freq[j] = (h.freq[i] + 1) / 2
			h.son[j] = h.son[i]
			j++
		}
	}
	for i, j := 0, rNChar; j < rT; i, j = i+2, j+1 {
		k := i + 1
		f := h.freq[i] + h.freq[k]
		h.freq[j] = f
		for k = j - 1; f < h.freq[k]; k-- {
		}
		k++
		for m := j; m > k; m-- {
			h.freq[m] = h.freq[m-1]
			h.son[m] = h.son[m-1]
		}
		h.freq[k] = f
		h.son[k] = i
	}
	for i := 0; i < rT; i++ {
		k := h.son[i]
		if k >= rT {
			h.prnt[k] = i
		} else {
			h.prnt[k] = i
			h.prnt[k+1] = i
		}
	}
}

func (h *huff) update(c int) {
	if h.freq[rR] == rMaxFreq {
		h.reconst()
	}
	c = h.prnt[c+rT]
	for {
		h.freq[c]++
		k := h.freq[c]
		l := c + 1
		if k > h.freq[l] {
			for l++; k > h.freq[l]; l++ {
			}
			l--
			h.freq[c] = h.freq[l]
			h.freq[l] = k
			i := h.son[c]
			h.prnt[i] = l
			if i < rT {
				h.prnt[i+1] = l
			}
			j := h.son[l]
			h.son[l] = i
			h.prnt[j] = c
			if j < rT {
				h.prnt[j+1] = c
			}
			h.son[c] = j
			c = l
		}
		c = h.prnt[c]
		if c == 0 {
			break
		}
	}
}

// ---------------- decoder ----------------

var ErrTrunc = errors.New("lzref: truncated")
var ErrOverrun = errors.New("lzref: match overruns declared size")
var ErrSize = errors.New("lzref: bad size")

type bitIn struct {
	b    []byte
	pos  int
	buf  uint32
	n    uint
	over bool
}

func (b *bitIn) bit() int {
	if b.n == 0 {
		if b.pos >= len(b.b) {
			b.over = true
			return 0
		}
		b.buf = uint32(b.b[b.pos])
		b.pos++
		b.n = 8
	}
	b.n--
	return int((b.buf >> b.n) & 1)
}

func (b *bitIn) byte8() int {
	v := 0
	for i := 0; i < 8; i++ {
		v = v<<1 | b.bit()
	}
	return v
}

// Stats describes what a decode run exercised (filled by DecodeStats). It is evidence about the
// workload, never part of a verdict.
type Stats struct {
	Literals int         // literal symbols decoded
	Matches  int         // match symbols decoded
	PosHi    [64]int     // matches per upper-6-bit position code
	Len      [rF + 1]int // matches per match length (3..60)
	Rebuilds int         // adaptive-tree rebuilds (root frequency reached 0x8000)
	LastLen  int         // length of the last symbol decoded (1 for a literal)
	// Undefined counts bytes that a match copied from a window position which neither the space
	// pre-fill (positions 0..N-F-1) nor the decoded data has written yet (positions N-F..N-1 during
	// the first F output bytes). LZHUF.C leaves that region uninitialised, so the format does not
	// define what such a stream decodes to; this decoder yields zero bytes there.
	Undefined int
	// UndefMask[i] is true when output byte i is (a copy of a copy of ...) such an undefined window
	// byte: its value is not determined by the stream. All other output bytes are.
	UndefMask []bool
}

// Decode decodes a raw LZHUF stream (4 byte LE size + data). It returns the
// decoded bytes, the number of input bytes consumed, and an error when the
// stream is not a complete, exact encoding.
func Decode(in []byte) (out []byte, consumed int, err error) {
	return decode(in, nil)
}

// DecodeStats is Decode plus a description of the symbols that were decoded.
func DecodeStats(in []byte) (out []byte, consumed int, st Stats, err error) {
	out, consumed, err = decode(in, &st)
	return
}

func decode(in []byte, st *Stats) (out []byte, consumed int, err error) {
	if len(in) < 4 {
		return nil, 0, ErrTrunc
	}
	size := int32(binary.LittleEndian.Uint32(in))
	if size < 0 {
		return nil, 4, ErrSize
	}
	var h huff
	h.start()
	var text [rN]byte
	for i := 0; i < rN-rF; i++ {
		text[i] = ' '
	}
	r := rN - rF
	var undef [rN]bool // window positions whose content the format does not define (yet)
	for i := rN - rF; i < rN; i++ {
		undef[i] = true
	}
	bi := &bitIn{b: in[4:]}
	// never allocate by the declared size alone: the output is bounded by what the input bits can
	// encode (one symbol of at most rF bytes per bit)
	out = make([]byte, 0, minInt(int(size), 64<<10))
	if st != nil {
		defer func() { st.Rebuilds = h.rebuilds }()
	}
	for len(out) < int(size) {
		c := h.son[rR]
		for c < rT {
			c += bi.bit()
			c = h.son[c]
		}
		if bi.over {
			return out, 4 + bi.pos, ErrTrunc
		}
		c -= rT
		h.update(c)
		if c < 256 {
			out = append(out, byte(c))
			text[r] = byte(c)
			undef[r] = false
			r = (r + 1) & (rN - 1)
			if st != nil {
				st.Literals++
				st.LastLen = 1
				st.UndefMask = append(st.UndefMask, false)
			}
			continue
		}
		i := bi.byte8()
		pc := dCodeT[i] << 6
		for j := dLenT[i] - 2; j > 0; j-- {
			i = i<<1 + bi.bit()
		}
		if bi.over {
			return out, 4 + bi.pos, ErrTrunc
		}
		pos := pc | (i & 0x3f)
		src := (r - pos - 1) & (rN - 1)
		l := c - 255 + rThresh
		if st != nil {
			st.Matches++
			st.PosHi[pos>>6]++
			st.Len[l]++
			st.LastLen = l
		}
		if len(out)+l > int(size) {
			return out, 4 + bi.pos, ErrOverrun
		}
		for k := 0; k < l; k++ {
			idx := (src + k) & (rN - 1)
			if st != nil && idx >= rN-rF && len(out) <= idx-(rN-rF) {
				st.Undefined++
			}
			ch := text[idx]
			out = append(out, ch)
			text[r] = ch
			undef[r] = undef[idx]
			if st != nil {
				st.UndefMask = append(st.UndefMask, undef[idx])
			}
			r = (r + 1) & (rN - 1)
		}
	}
	return out, 4 + bi.pos, nil
}

func minInt(a, b int) int {
	if a < b {
		return a
	}
	return b
}

// ---------------- encoder ----------------

type enc struct {
	h                  huff
	text               [rN + rF - 1]byte
	lson, dad          [rN + 1]int
	rson               [rN + 257]int
	matchPos, matchLen int
	out                bytes.Buffer
	putbuf             uint32
	putlen             uint
}

func (e *enc) initTree() {
	for i := rN + 1; i <= rN+256; i++ {
		e.rson[i] = rNIL
	}
	for i := 0; i < rN; i++ {
		e.dad[i] = rNIL
	}
}

func (e *enc) insert(r int) {
	cmp := 1
	key := e.text[r:]
	p := rN + 1 + int(key[0])
	e.rson[r], e.lson[r] = rNIL, rNIL
	e.matchLen = 0
	for {
		if cmp >= 0 {
			if e.rson[p] != rNIL {
				p = e.rson[p]
			} else {
				e.rson[p] = r
				e.dad[r] = p
				return
			}
		} else {
			if e.lson[p] != rNIL {
				p = e.lson[p]
			} else {
				e.lson[p] = r
				e.dad[r] = p
				return
			}
		}
		i := 1
		for ; i < rF; i++ {
			cmp = int(key[i]) - int(e.text[p+i])
			if cmp != 0 {
				break
			}
		}
		if i > rThresh {
			if i > e.matchLen {
				e.matchPos = ((r - p) & (rN - 1)) - 1
				e.matchLen = i
				if i >= rF {
					break
				}
			}
			if i == e.matchLen {
				if c := ((r - p) & (rN - 1)) - 1; c < e.matchPos {
					e.matchPos = c
				}
			}
		}
	}
	e.dad[r] = e.dad[p]
	e.lson[r] = e.lson[p]
	e.rson[r] = e.rson[p]
	e.dad[e.lson[p]] = r
	e.dad[e.rson[p]] = r
	if e.rson[e.dad[p]] == p {
		e.rson[e.dad[p]] = r
	} else {
		e.lson[e.dad[p]] = r
	}
	e.dad[p] = rNIL
}

func (e *enc) delete(p int) {
	if e.dad[p] == rNIL {
		return
	}
	var q int
	if e.rson[p] == rNIL {
		q = e.lson[p]
	} else if e.lson[p] == rNIL {
		q = e.rson[p]
	} else {
		q = e.lson[p]
		if e.rson[q] != rNIL {
			for e.rson[q] != rNIL {
				q = e.rson[q]
			}
			e.rson[e.dad[q]] = e.lson[q]
			e.dad[e.lson[q]] = e.dad[q]
			e.lson[q] = e.lson[p]
			e.dad[e.lson[p]] = q
		}
		e.rson[q] = e.rson[p]
		e.dad[e.rson[p]] = q
	}
	e.dad[q] = e.dad[p]
	if e.rson[e.dad[p]] == p {
		e.rson[e.dad[p]] = q
	} else {
		e.lson[e.dad[p]] = q
	}
	e.dad[p] = rNIL
}

func (e *enc) putcode(l uint, c uint32) { // c is a 16 bit left aligned code
	e.putbuf |= c >> e.putlen
	e.putlen += l
	if e.putlen >= 8 {
		e.out.WriteByte(byte(e.putbuf >> 8))
		e.putlen -= 8
		if e.putlen >= 8 {
			e.out.WriteByte(byte(e.putbuf))
			e.putlen -= 8
			e.putbuf = (c << (l - e.putlen)) & 0xffff
		} else {
			e.putbuf = (e.putbuf << 8) & 0xffff
		}
	}
}

func (e *enc) encodeChar(c int) {
	var i uint32
	var j uint
	k := e.h.prnt[c+rT]
	for {
		i >>= 1
		if k&1 != 0 {
			i += 0x8000
		}
		j++
		k = e.h.prnt[k]
		if k == rR {
			break
		}
	}
	e.putcode(j, i)
	e.h.update(c)
}

func (e *enc) encodePos(c int) {
	i := c >> 6
	e.putcode(uint(pLenT[i]), uint32(pCodeT[i])<<8)
	e.putcode(6, uint32(c&0x3f)<<10)
}

// Encode produces the canonical raw LZHUF stream (4 byte LE size + data).
func Encode(in []byte) []byte {
	e := &enc{}
	var hdr [4]byte
	binary.LittleEndian.PutUint32(hdr[:], uint32(len(in)))
	e.out.Write(hdr[:])
	if len(in) == 0 {
		return e.out.Bytes()
	}
	e.h.start()
	e.initTree()
	s, r := 0, rN-rF
	for i := s; i < r; i++ {
		e.text[i] = ' '
	}
	rd := 0
	ln := 0
	for ; ln < rF && rd < len(in); ln++ {
		e.text[r+ln] = in[rd]
		rd++
	}
	for i := 1; i <= rF; i++ {
		e.insert(r - i)
	}
	e.insert(r)
	for {
		if e.matchLen > ln {
			e.matchLen = ln
		}
		if e.matchLen <= rThresh {
			e.matchLen = 1
			e.encodeChar(int(e.text[r]))
		} else {
			e.encodeChar(255 - rThresh + e.matchLen)
			e.encodePos(e.matchPos)
		}
		last := e.matchLen
		i := 0
		for ; i < last && rd < len(in); i++ {
			c := in[rd]
			rd++
			e.delete(s)
			e.text[s] = c
			if s < rF-1 {
				e.text[s+rN] = c
			}
			s = (s + 1) & (rN - 1)
			r = (r + 1) & (rN - 1)
			e.insert(r)
		}
		for ; i < last; i++ {
			e.delete(s)
			s = (s + 1) & (rN - 1)
			r = (r + 1) & (rN - 1)
			ln--
			if ln != 0 {
				e.insert(r)
			}
		}
		if ln <= 0 {
			break
		}
	}
	if e.putlen != 0 {
		e.out.WriteByte(byte(e.putbuf >> 8))
	}
	return e.out.Bytes()
}

// Sym is one LZHUF symbol for EncodeSyms: a literal (Len == 0) or a match of Len bytes (3..60)
// starting Pos+1 bytes behind the write position (Pos 0..2047).
type Sym struct {
	Lit byte
	Len int
	Pos int
}

// EncodeSyms writes a raw LZHUF stream (4 byte LE size + data) that carries exactly the given
// symbols, with the given value in the size field. It produces streams that are valid for the
// canonical decoder but that the canonical encoder would never choose (arbitrary match positions,
// overlaps, references into the space pre-fill), and hostile ones (sizes that disagree).
func EncodeSyms(size int32, syms []Sym) []byte {
	e := &enc{}
	var hdr [4]byte
	binary.LittleEndian.PutUint32(hdr[:], uint32(size))
	e.out.Write(hdr[:])
	e.h.start()
	for _, s := range syms {
		if s.Len == 0 {
			e.encodeChar(int(s.Lit))
			continue
		}
		if s.Len <= rThresh || s.Len > rF || s.Pos < 0 || s.Pos >= rN {
			panic("lzref: bad symbol")
		}
		e.encodeChar(255 - rThresh + s.Len)
		e.encodePos(s.Pos)
	}
	if e.putlen != 0 {
		e.out.WriteByte(byte(e.putbuf >> 8))
	}
	return e.out.Bytes()
}

// EncodeSymsB2 is EncodeSyms with the B2 checksum in front.
func EncodeSymsB2(size int32, syms []Sym) []byte {
	raw := EncodeSyms(size, syms)
	out := make([]byte, 2, 2+len(raw))
	binary.LittleEndian.PutUint16(out, CRC(raw))
	return append(out, raw...)
}

// CRC-16/XMODEM, bitwise (poly 0x1021, init 0, no reflection)
func CRC(p []byte) uint16 {
	var crc uint16
	for _, b := range p {
		crc ^= uint16(b) << 8
		for i := 0; i < 8; i++ {
			if crc&0x8000 != 0 {
				crc = crc<<1 ^ 0x1021
			} else {
				crc <<= 1
			}
		}
	}
	return crc
}

func EncodeB2(in []byte) []byte {
	raw := Encode(in)
	var out bytes.Buffer
	var c [2]byte
	binary.LittleEndian.PutUint16(c[:], CRC(raw))
	out.Write(c[:])
	out.Write(raw)
	return out.Bytes()
}
