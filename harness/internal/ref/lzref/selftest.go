package lzref

import (
	"bytes"
	"embed"
	"encoding/binary"
	"errors"
	"fmt"
	"strings"
)

//go:embed golden/*
var golden embed.FS

// ErrCRC is returned by DecodeB2 when the embedded CRC-16 does not match.
var ErrCRC = errors.New("lzref: CRC-16 mismatch")

// DecodeB2 decodes a B2 stream: LE CRC-16/XMODEM over (size‖data), LE int32 size, data.
// consumed counts bytes of in (including the 2 CRC bytes). The CRC is computed over everything
// after the first two bytes, as the format defines it; err is ErrCRC only if the LZHUF layer
// itself decoded exactly.
func DecodeB2(in []byte) (out []byte, consumed int, err error) {
	if len(in) < 6 {
		return nil, 0, ErrTrunc
	}
	out, used, err := Decode(in[2:])
	if err != nil {
		return out, used + 2, err
	}
	if binary.LittleEndian.Uint16(in) != CRC(in[2:]) {
		return out, used + 2, ErrCRC
	}
	return out, used + 2, nil
}

// SelfTest validates the reference codec against the golden files that pin the real format. It is
// run at setup and at the start of every check that uses the codec as an oracle; a failure means
// the oracle is broken (exit 2) and is never turned into a verdict about the library.
func SelfTest() error {
	if CRC([]byte("123456789")) != 0x31C3 {
		return errors.New("CRC-16/XMODEM check value mismatch")
	}
	ents, err := golden.ReadDir("golden")
	if err != nil {
		return err
	}
	n := 0
	for _, e := range ents {
		name := e.Name()
		if !strings.HasSuffix(name, ".lzh") {
			continue
		}
		gold, err1 := golden.ReadFile("golden/" + name)
		plain, err2 := golden.ReadFile("golden/" + strings.TrimSuffix(name, ".lzh"))
		if err1 != nil || err2 != nil {
			return fmt.Errorf("golden pair %s incomplete", name)
		}
		if !bytes.Equal(EncodeB2(plain), gold) {
			return fmt.Errorf("reference encoder does not reproduce %s", name)
		}
		dec, used, err := DecodeB2(gold)
		if err != nil || used != len(gold) || !bytes.Equal(dec, plain) {
			return fmt.Errorf("reference decoder fails on %s: used=%d/%d err=%v", name, used, len(gold), err)
		}
		n++
	}
	if n < 5 {
		return fmt.Errorf("only %d golden pairs embedded", n)
	}
	if b := EncodeB2(nil); len(b) != 6 {
		return errors.New("empty input must encode to 6 bytes")
	}
	// the symbol-level encoder must agree with the decoder, including overlapping matches and
	// references into the space pre-fill; reads of never-written window positions must be flagged
	syms := []Sym{{Lit: 'x'}, {Len: 5, Pos: 0}, {Len: 4, Pos: 100}, {Lit: 'y'}, {Len: 60, Pos: 1500}, {Len: 3, Pos: 6}}
	want := "xxxxxx" + "    " + "y" + strings.Repeat(" ", 60) + "   "
	dec, used, st, err := DecodeStats(EncodeSyms(int32(len(want)), syms))
	if err != nil || string(dec) != want || st.Undefined != 0 || st.Matches != 4 || st.Literals != 2 {
		return fmt.Errorf("symbol-level encoder/decoder disagree: %q used=%d err=%v stats=%+v", dec, used, err, st)
	}
	if _, _, st, err = DecodeStats(EncodeSyms(3, []Sym{{Len: 3, Pos: rN - 1}})); err != nil || st.Undefined != 3 {
		return fmt.Errorf("read of the unwritten window region not flagged: err=%v stats=%+v", err, st)
	}
	return nil
}

// Golden returns the embedded golden corpus (plain files and their canonical .lzh encodings).
func Golden() map[string][]byte {
	out := map[string][]byte{}
	ents, _ := golden.ReadDir("golden")
	for _, e := range ents {
		b, _ := golden.ReadFile("golden/" + e.Name())
		out[e.Name()] = b
	}
	return out
}
