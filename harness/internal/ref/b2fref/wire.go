// Package b2fref is an independently written B2F (FBB compressed forwarding v2, Winlink flavour)
// implementation used as an oracle: a strictly validating peer (master or slave) plus the wire
// encoders it is built from. It is written from docs/F6FBB-B2F/*.html and the Winlink message
// structure; it imports nothing from the library under test.
package b2fref

import (
	"bytes"
	"compress/gzip"
	"encoding/binary"
	"fmt"
	"io"
	"strconv"
	"strings"

	"verif/internal/ref/lzref"
)

const (
	SOH = 0x01
	STX = 0x02
	EOT = 0x04
)

// ProposalLine renders "F<code> <type> <mid> <usize> <csize> 0" (without CR).
func ProposalLine(code byte, typ, mid string, usize, csize int) string {
	return fmt.Sprintf("F%c %s %s %d %d 0", code, typ, mid, usize, csize)
}

// BlockChecksum is the checksum of a proposal block: two's complement of the byte sum of all
// proposal lines, each including its terminating CR.
func BlockChecksum(lines []string) byte {
	var sum int
	for _, l := range lines {
		for i := 0; i < len(l); i++ {
			sum += int(l[i])
		}
		sum += '\r'
	}
	return byte(-sum)
}

// Compress produces the B2 payload of a message: LZHUF with the 6-byte CRC/size header ('C'
// proposals) or gzip ('D' proposals).
func Compress(code byte, data []byte) []byte {
	if code == 'D' {
		var b bytes.Buffer
		z, _ := gzip.NewWriterLevel(&b, gzip.BestCompression)
		z.Write(data)
		z.Close()
		return b.Bytes()
	}
	return lzref.EncodeB2(data)
}

// Decompress is the inverse, with full verification (CRC-16, declared size, exact stream end).
func Decompress(code byte, payload []byte) ([]byte, error) {
	if code == 'D' {
		z, err := gzip.NewReader(bytes.NewReader(payload))
		if err != nil {
			return nil, err
		}
		out, err := io.ReadAll(z)
		if err != nil {
			return nil, err
		}
		return out, z.Close()
	}
	out, used, err := lzref.DecodeB2(payload)
	if err != nil {
		return out, err
	}
	if used != len(payload) {
		return out, fmt.Errorf("b2fref: %d bytes after the end of the LZHUF stream", len(payload)-used)
	}
	return out, nil
}

// DeclaredSize returns the uncompressed size stored in an LZHUF B2 payload header.
func DeclaredSize(payload []byte) (int32, bool) {
	if len(payload) < 6 {
		return 0, false
	}
	return int32(binary.LittleEndian.Uint32(payload[2:6])), true
}

// EncodeFrame renders one framed transfer: SOH len title NUL offset NUL, STX blocks, EOT checksum.
// nextSize is asked for the size (1..256) of each data block.
func EncodeFrame(title, offset string, data []byte, nextSize func() int) []byte {
	var b bytes.Buffer
	b.WriteByte(SOH)
	b.WriteByte(byte(len(title) + len(offset) + 2))
	b.WriteString(title)
	b.WriteByte(0)
	b.WriteString(offset)
	b.WriteByte(0)
	var sum int
	for len(data) > 0 {
		n := nextSize()
		if n < 1 {
			n = 1
		}
		if n > 256 {
			n = 256
		}
		if n > len(data) {
			n = len(data)
		}
		b.WriteByte(STX)
		b.WriteByte(byte(n)) // 256 -> 0
		b.Write(data[:n])
		for _, c := range data[:n] {
			sum += int(c)
		}
		data = data[n:]
	}
	b.WriteByte(EOT)
	b.WriteByte(byte(-sum))
	return b.Bytes()
}

// Frame is a parsed framed transfer.
type Frame struct {
	HeaderLen  int
	Title      string
	Offset     string
	Blocks     []int // data block sizes
	Data       []byte
	Checksum   byte
	ChecksumOK bool
	Len        int // total bytes of the frame on the wire
}

// ParseFrame parses one frame from b strictly. It returns the frame and nil, or a description of
// the first structural error.
func ParseFrame(b []byte) (*Frame, error) {
	f := &Frame{}
	i := 0
	need := func(n int) error {
		if i+n > len(b) {
			return fmt.Errorf("frame truncated at offset %d", len(b))
		}
		return nil
	}
	if err := need(2); err != nil {
		return nil, err
	}
	if b[0] != SOH {
		return nil, fmt.Errorf("first byte %#x is not SOH", b[0])
	}
	f.HeaderLen = int(b[1])
	i = 2
	z := bytes.IndexByte(b[i:], 0)
	if z < 0 {
		return nil, fmt.Errorf("title not NUL-terminated")
	}
	f.Title = string(b[i : i+z])
	i += z + 1
	z = bytes.IndexByte(b[i:], 0)
	if z < 0 {
		return nil, fmt.Errorf("offset not NUL-terminated")
	}
	f.Offset = string(b[i : i+z])
	i += z + 1
	if f.HeaderLen != len(f.Title)+len(f.Offset)+2 {
		return nil, fmt.Errorf("header length byte %d != len(title)+len(offset)+2 = %d", f.HeaderLen, len(f.Title)+len(f.Offset)+2)
	}
	var sum int
	for {
		if err := need(2); err != nil {
			return nil, err
		}
		switch b[i] {
		case STX:
			n := int(b[i+1])
			if n == 0 {
				n = 256
			}
			i += 2
			if err := need(n); err != nil {
				return nil, err
			}
			f.Blocks = append(f.Blocks, n)
			f.Data = append(f.Data, b[i:i+n]...)
			for _, c := range b[i : i+n] {
				sum += int(c)
			}
			i += n
		case EOT:
			f.Checksum = b[i+1]
			f.ChecksumOK = byte(sum)+f.Checksum == 0
			f.Len = i + 2
			return f, nil
		default:
			return nil, fmt.Errorf("byte %#x at offset %d is neither STX nor EOT", b[i], i)
		}
	}
}

// ValidTitle reports whether a transfer title is 1..80 printable ASCII bytes.
func ValidTitle(t string) bool {
	if len(t) < 1 || len(t) > 80 {
		return false
	}
	for i := 0; i < len(t); i++ {
		if t[i] < 0x20 || t[i] > 0x7e {
			return false
		}
	}
	return true
}

// AcceptsFrame is the reference verdict used by C04: does an independent receiver accept these
// bytes (starting at SOH) as a fully valid transfer of a proposal with the given code, declared
// sizes and requested offset? Bytes after the frame's EOT+checksum belong to the next turn.
func AcceptsFrame(b []byte, code byte, usize, csize int, offset string) (ok bool, why string, data []byte) {
	f, err := ParseFrame(b)
	if err != nil {
		return false, err.Error(), nil
	}
	// The title text is not protected by any checksum and a receiver has no reason to refuse a
	// transfer because of it: only its structure (NUL termination, header length) is part of the
	// verdict. (Title conformance of what the library *sends* is judged by the peer in C05.)
	switch {
	case !sameOffset(f.Offset, offset):
		return false, "offset differs from the requested one", nil
	case !f.ChecksumOK:
		return false, "8-bit checksum", nil
	case len(f.Data) != csize:
		return false, "compressed length differs from the proposal", nil
	}
	out, err := Decompress(code, f.Data)
	if err != nil {
		return false, "payload: " + err.Error(), nil
	}
	if len(out) != usize {
		return false, "uncompressed length differs from the proposal", nil
	}
	if _, err := ParseMessage(out); err != nil {
		return false, "message: " + err.Error(), nil
	}
	return true, "", out
}

// sameOffset: the offset field is a decimal number (1..6 digits); "00" names the same offset as "0".
func sameOffset(got, want string) bool {
	if len(got) < 1 || len(got) > 6 {
		return false
	}
	for i := 0; i < len(got); i++ {
		if got[i] < '0' || got[i] > '9' {
			return false
		}
	}
	g, _ := strconv.Atoi(got)
	w, err := strconv.Atoi(want)
	return err == nil && g == w
}

// ---- minimal Winlink message structure -------------------------------------------------------

// Message is the section structure of a Winlink message.
type Message struct {
	Headers [][2]string
	Body    []byte
	Files   [][]byte
}

func (m *Message) Get(name string) string {
	for _, h := range m.Headers {
		if strings.EqualFold(h[0], name) {
			return h[1]
		}
	}
	return ""
}

// ParseMessage parses the Winlink message structure: header lines, blank line, Body bytes, then
// for every File header CRLF + that many bytes, CRLF-terminated sections.
func ParseMessage(b []byte) (*Message, error) {
	m := &Message{}
	i := 0
	for {
		j := bytes.Index(b[i:], []byte("\r\n"))
		if j < 0 {
			return nil, fmt.Errorf("header not terminated")
		}
		line := string(b[i : i+j])
		i += j + 2
		if line == "" {
			break
		}
		k := strings.Index(line, ":")
		if k <= 0 {
			return nil, fmt.Errorf("malformed header line %q", line)
		}
		m.Headers = append(m.Headers, [2]string{line[:k], strings.TrimSpace(line[k+1:])})
	}
	if m.Get("Mid") == "" {
		return nil, fmt.Errorf("no Mid header")
	}
	var bodyLen int
	if _, err := fmt.Sscanf(m.Get("Body"), "%d", &bodyLen); err != nil || bodyLen < 0 {
		return nil, fmt.Errorf("bad Body header %q", m.Get("Body"))
	}
	if i+bodyLen > len(b) {
		return nil, fmt.Errorf("body truncated")
	}
	m.Body = b[i : i+bodyLen]
	i += bodyLen
	for _, h := range m.Headers {
		if !strings.EqualFold(h[0], "File") {
			continue
		}
		var n int
		if _, err := fmt.Sscanf(h[1], "%d", &n); err != nil || n < 0 {
			return nil, fmt.Errorf("bad File header %q", h[1])
		}
		if !bytes.HasPrefix(b[i:], []byte("\r\n")) {
			return nil, fmt.Errorf("section not terminated by CRLF")
		}
		i += 2
		if i+n > len(b) {
			return nil, fmt.Errorf("attachment truncated")
		}
		m.Files = append(m.Files, b[i:i+n])
		i += n
	}
	rest := b[i:]
	if len(rest) != 0 && !bytes.Equal(rest, []byte("\r\n")) {
		return nil, fmt.Errorf("%d unexpected bytes after the last section", len(rest))
	}
	return m, nil
}
