package b2fref

import (
	"bufio"
	"bytes"
	"fmt"
	"io"
	"math/rand"
	"net"
	"regexp"
	"sort"
	"strconv"
	"strings"
)

// OutMsg is a message the peer wants to deliver to the station under test.
type OutMsg struct {
	MID   string `json:"mid"`
	Type  string `json:"type"`  // EM or CM
	Title string `json:"title"` // 1..80 bytes on the wire (ASCII for most; raw ISO-8859-1 and encoded words for some)
	Data  []byte `json:"-"`     // uncompressed message
}

// LibMsg is the ground truth about a message queued at the station under test.
type LibMsg struct {
	Data       []byte
	Precedence int // 0 flash .. 3 routine
}

// PeerPlan selects the peer's role and which *conforming* encodings it uses.
type PeerPlan struct {
	Seed      int64    `json:"seed"`
	Master    bool     `json:"master"`
	MyCall    string   `json:"my_call"`
	TheirCall string   `json:"their_call"`
	SID       string   `json:"sid"`  // e.g. [WL2K-5.0-B2FWIHJM$]
	MOTD      []string `json:"motd"` // master only, before the SID
	FW        []string `json:"fw"`   // entries of the ;FW: line ("CALL" or "CALL|12345678"); empty = no line
	Challenge string   `json:"challenge"`
	// RejectLogin (master with a challenge): after the station's handshake the peer refuses the login ("*** ...") and
	// hangs up, as a CMS does for a wrong password. The station's answer is recorded as usual.
	RejectLogin bool     `json:"reject_login,omitempty"`
	PQFirst     bool     `json:"pq_first,omitempty"` // the ;PQ line goes out before the SID line instead of after it
	Prompt      string   `json:"prompt"`             // master: last handshake line, ends with '>'
	Comment     string   `json:"comment"`            // slave: last handshake line, starts with ';'
	Outbound    []OutMsg `json:"outbound"`
	// Answers maps a MID proposed by the station under test to the answer token the peer gives:
	// + Y y (accept), - N n R r (reject), = L l H h (defer), !0 A0 a0 (accept from offset 0),
	// !n An with n > 0 (resume from offset n: the peer then judges only the frame structure, the
	// echoed offset and the checksum - what a resumed transfer carries is not settled by the documents).
	Answers   map[string]string `json:"answers"`
	BlockSize int               `json:"block_size"` // 0 = PRNG 1..256 per data block, k = fixed
	Comments  int               `json:"comments"`   // 0 none, 1 "; text" lines, 2 also ;PM: lines
	EarlyFQ   bool              `json:"early_fq"`
	// CMSHangup: what the Winlink CMS does instead of turning the session over after its last block: when it has nothing
	// more pending (and, here, the station has nothing more either) it sends FQ right behind its last frame and hangs
	// up without waiting for the station's next word. The station's own FF may then meet a closed link.
	CMSHangup  bool `json:"cms_hangup,omitempty"`
	DupInBlock bool `json:"dup_in_block"`
	// HoldFirst: in its first turn the peer says FF although it has traffic (as if the traffic arrived a
	// moment later), provided the station still has messages to send; it offers its messages from its next turn on.
	HoldFirst   bool `json:"hold_first,omitempty"`
	DupPos      int  `json:"dup_pos,omitempty"` // where the second copy of the block's first message goes: 0 = last, k = index k
	MaxPerBlock int  `json:"max_per_block"`     // 1..5 (0 = 5)
	Gzip        bool `json:"gzip"`
	Record      bool `json:"record"`
	// What the peer expects of the station under test (judged).
	ExpectUAName, ExpectUAVersion, ExpectLocator string
}

// Complaint is a conformance error found in bytes written by the station under test.
type Complaint struct {
	Rule   string `json:"rule"`
	Detail string `json:"detail"`
}

// Tag marks a region of the peer's own output (recording mode).
type Tag struct {
	Off   int    `json:"off"`
	Len   int    `json:"len"`
	Layer string `json:"layer"`
	Field string `json:"field"`
}

// Proposal as received from the station under test.
type Proposal struct {
	Code         byte
	Type, MID    string
	USize, CSize int
}

// Result is everything the peer observed.
type Result struct {
	ResumedTransfers int // transfers the peer asked to resume from an offset > 0
	HeldTurns        int // turns in which the peer said FF while holding traffic back (plan.HoldFirst)
	Complaints       []Complaint
	DupReoffered     int    // deferred duplicate copies that were offered again (answer judged)
	HungUpBehindFQ   bool   // CMSHangup took place
	Err              error  // why the peer stopped early (nil = session ended by FQ per protocol)
	LibError         string // a "*** ..." line from the station under test
	// Handshake of the station under test
	LibSID, LibFW, LibPR, LibComment string
	HandshakeLines                   []string
	// Inbound (from the station under test)
	Blocks      [][]Proposal
	Received    map[string][]byte // MID -> decompressed message
	ReceivedSeq []string
	AnswersSent []string    // FS lines the peer sent
	DataBlocks  map[int]int // data block size -> count seen in frames from the station under test
	// Outbound
	Delivered                    []string // peer messages accepted by the station and confirmed by its next turn
	Unconfirmed                  []string // sent but the confirmation never came
	RejectedByLib, DeferredByLib []string
	FSReceived                   []string
	FQBy                         string // "peer" | "lib" | ""
	Written                      []byte
	Tags                         []Tag
	LibBytes                     int
}

type peer struct {
	plan  PeerPlan
	truth map[string]LibMsg
	conn  net.Conn
	rd    *bufio.Reader
	rng   *rand.Rand
	res   *Result

	pending     []OutMsg
	heldOnce    bool
	deferredNow map[string]bool
	libDone     map[string]bool // library MIDs answered + or -
	reoffer     []OutMsg        // deferred duplicate copies to be offered again in the next block
	reoffered   map[string]bool // ... offered again in the current block
	libNoMore   bool            // library's last turn was FF
	weSentFF    bool
	gzipOn      bool
}

func (p *peer) complain(rule, format string, a ...any) {
	if len(p.res.Complaints) < 50 {
		p.res.Complaints = append(p.res.Complaints, Complaint{Rule: rule, Detail: fmt.Sprintf(format, a...)})
	}
}

func (p *peer) write(layer, field string, b []byte) error {
	if p.plan.Record {
		p.res.Tags = append(p.res.Tags, Tag{Off: len(p.res.Written), Len: len(b), Layer: layer, Field: field})
		p.res.Written = append(p.res.Written, b...)
	}
	_, err := p.conn.Write(b)
	return err
}

func (p *peer) line(layer, field, s string) error { return p.write(layer, field, []byte(s+"\r")) }

// readLine reads one CR-terminated line written by the station under test.
func (p *peer) readLine() (string, error) {
	s, err := p.rd.ReadString('\r')
	p.res.LibBytes += len(s)
	if err != nil {
		if len(s) > 0 {
			p.complain("line-unterminated", "line %q not terminated by CR before end of stream", s)
		}
		return "", err
	}
	s = s[:len(s)-1]
	if strings.ContainsAny(s, "\n\x00") {
		p.complain("line-control-bytes", "line %q contains LF or NUL", s)
	}
	return s, nil
}

func (p *peer) readByte() (byte, error) {
	c, err := p.rd.ReadByte()
	if err == nil {
		p.res.LibBytes++
	}
	return c, err
}

var (
	sidRe      = regexp.MustCompile(`^\[([^\-\]]+)-([^\-\]]+)-([A-Za-z0-9$]+)\]$`)
	fwRe       = regexp.MustCompile(`^;FW:( [^ |]+(\|[0-9]{8})?)+$`)
	prRe       = regexp.MustCompile(`^;PR: [0-9]{8}$`)
	proposalRe = regexp.MustCompile(`^F([A-Z]) ([A-Z]{1,2}) ([^ ]{1,12}) ([0-9]+) ([0-9]+) 0$`)
	fsRe       = regexp.MustCompile(`^FS [+\-=YyNnLlHhRrEe!Aa0-9]+$`)
	fEndRe     = regexp.MustCompile(`^F> ([0-9A-Fa-f]{2})$`)
)

// Run plays the peer on conn until the session ends. truth describes what the station under test
// has queued (for judging proposals and payloads).
func Run(conn net.Conn, plan PeerPlan, truth map[string]LibMsg) *Result {
	p := &peer{plan: plan, truth: truth, conn: conn, rd: bufio.NewReaderSize(conn, 4096), rng: rand.New(rand.NewSource(plan.Seed)),
		res: &Result{Received: map[string][]byte{}, DataBlocks: map[int]int{}}, deferredNow: map[string]bool{}, libDone: map[string]bool{}}
	p.pending = append(p.pending, plan.Outbound...)
	defer conn.Close()
	if err := p.session(); err != nil {
		p.res.Err = err
	}
	return p.res
}

func (p *peer) session() error {
	if err := p.handshake(); err != nil {
		return fmt.Errorf("handshake: %w", err)
	}
	myTurn := !p.plan.Master // the slave takes the first turn
	for {
		var done bool
		var err error
		if myTurn {
			done, err = p.outTurn()
		} else {
			done, err = p.inTurn()
		}
		if err != nil || done {
			return err
		}
		myTurn = !myTurn
	}
}

func (p *peer) sendOwnHandshake() error {
	if len(p.plan.FW) > 0 {
		if err := p.line("handshake", "fw", ";FW: "+strings.Join(p.plan.FW, " ")); err != nil {
			return err
		}
	}
	if p.plan.Master && p.plan.Challenge != "" && p.plan.PQFirst {
		if err := p.line("handshake", "pq", ";PQ: "+p.plan.Challenge); err != nil {
			return err
		}
	}
	if err := p.line("handshake", "sid", p.plan.SID); err != nil {
		return err
	}
	if p.plan.Master && p.plan.Challenge != "" && !p.plan.PQFirst {
		if err := p.line("handshake", "pq", ";PQ: "+p.plan.Challenge); err != nil {
			return err
		}
	}
	if p.plan.Master {
		return p.line("handshake", "prompt", p.plan.Prompt)
	}
	return p.line("handshake", "comment", p.plan.Comment)
}

func (p *peer) handshake() error {
	if p.plan.Master {
		for _, m := range p.plan.MOTD {
			if err := p.line("handshake", "motd", m); err != nil {
				return err
			}
		}
		if err := p.sendOwnHandshake(); err != nil {
			return err
		}
	}
	// Read the station's handshake: ;FW, SID, optional ;PR, final comment (with '>' iff it is master).
	libMaster := !p.plan.Master
	for {
		l, err := p.readLine()
		if err != nil {
			return err
		}
		p.res.HandshakeLines = append(p.res.HandshakeLines, l)
		switch {
		case strings.HasPrefix(l, "***"):
			p.res.LibError = l
			return fmt.Errorf("station reported %q", l)
		case strings.HasPrefix(l, ";FW:"):
			if p.res.LibFW != "" {
				p.complain("handshake-fw-twice", "second ;FW line %q", l)
			}
			if p.res.LibSID != "" {
				p.complain("handshake-order", ";FW line after the SID")
			}
			p.res.LibFW = l
			if !fwRe.MatchString(l) {
				p.complain("fw-syntax", "%q is not ';FW: addr[|hash] ...'", l)
			} else if f := strings.Fields(l[4:]); strings.ToUpper(strings.Split(f[0], "|")[0]) != strings.ToUpper(p.plan.TheirCall) {
				p.complain("fw-first-entry", "first ;FW entry %q is not the station's call %q", f[0], p.plan.TheirCall)
			}
		case strings.HasPrefix(l, "["):
			if p.res.LibSID != "" {
				p.complain("handshake-sid-twice", "second SID %q", l)
			}
			p.res.LibSID = l
			m := sidRe.FindStringSubmatch(l)
			if m == nil {
				p.complain("sid-format", "%q is not [name-version-flags]", l)
				break
			}
			flags := strings.ToUpper(m[3])
			if !strings.Contains(flags, "B2") || !strings.Contains(flags, "F") {
				p.complain("sid-flags", "SID flags %q lack B2 or F", m[3])
			}
			if !strings.HasSuffix(flags, "$") || strings.Count(flags, "$") != 1 {
				p.complain("sid-dollar", "SID flags %q: $ must be the last character", m[3])
			}
			if p.plan.ExpectUAName != "" && (m[1] != p.plan.ExpectUAName || m[2] != p.plan.ExpectUAVersion) {
				p.complain("sid-user-agent", "SID %q does not carry user agent %s-%s", l, p.plan.ExpectUAName, p.plan.ExpectUAVersion)
			}
			p.gzipOn = p.plan.Gzip && strings.Contains(flags, "G")
		case strings.HasPrefix(l, ";PR:"):
			if p.res.LibPR != "" {
				p.complain("handshake-pr-twice", "second ;PR line")
			}
			p.res.LibPR = l
			if !prRe.MatchString(l) {
				p.complain("pr-syntax", "%q is not ';PR: ' + 8 digits", l)
			}
			if p.res.LibSID == "" {
				p.complain("handshake-order", ";PR before the SID")
			}
			if !(p.plan.Master && p.plan.Challenge != "") {
				p.complain("pr-without-challenge", ";PR sent although no ;PQ challenge was issued")
			}
		case strings.HasPrefix(l, ";"):
			// the final comment line "; TARGET DE MYCALL (LOCATOR)" (+ '>' when the station is master)
			p.res.LibComment = l
			if strings.HasSuffix(l, ">") != libMaster {
				p.complain("handshake-prompt", "final handshake line %q: '>' must be present iff the station is master", l)
			}
			body := strings.TrimSuffix(l, ">")
			want := fmt.Sprintf("; %s DE %s (%s)", strings.ToUpper(p.plan.MyCall), strings.ToUpper(p.plan.TheirCall), p.plan.ExpectLocator)
			if p.plan.ExpectLocator != "" && body != want {
				p.complain("handshake-comment", "final handshake line %q, expected %q", body, want)
			}
			if p.res.LibSID == "" {
				p.complain("handshake-no-sid", "handshake ended without a SID")
			}
			if p.res.LibFW == "" {
				p.complain("handshake-no-fw", "handshake ended without a ;FW line")
			}
			if p.plan.Master && p.plan.Challenge != "" && p.res.LibPR == "" {
				p.complain("pr-missing", "no ;PR answer to the ;PQ challenge")
			}
			if !p.plan.Master {
				return p.sendOwnHandshake()
			}
			if p.plan.RejectLogin {
				p.line("handshake", "reject", "*** [1] Secure login failed - account may be locked out")
				return fmt.Errorf("login refused (planned)")
			}
			return nil
		default:
			if libMaster {
				// MOTD text of a master station is free-form
				continue
			}
			p.complain("handshake-unexpected-line", "unexpected handshake line %q", l)
		}
	}
}

func (p *peer) nextBlockSize() int {
	if p.plan.BlockSize > 0 {
		return p.plan.BlockSize
	}
	switch p.rng.Intn(4) {
	case 0:
		return 256
	case 1:
		return 1 + p.rng.Intn(8)
	default:
		return 1 + p.rng.Intn(256)
	}
}

// outTurn: the peer proposes its pending messages (or FF/FQ).
func (p *peer) outTurn() (done bool, err error) {
	var cand []OutMsg
	// a copy of a message that the station deferred as a duplicate within a block is offered again, on its own, in the
	// next block (the peer still holds that copy): the message was received in the meantime, the answer is "-"
	cand = append(cand, p.reoffer...)
	for _, m := range p.reoffer {
		if p.reoffered == nil {
			p.reoffered = map[string]bool{}
		}
		p.reoffered[m.MID] = true
	}
	p.reoffer = nil
	for _, m := range p.pending {
		if !p.deferredNow[m.MID] {
			cand = append(cand, m)
		}
	}
	if p.plan.HoldFirst && !p.heldOnce && len(cand) > 0 {
		p.heldOnce = true
		proposed := map[string]bool{}
		for _, b := range p.res.Blocks {
			for _, pr := range b {
				proposed[pr.MID] = true
			}
		}
		for mid := range p.truth {
			if !proposed[mid] {
				cand = nil // hold: the station has messages it has not offered yet, so the session goes on
				p.res.HeldTurns++
				break
			}
		}
	}
	if len(cand) == 0 {
		libHasMore := false
		for mid := range p.truth {
			if !p.libDone[mid] {
				libHasMore = true
			}
		}
		if p.libNoMore || (p.plan.EarlyFQ && !libHasMore) {
			if err := p.line("turn", "fq", "FQ"); err != nil {
				return true, err
			}
			p.res.FQBy = "peer"
			// the station must close without sending anything else
			rest, _ := io.ReadAll(p.rd)
			if len(rest) > 0 {
				p.complain("data-after-fq", "%d bytes (%q) received after the peer's FQ", len(rest), trunc(rest))
			}
			return true, nil
		}
		p.weSentFF = true
		return false, p.line("turn", "ff", "FF")
	}
	p.weSentFF = false
	max := p.plan.MaxPerBlock
	if max < 1 || max > 5 {
		max = 5
	}
	if len(cand) > max {
		cand = cand[:max]
	}
	block := append([]OutMsg(nil), cand...)
	if p.plan.DupInBlock && len(block) < 5 {
		// the same message proposed twice in one block
		if k := p.plan.DupPos; k > 0 && k < len(block) {
			block = append(block[:k], append([]OutMsg{block[0]}, block[k:]...)...)
		} else {
			block = append(block, block[0])
		}
	}
	code := byte('C')
	if p.gzipOn {
		code = 'D'
	}
	payload := make([][]byte, len(block))
	var lines []string
	for i, m := range block {
		payload[i] = Compress(code, m.Data)
		if p.plan.Comments >= 2 {
			if err := p.line("turn", "pm", fmt.Sprintf(";PM: %s %s %d %s %s", p.plan.TheirCall, m.MID, len(m.Data), p.plan.MyCall, m.Title)); err != nil {
				return true, err
			}
		}
	}
	for i, m := range block {
		if p.plan.Comments >= 1 && p.rng.Intn(2) == 0 {
			if err := p.line("turn", "comment", "; comment before proposal "+strconv.Itoa(i)); err != nil {
				return true, err
			}
		}
		typ := m.Type
		if typ == "" {
			typ = "EM"
		}
		l := ProposalLine(code, typ, m.MID, len(m.Data), len(payload[i]))
		lines = append(lines, l)
		if err := p.line("proposal", "line", l); err != nil {
			return true, err
		}
	}
	if err := p.line("proposal", "end", fmt.Sprintf("F> %02X", BlockChecksum(lines))); err != nil {
		return true, err
	}
	// the answer
	fs, err := p.readLine()
	if err != nil {
		return true, err
	}
	if strings.HasPrefix(fs, "***") {
		p.res.LibError = fs
		return true, fmt.Errorf("station reported %q", fs)
	}
	p.res.FSReceived = append(p.res.FSReceived, fs)
	if !fsRe.MatchString(fs) {
		p.complain("fs-syntax", "%q is not an FS answer line", fs)
		return true, fmt.Errorf("bad FS line")
	}
	ans, perr := ParseAnswers(fs[3:])
	if perr != nil || len(ans) != len(block) {
		p.complain("fs-count", "answer line %q for a block of %d proposals (%v)", fs, len(block), perr)
		return true, fmt.Errorf("bad FS line")
	}
	var sentNow []string
	firstAnswer := map[string]byte{}
	var dupDeferred []OutMsg
	for i, a := range ans {
		m := block[i]
		if p.reoffered[m.MID] {
			delete(p.reoffered, m.MID)
			p.res.DupReoffered++
			if a.Kind != '-' {
				p.complain("dup-reoffer-answer", "the copy of %s that was deferred as a duplicate was offered again after the message had been received: answered %q, the protocol prescribes '-'", m.MID, string(a.Kind))
			}
			if a.Kind != '+' {
				continue
			}
		}
		if k, dup := firstAnswer[m.MID]; dup && k == '+' && a.Kind == '=' {
			dupDeferred = append(dupDeferred, m)
		} else if !dup {
			firstAnswer[m.MID] = a.Kind
		}
		switch a.Kind {
		case '+':
			if a.Offset != 0 {
				// resuming is legal in the protocol; this peer only serves complete transfers
				p.complain("fs-offset-unsupported-by-peer", "station asked for %s from offset %d", m.MID, a.Offset)
				return true, fmt.Errorf("offset request")
			}
			fr := EncodeFrame(m.Title, "0", payload[i], p.nextBlockSize)
			if err := p.write("frame", m.MID, fr); err != nil {
				return true, err
			}
			sentNow = append(sentNow, m.MID)
		case '-':
			p.res.RejectedByLib = append(p.res.RejectedByLib, m.MID)
			p.dropPending(m.MID)
		case '=':
			p.res.DeferredByLib = append(p.res.DeferredByLib, m.MID)
			p.deferredNow[m.MID] = true
		case 'E':
			p.complain("fs-error-answer", "station answered E (error in line) for a well-formed proposal of %s", m.MID)
		}
	}
	if p.plan.CMSHangup && len(sentNow) > 0 {
		more := false
		for _, m := range p.pending {
			sent := false
			for _, mid := range sentNow {
				sent = sent || mid == m.MID
			}
			if !sent && !p.deferredNow[m.MID] {
				more = true
			}
		}
		for mid := range p.truth {
			if !p.libDone[mid] {
				more = true
			}
		}
		if !more {
			if err := p.line("turn", "fq", "FQ"); err != nil {
				return true, err
			}
			p.res.FQBy = "peer"
			p.res.HungUpBehindFQ = true
			for _, mid := range sentNow {
				p.res.Delivered = append(p.res.Delivered, mid) // not confirmed on the wire: the judge looks at the station's handler log
				p.dropPending(mid)
			}
			return true, nil // Run closes the connection
		}
	}
	// Receipt is acknowledged implicitly by the first byte of the station's next turn.
	if len(sentNow) > 0 {
		b, err := p.rd.Peek(1)
		if err != nil || (b[0] != 'F' && b[0] != ';') {
			p.res.Unconfirmed = append(p.res.Unconfirmed, sentNow...)
			if err == nil {
				l, _ := p.readLine()
				p.res.LibError = l
				return true, fmt.Errorf("station did not confirm the block: %q", l)
			}
			return true, err
		}
		for _, mid := range sentNow {
			p.res.Delivered = append(p.res.Delivered, mid)
			p.dropPending(mid)
			delete(p.deferredNow, mid) // a deferred duplicate of a delivered message is moot
		}
		if p.plan.DupInBlock && p.plan.Seed%2 == 0 {
			p.reoffer = dupDeferred // ... but every other plan offers that copy once more (see outTurn)
		}
	}
	return false, nil
}

func (p *peer) dropPending(mid string) {
	out := p.pending[:0]
	for _, m := range p.pending {
		if m.MID != mid {
			out = append(out, m)
		}
	}
	p.pending = out
}

// Answer is one parsed element of an FS line.
type Answer struct {
	Kind   byte // '+', '-', '=', 'E'
	Offset int
}

// ParseAnswers parses the answer part of an FS line per the FBB v1 answer set.
func ParseAnswers(s string) ([]Answer, error) {
	var out []Answer
	for i := 0; i < len(s); {
		c := s[i]
		i++
		switch c {
		case '+', 'Y', 'y':
			out = append(out, Answer{Kind: '+'})
		case '-', 'N', 'n', 'R', 'r':
			out = append(out, Answer{Kind: '-'})
		case '=', 'L', 'l', 'H', 'h':
			// H ("accepted but held") is treated like a deferral by Winlink software
			out = append(out, Answer{Kind: '='})
		case 'E', 'e':
			out = append(out, Answer{Kind: 'E'})
		case '!', 'A', 'a':
			j := i
			for j < len(s) && s[j] >= '0' && s[j] <= '9' {
				j++
			}
			if j == i {
				return out, fmt.Errorf("offset answer without digits")
			}
			n, _ := strconv.Atoi(s[i:j])
			out = append(out, Answer{Kind: '+', Offset: n})
			i = j
		default:
			return out, fmt.Errorf("unexpected character %q", c)
		}
	}
	return out, nil
}

// inTurn: the station under test proposes (or FF/FQ).
func (p *peer) inTurn() (done bool, err error) {
	var block []Proposal
	var lines []string
	for {
		l, err := p.readLine()
		if err != nil {
			return true, err
		}
		switch {
		case strings.HasPrefix(l, "***"):
			p.res.LibError = l
			return true, fmt.Errorf("station reported %q", l)
		case strings.HasPrefix(l, ";"):
			continue
		case l == "FF":
			if len(block) > 0 {
				p.complain("ff-inside-block", "FF after %d proposals without F>", len(block))
			}
			p.libNoMore = true
			return false, nil
		case l == "FQ":
			if len(block) > 0 {
				p.complain("fq-inside-block", "FQ after %d proposals without F>", len(block))
			}
			if !p.weSentFF {
				p.complain("fq-without-ff", "station sent FQ although the peer's last turn was not FF")
			}
			p.res.FQBy = "lib"
			rest, _ := io.ReadAll(p.rd)
			if len(rest) > 0 {
				p.complain("data-after-fq", "%d bytes (%q) after the station's FQ", len(rest), trunc(rest))
			}
			return true, nil
		case strings.HasPrefix(l, "F>"):
			m := fEndRe.FindStringSubmatch(l)
			if m == nil {
				p.complain("block-end-syntax", "%q is not 'F> HH'", l)
				return true, fmt.Errorf("bad block end")
			}
			their, _ := strconv.ParseUint(m[1], 16, 8)
			if byte(their) != BlockChecksum(lines) {
				p.complain("block-checksum", "block checksum %s, computed %02X over %d proposal lines", m[1], BlockChecksum(lines), len(lines))
				return true, fmt.Errorf("block checksum")
			}
			if len(block) == 0 {
				p.complain("empty-block", "F> without proposals")
				return true, fmt.Errorf("empty block")
			}
			if len(block) > 5 {
				p.complain("block-too-long", "%d proposals in one block", len(block))
			}
			p.libNoMore = false
			p.res.Blocks = append(p.res.Blocks, block)
			return p.answerAndReceive(block)
		case strings.HasPrefix(l, "F"):
			m := proposalRe.FindStringSubmatch(l)
			if m == nil {
				p.complain("proposal-syntax", "%q is not 'F<C|D> <EM|CM> <mid> <usize> <csize> 0'", l)
				return true, fmt.Errorf("bad proposal")
			}
			pr := Proposal{Code: m[1][0], Type: m[2], MID: m[3]}
			pr.USize, _ = strconv.Atoi(m[4])
			pr.CSize, _ = strconv.Atoi(m[5])
			if pr.Code != 'C' && !(pr.Code == 'D' && p.gzipOn) {
				p.complain("proposal-code", "proposal code %c not negotiated (line %q)", pr.Code, l)
			}
			if pr.Type != "EM" && pr.Type != "CM" {
				p.complain("proposal-type", "message type %q (line %q)", pr.Type, l)
			}
			if t, ok := p.truth[pr.MID]; !ok {
				p.complain("proposal-unknown-mid", "proposal for MID %q that the station has not queued", pr.MID)
			} else {
				if pr.USize != len(t.Data) {
					p.complain("proposal-usize", "proposal %q: uncompressed size differs from the queued message (%d)", l, len(t.Data))
				}
				if p.libDone[pr.MID] {
					p.complain("proposal-repeated", "MID %s proposed again after it had been accepted/rejected", pr.MID)
				}
			}
			block = append(block, pr)
			lines = append(lines, l)
		default:
			p.complain("unexpected-line", "unexpected line %q in the station's turn", l)
			return true, fmt.Errorf("unexpected line")
		}
	}
}

func (p *peer) answerAndReceive(block []Proposal) (bool, error) {
	var fs strings.Builder
	fs.WriteString("FS ")
	kinds := make([]byte, len(block))
	offsets := make([]int, len(block))
	seen := map[string]bool{}
	for i, pr := range block {
		tok := p.plan.Answers[pr.MID]
		if tok == "" {
			tok = "+"
		}
		if seen[pr.MID] {
			tok = "=" // a duplicate within the block is deferred
		}
		seen[pr.MID] = true
		a, _ := ParseAnswers(tok)
		if len(a) != 1 {
			return true, fmt.Errorf("peer plan: bad answer token %q", tok)
		}
		kinds[i] = a[0].Kind
		offsets[i] = a[0].Offset
		fs.WriteString(tok)
	}
	if p.plan.Comments >= 1 {
		if err := p.line("answer", "comment", "; comment before the answer"); err != nil {
			return true, err
		}
	}
	if p.plan.Comments >= 2 {
		// pending-message notes may come at any time, also in front of the answer, and a note in a shape the station does not
		// know (no subject: four fields; no fields at all) is a comment like any other
		for _, pm := range []string{
			fmt.Sprintf(";PM: %s PMNOTE000001 2345 %s", p.plan.TheirCall, p.plan.MyCall),
			fmt.Sprintf(";PM: %s PMNOTE000002 777 %s a subject of several words", p.plan.TheirCall, p.plan.MyCall),
			";PM:",
		} {
			if err := p.line("answer", "pm", pm); err != nil {
				return true, err
			}
		}
	}
	p.res.AnswersSent = append(p.res.AnswersSent, fs.String())
	if err := p.line("answer", "fs", fs.String()); err != nil {
		return true, err
	}
	for i, pr := range block {
		switch kinds[i] {
		case '+':
			data, err := p.readFrame(pr, offsets[i])
			if err != nil {
				return true, err
			}
			if offsets[i] > 0 {
				p.res.ResumedTransfers++
				p.libDone[pr.MID] = true
				continue
			}
			p.res.Received[pr.MID] = data
			p.res.ReceivedSeq = append(p.res.ReceivedSeq, pr.MID)
			p.libDone[pr.MID] = true
		case '-':
			p.libDone[pr.MID] = true
		}
	}
	return false, nil
}

// readFrame reads and judges one framed transfer from the station under test.
func (p *peer) readFrame(pr Proposal, offset int) ([]byte, error) {
	c, err := p.readByte()
	if err != nil {
		return nil, err
	}
	if c == '*' {
		l, _ := p.readLine()
		p.res.LibError = "*" + l
		return nil, fmt.Errorf("station reported %q", "*"+l)
	}
	if c != SOH {
		p.complain("frame-soh", "transfer of %s starts with %#x, not SOH", pr.MID, c)
		return nil, fmt.Errorf("bad frame")
	}
	hl, err := p.readByte()
	if err != nil {
		return nil, err
	}
	title, err := p.rd.ReadString(0)
	p.res.LibBytes += len(title)
	if err != nil {
		return nil, err
	}
	off, err := p.rd.ReadString(0)
	p.res.LibBytes += len(off)
	if err != nil {
		return nil, err
	}
	title, off = title[:len(title)-1], off[:len(off)-1]
	if int(hl) != len(title)+len(off)+2 {
		p.complain("frame-header-length", "transfer of %s: header length byte %d, actual %d", pr.MID, hl, len(title)+len(off)+2)
	}
	if !ValidTitle(title) {
		p.complain("frame-title", "transfer of %s: title %q is not 1..80 ASCII bytes (%d bytes)", pr.MID, trunc([]byte(title)), len(title))
	}
	if off != strconv.Itoa(offset) {
		p.complain("frame-offset", "transfer of %s: offset %q, requested %d", pr.MID, off, offset)
	}
	var data []byte
	var sum int
	first := true
	for {
		t, err := p.readByte()
		if err != nil {
			return nil, err
		}
		switch t {
		case STX:
			n, err := p.readByte()
			if err != nil {
				return nil, err
			}
			size := int(n)
			if size == 0 {
				size = 256
			}
			buf := make([]byte, size)
			if _, err := io.ReadFull(p.rd, buf); err != nil {
				return nil, err
			}
			p.res.LibBytes += size
			p.res.DataBlocks[size]++
			if first && size < 6 && pr.Code == 'C' && offset == 0 {
				p.complain("frame-first-block", "transfer of %s: the first data block (%d bytes) does not contain the 6-byte CRC/size header", pr.MID, size)
			}
			first = false
			for _, b := range buf {
				sum += int(b)
			}
			data = append(data, buf...)
			if len(data) > pr.CSize+4096 {
				p.complain("frame-too-long", "transfer of %s exceeds the declared compressed size %d", pr.MID, pr.CSize)
				return nil, fmt.Errorf("frame too long")
			}
		case EOT:
			ck, err := p.readByte()
			if err != nil {
				return nil, err
			}
			if byte(sum)+ck != 0 {
				p.complain("frame-checksum", "transfer of %s: data sum %#x + checksum %#x != 0", pr.MID, byte(sum), ck)
			}
			if offset > 0 {
				// resumed transfer: structure, offset, checksum and the number of bytes (the rest of what was proposed)
				if len(data) != pr.CSize-offset {
					p.complain("frame-length", "resumed transfer of %s from offset %d: %d data bytes, the proposal declared %d in all", pr.MID, offset, len(data), pr.CSize)
				}
				return nil, nil
			}
			if len(data) != pr.CSize {
				p.complain("frame-length", "transfer of %s: %d data bytes, proposal declared %d", pr.MID, len(data), pr.CSize)
			}
			out, derr := Decompress(pr.Code, data)
			if derr != nil {
				p.complain("payload-invalid", "transfer of %s: payload rejected by the reference decoder: %v", pr.MID, derr)
				return nil, fmt.Errorf("bad payload")
			}
			if len(out) != pr.USize {
				p.complain("payload-size", "transfer of %s: decompressed to %d bytes, proposal declared %d", pr.MID, len(out), pr.USize)
			}
			if t, ok := p.truth[pr.MID]; ok && !bytes.Equal(out, t.Data) {
				p.complain("payload-content", "transfer of %s: decompressed message differs from the queued message", pr.MID)
			}
			if m, merr := ParseMessage(out); merr != nil {
				p.complain("message-structure", "transfer of %s: %v", pr.MID, merr)
			} else if m.Get("Mid") != pr.MID {
				p.complain("message-mid", "transfer of %s: message carries Mid %q", pr.MID, m.Get("Mid"))
			}
			return out, nil
		default:
			p.complain("frame-block-type", "transfer of %s: byte %#x where STX or EOT was expected", pr.MID, t)
			return nil, fmt.Errorf("bad frame")
		}
	}
}

// CheckOrder verifies, after the session, that the station proposed in precedence-then-size order:
// the sequence of all its proposals must be non-decreasing in (precedence, compressed size).
func (r *Result) CheckOrder(truth map[string]LibMsg) []Complaint {
	var out []Complaint
	type k struct{ prec, size int }
	var prev *k
	var prevMID string
	for bi, b := range r.Blocks {
		for _, pr := range b {
			t, ok := truth[pr.MID]
			if !ok {
				continue
			}
			cur := k{t.Precedence, pr.CSize}
			if prev != nil && (cur.prec < prev.prec || (cur.prec == prev.prec && cur.size < prev.size)) {
				out = append(out, Complaint{Rule: "proposal-order", Detail: fmt.Sprintf("block %d: %s (precedence %d, %d bytes) proposed after %s (precedence %d, %d bytes)", bi, pr.MID, cur.prec, cur.size, prevMID, prev.prec, prev.size)})
			}
			prev, prevMID = &cur, pr.MID
		}
	}
	return out
}

func trunc(b []byte) string {
	if len(b) > 60 {
		return string(b[:60]) + "..."
	}
	return string(b)
}

// SortedMIDs is a helper for reports.
func SortedMIDs(m map[string][]byte) []string {
	var s []string
	for k := range m {
		s = append(s, k)
	}
	sort.Strings(s)
	return s
}
