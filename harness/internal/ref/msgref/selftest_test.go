package msgref

import (
	"bytes"
	"testing"

	"verif/internal/ref/lzref"
)

func TestSelf(t *testing.T) {
	if err := SelfTest(); err != nil {
		t.Fatal(err)
	}
}

// A message captured from a real Winlink exchange (the repository's lzhuf test corpus).
func TestRealMessage(t *testing.T) {
	b := lzref.Golden()["LPE5NXDVLVSQ.b2f"]
	if len(b) == 0 {
		t.Skip("golden message not embedded")
	}
	m, err := Parse(b)
	if err != nil {
		t.Fatal(err)
	}
	if len(m.Body) != 104 || len(m.Files) != 1 || len(m.Files[0].Data) != 31028 || m.Files[0].RawName != "1469042410710.jpg" {
		t.Fatalf("parsed wrongly: body %d files %d", len(m.Body), len(m.Files))
	}
	if !bytes.Equal(m.Bytes(), b) {
		t.Fatal("re-serialisation differs")
	}
}
