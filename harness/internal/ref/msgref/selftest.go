package msgref

import (
	"bytes"
	"fmt"
)

// A message as Winlink Express writes it (CRLF after the body although there is no attachment).
const sampleExpress = "Mid: 5YH0VX3EJM2C\r\nDate: 2016/07/20 19:21\r\nType: Private\r\nFrom: LA5NTA\r\nTo: LA4TTA\r\n" +
	"Subject: =?ISO-8859-1?Q?Pr=F8ve_=E6=F8=E5?=\r\nMbo: LA5NTA\r\nBody: 12\r\n\r\nHei!\r\n\r\n73\r\n\r\n"

// SelfTest checks the reference reader/writer against hand-written messages. A failure means the
// oracle is broken (exit 2), never a verdict about the library.
func SelfTest() error {
	m, err := Parse([]byte(sampleExpress))
	if err != nil {
		return fmt.Errorf("sample message: %v", err)
	}
	if string(m.Body) != "Hei!\r\n\r\n73\r\n" || len(m.Files) != 0 || len(m.Headers) != 8 || m.Headers[0] != (Header{"Mid", "5YH0VX3EJM2C"}) {
		return fmt.Errorf("sample message parsed wrongly: %+v", m)
	}
	if s, _ := m.Get("subject"); s != "=?ISO-8859-1?Q?Pr=F8ve_=E6=F8=E5?=" {
		return fmt.Errorf("Get(subject) = %q", s)
	}
	if s, err := DecodeWords("=?ISO-8859-1?Q?Pr=F8ve_=E6=F8=E5?="); err != nil || s != "Prøve æøå" {
		return fmt.Errorf("DecodeWords Q: %q %v", s, err)
	}
	if s, err := DecodeWords("Re: =?utf-8?b?w6bDuMOl?=  =?iso-8859-1?q?=E6?= x =?US-ASCII?Q?a=3Fb?="); err != nil || s != "Re: æøåæ x a?b" {
		return fmt.Errorf("DecodeWords mixed: %q %v", s, err)
	}
	if _, err := DecodeWords("=?ISO-8859-1?Q?abc"); err == nil {
		return fmt.Errorf("DecodeWords accepted an unterminated word")
	}
	// with attachments, arbitrary bytes in the sections (incl. CRLF, NUL, text that looks like a header)
	files := []File{{"a.bin", []byte("\r\n\x00\r\nBody: 3\r\n")}, {"empty", nil}, {"=?ISO-8859-1?Q?=E6.txt?=", []byte{0xff}}}
	w := New([]Header{{"Mid", "ABCDEFGHIJKL"}, {"X-Empty", ""}}, []byte("no final newline"), files)
	b := w.Bytes()
	want := "Mid: ABCDEFGHIJKL\r\nX-Empty: \r\nBody: 16\r\nFile: 14 a.bin\r\nFile: 0 empty\r\nFile: 1 =?ISO-8859-1?Q?=E6.txt?=\r\n\r\n" +
		"no final newline\r\n\r\n\x00\r\nBody: 3\r\n\r\n\r\n\xff\r\n"
	if string(b) != want {
		return fmt.Errorf("writer produced %q", b)
	}
	r, err := Parse(b)
	if err != nil {
		return fmt.Errorf("parse of written message: %v", err)
	}
	if !bytes.Equal(r.Body, w.Body) || len(r.Files) != 3 || !bytes.Equal(r.Files[0].Data, files[0].Data) || r.Files[1].RawName != "empty" ||
		len(r.Files[1].Data) != 0 || !bytes.Equal(r.Files[2].Data, files[2].Data) || !bytes.Equal(r.Bytes(), b) {
		return fmt.Errorf("written message parsed wrongly: %+v", r)
	}
	// structural errors must be refused
	bad := map[string]string{
		"missing CRLF after body (files exist)": "Mid: A\r\nBody: 2\r\nFile: 1 x\r\n\r\nhiZ\r\n",
		"missing CRLF after file":               "Mid: A\r\nBody: 2\r\nFile: 1 x\r\n\r\nhi\r\nZ",
		"short body":                            "Mid: A\r\nBody: 5\r\n\r\nhi",
		"trailing bytes":                        "Mid: A\r\nBody: 2\r\n\r\nhi\r\nxx",
		"negative size":                         "Mid: A\r\nBody: -1\r\n\r\n",
		"file without name":                     "Mid: A\r\nFile: 1\r\n\r\n\r\nZ\r\n",
		"LF-only header":                        "Mid: A\nBody: 0\n\n",
		"no colon":                              "Mid A\r\n\r\n",
		"unterminated header":                   "Mid: A\r\nBody: 0",
		"two Body headers":                      "Mid: A\r\nBody: 0\r\nBody: 0\r\n\r\n",
	}
	for what, s := range bad {
		if _, err := Parse([]byte(s)); err == nil {
			return fmt.Errorf("parser accepted a message with %s", what)
		}
	}
	return nil
}
