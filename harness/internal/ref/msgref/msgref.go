// Package msgref is an independent reader/writer of the Winlink 2000 message structure
// (https://winlink.org/B2F, "Winlink Message Structure"). It is an oracle: it is written from the
// format description only and must never import github.com/la5nta/wl2k-go.
//
// The structure, as bytes:
//
//	Name: value CRLF            one per header line, first one is normally "Mid"
//	...
//	CRLF                        blank line: end of the header
//	<body>                      exactly N bytes, N from the "Body: N" header (0 if there is none)
//	CRLF <file 1> CRLF <file 2> ... <file k> CRLF
//	                            one section per "File: <size> <name>" header, in header order, each
//	                            exactly <size> bytes; the CRLF after the body is present iff k > 0
//
// With no File header the message ends right after the body; Parse also accepts one trailing CRLF
// there (Winlink Express writes it). Section contents are arbitrary bytes - only the declared sizes
// delimit them.
//
// API (kept deliberately small):
//
//	Parse(b)            strict parser: *Msg or an error naming the first structural problem
//	(*Msg).Bytes()      serialise exactly what the Msg holds (header lines verbatim and in order)
//	New(h, body, files) build a Msg and append the matching Body:/File: header lines
//	(*Msg).Get / Values case-insensitive header access
//	DecodeWords(s)      RFC 2047 decoding of a header value (Subject, attachment names)
package msgref

import (
	"bytes"
	"encoding/base64"
	"errors"
	"fmt"
	"strconv"
	"strings"
)

// Header is one header line. Value is the raw text after the colon with surrounding blanks
// (space, tab) removed; it is not decoded in any way.
type Header struct {
	Name  string
	Value string
}

// File is one attachment section. RawName is the text after the size in the File header,
// undecoded (it may hold RFC 2047 encoded-words, see DecodeWords).
type File struct {
	RawName string
	Data    []byte
}

// Msg is a parsed message: header lines in wire order, the body bytes and the attachments in
// the order of their File headers.
type Msg struct {
	Headers []Header
	Body    []byte
	Files   []File
}

// Get returns the value of the first header line called name (case-insensitive).
func (m *Msg) Get(name string) (string, bool) {
	for _, h := range m.Headers {
		if strings.EqualFold(h.Name, name) {
			return h.Value, true
		}
	}
	return "", false
}

// Values returns the values of all header lines called name (case-insensitive), in wire order.
func (m *Msg) Values(name string) []string {
	var vs []string
	for _, h := range m.Headers {
		if strings.EqualFold(h.Name, name) {
			vs = append(vs, h.Value)
		}
	}
	return vs
}

// New builds a message from header lines (which must not contain Body or File lines), a body and
// attachments: "Body: <len>" and one "File: <len> <RawName>" line per attachment are appended
// after the given lines.
func New(headers []Header, body []byte, files []File) *Msg {
	m := &Msg{Headers: append([]Header(nil), headers...), Body: body, Files: files}
	m.Headers = append(m.Headers, Header{"Body", strconv.Itoa(len(body))})
	for _, f := range files {
		m.Headers = append(m.Headers, Header{"File", strconv.Itoa(len(f.Data)) + " " + f.RawName})
	}
	return m
}

// Bytes serialises the message: the header lines verbatim and in order, a blank line, the body
// and the attachment sections. It does not check that the Body/File header lines match the
// sections (Parse of the result does).
func (m *Msg) Bytes() []byte {
	var b bytes.Buffer
	for _, h := range m.Headers {
		b.WriteString(h.Name)
		b.WriteString(": ")
		b.WriteString(h.Value)
		b.WriteString("\r\n")
	}
	b.WriteString("\r\n")
	b.Write(m.Body)
	if len(m.Files) > 0 {
		b.WriteString("\r\n")
	}
	for _, f := range m.Files {
		b.Write(f.Data)
		b.WriteString("\r\n")
	}
	return b.Bytes()
}

func isBlank(c byte) bool { return c == ' ' || c == '\t' }

func trimBlanks(s string) string {
	for len(s) > 0 && isBlank(s[0]) {
		s = s[1:]
	}
	for len(s) > 0 && isBlank(s[len(s)-1]) {
		s = s[:len(s)-1]
	}
	return s
}

// parseSize parses a section size: decimal digits only, no sign, fits in an int.
func parseSize(s string) (int, error) {
	if s == "" || len(s) > 10 {
		return 0, fmt.Errorf("bad section size %q", s)
	}
	n := 0
	for i := 0; i < len(s); i++ {
		if s[i] < '0' || s[i] > '9' {
			return 0, fmt.Errorf("bad section size %q", s)
		}
		n = n*10 + int(s[i]-'0')
	}
	return n, nil
}

// Parse reads one complete message. It is strict: every header line ends in CRLF and has the form
// "Name: value" (no folded lines, no blanks inside the name), at most one Body header, sizes are
// plain decimal numbers, every section is followed by CRLF as described in the package comment,
// and nothing follows the last section.
func Parse(b []byte) (*Msg, error) {
	m := &Msg{}
	pos := 0
	bodySize, haveBody := 0, false
	type fileDecl struct {
		size int
		name string
	}
	var decls []fileDecl
	for {
		i := bytes.Index(b[pos:], []byte("\r\n"))
		if i < 0 {
			return nil, fmt.Errorf("header line at offset %d is not terminated by CRLF", pos)
		}
		line := string(b[pos : pos+i])
		pos += i + 2
		if line == "" {
			break
		}
		if strings.ContainsAny(line, "\r\n") {
			return nil, fmt.Errorf("bare CR or LF inside header line %q", line)
		}
		if isBlank(line[0]) {
			return nil, fmt.Errorf("folded header line %q (not part of the format)", line)
		}
		c := strings.IndexByte(line, ':')
		if c <= 0 {
			return nil, fmt.Errorf("header line %q has no name", line)
		}
		name, value := line[:c], trimBlanks(line[c+1:])
		for j := 0; j < len(name); j++ {
			if name[j] <= ' ' || name[j] >= 0x7f {
				return nil, fmt.Errorf("bad character in header name %q", name)
			}
		}
		m.Headers = append(m.Headers, Header{name, value})
		switch {
		case strings.EqualFold(name, "Body"):
			if haveBody {
				return nil, errors.New("more than one Body header")
			}
			n, err := parseSize(value)
			if err != nil {
				return nil, fmt.Errorf("Body header: %v", err)
			}
			bodySize, haveBody = n, true
		case strings.EqualFold(name, "File"):
			sz, nm, ok := strings.Cut(value, " ")
			if !ok || nm == "" {
				return nil, fmt.Errorf("File header %q is not \"<size> <name>\"", value)
			}
			n, err := parseSize(sz)
			if err != nil {
				return nil, fmt.Errorf("File header: %v", err)
			}
			decls = append(decls, fileDecl{n, nm})
		}
	}
	if len(m.Headers) == 0 {
		return nil, errors.New("no header lines")
	}
	take := func(what string, n int) ([]byte, error) {
		if n > len(b)-pos {
			return nil, fmt.Errorf("%s: %d bytes declared, only %d left", what, n, len(b)-pos)
		}
		s := b[pos : pos+n : pos+n]
		pos += n
		return s, nil
	}
	crlf := func(after string) error {
		if !bytes.HasPrefix(b[pos:], []byte("\r\n")) {
			return fmt.Errorf("no CRLF after %s (offset %d)", after, pos)
		}
		pos += 2
		return nil
	}
	var err error
	if m.Body, err = take("body", bodySize); err != nil {
		return nil, err
	}
	if len(decls) == 0 {
		if pos < len(b) {
			if err := crlf("the body"); err != nil {
				return nil, err
			}
		}
	} else if err := crlf("the body"); err != nil {
		return nil, err
	}
	for i, d := range decls {
		what := fmt.Sprintf("file %d (%q)", i+1, d.name)
		data, err := take(what, d.size)
		if err != nil {
			return nil, err
		}
		if err := crlf(what); err != nil {
			return nil, err
		}
		m.Files = append(m.Files, File{RawName: d.name, Data: data})
	}
	if pos != len(b) {
		return nil, fmt.Errorf("%d bytes after the last section", len(b)-pos)
	}
	return m, nil
}

// DecodeWords decodes the RFC 2047 encoded-words ("=?charset?Q?...?=" and "=?charset?B?...?=")
// of a header value into a UTF-8 string. Supported charsets: ISO-8859-1, US-ASCII, UTF-8. White
// space between two adjacent encoded-words is dropped, other text is copied as is. A value
// without encoded-words is returned unchanged. A malformed encoded-word or an unknown charset is
// an error.
func DecodeWords(s string) (string, error) {
	var out strings.Builder
	prevWasWord := false
	for len(s) > 0 {
		i := strings.Index(s, "=?")
		if i < 0 {
			out.WriteString(s)
			break
		}
		between := s[:i]
		if !(prevWasWord && strings.Trim(between, " \t") == "") {
			out.WriteString(between)
		}
		rest := s[i+2:]
		parts := strings.SplitN(rest, "?", 3)
		if len(parts) != 3 {
			return "", fmt.Errorf("malformed encoded-word in %q", s)
		}
		end := strings.Index(parts[2], "?=")
		if end < 0 {
			return "", fmt.Errorf("unterminated encoded-word in %q", s)
		}
		cs, enc, text := strings.ToLower(parts[0]), strings.ToLower(parts[1]), parts[2][:end]
		var raw []byte
		switch enc {
		case "q":
			for j := 0; j < len(text); j++ {
				switch c := text[j]; {
				case c == '_':
					raw = append(raw, ' ')
				case c == '=':
					if j+3 > len(text) {
						return "", fmt.Errorf("truncated =XX escape in %q", text)
					}
					v, err := strconv.ParseUint(text[j+1:j+3], 16, 8)
					if err != nil {
						return "", fmt.Errorf("bad =XX escape in %q", text)
					}
					raw = append(raw, byte(v))
					j += 2
				default:
					raw = append(raw, c)
				}
			}
		case "b":
			var err error
			if raw, err = base64.StdEncoding.DecodeString(text); err != nil {
				return "", fmt.Errorf("bad base64 in encoded-word: %v", err)
			}
		default:
			return "", fmt.Errorf("unknown encoding %q in encoded-word", parts[1])
		}
		switch cs {
		case "iso-8859-1", "latin1", "us-ascii":
			for _, c := range raw {
				out.WriteRune(rune(c))
			}
		case "utf-8":
			out.Write(raw)
		default:
			return "", fmt.Errorf("unsupported charset %q in encoded-word", parts[0])
		}
		s = parts[2][end+2:]
		prevWasWord = true
	}
	return out.String(), nil
}
