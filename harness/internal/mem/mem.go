// Package mem is an in-memory reference fbb.MBoxHandler with a shared event log. The offline
// checkers in this package decide exactly-once, no-loss, ordering and content identity over the
// recorded events of both stations.
package mem

import (
	"bytes"
	"crypto/sha256"
	"encoding/hex"
	"errors"
	"fmt"
	"sort"
	"sync"

	"github.com/la5nta/wl2k-go/fbb"
)

// Event kinds.
const (
	EvPrepare         = "Prepare"
	EvGetOutbound     = "GetOutbound"
	EvSetSent         = "SetSent"
	EvSetDeferred     = "SetDeferred"
	EvGetInboundAns   = "GetInboundAnswer"
	EvProcessInbound  = "ProcessInbound" // completed successfully
	EvProcessInFailed = "ProcessInboundFailed"
)

// Event is one observed handler callback.
type Event struct {
	Seq     int      `json:"seq"`
	Station string   `json:"st"`
	Session int      `json:"sess"`
	Kind    string   `json:"kind"`
	MID     string   `json:"mid,omitempty"`
	Flag    bool     `json:"flag,omitempty"`   // SetSent: rejected
	Answer  string   `json:"answer,omitempty"` // GetInboundAnswer
	Hash    string   `json:"hash,omitempty"`   // ProcessInbound: sha256 of Message.Bytes()
	MIDs    []string `json:"mids,omitempty"`   // GetOutbound result
	FW      []string `json:"fw,omitempty"`     // GetOutbound argument
	Size    int      `json:"size,omitempty"`
}

// Log is the event log shared by both stations (one global sequence).
type Log struct {
	mu      sync.Mutex
	ev      []Event
	Session int
}

func (l *Log) add(e Event) {
	l.mu.Lock()
	e.Seq = len(l.ev)
	e.Session = l.Session
	l.ev = append(l.ev, e)
	l.mu.Unlock()
}

// Add appends an event observed by a wrapper around a real handler.
func (l *Log) Add(e Event) { l.add(e) }

func (l *Log) Events() []Event {
	l.mu.Lock()
	defer l.mu.Unlock()
	return append([]Event(nil), l.ev...)
}

func (l *Log) NextSession() {
	l.mu.Lock()
	l.Session++
	l.mu.Unlock()
}

func Hash(b []byte) string {
	h := sha256.Sum256(b)
	return hex.EncodeToString(h[:8])
}

// Queued is an outbound message with its ground-truth serialisation.
type Queued struct {
	MID   string
	Bytes []byte
}

// Station is one in-memory mailbox.
type Station struct {
	Name    string
	Log     *Log
	Batched bool // wrapped by AsHandler into a BatchedInboundHandler

	mu       sync.Mutex
	out      []Queued                      // pending outbound, in queue order
	sent     map[string]bool               // MID -> rejected flag
	deferred map[string]bool               // reset by Prepare
	Policy   map[string]fbb.ProposalAnswer // per inbound MID; default Accept
	inbox    map[string][]byte
	// FailAt makes the j-th ProcessInbound call (1-based, counted over the station's lifetime)
	// return a storage error.
	FailAt       int
	processCalls int
	// PrepareErr is returned by Prepare when set.
	PrepareErr error
	// Dedup: an inbound MID already in the inbox is rejected regardless of policy.
	Dedup bool
}

func NewStation(name string, log *Log) *Station {
	return &Station{Name: name, Log: log, sent: map[string]bool{}, deferred: map[string]bool{}, Policy: map[string]fbb.ProposalAnswer{},
		inbox: map[string][]byte{}, Dedup: true}
}

// Queue adds an outbound message (its serialisation is the ground truth for content identity).
func (s *Station) Queue(mid string, data []byte) {
	s.mu.Lock()
	s.out = append(s.out, Queued{MID: mid, Bytes: append([]byte(nil), data...)})
	s.mu.Unlock()
}

func (s *Station) Pending() []string {
	s.mu.Lock()
	defer s.mu.Unlock()
	var m []string
	for _, q := range s.out {
		m = append(m, q.MID)
	}
	return m
}

func (s *Station) Inbox() map[string][]byte {
	s.mu.Lock()
	defer s.mu.Unlock()
	out := map[string][]byte{}
	for k, v := range s.inbox {
		out[k] = v
	}
	return out
}

func (s *Station) SentMap() map[string]bool {
	s.mu.Lock()
	defer s.mu.Unlock()
	out := map[string]bool{}
	for k, v := range s.sent {
		out[k] = v
	}
	return out
}

// --- fbb.MBoxHandler -----------------------------------------------------------------------------

func (s *Station) Prepare() error {
	s.mu.Lock()
	s.deferred = map[string]bool{}
	err := s.PrepareErr
	s.mu.Unlock()
	s.Log.add(Event{Station: s.Name, Kind: EvPrepare})
	return err
}

func (s *Station) GetOutbound(fw ...fbb.Address) []*fbb.Message {
	s.mu.Lock()
	var msgs []*fbb.Message
	var mids []string
	for _, q := range s.out {
		if s.deferred[q.MID] {
			continue
		}
		m := new(fbb.Message)
		if err := m.ReadFrom(bytes.NewReader(q.Bytes)); err != nil {
			panic(fmt.Sprintf("mem: queued message %s does not parse: %v", q.MID, err)) // harness bug
		}
		msgs = append(msgs, m)
		mids = append(mids, q.MID)
	}
	s.mu.Unlock()
	var fws []string
	for _, a := range fw {
		fws = append(fws, a.String())
	}
	s.Log.add(Event{Station: s.Name, Kind: EvGetOutbound, MIDs: mids, FW: fws})
	return msgs
}

func (s *Station) SetSent(mid string, rejected bool) {
	s.mu.Lock()
	for i, q := range s.out {
		if q.MID == mid {
			s.out = append(s.out[:i:i], s.out[i+1:]...)
			break
		}
	}
	s.sent[mid] = rejected
	s.mu.Unlock()
	s.Log.add(Event{Station: s.Name, Kind: EvSetSent, MID: mid, Flag: rejected})
}

func (s *Station) SetDeferred(mid string) {
	s.mu.Lock()
	s.deferred[mid] = true
	s.mu.Unlock()
	s.Log.add(Event{Station: s.Name, Kind: EvSetDeferred, MID: mid})
}

func (s *Station) answer(p fbb.Proposal) fbb.ProposalAnswer {
	s.mu.Lock()
	defer s.mu.Unlock()
	if _, have := s.inbox[p.MID()]; have && s.Dedup {
		return fbb.Reject
	}
	if a, ok := s.Policy[p.MID()]; ok {
		return a
	}
	return fbb.Accept
}

func (s *Station) GetInboundAnswer(p fbb.Proposal) fbb.ProposalAnswer {
	a := s.answer(p)
	s.Log.add(Event{Station: s.Name, Kind: EvGetInboundAns, MID: p.MID(), Answer: string(rune(a)), Size: p.CompressedSize()})
	return a
}

var ErrStorage = errors.New("simulated storage error")

func (s *Station) ProcessInbound(msgs ...*fbb.Message) error {
	for _, m := range msgs {
		s.mu.Lock()
		s.processCalls++
		fail := s.FailAt > 0 && s.processCalls == s.FailAt
		s.mu.Unlock()
		if fail {
			s.Log.add(Event{Station: s.Name, Kind: EvProcessInFailed, MID: m.MID()})
			return ErrStorage
		}
		b, err := m.Bytes()
		if err != nil {
			s.Log.add(Event{Station: s.Name, Kind: EvProcessInFailed, MID: m.MID()})
			return err
		}
		s.mu.Lock()
		s.inbox[m.MID()] = b
		s.mu.Unlock()
		s.Log.add(Event{Station: s.Name, Kind: EvProcessInbound, MID: m.MID(), Hash: Hash(b), Size: len(b)})
	}
	return nil
}

// BatchedStation answers proposals in blocks (fbb.BatchedInboundHandler).
type BatchedStation struct{ *Station }

func (b BatchedStation) GetInboundAnswers(ps []fbb.Proposal) []fbb.ProposalAnswer {
	out := make([]fbb.ProposalAnswer, len(ps))
	for i, p := range ps {
		out[i] = b.Station.GetInboundAnswer(p)
	}
	return out
}

// AsHandler returns the station as an fbb.MBoxHandler, batched or not.
func (s *Station) AsHandler() fbb.MBoxHandler {
	if s.Batched {
		return BatchedStation{s}
	}
	return s
}

var (
	_ fbb.MBoxHandler           = (*Station)(nil)
	_ fbb.BatchedInboundHandler = BatchedStation{}
)

// SortedKeys is a small helper for deterministic reports.
func SortedKeys[V any](m map[string]V) []string {
	var k []string
	for s := range m {
		k = append(k, s)
	}
	sort.Strings(k)
	return k
}
