package mboxkit

import (
	"os"
	"path/filepath"
	"strings"
	"testing"

	"github.com/la5nta/wl2k-go/mailbox"
)

// The in-process storage-error helper: the real DirHandler gets a real EFBIG from the kernel.
func TestWithFileSizeLimit(t *testing.T) {
	dir := t.TempDir()
	h := mailbox.NewDirHandler(dir, false)
	if err := h.Prepare(); err != nil {
		t.Fatal(err)
	}
	msg := MsgSpec{MID: "FSIZE0000001", To: []string{"N0DST"}, BodyLen: 500}.Build()
	var opErr error
	if err := WithFileSizeLimit(100, func() { opErr = h.ProcessInbound(msg) }); err != nil {
		t.Fatal(err)
	}
	if opErr == nil || !strings.Contains(opErr.Error(), "file too large") {
		t.Fatalf("expected a real EFBIG storage error, got %v", opErr)
	}
	// the limit is gone afterwards
	if err := os.WriteFile(filepath.Join(dir, "big"), make([]byte, 4096), 0o644); err != nil {
		t.Fatalf("limit not restored: %v", err)
	}
	t.Logf("ProcessInbound under a 100-byte file size limit: %v", opErr)
}

func TestStripHeaders(t *testing.T) {
	in := "Mid: X\r\nX-Filepath: /a/b\r\nSubject: s\r\nX-Unread: true\r\nX-P2ponly: true\r\n\r\nX-Unread: body line stays\r\n"
	got := string(StripHeaders([]byte(in), PrivateLocal))
	want := "Mid: X\r\nSubject: s\r\nX-P2ponly: true\r\n\r\nX-Unread: body line stays\r\n"
	if got != want {
		t.Fatalf("got %q want %q", got, want)
	}
	if !HasHeader([]byte(in), "x-p2ponly") || HasHeader([]byte(want), "x-unread") {
		t.Fatal("HasHeader")
	}
}

func TestParseStraceKillArtefacts(t *testing.T) {
	log := `100 execve("/x", ["x"], 0x0 /* 1 vars */) = 0
100 openat(AT_FDCWD, "/sys/x", O_RDONLY) = 3
100 close(3)                          = 0
100 faccessat(AT_FDCWD, "` + MarkBegin + `", F_OK) = -1 ENOENT (No such file or directory)
100 openat(AT_FDCWD, "/m/in/A.b2f", O_WRONLY|O_CREAT|O_TRUNC|O_CLOEXEC, 0664) = 4
100 write(4, "Mid: A\r\n"..., 271) = 1
100 write(4, "id: A\r\n"..., 270 <unfinished ...>
101 write(4, "id: A\r\n"..., 270 <unfinished ...>
100 <... write resumed>)              = ?
`
	tr := ParseStrace(log)
	if !tr.Killed || tr.OtherThread != 0 || !tr.BeginSeen || tr.EndSeen || len(tr.Window) != 3 {
		t.Fatalf("%+v", tr)
	}
	w := tr.Window[1]
	if n, ok := w.RetInt(); !ok || n != 1 || w.Count != 271 || w.FD != 4 || w.Ordinal != 1 || tr.Window[2].Ordinal != 2 || tr.Window[0].Ordinal != 2 {
		t.Fatalf("%+v", tr.Window)
	}
}
