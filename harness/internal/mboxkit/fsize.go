package mboxkit

import (
	"sync"
	"syscall"
)

// SetFileSizeLimit lowers the soft RLIMIT_FSIZE of the calling process to n bytes (the hard limit
// is left alone so that the limit can be raised again). A write(2) that crosses the limit is
// performed partially by the kernel; the next one fails with EFBIG. Go ignores SIGXFSZ, so the
// process sees a real short write followed by a real storage error.
//
// The limit is per process and applies to regular files only (pipes, sockets and ttys are not
// affected). It would also truncate strace's own log if it were set from outside the victim
// (prlimit / ulimit in the parent), which is why the victims set it themselves.
func SetFileSizeLimit(n uint64) error {
	var cur syscall.Rlimit
	if err := syscall.Getrlimit(syscall.RLIMIT_FSIZE, &cur); err != nil {
		return err
	}
	cur.Cur = n
	if cur.Max != ^uint64(0) && n > cur.Max {
		cur.Cur = cur.Max
	}
	return syscall.Setrlimit(syscall.RLIMIT_FSIZE, &cur)
}

// ClearFileSizeLimit restores the soft limit to the hard limit.
func ClearFileSizeLimit() error {
	var cur syscall.Rlimit
	if err := syscall.Getrlimit(syscall.RLIMIT_FSIZE, &cur); err != nil {
		return err
	}
	cur.Cur = cur.Max
	return syscall.Setrlimit(syscall.RLIMIT_FSIZE, &cur)
}

var fsizeMu sync.Mutex

// WithFileSizeLimit runs f while no regular file of this process can grow beyond n bytes: every
// write(2) that would cross n is cut short and the following one fails with EFBIG ("file too
// large") - a *real* storage error produced by the kernel, as opposed to a mocked one.
//
// It is the reusable helper for "run the real DirHandler with a real storage error during
// ProcessInbound" (C02's DirHandler leg): wrap the chosen ProcessInbound call in
// WithFileSizeLimit(k, ...) with k smaller than the message. Caveats: the limit is process-wide for
// the duration of f (calls are serialised by a mutex, but other goroutines that write regular files
// at that moment - e.g. a log file on stderr - get EFBIG too), so use it only in worker processes
// whose other output goes to pipes, or tolerate lost log lines.
func WithFileSizeLimit(n uint64, f func()) error {
	fsizeMu.Lock()
	defer fsizeMu.Unlock()
	if err := SetFileSizeLimit(n); err != nil {
		return err
	}
	defer ClearFileSizeLimit()
	f()
	return nil
}

// WithNoFileDescriptors runs f while this process cannot obtain any new file descriptor: the soft
// RLIMIT_NOFILE is lowered to 0 for the duration, so every open/openat/socket/pipe fails with EMFILE
// ("too many open files") - a real resource error from the kernel. Descriptors that are already open
// keep working. Process-wide like WithFileSizeLimit (same mutex, same caveats).
func WithNoFileDescriptors(f func()) error {
	fsizeMu.Lock()
	defer fsizeMu.Unlock()
	var old syscall.Rlimit
	if err := syscall.Getrlimit(syscall.RLIMIT_NOFILE, &old); err != nil {
		return err
	}
	lim := old
	lim.Cur = 0
	if err := syscall.Setrlimit(syscall.RLIMIT_NOFILE, &lim); err != nil {
		return err
	}
	defer syscall.Setrlimit(syscall.RLIMIT_NOFILE, &old)
	f()
	return nil
}
