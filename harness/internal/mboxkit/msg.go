// Package mboxkit holds what the directory-mailbox checks (C10, C11, C12) share: deterministic
// test messages, a textual canonicalisation that is independent of the library's parser,
// tmpfs-backed scratch directories, and the child-process modes (crash victim under strace,
// chroot jail) that are dispatched from an init() of this package when the harness binary is
// re-executed with VERIF_MBOX_CHILD set.
package mboxkit

import (
	"bytes"
	crand "crypto/rand"
	"crypto/sha256"
	"encoding/hex"
	"fmt"
	"os"
	"path/filepath"
	"strconv"
	"strings"
	"syscall"
	"time"

	"github.com/la5nta/wl2k-go/fbb"
)

// FixedDate is the Date of every generated message (messages must be reproducible).
var FixedDate = time.Date(2024, 5, 17, 13, 45, 0, 0, time.UTC)

// MsgSpec describes a message of the small universes used by the mailbox checks.
type MsgSpec struct {
	MID     string   `json:"mid"`
	From    string   `json:"from,omitempty"`
	To      []string `json:"to"`
	Cc      []string `json:"cc,omitempty"`
	P2POnly bool     `json:"p2p_only,omitempty"`
	Subject string   `json:"subject,omitempty"`
	// BodyLen is the number of body bytes (deterministic printable filler derived from MID/Tag).
	BodyLen int `json:"body_len,omitempty"`
	// FileLen > 0 adds one attachment with that many arbitrary bytes (incl. NUL and CRLF).
	FileLen int    `json:"file_len,omitempty"`
	Tag     string `json:"tag,omitempty"` // makes two messages with the same MID differ in content
	// Files is the number of attachments when FileLen > 0 (0 means one): repeated File header fields.
	Files int `json:"files,omitempty"`
}

// Build constructs the library message for a spec (through the library's public constructors; the
// result is the *input* of the operations under test, never an oracle).
func (s MsgSpec) Build() *fbb.Message {
	from := s.From
	if from == "" {
		from = "N0SRC"
	}
	m := fbb.NewMessage(fbb.Private, from)
	m.Header.Set("Mid", s.MID)
	m.SetDate(FixedDate)
	for _, t := range s.To {
		m.AddTo(t)
	}
	for _, c := range s.Cc {
		m.AddCc(c)
	}
	subj := s.Subject
	if subj == "" {
		subj = "subject of " + s.MID + s.Tag
	}
	m.SetSubject(subj)
	n := s.BodyLen
	if n <= 0 {
		n = 40
	}
	m.SetBody(filler(s.MID+"/"+s.Tag, n))
	if s.FileLen > 0 {
		data := make([]byte, s.FileLen)
		h := sha256.Sum256([]byte("file/" + s.MID + s.Tag))
		for i := range data {
			data[i] = h[i%len(h)] ^ byte(i/len(h))
		}
		if len(data) > 8 {
			copy(data[2:], []byte{0, '\r', '\n', 0})
		}
		m.AddFile(fbb.NewFile("att-"+s.MID+".bin", data))
		for k := 2; k <= s.Files; k++ {
			m.AddFile(fbb.NewFile(fmt.Sprintf("att%d-%s.bin", k, s.MID), append([]byte{byte(k)}, data[:len(data)/k]...)))
		}
	}
	if s.P2POnly {
		m.Header.Set("X-P2POnly", "true")
	}
	// every other message carries extension fields of the application's own (forms, trackers and gateways add such
	// fields): they are part of the message, not of the mailbox's book-keeping
	if (len(s.MID)+len(s.Tag)+s.BodyLen)%2 == 0 {
		m.Header.Set("X-Location", "60.1N 5.3E (GPS)")
		m.Header.Set("X-Source", "N0SRC")
	}
	return m
}

// filler returns n bytes of printable text in CRLF-terminated lines of 60 characters.
func filler(key string, n int) string {
	const alphabet = "abcdefghijklmnopqrstuvwxyz0123456789 ABCDEFGHIJKLMNOPQRSTUVWXYZ"
	h := sha256.Sum256([]byte(key))
	b := make([]byte, 0, n)
	for i := 0; len(b) < n; i++ {
		switch i % 62 {
		case 60:
			b = append(b, '\r')
		case 61:
			b = append(b, '\n')
		default:
			b = append(b, alphabet[int(h[i%32]^byte(i/32))%len(alphabet)])
		}
	}
	// the text must not end in white space or a dangling CR (setters and parsers may trim those)
	for j := n - 1; j >= 0 && j >= n-2; j-- {
		if b[j] == ' ' || b[j] == '\r' || b[j] == '\n' {
			b[j] = 'x'
		}
	}
	return string(b)
}

// MustBytes serialises a message; the generated messages always serialise.
func MustBytes(m *fbb.Message) []byte {
	b, err := m.Bytes()
	if err != nil {
		panic("mboxkit: generated message does not serialise: " + err.Error())
	}
	return b
}

// private header names in the canonical (textproto) spelling the library writes, lower-cased.
var (
	PrivateAll   = []string{"x-p2ponly", "x-filepath", "x-unread"}
	PrivateLocal = []string{"x-filepath", "x-unread"} // headers the mailbox adds on its own
)

// StripHeaders removes the named header lines (lower-case names) from the header section of a
// serialised message. It works on the text only: header section = everything up to the first empty
// line; a header line is "Name: value CRLF". It deliberately does not use the library's parser.
func StripHeaders(msg []byte, names []string) []byte {
	end := bytes.Index(msg, []byte("\r\n\r\n"))
	if end < 0 {
		return msg
	}
	head, rest := msg[:end+2], msg[end+2:]
	var out bytes.Buffer
	for len(head) > 0 {
		i := bytes.Index(head, []byte("\r\n"))
		line := head[:i+2]
		head = head[i+2:]
		drop := false
		if c := bytes.IndexByte(line, ':'); c > 0 {
			name := strings.ToLower(string(line[:c]))
			for _, n := range names {
				if name == n {
					drop = true
				}
			}
		}
		if !drop {
			out.Write(line)
		}
	}
	out.Write(rest)
	return out.Bytes()
}

// HasHeader reports whether the serialised message has a header line with that (lower-case) name.
func HasHeader(msg []byte, name string) bool {
	return !bytes.Equal(StripHeaders(msg, []string{name}), msg)
}

// Canon is the message "modulo the headers the mailbox adds on its own".
func Canon(msg []byte) []byte { return StripHeaders(msg, PrivateLocal) }

// Sum is a short content hash for reports.
func Sum(b []byte) string {
	h := sha256.Sum256(b)
	return hex.EncodeToString(h[:8])
}

// ---------------------------------------------------------------------------------------------
// scratch directories

const shmPrefix = "verif-mbox-"

// TempBase returns the directory under which mailbox scratch directories are created: tmpfs when
// available (the checks create and delete hundreds of thousands of small files).
func TempBase() string {
	if st, err := os.Stat("/dev/shm"); err == nil && st.IsDir() {
		if f, err := os.CreateTemp("/dev/shm", ".verif-probe-"); err == nil {
			f.Close()
			os.Remove(f.Name())
			return "/dev/shm"
		}
	}
	return os.TempDir()
}

var tempBase string

// MkTemp creates a private scratch directory (always under a name that carries our pid, so that
// directories leaked by a killed worker can be reaped by Janitor).
func MkTemp(tag string) string {
	if tempBase == "" {
		tempBase = TempBase()
	}
	// fixed-width names: some files the mailbox writes contain their own path (X-FilePath), and the
	// crash points of C11 are byte offsets into such files - they must not depend on name lengths
	for i := 0; ; i++ {
		var rnd [6]byte
		crand.Read(rnd[:])
		d := filepath.Join(tempBase, fmt.Sprintf("%s%07d-%s-%s", shmPrefix, os.Getpid(), tag, hex.EncodeToString(rnd[:])))
		err := os.Mkdir(d, 0o700)
		if err == nil {
			return d
		}
		if !os.IsExist(err) || i > 100 {
			panic("mboxkit: cannot create scratch dir: " + err.Error())
		}
	}
}

// Janitor removes scratch directories left behind by worker processes that no longer exist.
func Janitor() {
	if tempBase == "" {
		tempBase = TempBase()
	}
	ents, err := os.ReadDir(tempBase)
	if err != nil {
		return
	}
	for _, e := range ents {
		name := e.Name()
		if !strings.HasPrefix(name, shmPrefix) {
			continue
		}
		rest := strings.TrimPrefix(name, shmPrefix)
		i := strings.IndexByte(rest, '-')
		if i <= 0 {
			continue
		}
		pid, err := strconv.Atoi(rest[:i])
		if err != nil || pid == os.Getpid() {
			continue
		}
		if err := syscall.Kill(pid, 0); err == syscall.ESRCH {
			os.RemoveAll(filepath.Join(tempBase, name))
		}
	}
}

// CopyTree copies a (small) directory tree, preserving modes. Used to give every crash run its own
// copy of the prepared mailbox.
func CopyTree(src, dst string) error {
	return filepath.Walk(src, func(p string, info os.FileInfo, err error) error {
		if err != nil {
			return err
		}
		rel, _ := filepath.Rel(src, p)
		target := filepath.Join(dst, rel)
		switch {
		case info.IsDir():
			return os.MkdirAll(target, info.Mode().Perm())
		case info.Mode().IsRegular():
			b, err := os.ReadFile(p)
			if err != nil {
				return err
			}
			return os.WriteFile(target, b, info.Mode().Perm())
		case info.Mode()&os.ModeSymlink != 0:
			to, err := os.Readlink(p)
			if err != nil {
				return err
			}
			return os.Symlink(to, target)
		}
		return nil
	})
}

// ReadTree returns relative path -> content for every regular file (and symbolic link to one) below root ("" for directories
// is not recorded; empty directories are irrelevant to the mailbox).
func ReadTree(root string) (map[string][]byte, error) {
	out := map[string][]byte{}
	err := filepath.Walk(root, func(p string, info os.FileInfo, err error) error {
		if err != nil {
			return err
		}
		// a symbolic link to a regular file is recorded with the content seen through its name; a symbolic link to a
		// directory (a folder kept on another disk) is read through, its files recorded under the link's name
		if info.Mode()&os.ModeSymlink != 0 {
			st, err := os.Stat(p)
			if err != nil {
				return nil
			}
			if st.IsDir() && p != root {
				target, err := filepath.EvalSymlinks(p)
				if err != nil {
					return nil
				}
				sub, err := ReadTree(target)
				if err != nil {
					return err
				}
				rel, _ := filepath.Rel(root, p)
				for k, v := range sub {
					out[filepath.Join(rel, k)] = v
				}
				return nil
			}
			if !st.Mode().IsRegular() {
				return nil
			}
		} else if !info.Mode().IsRegular() {
			return nil
		}
		b, err := os.ReadFile(p)
		if err != nil {
			return err
		}
		rel, _ := filepath.Rel(root, p)
		out[rel] = b
		return nil
	})
	return out, err
}
