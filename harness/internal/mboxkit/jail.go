package mboxkit

import (
	"bufio"
	"bytes"
	"crypto/sha256"
	"encoding/hex"
	"encoding/json"
	"fmt"
	"os"
	"os/exec"
	"path/filepath"
	"sort"
	"strings"
	"syscall"

	"github.com/la5nta/wl2k-go/fbb"
	"github.com/la5nta/wl2k-go/mailbox"
)

// ---------------------------------------------------------------------------------------------
// The confinement jail (C12).
//
// JailRun builds a directory tree
//
//	<root>/l1/l2/l3/l4/l5/l6/mbox          the mailbox under test
//	<root>{,/l1,...,/l6}/{x,y,decoy}.b2f…  decoy files at every ancestor level
//	<root>/…/{in,out,sent,archive}/…       decoy folders named like mailbox folders at every level
//	<root>/abs, <root>/tmp, <root>/etc …   targets for absolute paths
//
// and starts a child (this binary, see ChildDispatch) that chroots into <root>, so that the
// snapshot of "everything outside the mailbox" really is everything the process can reach, and
// nothing it does can touch the real file system. The child applies the operations one by one and
// diffs a recursive snapshot (type, mode, size, mtime, inode, SHA-256 / link target) of everything
// outside the mailbox directory before and after each call.

// JailMbox is the mailbox directory inside the jail.
const JailMbox = "/l1/l2/l3/l4/l5/l6/mbox"

// Op is one call applied to the jailed mailbox.
type Op struct {
	// Kind: ProcessInbound | GetInboundAnswer | SetSent | SetDeferred, or a kind registered with
	// RegisterJailOp.
	Kind string `json:"kind"`
	// MID is the attacker-chosen identifier (arbitrary bytes; base64 in JSON): the Mid header of
	// the received message, the MID of the proposal, or the MID argument.
	MID []byte `json:"mid"`
	// Parsed (ProcessInbound only): the message reaches the handler the way a session delivers it -
	// serialised with the hostile Mid line and parsed by fbb.Message.ReadFrom - instead of having
	// the header set directly.
	Parsed bool `json:"parsed,omitempty"`
	// Arg is passed through to registered kinds.
	Arg json.RawMessage `json:"arg,omitempty"`
	// Note is free text carried into the result (e.g. the class of the MID).
	Note string `json:"note,omitempty"`
}

// Change is one difference outside the mailbox directory.
type Change struct {
	Path   string `json:"path"` // relative to the jail root
	What   string `json:"what"` // created | deleted | modified
	Before string `json:"before,omitempty"`
	After  string `json:"after,omitempty"`
}

// OpResult is what was observed for one Op.
type OpResult struct {
	Index    int      `json:"index"`
	Op       Op       `json:"op"`
	Ret      string   `json:"ret"`                // nil | error: … | answer:+ | ok | skipped: … | panic: …
	Panicked bool     `json:"panicked,omitempty"` // the call panicked (recovered in the child)
	Fatal    bool     `json:"fatal,omitempty"`    // the child process exited inside the call (log.Fatalf, os.Exit, runtime fatal)
	ExitCode int      `json:"exit_code,omitempty"`
	Escapes  []Change `json:"escapes,omitempty"` // differences OUTSIDE the mailbox: each one refutes confinement
	Inside   int      `json:"inside"`            // number of files inside the mailbox that were created/changed/removed (information)
}

// Result of a JailRun.
type Result struct {
	Chroot bool       `json:"chroot"` // false: chroot(2) was unavailable, the tree was used in place (".." depth is then bounded by the tree)
	Ops    []OpResult `json:"ops"`
	Err    string     `json:"err,omitempty"` // harness problem (never a verdict)
}

// OpFunc implements a custom jail operation; it runs inside the chrooted child. mbox is the mailbox
// directory as the child sees it. The returned string ends up in OpResult.Ret.
type OpFunc func(mbox string, op Op) string

var jailOps = map[string]OpFunc{}

// RegisterJailOp adds a custom operation kind. It must be called from an init() function of a
// package that is linked into the harness binary (the child is the same binary and looks the kind
// up by name; ChildDispatch runs after all package init functions).
//
// Intended use: C12's "through a real Session" leg registers a kind that runs a fbb.Session with a
// mailbox.DirHandler on mbox against the reference B2F peer over an in-memory pipe; the snapshot
// diff around it is done here.
func RegisterJailOp(kind string, f OpFunc) { jailOps[kind] = f }

// ---------------------------------------------------------------------------------------------
// tree

var jailLevels = []string{"", "l1", "l1/l2", "l1/l2/l3", "l1/l2/l3/l4", "l1/l2/l3/l4/l5", "l1/l2/l3/l4/l5/l6"}

// DecoyNames are the base names (without .b2f) the hostile MIDs of the checks aim at.
var DecoyNames = []string{"x", "y", "decoy", "AAAAAAAAAAA1"}

func buildJail(root string) error {
	write := func(rel string, data string) error {
		p := filepath.Join(root, rel)
		if err := os.MkdirAll(filepath.Dir(p), 0o755); err != nil {
			return err
		}
		return os.WriteFile(p, []byte(data), 0o644)
	}
	for _, lvl := range jailLevels {
		for _, n := range DecoyNames {
			if err := write(filepath.Join(lvl, n+".b2f"), "decoy "+lvl+"/"+n+".b2f\n"); err != nil {
				return err
			}
			if err := write(filepath.Join(lvl, n), "decoy without extension "+lvl+"/"+n+"\n"); err != nil {
				return err
			}
		}
		// decoys of other kinds: an empty file (what an interrupted write leaves behind; a "repair" or "clean-up" has
		// something to remove), a read-only file, and a directory with the message-file extension
		if err := write(filepath.Join(lvl, "empty.b2f"), ""); err != nil {
			return err
		}
		if err := write(filepath.Join(lvl, "empty"), ""); err != nil {
			return err
		}
		if err := write(filepath.Join(lvl, "folder.b2f", "child"), "decoy in a directory named like a message "+lvl+"\n"); err != nil {
			return err
		}
		if err := write(filepath.Join(lvl, "ro.b2f"), "read-only decoy "+lvl+"\n"); err != nil {
			return err
		}
		if err := os.Chmod(filepath.Join(root, lvl, "ro.b2f"), 0o444); err != nil {
			return err
		}
		// folders named like mailbox folders next to every ancestor, with decoys inside
		for _, f := range []string{"in", "out", "sent", "archive"} {
			for _, n := range DecoyNames[:2] {
				if err := write(filepath.Join(lvl, f, n+".b2f"), "decoy folder file "+lvl+"/"+f+"/"+n+"\n"); err != nil {
					return err
				}
			}
		}
	}
	for _, rel := range []string{"abs/x.b2f", "abs/x", "tmp/x.b2f", "etc/passwd", "etc/passwd.b2f", "l1/l2/l3/l4/l5/l6/other/in/x.b2f", "l1/l2/l3/l4/l5/l6/mbox2/in/x.b2f", "a/b.b2f", "a/b"} {
		if err := write(rel, "decoy "+rel+"\n"); err != nil {
			return err
		}
	}
	for _, rel := range []string{"abs/empty.b2f", "l1/l2/l3/l4/l5/l6/other/in/empty.b2f"} {
		if err := write(rel, ""); err != nil {
			return err
		}
	}
	// a symlink decoy (its target must not change either)
	if err := os.Symlink("x.b2f", filepath.Join(root, "l1/l2/l3/l4/l5/l6/link.b2f")); err != nil {
		return err
	}
	return os.MkdirAll(filepath.Join(root, JailMbox), 0o755)
}

type snapEntry struct {
	Mode  os.FileMode
	Size  int64
	Mtime int64
	Ino   uint64
	Sum   string // content hash (regular files) or link target
}

func (e snapEntry) String() string {
	return fmt.Sprintf("mode=%v size=%d mtime=%d ino=%d sum=%s", e.Mode, e.Size, e.Mtime, e.Ino, e.Sum)
}

// snapshot records everything below root except the subtree skip (path relative to root).
func snapshot(root, skip string) (map[string]snapEntry, error) {
	out := map[string]snapEntry{}
	skip = strings.Trim(skip, "/")
	err := filepath.Walk(root, func(p string, info os.FileInfo, err error) error {
		if err != nil {
			return err
		}
		rel, _ := filepath.Rel(root, p)
		if rel == skip {
			return filepath.SkipDir
		}
		e := snapEntry{Mode: info.Mode(), Mtime: info.ModTime().UnixNano()}
		if st, ok := info.Sys().(*syscall.Stat_t); ok {
			e.Ino = st.Ino
		}
		switch {
		case info.Mode().IsRegular():
			e.Size = info.Size()
			b, err := os.ReadFile(p)
			if err != nil {
				return err
			}
			h := sha256.Sum256(b)
			e.Sum = hex.EncodeToString(h[:10])
		case info.Mode()&os.ModeSymlink != 0:
			e.Sum, _ = os.Readlink(p)
		}
		out[rel] = e
		return nil
	})
	return out, err
}

func diffSnap(a, b map[string]snapEntry) []Change {
	var ch []Change
	for p, ea := range a {
		eb, ok := b[p]
		switch {
		case !ok:
			ch = append(ch, Change{Path: p, What: "deleted", Before: ea.String()})
		case ea != eb:
			ch = append(ch, Change{Path: p, What: "modified", Before: ea.String(), After: eb.String()})
		}
	}
	for p, eb := range b {
		if _, ok := a[p]; !ok {
			ch = append(ch, Change{Path: p, What: "created", After: eb.String()})
		}
	}
	sort.Slice(ch, func(i, j int) bool { return ch[i].Path < ch[j].Path })
	return ch
}

// countInside returns a cheap fingerprint of the mailbox subtree (path -> size:mtime) to report
// how many files inside the mailbox an operation touched.
func insideFingerprint(mbox string) map[string]string {
	out := map[string]string{}
	filepath.Walk(mbox, func(p string, info os.FileInfo, err error) error {
		if err == nil && !info.IsDir() {
			out[p] = fmt.Sprintf("%d:%d", info.Size(), info.ModTime().UnixNano())
		}
		return nil
	})
	return out
}

func fingerprintDelta(a, b map[string]string) int {
	n := 0
	for p, v := range a {
		if b[p] != v {
			n++
		}
	}
	for p := range b {
		if _, ok := a[p]; !ok {
			n++
		}
	}
	return n
}

// ---------------------------------------------------------------------------------------------
// parent side

type jailSpec struct {
	Root  string `json:"root"`
	Start int    `json:"start"`
	Ops   []Op   `json:"ops"`
}

type jailLine struct {
	Hello  bool      `json:"hello,omitempty"`
	Chroot bool      `json:"chroot,omitempty"`
	Begin  *int      `json:"begin,omitempty"`
	Res    *OpResult `json:"res,omitempty"`
	Err    string    `json:"err,omitempty"`
}

// JailRun applies ops, in order, to one jailed mailbox (pre-filled with three valid messages in
// in/, out/ and sent/) and reports what each call changed outside the mailbox directory. A call
// during which the child exits (mailbox.SetSent calls log.Fatalf when the rename fails) is reported
// with Fatal=true; the jail is then diffed from outside and the remaining operations continue in a
// new child on the same jail.
//
// It must be called from a process running the harness binary (worker), since the child is
// os.Executable() re-executed with VERIF_MBOX_CHILD=jail. Needs root for chroot(2); without it the
// tree is used in place and Result.Chroot is false.
func JailRun(ops []Op) Result {
	var res Result
	root := MkTemp("jail")
	defer os.RemoveAll(root)
	if err := buildJail(root); err != nil {
		res.Err = "cannot build jail: " + err.Error()
		return res
	}
	exe, err := os.Executable()
	if err != nil {
		res.Err = err.Error()
		return res
	}
	res.Chroot = true
	skip := strings.TrimPrefix(JailMbox, "/")
	for start := 0; start < len(ops); {
		base, err := snapshot(root, skip)
		if err != nil {
			res.Err = "snapshot: " + err.Error()
			return res
		}
		spec, _ := json.Marshal(jailSpec{Root: root, Start: start, Ops: ops[start:]})
		cmd := exec.Command(exe)
		cmd.Env = append(os.Environ(), childEnv+"=jail")
		cmd.Stdin = bytes.NewReader(spec)
		stdout, err := cmd.StdoutPipe()
		if err != nil {
			res.Err = err.Error()
			return res
		}
		if err := cmd.Start(); err != nil {
			res.Err = "cannot start jail child: " + err.Error()
			return res
		}
		sc := bufio.NewScanner(stdout)
		sc.Buffer(make([]byte, 1<<20), 1<<26)
		begun := -1
		next := start
		reported := map[string]bool{}
		for sc.Scan() {
			var l jailLine
			if err := json.Unmarshal(sc.Bytes(), &l); err != nil {
				continue
			}
			switch {
			case l.Err != "":
				res.Err = "jail child: " + l.Err
			case l.Hello:
				if !l.Chroot {
					res.Chroot = false
				}
			case l.Begin != nil:
				begun = *l.Begin
			case l.Res != nil:
				res.Ops = append(res.Ops, *l.Res)
				for _, c := range l.Res.Escapes {
					reported[c.Path] = true
				}
				next = l.Res.Index + 1
				begun = -1
			}
		}
		werr := cmd.Wait()
		if res.Err != "" {
			return res
		}
		if next >= len(ops) {
			break
		}
		// the child ended before finishing its list
		if begun != next {
			res.Err = fmt.Sprintf("jail child ended (%v) outside an operation (next=%d begun=%d)", werr, next, begun)
			return res
		}
		or := OpResult{Index: next, Op: ops[next], Fatal: true, Ret: "process exited inside the call", ExitCode: -1}
		if cmd.ProcessState != nil {
			or.ExitCode = cmd.ProcessState.ExitCode()
			or.Ret = "process exited inside the call: " + cmd.ProcessState.String()
		}
		now, err := snapshot(root, skip)
		if err != nil {
			res.Err = "snapshot: " + err.Error()
			return res
		}
		for _, c := range diffSnap(base, now) {
			if !reported[c.Path] {
				or.Escapes = append(or.Escapes, c)
			}
		}
		res.Ops = append(res.Ops, or)
		start = next + 1
	}
	return res
}

// ---------------------------------------------------------------------------------------------
// child side

func jailChild() int {
	out := bufio.NewWriter(os.Stdout)
	emit := func(l jailLine) {
		b, _ := json.Marshal(l)
		out.Write(b)
		out.WriteByte('\n')
		out.Flush()
	}
	var sp jailSpec
	if err := readSpec(&sp); err != nil {
		emit(jailLine{Err: "bad spec: " + err.Error()})
		return ExitSetup
	}
	root, mbox, chrooted := "/", JailMbox, true
	if err := syscall.Chroot(sp.Root); err != nil {
		chrooted = false
		root, mbox = sp.Root, filepath.Join(sp.Root, JailMbox)
	}
	if err := os.Chdir(mbox); err != nil {
		emit(jailLine{Err: "chdir: " + err.Error()})
		return ExitSetup
	}
	emit(jailLine{Hello: true, Chroot: chrooted})
	skip := strings.TrimPrefix(JailMbox, "/")
	h := mailbox.NewDirHandler(mbox, false)
	if err := h.Prepare(); err != nil {
		emit(jailLine{Err: "prepare: " + err.Error()})
		return ExitSetup
	}
	if sp.Start == 0 {
		// some ordinary content so that the folders are not empty
		_ = h.ProcessInbound(MsgSpec{MID: "VALIDIN00001", To: []string{"N0DST"}}.Build())
		_ = h.AddOut(MsgSpec{MID: "VALIDOUT0001", To: []string{"N0AAA"}}.Build())
		_ = h.AddOut(MsgSpec{MID: "VALIDSENT001", To: []string{"N0AAA"}}.Build())
		h.SetSent("VALIDSENT001", false)
	}
	before, err := snapshot(root, skip)
	if err != nil {
		emit(jailLine{Err: "snapshot: " + err.Error()})
		return ExitSetup
	}
	for i, op := range sp.Ops {
		idx := sp.Start + i
		fpBefore := insideFingerprint(mbox)
		emit(jailLine{Begin: &idx})
		r := OpResult{Index: idx, Op: op}
		func() {
			defer func() {
				if p := recover(); p != nil {
					r.Panicked = true
					r.Ret = "panic: " + fmt.Sprint(p)
				}
			}()
			r.Ret = applyJailOp(h, mbox, op)
		}()
		after, err := snapshot(root, skip)
		if err != nil {
			emit(jailLine{Err: "snapshot: " + err.Error()})
			return ExitSetup
		}
		r.Escapes = diffSnap(before, after)
		r.Inside = fingerprintDelta(fpBefore, insideFingerprint(mbox))
		before = after
		emit(jailLine{Res: &r})
	}
	return 0
}

// HostileMessage builds the message a remote station would deliver with the given Mid header.
// parsed=false sets the header on a library message directly; parsed=true serialises a valid
// message, replaces its Mid line textually and lets the library parse it (the way a session
// receives it). ok=false: the library's parser refused the bytes (nothing reaches the handler).
func HostileMessage(mid []byte, parsed bool) (m *fbb.Message, ok bool) {
	tmpl := MsgSpec{MID: "PLACEHOLDER1", From: "N0EVIL", To: []string{"N0DST"}, BodyLen: 60, Tag: hex.EncodeToString(mid)}.Build()
	if !parsed {
		tmpl.Header["Mid"] = []string{string(mid)}
		return tmpl, true
	}
	raw := MustBytes(tmpl)
	raw = bytes.Replace(raw, []byte("Mid: PLACEHOLDER1\r\n"), append(append([]byte("Mid: "), mid...), '\r', '\n'), 1)
	m = new(fbb.Message)
	if err := m.ReadFrom(bytes.NewReader(raw)); err != nil {
		return nil, false
	}
	return m, true
}

var relaySeq, batchSeq, reconfSeq int

func applyJailOp(h *mailbox.DirHandler, mbox string, op Op) string {
	mid := string(op.MID)
	switch op.Kind {
	case "ProcessInbound":
		m, ok := HostileMessage(op.MID, op.Parsed)
		if !ok {
			return "skipped: the library's message parser refused the bytes"
		}
		if err := h.ProcessInbound(m); err != nil {
			return "error: " + err.Error()
		}
		return "nil"
	case "plant-link":
		// preparation, not a call under test: a local user (or an archiving tool) has replaced a message file of the
		// mailbox by a symbolic link to a file kept elsewhere. op.MID is the (ordinary) identifier, op.Arg the JSON
		// string "<folder>|<link target>". What the remote station then does with that identifier must still stay inside.
		var arg string
		if err := json.Unmarshal(op.Arg, &arg); err != nil {
			return "skipped: bad arg"
		}
		parts := strings.SplitN(arg, "|", 2)
		if len(parts) != 2 {
			return "skipped: bad arg"
		}
		p := filepath.Join(mbox, parts[0], string(op.MID)+mailbox.Ext)
		os.Remove(p)
		if t, hard := strings.CutPrefix(parts[1], "hard:"); hard {
			// a second NAME of a file kept elsewhere (what `cp -al`, rsnapshot or rsync --link-dest leave behind): the mailbox
			// entry is a regular file, its inode is shared with the world outside
			if err := os.Link(t, p); err != nil {
				return "skipped: cannot plant the hard link: " + err.Error()
			}
			return "ok"
		}
		if err := os.Symlink(parts[1], p); err != nil {
			return "skipped: cannot plant the link: " + err.Error()
		}
		return "ok"
	case "reconfigured":
		// a history: the application points the SAME handler value at another mailbox directory (the exported
		// MBoxPath field), prepares it and works there; everything must then happen in that directory and
		// nothing in the one configured before. op.MID is the identifier of the message stored there.
		other := filepath.Join(filepath.Dir(mbox), "mbox2")
		old := h.MBoxPath
		h.MBoxPath = other
		defer func() { h.MBoxPath = old; h.Prepare() }()
		if err := h.Prepare(); err != nil {
			return "skipped: cannot prepare the second mailbox: " + err.Error()
		}
		reconfSeq++
		in := MsgSpec{MID: fmt.Sprintf("RECONFIN%04d", reconfSeq%10000), To: []string{"N0DST"}}.Build()
		out := MsgSpec{MID: fmt.Sprintf("RECONFOU%04d", reconfSeq%10000), To: []string{"N0AAA"}}.Build()
		if err := h.ProcessInbound(in); err != nil {
			return "error: " + err.Error()
		}
		_ = h.GetInboundAnswer(*fbb.NewProposal(in.MID(), "title", fbb.BasicProposal, []byte("x")))
		if err := h.AddOut(out); err != nil {
			return "error: " + err.Error()
		}
		h.GetOutbound()
		h.SetSent(out.MID(), false)
		return "ok"
	case "batch-invalid-first", "batch-good-baddate-hostile", "batch-two-hostile":
		// one ProcessInbound call with several messages (the public API is variadic): failures of
		// earlier messages of the batch must not open the way for a later one
		hostile, ok := HostileMessage(op.MID, false)
		if !ok {
			return "skipped: the library's message parser refused the bytes"
		}
		batchSeq++
		var msgs []*fbb.Message
		switch op.Kind {
		case "batch-invalid-first":
			first, _ := HostileMessage([]byte("a/b"), false)
			msgs = []*fbb.Message{first, hostile}
		case "batch-good-baddate-hostile":
			good := MsgSpec{MID: fmt.Sprintf("BATCHOK%05d", batchSeq%100000), To: []string{"N0DST"}}.Build()
			bad := MsgSpec{MID: fmt.Sprintf("BATCHBD%05d", batchSeq%100000), To: []string{"N0DST"}}.Build()
			bad.Header.Set("Date", "not a date at all")
			msgs = []*fbb.Message{good, bad, hostile}
		default:
			second, _ := HostileMessage(append([]byte("../../second-"), op.MID...), false)
			msgs = []*fbb.Message{hostile, second, hostile}
		}
		if err := h.ProcessInbound(msgs...); err != nil {
			return "error: " + err.Error()
		}
		return "nil"
	case "GetInboundAnswer":
		p := fbb.NewProposal(mid, "title", fbb.BasicProposal, []byte("x"))
		return "answer:" + string(rune(h.GetInboundAnswer(*p)))
	case "SetSent":
		h.SetSent(mid, false)
		return "ok"
	case "SetDeferred":
		h.SetDeferred(mid)
		return "ok"
	case "relay-sent", "relay-rejected", "relay-deferred":
		// A history instead of a single call: a message whose Mid header was chosen by a remote
		// station sits in the outbox under a harmless file name (a received message relayed by
		// copying it there), the handler hands it out (GetOutbound, as every session does before
		// proposing) and is then told what became of it - with the identifier the handler itself
		// returned. A handler that trusts "its own" identifiers is exposed here only.
		relaySeq++
		had := map[string]bool{}
		for _, m := range h.GetOutbound() {
			had[m.MID()] = true
		}
		tmpl := MsgSpec{MID: "PLACEHOLDER1", From: "N0EVIL", To: []string{"N0DST"}, BodyLen: 40, Tag: hex.EncodeToString(op.MID)}.Build()
		raw := bytes.Replace(MustBytes(tmpl), []byte("Mid: PLACEHOLDER1\r\n"), append(append([]byte("Mid: "), op.MID...), '\r', '\n'), 1)
		name := filepath.Join(mbox, mailbox.DIR_OUTBOX, fmt.Sprintf("RELAY%07d%s", relaySeq, mailbox.Ext))
		if err := os.WriteFile(name, raw, 0o644); err != nil {
			return "skipped: cannot plant the outbox file: " + err.Error()
		}
		defer os.Remove(name)
		handed := 0
		for _, m := range h.GetOutbound() {
			if had[m.MID()] {
				continue // was in the outbox before (ordinary content)
			}
			handed++
			switch op.Kind {
			case "relay-sent":
				h.SetSent(m.MID(), false)
			case "relay-rejected":
				h.SetSent(m.MID(), true)
			default:
				h.SetDeferred(m.MID())
			}
		}
		if handed == 0 {
			return "skipped: GetOutbound did not hand the planted message out"
		}
		return "ok"
	}
	if f := jailOps[op.Kind]; f != nil {
		return f(mbox, op)
	}
	return "skipped: unknown op kind " + op.Kind
}
