package mboxkit

import (
	"bufio"
	"bytes"
	"encoding/json"
	"fmt"
	"os"
	"os/exec"
	"sync"
	"syscall"
	"time"

	"github.com/la5nta/wl2k-go/fbb"
	"github.com/la5nta/wl2k-go/mailbox"
)

// ---------------------------------------------------------------------------------------------
// Concurrent writers, killed (C11).
//
// The crash-point enumeration of C11 runs ONE operation on ONE thread. A mailbox is also written by
// several goroutines of one process at the same time (two sessions receiving the same message, a
// user marking a message read while it is received again). StressRun starts a child (this binary)
// in which several goroutines keep storing versions of the same messages and toggling their read
// flag, and kills it (SIGKILL) after a PRNG delay; the caller then checks the mailbox the way a
// restarted program finds it. Which instant the kill hits is not controlled - the runs sample the
// interleavings; the delay only varies them and is never part of a verdict.

// StressSpec is the child's work order.
type StressSpec struct {
	Dir      string    `json:"dir"`
	Inbound  []MsgSpec `json:"inbound"`  // versions stored with ProcessInbound, one goroutine each, over and over
	Outbound []MsgSpec `json:"outbound"` // versions posted with AddOut, one goroutine each
	Flags    bool      `json:"flags"`    // one more goroutine lists the inbox and toggles the read flag of what it finds
}

// StressRun runs the child for about delay after it reported that all goroutines are at work, kills it, and
// returns how many operations the child had announced as completed (information only).
func StressRun(sp StressSpec, delay time.Duration) (ops int, err error) {
	spec, _ := json.Marshal(sp)
	exe, err := os.Executable()
	if err != nil {
		return 0, err
	}
	cmd := exec.Command(exe)
	cmd.Env = append(os.Environ(), childEnv+"=stress")
	cmd.Stdin = bytes.NewReader(spec)
	stdout, err := cmd.StdoutPipe()
	if err != nil {
		return 0, err
	}
	if err := cmd.Start(); err != nil {
		return 0, err
	}
	lines := make(chan string, 1024)
	go func() {
		sc := bufio.NewScanner(stdout)
		for sc.Scan() {
			lines <- sc.Text()
		}
		close(lines)
	}()
	ready := false
	timeout := time.After(60 * time.Second)
wait:
	for {
		select {
		case l, ok := <-lines:
			if !ok {
				break wait
			}
			if l == "READY" {
				ready = true
				break wait
			}
		case <-timeout:
			break wait
		}
	}
	if !ready {
		cmd.Process.Kill()
		cmd.Wait()
		return 0, fmt.Errorf("stress child did not get ready")
	}
	time.Sleep(delay)
	cmd.Process.Signal(syscall.SIGKILL)
	for l := range lines {
		if l == "OP" {
			ops++
		}
	}
	cmd.Wait()
	return ops, nil
}

func stressChild() int {
	var sp StressSpec
	if err := readSpec(&sp); err != nil {
		return ExitSetup
	}
	h := mailbox.NewDirHandler(sp.Dir, false)
	if err := h.Prepare(); err != nil {
		return ExitSetup
	}
	var started sync.WaitGroup
	out := bufio.NewWriter(os.Stdout)
	var omu sync.Mutex
	say := func(s string) {
		omu.Lock()
		out.WriteString(s + "\n")
		out.Flush()
		omu.Unlock()
	}
	loop := func(f func()) {
		started.Add(1)
		go func() {
			first := true
			for {
				f()
				if first {
					first = false
					started.Done()
				}
				say("OP")
			}
		}()
	}
	for _, v := range sp.Inbound {
		m := v.Build()
		loop(func() { h.ProcessInbound(m) })
	}
	for _, v := range sp.Outbound {
		m := v.Build()
		loop(func() { h.AddOut(m) })
	}
	if sp.Flags {
		loop(func() {
			list, err := h.Inbox()
			if err != nil {
				return // a listing that fails while writers are at work is not judged here (the property is about restarts)
			}
			for _, m := range list {
				mailbox.SetUnread(m, !mailbox.IsUnread(m))
			}
		})
	}
	started.Wait()
	say("READY")
	select {}
}

var _ = fbb.Accept
