package mboxkit

import (
	"encoding/json"
	"fmt"
	"io"
	"log"
	"os"
	"runtime"
	"syscall"

	"github.com/la5nta/wl2k-go/fbb"
	"github.com/la5nta/wl2k-go/mailbox"
)

// The harness binary doubles as the child process of the crash (C11) and confinement (C12)
// monitors: when it is started with VERIF_MBOX_CHILD set, ChildDispatch runs the requested mode on
// the main OS thread and exits before main() is reached.
const (
	childEnv = "VERIF_MBOX_CHILD"

	// marker paths probed with access(2) around the operation under test; they delimit the
	// operation in the strace log and are never the target of an injection
	MarkBegin = "/VERIF-MBOX-OP-BEGIN"
	MarkEnd   = "/VERIF-MBOX-OP-END"
)

// ChildDispatch must be called from an init() function of package main (cmd/check/zz_mboxchild.go:
// the file name sorts last, so every package - including those that RegisterJailOp - has been
// initialised). It returns immediately in ordinary (parent / worker) processes.
//
// strace's syscall-injection counters are per thread, so everything a crash victim does must
// happen on one thread: init() functions run on the main goroutine while it is wired to the main
// OS thread, and LockOSThread keeps it that way.
func ChildDispatch() {
	mode := os.Getenv(childEnv)
	if mode == "" {
		return
	}
	runtime.LockOSThread()
	os.Unsetenv(childEnv)
	log.SetOutput(io.Discard) // the library logs through package log; a write(2) to stderr would shift syscall ordinals
	code := 0
	switch mode {
	case "crashop":
		code = crashChild()
	case "writer":
		code = writerChild()
	case "jail":
		code = jailChild()
	case "stress":
		code = stressChild()
	default:
		fmt.Fprintln(os.Stderr, "mboxkit: unknown child mode", mode)
		code = 97
	}
	os.Exit(code)
}

// readSpec decodes the child's instructions from stdin (read completely before anything else
// happens, in particular before chroot).
func readSpec(v any) error {
	b, err := io.ReadAll(os.Stdin)
	if err != nil {
		return err
	}
	return json.Unmarshal(b, v)
}

// CrashSpec tells the crash victim what to do. Everything before MarkBegin is preparation.
type CrashSpec struct {
	Dir    string   `json:"dir"`
	Op     string   `json:"op"` // ProcessInbound | AddOut | SetSent | SetUnread
	MID    string   `json:"mid"`
	Msg    *MsgSpec `json:"msg,omitempty"` // ProcessInbound / AddOut
	Unread bool     `json:"unread,omitempty"`
	// Rejected: SetSent's second argument (the remote answered the proposal with a reject: it holds the message already)
	Rejected bool `json:"rejected,omitempty"`
	// Fsize > 0: RLIMIT_FSIZE (soft) is lowered to this many bytes for the duration of the
	// operation, so that the kernel performs a genuine partial write at that file size and fails the
	// retry with EFBIG (Go ignores SIGXFSZ).
	Fsize int64 `json:"fsize,omitempty"`
}

// Exit codes of the crash victim.
const (
	ExitOpOK    = 0
	ExitOpError = 40 // the operation returned an error (printed on stdout)
	ExitSetup   = 41 // the preparation failed: harness problem, never a verdict
)

func mark(path string) { _ = syscall.Access(path, 0) }

func crashChild() int {
	var sp CrashSpec
	if err := readSpec(&sp); err != nil {
		fmt.Println("bad spec:", err)
		return ExitSetup
	}
	h := mailbox.NewDirHandler(sp.Dir, false)
	if err := h.Prepare(); err != nil {
		fmt.Println("prepare:", err)
		return ExitSetup
	}
	var msg *fbb.Message
	switch sp.Op {
	case "ProcessInbound", "AddOut":
		if sp.Msg == nil {
			fmt.Println("spec without message")
			return ExitSetup
		}
		msg = sp.Msg.Build()
	case "SetUnread":
		list, err := h.Inbox()
		if err != nil {
			fmt.Println("inbox:", err)
			return ExitSetup
		}
		for _, m := range list {
			if m.MID() == sp.MID {
				msg = m
			}
		}
		if msg == nil {
			fmt.Println("SetUnread target not in inbox")
			return ExitSetup
		}
	case "SetSent":
	default:
		fmt.Println("unknown op", sp.Op)
		return ExitSetup
	}
	if sp.Fsize > 0 {
		if err := SetFileSizeLimit(uint64(sp.Fsize)); err != nil {
			fmt.Println("setrlimit:", err)
			return ExitSetup
		}
	}
	var err error
	mark(MarkBegin)
	switch sp.Op {
	case "ProcessInbound":
		err = h.ProcessInbound(msg)
	case "AddOut":
		err = h.AddOut(msg)
	case "SetSent":
		h.SetSent(sp.MID, sp.Rejected)
	case "SetUnread":
		err = mailbox.SetUnread(msg, sp.Unread)
	}
	mark(MarkEnd)
	if err != nil {
		fmt.Println(err)
		return ExitOpError
	}
	return ExitOpOK
}

// writerChild is the self-test victim: it writes two chunks to a file with two write(2) calls, so
// that the parent can verify that "kill at the entry of the N-th write" leaves exactly the bytes
// of the first N-1 writes, and that RLIMIT_FSIZE yields a genuine partial write.
func writerChild() int {
	var sp struct {
		Path  string `json:"path"`
		A, B  int
		Fsize int64 `json:"fsize"`
	}
	if err := readSpec(&sp); err != nil {
		return ExitSetup
	}
	if sp.Fsize > 0 {
		if err := SetFileSizeLimit(uint64(sp.Fsize)); err != nil {
			return ExitSetup
		}
	}
	mark(MarkBegin)
	f, err := os.OpenFile(sp.Path, os.O_WRONLY|os.O_CREATE|os.O_TRUNC, 0o644)
	if err != nil {
		return ExitSetup
	}
	chunk := func(n int, c byte) []byte {
		b := make([]byte, n)
		for i := range b {
			b[i] = c
		}
		return b
	}
	_, err1 := f.Write(chunk(sp.A, 'a'))
	_, err2 := f.Write(chunk(sp.B, 'b'))
	f.Close()
	mark(MarkEnd)
	if err1 != nil || err2 != nil {
		return ExitOpError
	}
	return ExitOpOK
}
