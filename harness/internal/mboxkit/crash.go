package mboxkit

import (
	"bytes"
	"context"
	"encoding/json"
	"fmt"
	"os"
	"os/exec"
	"path/filepath"
	"regexp"
	"strconv"
	"strings"
	"syscall"
	"time"
)

// ---------------------------------------------------------------------------------------------
// Crash injection with strace (C11).
//
// RunTraced starts this binary as a child (mode + spec) under
//
//	strace -f -o <log> -e trace=<file-system syscalls> -e signal=none [-e inject=<name>:signal=SIGKILL:when=<N>]
//
// With an injection the tracee is killed at the ENTRY of the N-th <name> call of a thread (the
// call is not executed; strace logs it with "= ?"). The child keeps everything on its main
// thread, so N is an ordinal on the main thread counted from execve, which is exactly what the log
// of a previous recording run shows.

// injectable are the state-changing (or fd-releasing) file-system calls; the state of the file
// system is constant between two of them, so killing at the entry of each of them plus letting the
// operation finish visits every distinct on-disk state the operation goes through.
var injectable = []string{
	"open", "openat", "openat2", "creat", "write", "pwrite64", "writev", "pwritev", "pwritev2",
	"rename", "renameat", "renameat2", "fsync", "fdatasync", "sync_file_range", "close",
	"unlink", "unlinkat", "rmdir", "chmod", "fchmod", "fchmodat", "chown", "fchown", "fchownat",
	"mkdir", "mkdirat", "link", "linkat", "symlink", "symlinkat", "truncate", "ftruncate", "fallocate",
	"utimensat", "copy_file_range", "sendfile",
}

var traceOnly = []string{"execve", "access", "faccessat", "faccessat2"}

func isInjectable(name string) bool {
	for _, n := range injectable {
		if n == name {
			return true
		}
	}
	return false
}

// Sys is one system call of the main thread.
type Sys struct {
	Name    string `json:"name"`
	Ordinal int    `json:"ordinal"` // 1-based index among the main thread's calls of this name since execve
	Text    string `json:"text"`    // the call as strace printed it
	Ret     string `json:"ret"`     // "318", "-1 EFBIG (File too large)", "?" (killed at entry)
	FD      int    `json:"fd"`      // write-like calls: first argument
	Count   int    `json:"count"`   // write-like calls: requested byte count
}

// RetInt returns the numeric return value (ok=false for "?" or unparsable).
func (s Sys) RetInt() (int, bool) {
	f := strings.Fields(s.Ret)
	if len(f) == 0 {
		return 0, false
	}
	v, err := strconv.Atoi(f[0])
	return v, err == nil
}

// Trace is the digest of one strace log.
type Trace struct {
	MainTID     string `json:"main_tid"`
	Before      []Sys  `json:"-"`      // main-thread calls before the begin marker
	Window      []Sys  `json:"window"` // main-thread calls between the markers (the operation under test)
	BeginSeen   bool   `json:"begin_seen"`
	EndSeen     bool   `json:"end_seen"`
	Killed      bool   `json:"killed"`       // the last main-thread call was cut at its entry ("= ?")
	OtherThread int    `json:"other_thread"` // injectable calls made by other threads while the window was open
	ExitCode    int    `json:"exit_code"`    // of the child as seen through strace (-1: killed by a signal)
	Signal      string `json:"signal,omitempty"`
	Stdout      string `json:"stdout,omitempty"`
	Log         string `json:"-"`
}

// Inject names the call to kill at: the When-th call of Name on a thread.
type Inject struct {
	Name string `json:"name"`
	When int    `json:"when"`
}

var (
	entryRe   = regexp.MustCompile(`^(\d+)\s+([a-z_0-9]+)\((.*)$`)
	resumedRe = regexp.MustCompile(`^(\d+)\s+<\.\.\. ([a-z_0-9]+) resumed>(.*)$`)
	countRe   = regexp.MustCompile(`, (\d+)(?:\)\s+= .*| <unfinished \.\.\.>)$`)
	fdRe      = regexp.MustCompile(`^(\d+)[,<]`)
)

func retOf(rest string) string {
	if i := strings.LastIndex(rest, " = "); i >= 0 {
		return strings.TrimSpace(rest[i+3:])
	}
	return ""
}

// ParseStrace digests a log written by strace -f -o.
//
// Two artefacts of the kill are handled: the cut call may be printed in two pieces
// ("<unfinished ...>" / "<... resumed>) = ?") when another thread's line gets in between, and
// while the thread group dies strace may print the cut call once more under the id of another
// thread. Lines of other threads that follow the main thread's last call are therefore ignored
// when that call was cut.
func ParseStrace(log string) Trace {
	var t Trace
	ord := map[string]int{}
	cur := &t.Before
	var lastList *[]Sys
	lastIdx := -1
	lastRet := ""
	otherTail := 0
	inWindow := false
	isMarker := func(name, rest, mark string) bool {
		return (name == "faccessat" || name == "access" || name == "faccessat2") && strings.Contains(rest, `"`+mark+`"`)
	}
	for _, line := range strings.Split(log, "\n") {
		if m := resumedRe.FindStringSubmatch(line); m != nil {
			if m[1] == t.MainTID {
				lastRet = retOf(m[3])
				if lastList != nil && lastIdx >= 0 && (*lastList)[lastIdx].Name == m[2] {
					(*lastList)[lastIdx].Ret = lastRet
				}
			}
			continue
		}
		m := entryRe.FindStringSubmatch(line)
		if m == nil {
			continue
		}
		tid, name, rest := m[1], m[2], m[3]
		if t.MainTID == "" {
			t.MainTID = tid // the first traced call is the execve of the child
		}
		if tid != t.MainTID {
			if inWindow && isInjectable(name) {
				t.OtherThread++
				otherTail++
			}
			continue
		}
		otherTail = 0
		if isMarker(name, rest, MarkBegin) {
			t.BeginSeen, inWindow = true, true
			cur = &t.Window
			lastList, lastIdx, lastRet = nil, -1, retOf(rest)
			continue
		}
		if isMarker(name, rest, MarkEnd) {
			t.EndSeen, inWindow = true, false
			cur = nil
			lastList, lastIdx, lastRet = nil, -1, retOf(rest)
			continue
		}
		ord[name]++
		s := Sys{Name: name, Ordinal: ord[name], Text: name + "(" + rest, FD: -1}
		if strings.HasSuffix(rest, "<unfinished ...>") {
			s.Ret = "?"
		} else {
			s.Ret = retOf(rest)
		}
		switch name {
		case "write", "pwrite64", "writev", "pwritev", "pwritev2":
			if c := countRe.FindStringSubmatch(rest); c != nil {
				s.Count, _ = strconv.Atoi(c[1])
			}
			if f := fdRe.FindStringSubmatch(rest); f != nil {
				s.FD, _ = strconv.Atoi(f[1])
			}
		}
		lastRet = s.Ret
		lastList, lastIdx = nil, -1
		if cur != nil {
			*cur = append(*cur, s)
			lastList, lastIdx = cur, len(*cur)-1
		}
	}
	t.Killed = lastRet == "?"
	if t.Killed {
		t.OtherThread -= otherTail
	}
	return t
}

// StraceAvailable reports whether the strace binary can be found.
func StraceAvailable() (string, error) { return exec.LookPath("strace") }

// RunTraced runs the child mode with the JSON spec on stdin under strace. scratch is a directory
// for the log file. A run that takes longer than a minute is abandoned (error).
func RunTraced(mode string, spec any, inj *Inject, scratch string) (Trace, error) {
	exe, err := os.Executable()
	if err != nil {
		return Trace{}, err
	}
	strace, err := StraceAvailable()
	if err != nil {
		return Trace{}, err
	}
	logf, err := os.CreateTemp(scratch, "strace-*.log")
	if err != nil {
		return Trace{}, err
	}
	logPath := logf.Name()
	logf.Close()
	defer os.Remove(logPath)
	b, err := json.Marshal(spec)
	if err != nil {
		return Trace{}, err
	}
	args := []string{"-f", "-o", logPath, "-e", "trace=" + strings.Join(append(append([]string{}, injectable...), traceOnly...), ","), "-e", "signal=none"}
	if inj != nil {
		args = append(args, "-e", fmt.Sprintf("inject=%s:signal=SIGKILL:when=%d", inj.Name, inj.When))
	}
	args = append(args, exe)
	ctx, cancel := context.WithTimeout(context.Background(), time.Minute)
	defer cancel()
	cmd := exec.CommandContext(ctx, strace, args...)
	cmd.Env = append(os.Environ(), childEnv+"="+mode)
	cmd.Stdin = bytes.NewReader(b)
	var stdout, stderr bytes.Buffer
	cmd.Stdout, cmd.Stderr = &stdout, &stderr
	cmd.SysProcAttr = &syscall.SysProcAttr{Setpgid: true}
	cmd.Cancel = func() error { return syscall.Kill(-cmd.Process.Pid, syscall.SIGKILL) }
	werr := cmd.Run()
	if ctx.Err() != nil {
		return Trace{}, fmt.Errorf("traced child did not finish within a minute")
	}
	logb, rerr := os.ReadFile(logPath)
	if rerr != nil {
		return Trace{}, rerr
	}
	t := ParseStrace(string(logb))
	t.Log = string(logb)
	t.Stdout = strings.TrimSpace(stdout.String())
	t.ExitCode = 0
	if werr != nil {
		t.ExitCode = -1
		if ee, ok := werr.(*exec.ExitError); ok {
			t.ExitCode = ee.ExitCode()
			if ws, ok := ee.Sys().(syscall.WaitStatus); ok && ws.Signaled() {
				t.Signal = ws.Signal().String()
			}
		} else {
			return t, fmt.Errorf("strace: %v (%s)", werr, strings.TrimSpace(stderr.String()))
		}
	}
	if t.MainTID == "" {
		return t, fmt.Errorf("empty strace log (exit %d, stderr %q)", t.ExitCode, strings.TrimSpace(stderr.String()))
	}
	return t, nil
}

// SelfTestCrashInjection proves, on this machine and file system, the three facts the crash
// monitor rests on: (1) the child dispatch and the markers work and the victim's calls are on one
// thread; (2) a SIGKILL injected at the N-th write leaves exactly the bytes of the first N-1
// writes; (3) RLIMIT_FSIZE produces a genuine partial write whose size is the limit.
func SelfTestCrashInjection() error {
	if _, err := StraceAvailable(); err != nil {
		return fmt.Errorf("strace not found: %v", err)
	}
	dir := MkTemp("selftest")
	defer os.RemoveAll(dir)
	type wspec struct {
		Path  string `json:"path"`
		A, B  int
		Fsize int64 `json:"fsize"`
	}
	path := filepath.Join(dir, "victim.dat")
	const a, b = 37, 53
	rec, err := RunTraced("writer", wspec{Path: path, A: a, B: b}, nil, dir)
	if err != nil {
		return fmt.Errorf("recording run: %v", err)
	}
	if !rec.BeginSeen || !rec.EndSeen || rec.ExitCode != 0 {
		return fmt.Errorf("recording run: markers begin=%v end=%v exit=%d (is cmd/check/zz_mboxchild.go linked in?)\n%s", rec.BeginSeen, rec.EndSeen, rec.ExitCode, rec.Log)
	}
	var writes []Sys
	for _, s := range rec.Window {
		if s.Name == "write" {
			writes = append(writes, s)
		}
	}
	if len(writes) != 2 || writes[0].Count != a || writes[1].Count != b || rec.OtherThread != 0 {
		return fmt.Errorf("recording run: expected writes of %d and %d bytes on the main thread, got %+v (other threads: %d)", a, b, writes, rec.OtherThread)
	}
	if got, _ := os.ReadFile(path); len(got) != a+b {
		return fmt.Errorf("recording run wrote %d bytes, want %d", len(got), a+b)
	}
	os.Remove(path)
	k, err := RunTraced("writer", wspec{Path: path, A: a, B: b}, &Inject{"write", writes[1].Ordinal}, dir)
	if err != nil {
		return fmt.Errorf("kill run: %v", err)
	}
	got, _ := os.ReadFile(path)
	if !k.Killed || k.EndSeen || len(got) != a {
		return fmt.Errorf("kill at the 2nd write: killed=%v end=%v file has %d bytes, want %d\n%s", k.Killed, k.EndSeen, len(got), a, k.Log)
	}
	os.Remove(path)
	p, err := RunTraced("writer", wspec{Path: path, A: a, B: b, Fsize: a + 3}, &Inject{"write", writes[1].Ordinal + 1}, dir)
	if err != nil {
		return fmt.Errorf("partial-write run: %v", err)
	}
	got, _ = os.ReadFile(path)
	if !p.Killed || len(got) != a+3 {
		return fmt.Errorf("RLIMIT_FSIZE partial write: killed=%v file has %d bytes, want %d\n%s", p.Killed, len(got), a+3, p.Log)
	}
	return nil
}
