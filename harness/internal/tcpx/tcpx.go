// Package tcpx is a loopback TCP proxy that re-segments the byte stream of each direction
// according to a plan. It never alters, drops, duplicates or reorders a byte; it only decides
// which bytes travel together in one write (= one TCP segment on loopback with TCP_NODELAY and a
// pause between writes). A plan can therefore make a receiver see a line byte by byte, split at
// arbitrary points, or - the interesting case - see the end of one protocol phase and the start of
// the next in a single read ("hold until n bytes").
//
// What the kernel and the receiver's scheduler make of the writes is influenced, not controlled:
// two planned segments may still be read together by a slow receiver. A plan that cannot be met
// (the held bytes never arrive, e.g. because the peer waits for an answer first) is released by an
// idle flush. Neither effect can change what arrives, only how it is cut - users of this package
// must decide their verdicts on content and byte counts alone.
//
// The package is independent of the code under test.
package tcpx

import (
	"errors"
	"io"
	"math/rand"
	"net"
	"sync"
	"time"
)

// Plan describes how one direction of a proxied connection is re-segmented.
type Plan struct {
	// Cuts are strictly increasing cumulative stream offsets. The bytes [Cuts[i-1], Cuts[i]) are
	// forwarded in ONE write as soon as all of them have been received, and not before (unless the
	// idle flush fires or the source closes). Byte-at-a-time is Cuts = 1,2,3,...
	Cuts []int `json:"cuts,omitempty"`
	// Tail says how bytes after the last cut are forwarded: "pass" (default; as they were read)
	// or "rand" (PRNG pieces of 1..TailMax bytes).
	Tail    string `json:"tail,omitempty"`
	TailMax int    `json:"tail_max,omitempty"`
	Seed    int64  `json:"seed,omitempty"`
	// GapUs is the pause after every write of the Cuts phase, TailGapUs after every tail write.
	GapUs     int `json:"gap_us,omitempty"`
	TailGapUs int `json:"tail_gap_us,omitempty"`
	// IdleFlushMs: held bytes are forwarded as they are when nothing new arrived for this long
	// (0 = 1500 ms).
	IdleFlushMs int `json:"idle_flush_ms,omitempty"`
}

// Stats is what one direction actually did.
type Stats struct {
	BytesIn     int64 // bytes read from the source
	BytesOut    int64 // bytes written to the destination
	Writes      int64 // write calls issued (= segments offered to the kernel)
	Planned     int64 // segments forwarded exactly as planned by Cuts
	IdleFlushes int64 // held bytes released by the idle timer
	EOFFlushes  int64 // held bytes released because the source closed
	FirstSizes  []int // sizes of the first writes (at most 48)
	Err         string
}

func (s *Stats) add(o Stats) {
	s.BytesIn += o.BytesIn
	s.BytesOut += o.BytesOut
	s.Writes += o.Writes
	s.Planned += o.Planned
	s.IdleFlushes += o.IdleFlushes
	s.EOFFlushes += o.EOFFlushes
	if len(s.FirstSizes) == 0 {
		s.FirstSizes = o.FirstSizes
	}
	if s.Err == "" {
		s.Err = o.Err
	}
}

// Proxy listens on a loopback port and forwards every accepted connection to target.
type Proxy struct {
	ln       net.Listener
	target   string
	c2s, s2c Plan

	mu     sync.Mutex
	conns  []net.Conn
	stC2S  Stats
	stS2C  Stats
	nLinks int
	closed bool
	wg     sync.WaitGroup
}

// New starts a proxy in front of target. c2s re-segments what the connecting side sends, s2c what
// the target sends.
func New(target string, c2s, s2c Plan) (*Proxy, error) {
	ln, err := net.Listen("tcp", "127.0.0.1:0")
	if err != nil {
		return nil, err
	}
	p := &Proxy{ln: ln, target: target, c2s: c2s, s2c: s2c}
	p.wg.Add(1)
	go p.acceptLoop()
	return p, nil
}

func (p *Proxy) Addr() string { return p.ln.Addr().String() }

// Stats returns the totals per direction over all links so far.
func (p *Proxy) Stats() (c2s, s2c Stats, links int) {
	p.mu.Lock()
	defer p.mu.Unlock()
	return p.stC2S, p.stS2C, p.nLinks
}

// Close stops the proxy and tears down all links.
func (p *Proxy) Close() {
	p.mu.Lock()
	p.closed = true
	cs := p.conns
	p.conns = nil
	p.mu.Unlock()
	p.ln.Close()
	for _, c := range cs {
		c.Close()
	}
	p.wg.Wait()
}

func (p *Proxy) track(c net.Conn) bool {
	p.mu.Lock()
	defer p.mu.Unlock()
	if p.closed {
		return false
	}
	p.conns = append(p.conns, c)
	return true
}

func (p *Proxy) acceptLoop() {
	defer p.wg.Done()
	for {
		c, err := p.ln.Accept()
		if err != nil {
			return
		}
		if !p.track(c) {
			c.Close()
			return
		}
		p.wg.Add(1)
		go p.link(c.(*net.TCPConn))
	}
}

func (p *Proxy) link(client *net.TCPConn) {
	defer p.wg.Done()
	defer client.Close()
	sc, err := net.DialTimeout("tcp", p.target, 30*time.Second)
	if err != nil {
		p.mu.Lock()
		p.stC2S.Err = "dial target: " + err.Error()
		p.mu.Unlock()
		return
	}
	server := sc.(*net.TCPConn)
	defer server.Close()
	if !p.track(server) {
		return
	}
	client.SetNoDelay(true)
	server.SetNoDelay(true)
	p.mu.Lock()
	p.nLinks++
	p.mu.Unlock()

	var wg sync.WaitGroup
	var a, b Stats
	wg.Add(2)
	go func() { defer wg.Done(); a = pump(client, server, p.c2s) }()
	go func() { defer wg.Done(); b = pump(server, client, p.s2c) }()
	wg.Wait()
	p.mu.Lock()
	p.stC2S.add(a)
	p.stS2C.add(b)
	p.mu.Unlock()
}

type chunk struct {
	b   []byte
	err error
}

// pump forwards src → dst under plan. On a clean EOF from src the write side of dst is closed
// (TCP half-close is passed through); on any error both connections are closed.
func pump(src, dst *net.TCPConn, plan Plan) (st Stats) {
	in := make(chan chunk, 16)
	go func() {
		for {
			buf := make([]byte, 64<<10)
			n, err := src.Read(buf)
			if n > 0 {
				in <- chunk{b: buf[:n]}
			}
			if err != nil {
				in <- chunk{err: err}
				close(in)
				return
			}
		}
	}()
	abort := func(err error) {
		if st.Err == "" && err != nil {
			st.Err = err.Error()
		}
		src.Close()
		dst.Close()
		for range in { // let the reader goroutine finish
		}
	}

	idle := time.Duration(plan.IdleFlushMs) * time.Millisecond
	if idle <= 0 {
		idle = 1500 * time.Millisecond
	}
	rng := rand.New(rand.NewSource(plan.Seed ^ 0x7cb1))
	var (
		pending []byte
		off     int // stream offset of pending[0]
		ci      int // next cut
	)
	write := func(n int, gapUs int) error {
		m, err := dst.Write(pending[:n])
		st.BytesOut += int64(m)
		st.Writes++
		if len(st.FirstSizes) < 48 {
			st.FirstSizes = append(st.FirstSizes, n)
		}
		pending = pending[n:]
		off += n
		if err != nil {
			return err
		}
		if gapUs > 0 {
			time.Sleep(time.Duration(gapUs) * time.Microsecond)
		}
		return nil
	}
	timer := time.NewTimer(time.Hour)
	defer timer.Stop()
	for {
		// forward every planned segment that is complete
		for ci < len(plan.Cuts) {
			if plan.Cuts[ci] <= off { // malformed plan entry (not increasing): skip it
				ci++
				continue
			}
			need := plan.Cuts[ci] - off
			if len(pending) < need {
				break
			}
			if err := write(need, plan.GapUs); err != nil {
				abort(err)
				return
			}
			st.Planned++
			ci++
		}
		// past the last cut: tail mode
		for ci >= len(plan.Cuts) && len(pending) > 0 {
			n := len(pending)
			if plan.Tail == "rand" {
				mx := plan.TailMax
				if mx <= 0 {
					mx = 4096
				}
				if k := 1 + rng.Intn(mx); k < n {
					n = k
				}
			}
			if err := write(n, plan.TailGapUs); err != nil {
				abort(err)
				return
			}
		}
		// wait for more bytes (or give up holding)
		var fire <-chan time.Time
		if len(pending) > 0 {
			if !timer.Stop() {
				select {
				case <-timer.C:
				default:
				}
			}
			timer.Reset(idle)
			fire = timer.C
		}
		select {
		case c, ok := <-in:
			if !ok || c.err != nil {
				if len(pending) > 0 {
					st.EOFFlushes++
					if err := write(len(pending), 0); err != nil {
						abort(err)
						return
					}
				}
				if ok && errors.Is(c.err, io.EOF) {
					dst.CloseWrite()
					for range in {
					}
					return
				}
				var err error
				if ok {
					err = c.err
				}
				abort(err)
				return
			}
			st.BytesIn += int64(len(c.b))
			pending = append(pending, c.b...)
		case <-fire:
			st.IdleFlushes++
			if err := write(len(pending), plan.GapUs); err != nil {
				abort(err)
				return
			}
		}
	}
}

// SelfTest pushes a known byte stream through a proxy with a byte-at-a-time + hold + random-tail
// plan in one direction and a pass-through in the other and checks that both arrive intact, that
// half-close is passed on, and that the planned segments were issued as planned.
func SelfTest() error {
	ln, err := net.Listen("tcp", "127.0.0.1:0")
	if err != nil {
		return err
	}
	defer ln.Close()
	up := make([]byte, 20000)
	down := make([]byte, 9000)
	r := rand.New(rand.NewSource(42))
	r.Read(up)
	r.Read(down)
	type res struct {
		b   []byte
		err error
	}
	srvGot := make(chan res, 1)
	go func() {
		c, err := ln.Accept()
		if err != nil {
			srvGot <- res{nil, err}
			return
		}
		defer c.Close()
		go func() { c.Write(down); c.(*net.TCPConn).CloseWrite() }()
		b, err := io.ReadAll(c)
		srvGot <- res{b, err}
	}()
	cuts := []int{1, 2, 3, 4, 5, 105, 4201}
	px, err := New(ln.Addr().String(), Plan{Cuts: cuts, Tail: "rand", TailMax: 700, Seed: 9, GapUs: 300}, Plan{})
	if err != nil {
		return err
	}
	defer px.Close()
	c, err := net.Dial("tcp", px.Addr())
	if err != nil {
		return err
	}
	defer c.Close()
	go func() {
		// written in awkward pieces so that the holds really have to wait
		for i := 0; i < len(up); {
			n := 1 + i%97
			if i+n > len(up) {
				n = len(up) - i
			}
			c.Write(up[i : i+n])
			i += n
		}
		c.(*net.TCPConn).CloseWrite()
	}()
	got, err := io.ReadAll(c)
	if err != nil {
		return errors.New("tcpx self-test: client read: " + err.Error())
	}
	if string(got) != string(down) {
		return errors.New("tcpx self-test: server→client stream altered")
	}
	sr := <-srvGot
	if sr.err != nil {
		return errors.New("tcpx self-test: server read: " + sr.err.Error())
	}
	if string(sr.b) != string(up) {
		return errors.New("tcpx self-test: client→server stream altered")
	}
	px.Close()
	a, b, links := px.Stats()
	if links != 1 || a.BytesIn != int64(len(up)) || a.BytesOut != int64(len(up)) || b.BytesOut != int64(len(down)) {
		return errors.New("tcpx self-test: byte counters wrong")
	}
	if a.Planned != int64(len(cuts)) || a.IdleFlushes != 0 {
		return errors.New("tcpx self-test: planned segments not issued as planned")
	}
	want := []int{1, 1, 1, 1, 1, 100, 4096}
	for i, w := range want {
		if i >= len(a.FirstSizes) || a.FirstSizes[i] != w {
			return errors.New("tcpx self-test: segment sizes differ from the plan")
		}
	}
	return nil
}
