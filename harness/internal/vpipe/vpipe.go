// Package vpipe is a deterministic in-memory duplex link (a pair of net.Conn) whose behaviour is a
// pure function of its Plan: read segmentation, a cut fault after k bytes in one direction,
// in-transit edits, pacing. It records a transcript of both directions, a close log, and detects
// logical deadlock (both ends blocked in Read with nothing in flight).
package vpipe

import (
	"errors"
	"io"
	"math/rand"
	"net"
	"sort"
	"sync"
	"time"
)

// Direction indexes: 0 = A→B, 1 = B→A.
const (
	AtoB = 0
	BtoA = 1
)

// Edit alters the byte stream of one direction in transit: at absolute stream offset Off (counted
// on the bytes as written by the sender) delete Del bytes and insert Ins.
type Edit struct {
	Off int64  `json:"off"`
	Del int    `json:"del,omitempty"`
	Ins []byte `json:"ins,omitempty"`
}

// Plan determines the link's behaviour.
type Plan struct {
	Seed int64 `json:"seed"`
	// Seg selects the read segmentation: 0 = as much as the caller's buffer takes, 1 = one byte per
	// Read, 2 = PRNG 1..7 bytes, 3 = PRNG mix of {1, 2..7, up to buffer}.
	Seg int `json:"seg"`
	// CutDir/CutAt: when CutDir is AtoB or BtoA the link fails after exactly CutAt bytes of that
	// direction have been accepted: the write crossing the limit delivers only the bytes up to it
	// and fails, the reader gets those bytes and then EOF, the opposite direction is closed at the
	// same instant (bytes of the opposite direction not yet read are lost, as on a dropped link).
	CutDir int   `json:"cut_dir"` // -1 = no cut
	CutAt  int64 `json:"cut_at"`
	// CutSilent models a buffered link (TCP send buffer, modem transmit queue): the writer does not
	// notice the failure - the crossing write and all later writes of either end report success but
	// go nowhere - and both ends learn about it only from their next Read (EOF).
	CutSilent bool `json:"cut_silent,omitempty"`
	// Capacity > 0 bounds the bytes in flight per direction (a link with flow control: a Write blocks
	// while the peer does not read). Deadlines set by the code under test are then honoured
	// *logically*: when neither end can make progress any more, a blocked call whose end has a
	// deadline armed returns a timeout error at once (waiting out the wall-clock minute would change
	// nothing); if no end has one, that is a deadlock.
	Capacity int `json:"capacity,omitempty"`
	// Edits per direction (sorted by Off).
	Edits [2][]Edit `json:"edits"`
	// WriteDelay per Write call per direction (pacing).
	WriteDelay [2]time.Duration `json:"write_delay"`
	// WriteDelayAfter: the pacing of a direction starts only after this many bytes were written in it
	// (0 = from the start): a fast first message, a slow second one.
	WriteDelayAfter [2]int64 `json:"write_delay_after,omitempty"`
	// ClockJump > 0: the link has a clock of its own that runs like the wall clock until ClockJumpAfter bytes (both
	// directions together) have been written and then jumps ahead by ClockJump: an exchange that takes long (a slow
	// radio link) without the run taking long. Deadlines set on an end are kept on that clock (a deadline set after
	// the jump is not affected by it); a Read / Write that begins after its deadline has passed on the link's clock fails
	// with a time-out error, as a net.Conn's does.
	ClockJump      time.Duration `json:"clock_jump,omitempty"`
	ClockJumpAfter int64         `json:"clock_jump_after,omitempty"`
	// DetectDeadlock enables the logical deadlock detector (only meaningful for strictly
	// request/response traffic such as B2F).
	DetectDeadlock bool `json:"detect_deadlock"`
}

// NoCut is the CutDir value for a fault-free link.
const NoCut = -1

var (
	ErrPeerClosed = io.ErrClosedPipe
	errTimeout    = &timeoutError{}
)

type timeoutError struct{}

func (*timeoutError) Error() string   { return "vpipe: i/o timeout" }
func (*timeoutError) Timeout() bool   { return true }
func (*timeoutError) Temporary() bool { return true }

// Link is the shared state of the two ends.
type Link struct {
	mu   sync.Mutex
	cond *sync.Cond
	plan Plan
	rng  [2]*rand.Rand // per reading end

	q         [2][]byte // in flight per direction
	written   [2]int64  // bytes accepted from the sender per direction (pre-edit)
	delivered [2]int64  // bytes handed to the reader per direction
	editIdx   [2]int
	skip      [2]int // bytes still to delete from the current edit

	closed   [2]bool // end i (0=A,1=B) closed locally
	closeCnt [2]int
	cut      bool
	killed   bool
	blockedW [2]bool      // end i blocked in Write (outbound queue full)
	deadline [2]time.Time // armed by SetDeadline & co. of end i
	// the link's own clock (Plan.ClockJump): its lead over the wall clock, and the read / write deadlines of each end
	// on that clock (zero = none)
	clockLead  time.Duration
	expR, expW [2]time.Time
	expired    [2]int  // Reads / Writes refused because their deadline had passed on the link's clock
	fire       [2]bool // the blocked call of end i must return a timeout
	timeouts   [2]int
	blocked    [2]bool // end i blocked in Read
	deadlock   bool
	wrCalls    [2]int
	rdCalls    [2]int
	scripted   bool      // end B is a fixed script: A's reads get EOF once it is consumed, A's writes are absorbed
	transcript [2][]byte // bytes as written (pre-edit)
	wire       [2][]byte // bytes as delivered to the queue (post-edit, pre-cut loss)
	record     bool
}

// End is one side of the link. It implements net.Conn.
type End struct {
	l   *Link
	idx int // 0 = A, 1 = B
}

// ModemEnd is an End that additionally poses as a modem with a transmit buffer
// (transport.TxBuffer, transport.Flusher, transport.Robust).
type ModemEnd struct {
	*End
	mu         sync.Mutex
	RobustLog  []bool
	FlushCalls int
	// TxQueryDelay makes TxBufferLen slow, like a modem that has to be asked over a serial line.
	TxQueryDelay time.Duration
	// TxHold models an ARQ modem's turn-around: everything written in one burst (all writes since
	// this end last read something) stays in the reported transmit buffer until TxHold has passed
	// since the first write of the burst; Flush blocks that long. The link itself is unaffected.
	TxHold     time.Duration
	held       int
	burstStart time.Time
	// TxWindow (alternative to TxHold): every byte written stays in the reported transmit buffer for
	// TxWindow (a modem that needs that long to get data on the air): the reported length follows the
	// write rate - it is high behind a fast message and falls while a slow one is written.
	TxWindow time.Duration
	recent   []txWrite
}

type txWrite struct {
	t time.Time
	n int
}

// windowNow returns the bytes written within the last TxWindow.
func (m *ModemEnd) windowNow() int {
	m.mu.Lock()
	defer m.mu.Unlock()
	now, sum, keep := time.Now(), 0, m.recent[:0]
	for _, w := range m.recent {
		if now.Sub(w.t) < m.TxWindow {
			keep = append(keep, w)
			sum += w.n
		}
	}
	m.recent = keep
	return sum
}

func (m *ModemEnd) Write(p []byte) (int, error) {
	if m.TxWindow > 0 {
		m.mu.Lock()
		m.recent = append(m.recent, txWrite{time.Now(), len(p)})
		m.mu.Unlock()
	}
	if m.TxHold > 0 {
		m.mu.Lock()
		if m.held == 0 {
			m.burstStart = time.Now()
		}
		m.held += len(p)
		m.mu.Unlock()
	}
	return m.End.Write(p)
}

func (m *ModemEnd) Read(p []byte) (int, error) {
	n, err := m.End.Read(p)
	if m.TxHold > 0 && n > 0 {
		m.mu.Lock()
		m.held = 0 // the peer answered: the burst is over
		m.mu.Unlock()
	}
	return n, err
}

// heldNow returns the bytes of the current burst still held by the modem and how long they will be.
func (m *ModemEnd) heldNow() (int, time.Duration) {
	m.mu.Lock()
	defer m.mu.Unlock()
	if m.held == 0 {
		return 0, 0
	}
	left := m.TxHold - time.Since(m.burstStart)
	if left <= 0 {
		m.held = 0
		return 0, 0
	}
	return m.held, left
}

// New creates a link. Record enables transcript recording.
func New(p Plan, record bool) (*End, *End, *Link) {
	l := &Link{plan: p, record: record}
	l.cond = sync.NewCond(&l.mu)
	l.rng[0] = rand.New(rand.NewSource(p.Seed*2 + 1))
	l.rng[1] = rand.New(rand.NewSource(p.Seed*2 + 2))
	for d := 0; d < 2; d++ {
		sort.SliceStable(l.plan.Edits[d], func(i, j int) bool { return l.plan.Edits[d][i].Off < l.plan.Edits[d][j].Off })
	}
	return &End{l, 0}, &End{l, 1}, l
}

// AsModem wraps an end as a modem with a transmit buffer.
func AsModem(e *End) *ModemEnd { return &ModemEnd{End: e} }

// TxBufferOnly is a modem connection that reports its transmit buffer but has no Flush (transport.TxBuffer
// without transport.Flusher / transport.Robust).
type TxBufferOnly struct {
	net.Conn
	m *ModemEnd
}

func (t TxBufferOnly) TxBufferLen() int { return t.m.TxBufferLen() }

// WithoutFlush hides everything of a modem end but the connection and TxBufferLen.
func WithoutFlush(m *ModemEnd) TxBufferOnly { return TxBufferOnly{Conn: m, m: m} }

func (e *End) dirOut() int { return e.idx }     // A writes AtoB (0), B writes BtoA (1)
func (e *End) dirIn() int  { return 1 - e.idx } // A reads BtoA

func (e *End) Write(p []byte) (int, error) {
	l := e.l
	d := e.dirOut()
	if dl := l.plan.WriteDelay[d]; dl > 0 {
		slow := true
		if after := l.plan.WriteDelayAfter[d]; after > 0 {
			l.mu.Lock()
			slow = l.written[d] >= after
			l.mu.Unlock()
		}
		if slow {
			time.Sleep(dl)
		}
	}
	l.mu.Lock()
	defer l.mu.Unlock()
	l.wrCalls[e.idx]++
	if l.plan.Capacity <= 0 || l.scripted {
		return e.writeLocked(p)
	}
	total := 0
	for {
		room := l.plan.Capacity - len(l.q[d])
		gone := l.closed[e.idx] || l.cut || l.closed[1-e.idx] || l.deadlock
		if room <= 0 && !gone {
			l.blockedW[e.idx] = true
			if l.resolveStuck(e.idx) {
				l.blockedW[e.idx] = false
				l.timeouts[e.idx]++
				return total, errTimeout
			}
			if l.deadlock {
				l.blockedW[e.idx] = false
				return total, ErrPeerClosed
			}
			l.cond.Wait()
			l.blockedW[e.idx] = false
			if l.fire[e.idx] {
				l.fire[e.idx] = false
				l.timeouts[e.idx]++
				return total, errTimeout
			}
			continue
		}
		chunk := p
		if !gone && len(chunk) > room {
			chunk = p[:room]
		}
		n, err := e.writeLocked(chunk)
		total += n
		p = p[len(chunk):]
		if err != nil || len(p) == 0 || n < len(chunk) {
			return total, err
		}
	}
}

// stuckEnd reports whether end i is blocked in a call that the present state cannot satisfy.
func (l *Link) stuckEnd(i int) bool {
	in, out := 1-i, i // direction indexes: end i reads direction 1-i and writes direction i
	return (l.blocked[i] && len(l.q[in]) == 0) || (l.blockedW[i] && l.plan.Capacity > 0 && len(l.q[out]) >= l.plan.Capacity)
}

// resolveStuck is called (with the lock held) by end me when it is about to wait. If the peer is
// stuck as well nobody can ever make progress: an end with an armed deadline gets its timeout (me
// first: returns true), otherwise the link is declared deadlocked.
func (l *Link) resolveStuck(me int) bool {
	if !l.stuckEnd(me) || !l.stuckEnd(1-me) || l.cut || l.closed[0] || l.closed[1] {
		return false
	}
	switch {
	case !l.deadline[me].IsZero():
		return true
	case !l.deadline[1-me].IsZero():
		l.fire[1-me] = true
		l.cond.Broadcast()
	case l.plan.DetectDeadlock:
		l.deadlock = true
		l.cond.Broadcast()
	}
	return false
}

// writeLocked accepts p at once (no flow control); the lock is held.
func (e *End) writeLocked(p []byte) (int, error) {
	l := e.l
	d := e.dirOut()
	if l.closed[e.idx] {
		return 0, net.ErrClosed
	}
	if l.pastDeadline(l.expW[e.idx]) {
		l.expired[e.idx]++
		return 0, errTimeout
	}
	if l.plan.ClockJump > 0 && l.clockLead == 0 && l.written[0]+l.written[1]+int64(len(p)) >= l.plan.ClockJumpAfter {
		l.clockLead = l.plan.ClockJump // time passes: everything written from here on is written that much later
	}
	if l.cut && l.plan.CutSilent && !l.killed {
		return len(p), nil // swallowed by the dead link's buffer
	}
	if l.cut || l.closed[1-e.idx] {
		return 0, ErrPeerClosed
	}
	n := len(p)
	failed := false
	if l.plan.CutDir == d {
		room := l.plan.CutAt - l.written[d]
		if int64(n) >= room {
			// this write crosses (or reaches) the limit. Reaching it exactly still delivers all n
			// bytes, but the link is gone afterwards.
			if int64(n) > room {
				n = int(room)
				failed = true
			}
			defer l.doCut()
		}
	}
	if l.record {
		l.transcript[d] = append(l.transcript[d], p[:n]...)
	}
	if !l.scripted {
		l.enqueue(d, p[:n])
	}
	l.written[d] += int64(n)
	l.cond.Broadcast()
	if failed && l.plan.CutSilent {
		return len(p), nil
	}
	if failed {
		return n, ErrPeerClosed
	}
	return n, nil
}

// enqueue applies the in-transit edits of direction d to p (whose first byte has absolute offset
// l.written[d]) and appends the result to the queue.
func (l *Link) enqueue(d int, p []byte) {
	off := l.written[d]
	edits := l.plan.Edits[d]
	out := l.q[d]
	start := len(out)
	for i := 0; i < len(p); i++ {
		for l.editIdx[d] < len(edits) && edits[l.editIdx[d]].Off == off+int64(i) && l.skip[d] == 0 {
			ed := edits[l.editIdx[d]]
			out = append(out, ed.Ins...)
			l.skip[d] = ed.Del
			l.editIdx[d]++
			if ed.Del > 0 {
				break
			}
		}
		if l.skip[d] > 0 {
			l.skip[d]--
			continue
		}
		out = append(out, p[i])
	}
	if l.record {
		l.wire[d] = append(l.wire[d], out[start:]...)
	}
	l.q[d] = out
}

func (l *Link) doCut() {
	// called with l.mu held (deferred inside Write)
	l.cut = true
	d := l.plan.CutDir
	l.q[1-d] = nil // opposite direction: in-flight bytes are lost
	l.cond.Broadcast()
}

func (e *End) Read(p []byte) (int, error) {
	l := e.l
	d := e.dirIn()
	l.mu.Lock()
	defer l.mu.Unlock()
	l.rdCalls[e.idx]++
	if len(p) == 0 {
		return 0, nil
	}
	if l.pastDeadline(l.expR[e.idx]) && !l.closed[e.idx] {
		l.expired[e.idx]++
		return 0, errTimeout
	}
	for {
		if l.closed[e.idx] {
			return 0, net.ErrClosed
		}
		if len(l.q[d]) > 0 {
			break
		}
		if l.cut || l.closed[1-e.idx] || l.deadlock || l.scripted {
			return 0, io.EOF
		}
		l.blocked[e.idx] = true
		if l.resolveStuck(e.idx) {
			l.blocked[e.idx] = false
			l.timeouts[e.idx]++
			return 0, errTimeout
		}
		if l.deadlock {
			// both ends wait for the other and nothing can move: nobody can ever make progress
			l.blocked[e.idx] = false
			return 0, io.EOF
		}
		l.cond.Wait()
		l.blocked[e.idx] = false
		if l.fire[e.idx] {
			l.fire[e.idx] = false
			l.timeouts[e.idx]++
			return 0, errTimeout
		}
	}
	k := len(p)
	r := l.rng[e.idx]
	switch l.plan.Seg {
	case 1:
		k = 1
	case 2:
		k = 1 + r.Intn(7)
	case 3:
		switch r.Intn(3) {
		case 0:
			k = 1
		case 1:
			k = 2 + r.Intn(6)
		}
	}
	if k > len(p) {
		k = len(p)
	}
	if k > len(l.q[d]) {
		k = len(l.q[d])
	}
	copy(p, l.q[d][:k])
	l.q[d] = l.q[d][k:]
	l.delivered[d] += int64(k)
	l.cond.Broadcast() // wakes Flush waiters
	return k, nil
}

func (e *End) Close() error {
	l := e.l
	l.mu.Lock()
	defer l.mu.Unlock()
	l.closeCnt[e.idx]++
	if l.closed[e.idx] {
		return net.ErrClosed
	}
	l.closed[e.idx] = true
	l.q[e.dirIn()] = nil // unread inbound bytes are discarded
	l.cond.Broadcast()
	return nil
}

type addr string

func (a addr) Network() string { return "vpipe" }
func (a addr) String() string  { return string(a) }

func (e *End) LocalAddr() net.Addr  { return addr([]string{"A", "B"}[e.idx]) }
func (e *End) RemoteAddr() net.Addr { return addr([]string{"B", "A"}[e.idx]) }

// Deadlines are recorded, not timed: see Plan.Capacity.
func (e *End) SetDeadline(t time.Time) error {
	e.l.mu.Lock()
	e.l.deadline[e.idx] = t
	e.l.expR[e.idx], e.l.expW[e.idx] = e.l.onLinkClock(t), e.l.onLinkClock(t)
	e.l.mu.Unlock()
	return nil
}
func (e *End) SetReadDeadline(t time.Time) error {
	e.l.mu.Lock()
	e.l.deadline[e.idx] = t
	e.l.expR[e.idx] = e.l.onLinkClock(t)
	e.l.mu.Unlock()
	return nil
}
func (e *End) SetWriteDeadline(t time.Time) error {
	e.l.mu.Lock()
	e.l.deadline[e.idx] = t
	e.l.expW[e.idx] = e.l.onLinkClock(t)
	e.l.mu.Unlock()
	return nil
}

// onLinkClock translates a wall-clock deadline into the link's clock (l.mu held).
func (l *Link) onLinkClock(t time.Time) time.Time {
	if t.IsZero() || l.plan.ClockJump <= 0 {
		return time.Time{}
	}
	return t.Add(l.clockLead)
}

// pastDeadline reports whether exp has passed on the link's clock (l.mu held).
func (l *Link) pastDeadline(exp time.Time) bool {
	return !exp.IsZero() && time.Now().Add(l.clockLead).After(exp)
}

// ExpiredDeadlines returns how many Reads / Writes of each end were refused because their deadline had passed on the
// link's clock.
func (l *Link) ExpiredDeadlines() [2]int {
	l.mu.Lock()
	defer l.mu.Unlock()
	return l.expired
}

// ---- modem emulation -------------------------------------------------------------------------

// TxBufferLen reports the bytes written by this end that the peer has not read yet.
func (m *ModemEnd) TxBufferLen() int {
	if m.TxQueryDelay > 0 {
		time.Sleep(m.TxQueryDelay)
	}
	held, _ := m.heldNow()
	if m.TxWindow > 0 {
		held = max(held, m.windowNow())
	}
	l := m.l
	l.mu.Lock()
	defer l.mu.Unlock()
	return max(held, len(l.q[m.dirOut()]))
}

// Flush blocks until the peer has read everything this end wrote (or the link is gone).
func (m *ModemEnd) Flush() error {
	m.mu.Lock()
	m.FlushCalls++
	m.mu.Unlock()
	if _, left := m.heldNow(); left > 0 {
		time.Sleep(left)
	}
	l := m.l
	l.mu.Lock()
	defer l.mu.Unlock()
	for len(l.q[m.dirOut()]) > 0 {
		if l.cut || l.closed[0] || l.closed[1] || l.deadlock {
			return errors.New("vpipe: link closed while flushing")
		}
		l.cond.Wait()
	}
	return nil
}

func (m *ModemEnd) SetRobust(r bool) error {
	m.mu.Lock()
	m.RobustLog = append(m.RobustLog, r)
	m.mu.Unlock()
	return nil
}

// ---- observation -----------------------------------------------------------------------------

// State is a snapshot of what the link observed.
type State struct {
	Written    [2]int64
	Delivered  [2]int64
	Closed     [2]bool
	CloseCalls [2]int
	Cut        bool
	Deadlock   bool
	ReadCalls  [2]int
	WriteCalls [2]int
	InFlight   [2]int
	Timeouts   [2]int // calls of end i that returned a (logical) deadline timeout
}

func (l *Link) State() State {
	l.mu.Lock()
	defer l.mu.Unlock()
	return State{Written: l.written, Delivered: l.delivered, Closed: l.closed, CloseCalls: l.closeCnt, Cut: l.cut,
		Deadlock: l.deadlock, ReadCalls: l.rdCalls, WriteCalls: l.wrCalls, InFlight: [2]int{len(l.q[0]), len(l.q[1])}, Timeouts: l.timeouts}
}

// Transcript returns the bytes written in direction d (as the sender wrote them).
func (l *Link) Transcript(d int) []byte {
	l.mu.Lock()
	defer l.mu.Unlock()
	return append([]byte(nil), l.transcript[d]...)
}

// Wire returns the bytes of direction d after in-transit edits.
func (l *Link) Wire(d int) []byte {
	l.mu.Lock()
	defer l.mu.Unlock()
	return append([]byte(nil), l.wire[d]...)
}

// Kill drops the link from outside (used by watchdogs): every blocked call returns.
func (l *Link) Kill() {
	l.mu.Lock()
	defer l.mu.Unlock()
	l.cut = true
	l.killed = true
	l.q[0], l.q[1] = nil, nil
	l.cond.Broadcast()
}

var _ net.Conn = (*End)(nil)
var _ = errTimeout

// NewScripted returns an end whose remote is a fixed byte string: reads deliver the script (under
// the plan's segmentation) and then EOF; writes are accepted and recorded but go nowhere. This is
// a legal peer for a strictly alternating protocol: what the remote sends does not depend on when
// it is read.
func NewScripted(script []byte, p Plan, record bool) (*End, *Link) {
	p.CutDir = NoCut
	a, _, l := New(p, record)
	l.scripted = true
	l.q[BtoA] = append([]byte(nil), script...)
	l.written[BtoA] = int64(len(script))
	return a, l
}
