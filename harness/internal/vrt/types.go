// Package vrt is the shared runtime of the verification harness: deterministic case planning,
// isolated worker processes with journaling (the parent always knows which case a worker was
// running when it died or hung), watchdogs, known-finding matching, evidence and replay files.
package vrt

import (
	"encoding/json"
	"fmt"
	"hash/fnv"
	"sort"
	"sync"
)

// Case is one unit of work handed to a worker process. Params fully determine what is executed.
type Case struct {
	ID     string          `json:"id"`
	Params json.RawMessage `json:"params"`
	// TimeoutS is the wall-clock watchdog for this case (0 = 120 s). Its expiry alone is never a
	// verdict: the case is re-run in isolation (see Check.HangIsViolation).
	TimeoutS int `json:"timeout_s,omitempty"`
}

// Violation is one refutation of the property, observed against the real code.
type Violation struct {
	// Key identifies the specific failing input / call site / history class. It is what
	// known_findings.txt lines are matched against, so it must be stable across runs and seeds and
	// specific enough that a different violation of the same property gets a different key.
	Key    string `json:"key"`
	Desc   string `json:"desc"`
	Detail any    `json:"detail,omitempty"`
}

// Obs is what the monitors observed while running one case.
type Obs struct {
	Evals        int64            `json:"evals"`                  // executions performed (>= 1 normally)
	Sigs         []string         `json:"sigs,omitempty"`         // signatures of the non-trivial executions (parent dedups)
	Violations   []Violation      `json:"violations,omitempty"`   //
	Inconclusive []string         `json:"inconclusive,omitempty"` // reasons; never folded into held/violated
	Counters     map[string]int64 `json:"counters,omitempty"`     // what the monitors saw (events by type, ...)
	Sample       any              `json:"sample,omitempty"`       // the case written out for the evidence file
	// Poisoned asks the framework to retire this worker process after the case (e.g. a goroutine of
	// the code under test is still spinning and would distort later cases).
	Poisoned bool `json:"poisoned,omitempty"`
}

func (o *Obs) Count(name string, n int64) {
	if o.Counters == nil {
		o.Counters = map[string]int64{}
	}
	o.Counters[name] += n
}

// MaxViolationsPerCase bounds the violation records one case reports (the rest is only counted).
const MaxViolationsPerCase = 40

func (o *Obs) Violate(key, format string, a ...any) *Violation {
	if len(o.Violations) >= MaxViolationsPerCase {
		o.Count("violations_not_recorded_over_cap", 1)
		return &Violation{}
	}
	o.Violations = append(o.Violations, Violation{Key: key, Desc: fmt.Sprintf(format, a...)})
	return &o.Violations[len(o.Violations)-1]
}

func (o *Obs) Sig(format string, a ...any) {
	const maxSigs = 4096 // per case; beyond that distinct_nontrivial is under-counted (conservative)
	if len(o.Sigs) < maxSigs {
		o.Sigs = append(o.Sigs, fmt.Sprintf(format, a...))
	} else {
		o.Count("sigs_dropped_over_cap", 1)
	}
}

// Crash describes a worker process that died while running a case.
type Crash struct {
	ExitCode int
	Signal   string
	Stderr   string // what the worker wrote to stderr during this case (tail)
}

// Check is the registration record of one property's machinery.
type Check struct {
	ID          string
	Level       string // exploration | fault_enumeration
	Rule        string // how cases are generated and what makes one non-trivial / distinct
	Assumptions []string
	Race        bool // needs the -race binary; race reports are parsed from GORACE logs
	// ProcPerCase runs every case in a fresh worker process (needed when the verdict comes from
	// per-process artefacts such as race-detector logs).
	ProcPerCase bool
	MaxWorkers  int // 0 = all cores
	MemLimitMB  int // address-space limit of each worker (0 = 6144; ignored for -race workers)
	SelfTest    func() error
	Plan        func(seed int64, tier string) []Case
	Run         func(c Case) Obs
	Exhaustive  func(tier string) bool
	// HangIsViolation: the property has a "returns / terminates" clause, so a case that does not
	// return in three isolated attempts is a violation (key "hang:<case class>"). Otherwise a
	// persistent timeout is reported as inconclusive.
	HangIsViolation bool
	HangKey         func(c Case) string
	// OnCrash classifies a worker that died during a case. nil = every crash is a violation with
	// key "crash:<first runtime/panic line>".
	OnCrash func(c Case, cr Crash) Obs
	// RaceFilter decides whether a race report (its text) concerns the code under test. nil = any
	// report mentioning github.com/la5nta/wl2k-go counts.
	RaceFilter func(report string) bool
	// MinNontrivial: fewer distinct non-trivial executions than this means the monitors observed
	// too little and the run is reported as broken (exit 2), never as "held".
	MinNontrivial int
	// Extra is merged into evidence.coverage.
	Extra func(tier string) map[string]any
}

var (
	regMu    sync.Mutex
	registry = map[string]*Check{}
)

func Register(c *Check) {
	regMu.Lock()
	defer regMu.Unlock()
	if _, dup := registry[c.ID]; dup {
		panic("duplicate check " + c.ID)
	}
	registry[c.ID] = c
}

func Lookup(id string) *Check {
	regMu.Lock()
	defer regMu.Unlock()
	return registry[id]
}

func IDs() []string {
	regMu.Lock()
	defer regMu.Unlock()
	var ids []string
	for id := range registry {
		ids = append(ids, id)
	}
	sort.Strings(ids)
	return ids
}

// MustParams marshals a case parameter struct.
func MustParams(v any) json.RawMessage {
	b, err := json.Marshal(v)
	if err != nil {
		panic(err)
	}
	return b
}

// Params unmarshals case parameters.
func Params(c Case, v any) {
	if err := json.Unmarshal(c.Params, v); err != nil {
		panic(fmt.Sprintf("case %s: bad params: %v", c.ID, err))
	}
}

func hash64(s string) uint64 {
	h := fnv.New64a()
	h.Write([]byte(s))
	return h.Sum64()
}
