package vrt

import (
	"bufio"
	"bytes"
	"encoding/json"
	"fmt"
	"io"
	"os"
	"os/exec"
	"path/filepath"
	"regexp"
	"runtime"
	"sort"
	"strings"
	"sync"
	"syscall"
	"time"
)

// Options come from run.sh / the command line.
type Options struct {
	Seed    int64
	Tier    string
	Root    string // /verif
	Scratch string // per-invocation scratch directory (removed by run.sh)
	Replay  string // replay file: run exactly that case
	Exe     string // path of the worker binary (this binary)
	Workers int    // override
}

type caseResult struct {
	c        Case
	done     bool
	obs      Obs
	cpuMS    int64
	wall     float64
	crash    *Crash
	timeouts int
	dump     string // goroutine dump of the last timeout
}

type proc struct {
	cmd     *exec.Cmd
	stdin   io.WriteCloser
	res     *bufio.Reader
	resF    *os.File
	errPath string
	errOff  int64
	raceLog string
	ran     []string
	waited  chan struct{}
	werr    error
}

type runner struct {
	ch          *Check
	opt         Options
	mu          sync.Mutex
	nextWorker  int
	raceReports []raceReport
}

type raceReport struct {
	text  string
	cases []string
}

func (r *runner) start() (*proc, error) {
	r.mu.Lock()
	r.nextWorker++
	wid := r.nextWorker
	r.mu.Unlock()
	pr, pw, err := os.Pipe()
	if err != nil {
		return nil, err
	}
	cmd := exec.Command(r.opt.Exe, r.ch.ID, "--worker")
	cmd.ExtraFiles = []*os.File{pw}
	errPath := filepath.Join(r.opt.Scratch, fmt.Sprintf("worker-%d.err", wid))
	ef, err := os.Create(errPath)
	if err != nil {
		return nil, err
	}
	cmd.Stdout = ef
	cmd.Stderr = ef
	env := os.Environ()
	p := &proc{cmd: cmd, errPath: errPath, waited: make(chan struct{})}
	if r.ch.Race {
		p.raceLog = filepath.Join(r.opt.Scratch, fmt.Sprintf("race-%d", wid))
		env = append(env, "GORACE=halt_on_error=0 history_size=3 log_path="+p.raceLog)
	}
	if os.Getenv("GOMAXPROCS") == "" {
		// up to 16 workers run side by side: 4 Ps each keep real parallelism inside a case without
		// 256 runnable threads fighting for 16 cores (which starves the workers' collectors)
		env = append(env, "GOMAXPROCS=4")
	}
	env = append(env, "VERIF_SCRATCH="+r.opt.Scratch, "VERIF_WORKER_ID="+fmt.Sprint(wid), "GOTRACEBACK=all")
	cmd.Env = env
	cmd.SysProcAttr = &syscall.SysProcAttr{Setpgid: true}
	p.stdin, err = cmd.StdinPipe()
	if err != nil {
		return nil, err
	}
	if err := cmd.Start(); err != nil {
		return nil, err
	}
	pw.Close()
	ef.Close()
	p.resF = pr
	p.res = bufio.NewReaderSize(pr, 1<<20)
	go func() { p.werr = cmd.Wait(); close(p.waited) }()
	return p, nil
}

// stderrSince returns what the worker wrote since the last call (bounded tail).
func (p *proc) stderrSince() string {
	f, err := os.Open(p.errPath)
	if err != nil {
		return ""
	}
	defer f.Close()
	st, _ := f.Stat()
	size := st.Size()
	off := p.errOff
	p.errOff = size
	const max = 256 << 10
	trunc := false
	if size-off > max {
		// keep head and tail: the head has the panic message, the tail the exit
		head := make([]byte, max/2)
		f.ReadAt(head, off)
		tail := make([]byte, max/2)
		f.ReadAt(tail, size-int64(len(tail)))
		trunc = true
		return string(head) + "\n...[snip]...\n" + string(tail)
	}
	_ = trunc
	b := make([]byte, size-off)
	f.ReadAt(b, off)
	return string(b)
}

func (p *proc) kill() {
	if p.cmd.Process != nil {
		syscall.Kill(-p.cmd.Process.Pid, syscall.SIGKILL)
	}
	<-p.waited
	p.resF.Close()
}

func (p *proc) stop() {
	p.stdin.Close()
	select {
	case <-p.waited:
	case <-time.After(20 * time.Second):
		syscall.Kill(-p.cmd.Process.Pid, syscall.SIGKILL)
		<-p.waited
	}
	p.resF.Close()
}

func (r *runner) collectRace(p *proc) {
	if p.raceLog == "" || p.cmd.Process == nil {
		return
	}
	matches, _ := filepath.Glob(p.raceLog + ".*")
	for _, m := range matches {
		b, err := os.ReadFile(m)
		if err != nil {
			continue
		}
		os.Remove(m)
		for _, rep := range splitRaceReports(string(b)) {
			r.mu.Lock()
			r.raceReports = append(r.raceReports, raceReport{text: rep, cases: append([]string(nil), p.ran...)})
			r.mu.Unlock()
		}
	}
}

func splitRaceReports(s string) []string {
	var out []string
	parts := strings.Split(s, "==================")
	for _, p := range parts {
		if strings.Contains(p, "WARNING: DATA RACE") {
			out = append(out, strings.TrimSpace(p))
		}
	}
	return out
}

var raceFrameRe = regexp.MustCompile(`(?m)^(?:Write|Read|Previous write|Previous read|Atomic write|Atomic read|Previous atomic write|Previous atomic read) at .*\n((?:  .*\n?)+)`)

// RaceKey builds a stable signature from the innermost code-under-test frames of both accesses.
func RaceKey(report string) string {
	var fr []string
	for _, m := range raceFrameRe.FindAllStringSubmatch(report, -1) {
		f := ""
		for _, l := range strings.Split(m[1], "\n") {
			l = strings.TrimSpace(l)
			if strings.HasPrefix(l, "github.com/la5nta/wl2k-go/") {
				f = RepoFrame(l)
				break
			}
		}
		if f == "" {
			f = "?"
		}
		fr = append(fr, f)
	}
	sort.Strings(fr)
	return "race:" + strings.Join(fr, "|")
}

func (r *runner) timeoutOf(c Case) time.Duration {
	t := c.TimeoutS
	if t <= 0 {
		t = 120
	}
	return time.Duration(t) * time.Second
}

// runCase sends one case to p and waits. It returns ok=false when the process is no longer usable.
func (r *runner) runCase(p *proc, cr *caseResult, isolated bool) (ok bool) {
	line, _ := json.Marshal(cr.c)
	line = append(line, '\n')
	p.ran = append(p.ran, cr.c.ID)
	type rd struct {
		b   []byte
		err error
	}
	got := make(chan rd, 1)
	go func() {
		if _, err := p.stdin.Write(line); err != nil {
			got <- rd{nil, err}
			return
		}
		b, err := p.res.ReadBytes('\n')
		got <- rd{b, err}
	}()
	to := r.timeoutOf(cr.c)
	select {
	case g := <-got:
		if g.err == nil {
			var wr wireResult
			if err := json.Unmarshal(g.b, &wr); err == nil && wr.ID == cr.c.ID {
				cr.done, cr.obs, cr.cpuMS, cr.wall = true, wr.Obs, wr.CPUms, wr.Wall
				p.stderrSince()
				if wr.Obs.Poisoned {
					p.kill()
					return false
				}
				return true
			}
		}
		// worker died (or protocol broke) while running this case
		select {
		case <-p.waited:
		case <-time.After(10 * time.Second):
			syscall.Kill(-p.cmd.Process.Pid, syscall.SIGKILL)
			<-p.waited
		}
		p.resF.Close()
		c := &Crash{ExitCode: -1, Stderr: p.stderrSince()}
		if p.cmd.ProcessState != nil {
			c.ExitCode = p.cmd.ProcessState.ExitCode()
			if ws, ok := p.cmd.ProcessState.Sys().(syscall.WaitStatus); ok && ws.Signaled() {
				c.Signal = ws.Signal().String()
			}
		}
		cr.crash = c
		return false
	case <-time.After(to):
		// watchdog: ask for a goroutine dump, then kill
		syscall.Kill(p.cmd.Process.Pid, syscall.SIGQUIT)
		select {
		case <-p.waited:
		case <-time.After(15 * time.Second):
		}
		p.kill()
		cr.timeouts++
		cr.dump = trimStack(p.stderrSince())
		return false
	}
}

func (r *runner) workerLoop(queue <-chan *caseResult, wg *sync.WaitGroup) {
	defer wg.Done()
	var p *proc
	for cr := range queue {
		if p == nil {
			var err error
			p, err = r.start()
			if err != nil {
				cr.obs.Inconclusive = append(cr.obs.Inconclusive, "cannot start worker: "+err.Error())
				cr.done = true
				continue
			}
		}
		ok := r.runCase(p, cr, false)
		if !ok {
			r.collectRace(p)
			p = nil
			continue
		}
		if r.ch.ProcPerCase {
			p.stop()
			r.collectRace(p)
			p = nil
		}
	}
	if p != nil {
		p.stop()
		r.collectRace(p)
	}
}

var parentScratch string

// ScratchDir returns the per-invocation scratch directory (in the parent and in workers).
func ScratchDir() string {
	if parentScratch != "" {
		return parentScratch
	}
	if d := os.Getenv("VERIF_SCRATCH"); d != "" {
		return d
	}
	return os.TempDir()
}

// Run executes a check and returns the process exit code.
func Run(ch *Check, opt Options) int {
	t0 := time.Now()
	parentScratch = opt.Scratch
	if ch.SelfTest != nil {
		if err := ch.SelfTest(); err != nil {
			fmt.Printf("ORACLE-BROKEN property=%s self-test failed: %v\n", ch.ID, err)
			return 2
		}
	}
	var cases []Case
	if opt.Replay != "" {
		b, err := os.ReadFile(opt.Replay)
		if err != nil {
			fmt.Println("cannot read replay file:", err)
			return 2
		}
		var rf replayFile
		if err := json.Unmarshal(b, &rf); err != nil {
			fmt.Println("bad replay file:", err)
			return 2
		}
		cases = []Case{rf.Case}
		opt.Seed, opt.Tier = rf.Seed, rf.Tier
	} else {
		cases = ch.Plan(opt.Seed, opt.Tier)
	}
	if len(cases) == 0 {
		fmt.Printf("BROKEN property=%s empty plan\n", ch.ID)
		return 2
	}
	seen := map[string]bool{}
	for _, c := range cases {
		if seen[c.ID] {
			fmt.Printf("BROKEN property=%s duplicate case id %s\n", ch.ID, c.ID)
			return 2
		}
		seen[c.ID] = true
	}
	r := &runner{ch: ch, opt: opt}
	results := make([]*caseResult, len(cases))
	for i, c := range cases {
		results[i] = &caseResult{c: c}
	}
	w := runtime.NumCPU()
	if ch.MaxWorkers > 0 && ch.MaxWorkers < w {
		w = ch.MaxWorkers
	}
	if opt.Workers > 0 {
		w = opt.Workers
	}
	if w > len(cases) {
		w = len(cases)
	}
	queue := make(chan *caseResult)
	var wg sync.WaitGroup
	for i := 0; i < w; i++ {
		wg.Add(1)
		go r.workerLoop(queue, &wg)
	}
	for _, cr := range results {
		queue <- cr
	}
	close(queue)
	wg.Wait()

	// Isolated re-runs: a watchdog expiry under 16-way load proves nothing. Re-run each such case
	// alone (nothing else running) up to two more times.
	for _, cr := range results {
		for !cr.done && cr.crash == nil && cr.timeouts > 0 && cr.timeouts < 3 {
			p, err := r.start()
			if err != nil {
				break
			}
			if r.runCase(p, cr, true) {
				p.stop()
			}
			r.collectRace(p)
		}
	}
	return r.report(results, time.Since(t0))
}

type replayFile struct {
	Property  string    `json:"property"`
	Seed      int64     `json:"seed"`
	Tier      string    `json:"tier"`
	Case      Case      `json:"case"`
	Violation Violation `json:"violation"`
	Note      string    `json:"note,omitempty"`
}

func firstFatalLine(stderr string) string {
	for _, l := range strings.Split(stderr, "\n") {
		t := strings.TrimSpace(l)
		if strings.HasPrefix(t, "panic:") || strings.HasPrefix(t, "fatal error:") || strings.HasPrefix(t, "runtime:") {
			if len(t) > 120 {
				t = t[:120]
			}
			return t
		}
	}
	return ""
}

// DefaultCrash classifies a dead worker: always a violation; the key names the library frame of
// the crashing goroutine when one can be found, else the first fatal line.
func DefaultCrash(c Case, cr Crash) Obs {
	var o Obs
	o.Evals = 1
	key := ""
	if i := strings.Index(cr.Stderr, "panic:"); i >= 0 {
		// only the panicking goroutine's own stack (the first block of the dump) names the culprit
		first := cr.Stderr[i:]
		if j := strings.Index(first, "\ngoroutine "); j >= 0 {
			if k := strings.Index(first[j+1:], "\n\n"); k >= 0 {
				first = first[:j+1+k]
			}
		}
		if fr := RepoFrame(first); fr != "" {
			key = "crash:" + fr
		} else if strings.Contains(first, "\nverif/") {
			// a panic inside the harness itself (simulator, driver): a harness bug, never a verdict
			key = "harness-crash:" + firstFatalLine(first)
		}
	}
	if key == "" {
		if i := strings.Index(cr.Stderr, "fatal error:"); i >= 0 {
			l := firstFatalLine(cr.Stderr[i:])
			key = "crash:" + l
			if fr := RepoFrame(cr.Stderr[i:]); fr != "" {
				key += "@" + fr
			}
		}
	}
	if key == "" {
		key = fmt.Sprintf("crash:exit=%d signal=%s", cr.ExitCode, cr.Signal)
	}
	desc := firstFatalLine(cr.Stderr)
	if desc == "" {
		desc = fmt.Sprintf("worker process died (exit=%d signal=%s)", cr.ExitCode, cr.Signal)
	}
	o.Violations = append(o.Violations, Violation{Key: key, Desc: "process killed by the code under test: " + desc,
		Detail: map[string]any{"exit_code": cr.ExitCode, "signal": cr.Signal, "stderr": trimStack(tailString(cr.Stderr, 6000))}})
	return o
}

func tailString(s string, n int) string {
	// keep the part starting at the first fatal marker if there is one
	for _, m := range []string{"panic:", "fatal error:"} {
		if i := strings.Index(s, m); i >= 0 {
			s = s[i:]
			break
		}
	}
	if len(s) > n {
		return s[:n]
	}
	return s
}

func (r *runner) report(results []*caseResult, wall time.Duration) int {
	ch, opt := r.ch, r.opt
	kf := LoadKnownFindings(filepath.Join(opt.Root, "known_findings.txt"), ch.ID)
	var (
		evals       int64
		sigs        = map[uint64]struct{}{}
		counters    = map[string]int64{}
		samples     []any
		inconcl     []string
		nViol       int
		nKnown      = map[string]int{}
		exit        = 0
		cpuTotal    int64
		printedViol = map[string]int{}
	)
	emit := func(cr *caseResult, v Violation) {
		v.Key = NormKey(v.Key)
		if strings.HasPrefix(v.Key, "harness-crash:") {
			fmt.Printf("BROKEN property=%s the harness itself crashed in case %s: %s\n", ch.ID, cr.c.ID, v.Desc)
			if exit == 0 {
				exit = 2
			}
			return
		}
		if f := kf.Match(v.Key); f != nil {
			nKnown[f.Key]++
			return
		}
		nViol++
		exit = 1
		printedViol[v.Key]++
		if printedViol[v.Key] > 3 { // same class already reported with replay files
			return
		}
		path := writeReplay(opt, ch.ID, cr.c, v)
		fmt.Printf("VIOLATION property=%s replay=%s\n", ch.ID, path)
		fmt.Printf("  key=%s\n  %s\n", v.Key, v.Desc)
	}
	for _, cr := range results {
		obs := cr.obs
		switch {
		case cr.done:
		case cr.crash != nil:
			if ch.OnCrash != nil {
				obs = ch.OnCrash(cr.c, *cr.crash)
			} else {
				obs = DefaultCrash(cr.c, *cr.crash)
			}
			counters["worker_crashes"]++
		case cr.timeouts >= 3 && ch.HangIsViolation:
			key := "hang:" + cr.c.ID
			if ch.HangKey != nil {
				key = "hang:" + ch.HangKey(cr.c)
			}
			obs = Obs{Evals: 1}
			obs.Violations = append(obs.Violations, Violation{Key: key,
				Desc:   fmt.Sprintf("case did not return within %v in 3 isolated attempts", r.timeoutOf(cr.c)),
				Detail: map[string]any{"goroutines": cr.dump}})
			counters["hangs"]++
		case cr.timeouts > 0:
			obs = Obs{Evals: 0, Inconclusive: []string{fmt.Sprintf("case %s: watchdog expired %d time(s)", cr.c.ID, cr.timeouts)}}
			counters["watchdog_inconclusive"]++
		default:
			obs = Obs{Inconclusive: []string{"case " + cr.c.ID + " was not run"}}
		}
		if cr.done && cr.timeouts > 0 {
			counters["watchdog_then_ok_when_isolated"]++
		}
		evals += obs.Evals
		cpuTotal += cr.cpuMS
		for _, s := range obs.Sigs {
			sigs[hash64(s)] = struct{}{}
		}
		for k, v := range obs.Counters {
			counters[k] += v
		}
		if obs.Sample != nil && len(samples) < 6 {
			samples = append(samples, obs.Sample)
		}
		for _, ic := range obs.Inconclusive {
			if len(inconcl) < 50 {
				inconcl = append(inconcl, ic)
			}
			counters["inconclusive"]++
		}
		for _, v := range obs.Violations {
			emit(cr, v)
		}
	}
	// race reports
	if ch.Race {
		seenRace := map[string]bool{}
		for _, rr := range r.raceReports {
			counters["race_reports_total"]++
			keep := strings.Contains(rr.text, "github.com/la5nta/wl2k-go")
			if ch.RaceFilter != nil {
				keep = ch.RaceFilter(rr.text)
			}
			if !keep {
				counters["race_reports_outside_code_under_test"]++
				if !strings.Contains(rr.text, "github.com/la5nta/wl2k-go") {
					// a race purely inside the harness is a harness bug
					fmt.Printf("BROKEN property=%s race report inside the harness:\n%s\n", ch.ID, trimStack(rr.text))
					if exit == 0 {
						exit = 2
					}
				}
				continue
			}
			key := RaceKey(rr.text)
			if seenRace[key] {
				counters["race_reports_duplicate"]++
				continue
			}
			seenRace[key] = true
			cr := &caseResult{c: Case{ID: "race-in:" + strings.Join(rr.cases, ",")}}
			for _, res := range results {
				if len(rr.cases) > 0 && res.c.ID == rr.cases[len(rr.cases)-1] {
					cr = res
				}
			}
			emit(cr, Violation{Key: key, Desc: "data race reported by the Go race detector", Detail: map[string]any{"report": trimStack(rr.text), "cases": rr.cases}})
		}
	}
	for _, f := range kf.Findings {
		if n := nKnown[f.Key]; n > 0 {
			fmt.Printf("KNOWN-FINDING: property=%s %s (key=%s, %d occurrence(s) this run)\n", ch.ID, f.Desc, f.Key, n)
		}
	}
	distinct := len(sigs)
	if exit == 0 && distinct < max(2, ch.MinNontrivial) && opt.Replay == "" {
		fmt.Printf("BROKEN property=%s monitors observed only %d distinct non-trivial executions (need %d)\n", ch.ID, distinct, max(2, ch.MinNontrivial))
		exit = 2
	}
	if len(samples) == 0 {
		samples = append(samples, map[string]any{"case": results[0].c})
	}
	cov := map[string]any{
		"evaluations":         evals,
		"distinct_nontrivial": distinct,
		"rule":                ch.Rule,
		"samples":             samples,
		"cases":               len(results),
		"monitor_counters":    counters,
		"inconclusive":        inconcl,
		"known_finding_hits":  nKnown,
		"cpu_s":               float64(cpuTotal) / 1000,
	}
	repo := os.Getenv("VERIF_REPO")
	if repo == "" {
		repo = "/repo"
	}
	cov["repo_under_test"] = repo
	if out, err := exec.Command("git", "-C", repo, "rev-parse", "--short", "HEAD").Output(); err == nil {
		cov["repo_head"] = strings.TrimSpace(string(out))
		if st, err := exec.Command("git", "-C", repo, "status", "--porcelain", "--untracked-files=no").Output(); err == nil {
			cov["repo_worktree_modified"] = len(strings.TrimSpace(string(st))) > 0
		}
	}
	if ch.Exhaustive != nil {
		cov["exhaustive"] = ch.Exhaustive(opt.Tier)
	}
	if ch.Extra != nil {
		for k, v := range ch.Extra(opt.Tier) {
			cov[k] = v
		}
	}
	ev := map[string]any{
		"property_id": ch.ID,
		"tier":        opt.Tier,
		"seed":        opt.Seed,
		"level":       ch.Level,
		"coverage":    cov,
		"assumptions": ch.Assumptions,
		"wall_s":      wall.Seconds(),
		"violations":  nViol,
	}
	if opt.Replay == "" {
		// Evidence under evidence/ always describes /repo itself. A run against another checkout
		// (VERIF_REPO: a scratch worktree with a mutant or a candidate fix) writes to evidence/alt/.
		evPath := filepath.Join(opt.Root, "evidence", ch.ID+".json")
		if repo != "/repo" {
			evPath = filepath.Join(opt.Root, "evidence", "alt", ch.ID+".json")
		}
		if err := writeJSONAtomic(evPath, ev); err != nil {
			fmt.Println("cannot write evidence:", err)
			if exit == 0 {
				exit = 2
			}
		}
	}
	// human-readable summary of what was observed
	keys := make([]string, 0, len(counters))
	for k := range counters {
		keys = append(keys, k)
	}
	sort.Strings(keys)
	var cb bytes.Buffer
	for _, k := range keys {
		fmt.Fprintf(&cb, " %s=%d", k, counters[k])
	}
	verdict := "HELD-ON-OBSERVED"
	if exit == 1 {
		verdict = "VIOLATED"
	} else if exit == 2 {
		verdict = "BROKEN"
	}
	fmt.Printf("%s property=%s tier=%s seed=%d cases=%d evaluations=%d distinct_nontrivial=%d violations=%d known=%d inconclusive=%d wall=%.1fs cpu=%.1fs\n",
		verdict, ch.ID, opt.Tier, opt.Seed, len(results), evals, distinct, nViol, len(nKnown), counters["inconclusive"], wall.Seconds(), float64(cpuTotal)/1000)
	fmt.Printf("observed:%s\n", cb.String())
	if len(printedViol) > 0 {
		vk := make([]string, 0, len(printedViol))
		for k := range printedViol {
			vk = append(vk, k)
		}
		sort.Strings(vk)
		for _, k := range vk {
			fmt.Printf("  violation class %s x%d\n", k, printedViol[k])
		}
	}
	for i, ic := range inconcl {
		if i >= 5 {
			fmt.Printf("  ... %d more inconclusive\n", len(inconcl)-5)
			break
		}
		fmt.Printf("  INCONCLUSIVE: %s\n", ic)
	}
	return exit
}

func writeJSONAtomic(path string, v any) error {
	b, err := json.MarshalIndent(v, "", " ")
	if err != nil {
		return err
	}
	os.MkdirAll(filepath.Dir(path), 0o755)
	tmp := path + ".tmp"
	if err := os.WriteFile(tmp, append(b, '\n'), 0o644); err != nil {
		return err
	}
	return os.Rename(tmp, path)
}

func writeReplay(opt Options, id string, c Case, v Violation) string {
	name := fmt.Sprintf("%s-%016x.json", id, hash64(v.Key+"\x00"+c.ID))
	path := filepath.Join(opt.Root, "replays", name)
	rf := replayFile{Property: id, Seed: opt.Seed, Tier: opt.Tier, Case: c, Violation: v}
	if err := writeJSONAtomic(path, rf); err != nil {
		return "(unwritable:" + err.Error() + ")"
	}
	return path
}
