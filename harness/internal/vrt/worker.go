package vrt

import (
	"bufio"
	"encoding/json"
	"fmt"
	"io"
	"log"
	"os"
	"runtime/debug"
	"strings"
	"syscall"
	"time"
)

// wireResult is what a worker sends back for one case (one JSON line on fd 3).
type wireResult struct {
	ID    string  `json:"id"`
	Obs   Obs     `json:"obs"`
	CPUms int64   `json:"cpu_ms"`
	Wall  float64 `json:"wall_s"`
}

func cpuMillis() int64 {
	var ru syscall.Rusage
	if err := syscall.Getrusage(syscall.RUSAGE_SELF, &ru); err != nil {
		return 0
	}
	return (ru.Utime.Sec+ru.Stime.Sec)*1000 + int64(ru.Utime.Usec+ru.Stime.Usec)/1000
}

// RepoFrame returns the innermost stack frame (function name) of a Go stack dump that lies in the
// code under test, or "" if there is none. Used to build stable violation keys for panics.
func RepoFrame(stack string) string {
	for _, line := range strings.Split(stack, "\n") {
		line = strings.TrimSpace(line)
		if strings.HasPrefix(line, "github.com/la5nta/wl2k-go/") {
			fn := strings.TrimPrefix(line, "github.com/la5nta/wl2k-go/")
			if i := strings.LastIndex(fn, "("); i > 0 {
				fn = fn[:i]
			}
			// strip closure numbering so that keys survive small refactors
			for strings.HasSuffix(fn, ".func1") || strings.HasSuffix(fn, ".func2") || strings.HasSuffix(fn, ".func3") {
				fn = fn[:len(fn)-6]
			}
			return fn
		}
	}
	return ""
}

// PanicViolation turns a recovered panic into a violation with a key naming the library frame.
func PanicViolation(r any, stack []byte) Violation {
	fr := RepoFrame(string(stack))
	if fr == "" {
		fr = "outside-repo"
	}
	msg := fmt.Sprint(r)
	if len(msg) > 200 {
		msg = msg[:200]
	}
	return Violation{Key: "panic:" + fr, Desc: "panic: " + msg, Detail: map[string]any{"stack": trimStack(string(stack))}}
}

func trimStack(s string) string {
	if len(s) > 6000 {
		return s[:6000] + "\n...[truncated]"
	}
	return s
}

// Guard runs f and converts a panic into a violation on o. It returns true if f panicked.
func Guard(o *Obs, f func()) (panicked bool) {
	defer func() {
		if r := recover(); r != nil {
			o.Violations = append(o.Violations, PanicViolation(r, debug.Stack()))
			panicked = true
		}
	}()
	f()
	return false
}

// WorkerMain is the body of `check <ID> --worker`: read cases from stdin, run them one at a time,
// report on fd 3. Anything the code under test prints goes to stderr (a per-worker file that the
// parent slices per case using the @@CASE markers).
func WorkerMain(ch *Check) {
	mb := ch.MemLimitMB
	if mb == 0 {
		mb = 6144
	}
	if !ch.Race {
		lim := syscall.Rlimit{Cur: uint64(mb) << 20, Max: uint64(mb) << 20}
		_ = syscall.Setrlimit(syscall.RLIMIT_AS, &lim)
	}
	// A soft limit well below the address-space limit: on a loaded machine the collector of a worker
	// that allocates fast (70 kB codec states, large messages) may otherwise fall so far behind that
	// the harness itself, not the code under test, runs into RLIMIT_AS.
	debug.SetMemoryLimit(int64(mb) << 20 / 4)
	log.SetOutput(os.Stderr)
	log.SetFlags(0)
	out := os.NewFile(3, "results")
	if out == nil {
		fmt.Fprintln(os.Stderr, "worker: fd 3 missing")
		os.Exit(3)
	}
	w := bufio.NewWriter(out)
	rd := bufio.NewReaderSize(os.Stdin, 1<<20)
	for {
		line, err := rd.ReadBytes('\n')
		if len(line) > 0 {
			var c Case
			if jerr := json.Unmarshal(line, &c); jerr != nil {
				fmt.Fprintf(os.Stderr, "worker: bad case line: %v\n", jerr)
				os.Exit(3)
			}
			fmt.Fprintf(os.Stderr, "@@CASE %s\n", c.ID)
			res := runOne(ch, c)
			b, jerr := json.Marshal(res)
			if jerr != nil {
				// a check produced an unmarshalable detail: report that instead of dying
				res.Obs = Obs{Evals: res.Obs.Evals, Inconclusive: []string{"result not serialisable: " + jerr.Error()}}
				b, _ = json.Marshal(res)
			}
			w.Write(b)
			w.WriteByte('\n')
			w.Flush()
			if res.Obs.Poisoned {
				os.Exit(0)
			}
		}
		if err != nil {
			if err != io.EOF {
				fmt.Fprintf(os.Stderr, "worker: stdin: %v\n", err)
			}
			return
		}
	}
}

func runOne(ch *Check, c Case) (res wireResult) {
	res.ID = c.ID
	t0 := time.Now()
	c0 := cpuMillis()
	func() {
		defer func() {
			if r := recover(); r != nil {
				res.Obs.Evals++
				res.Obs.Violations = append(res.Obs.Violations, PanicViolation(r, debug.Stack()))
			}
		}()
		res.Obs = ch.Run(c)
	}()
	res.CPUms = cpuMillis() - c0
	res.Wall = time.Since(t0).Seconds()
	return res
}
