package vrt

import (
	"fmt"
	"math/rand"
)

// Rand returns a PRNG whose stream is a pure function of (seed, parts...). Every random choice in
// the harness goes through one of these so that a case is reproducible from its parameters.
func Rand(seed int64, parts ...any) *rand.Rand {
	s := fmt.Sprint(seed)
	for _, p := range parts {
		s += "\x00" + fmt.Sprint(p)
	}
	return rand.New(rand.NewSource(int64(hash64(s))))
}

// Bytes returns n PRNG bytes.
func Bytes(r *rand.Rand, n int) []byte {
	b := make([]byte, n)
	r.Read(b)
	return b
}

// Pick returns a PRNG element of xs.
func Pick[T any](r *rand.Rand, xs []T) T { return xs[r.Intn(len(xs))] }
