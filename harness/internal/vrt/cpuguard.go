package vrt

import (
	"fmt"
	"runtime/debug"
	"time"
)

// CPUGuard runs f on a goroutine of its own and waits for it. If f has not returned after the
// worker process burnt cpuLimit of CPU time since the call began, CPUGuard gives up and reports
// spun=true: the call spins (the verdict is CPU time, not wall time: load makes a spinning call
// slow, not innocent). The goroutine cannot be stopped, so the caller must set Obs.Poisoned and end
// the case: the framework then retires this worker process. If f neither returns nor burns that
// much CPU within wallCap the call is abandoned as well, with spun=false (inconclusive).
// A panic of f is re-raised on the caller's goroutine.
// CPUMillis: CPU time (user+system) this process has used, in ms.
func CPUMillis() int64 { return cpuMillis() }

func CPUGuard(f func(), cpuLimit, wallCap time.Duration) (returned, spun bool) {
	done := make(chan struct{})
	var pan any
	var stack []byte
	c0 := cpuMillis()
	t0 := time.Now()
	go func() {
		defer func() {
			if r := recover(); r != nil {
				pan, stack = r, debug.Stack()
			}
			close(done)
		}()
		f()
	}()
	t := time.NewTimer(50 * time.Millisecond)
	defer t.Stop()
wait:
	for {
		select {
		case <-done:
			break wait
		case <-t.C:
			if time.Duration(cpuMillis()-c0)*time.Millisecond >= cpuLimit {
				return false, true
			}
			if time.Since(t0) >= wallCap {
				return false, false
			}
			t.Reset(250 * time.Millisecond)
		}
	}
	if pan != nil {
		panic(fmt.Sprintf("%v\n%s", pan, stack))
	}
	return true, false
}

// Merge adds the observations of a into o (evaluations, signatures, violations, inconclusives, counters).
func (o *Obs) Merge(a Obs) {
	o.Evals += a.Evals
	o.Sigs = append(o.Sigs, a.Sigs...)
	o.Violations = append(o.Violations, a.Violations...)
	o.Inconclusive = append(o.Inconclusive, a.Inconclusive...)
	for k, v := range a.Counters {
		o.Count(k, v)
	}
	if a.Sample != nil && o.Sample == nil {
		o.Sample = a.Sample
	}
	o.Poisoned = o.Poisoned || a.Poisoned
}

// Parallel runs f from `workers` goroutines at once, each with an observation record of its own, and
// merges the records into o afterwards. For properties of the form "for every input ..." that must
// also hold when several independent instances (sessions, codecs, messages) of one program are at
// work simultaneously: state shared behind the API (pools, scratch buffers, caches) shows as a wrong
// result of one of the instances. A panic of f is recorded as a violation of that goroutine's record.
func Parallel(o *Obs, workers int, f func(g int, o *Obs)) {
	parts := make([]Obs, workers)
	done := make(chan struct{}, workers)
	for g := 0; g < workers; g++ {
		go func() {
			defer func() { done <- struct{}{} }()
			Guard(&parts[g], func() { f(g, &parts[g]) })
		}()
	}
	for g := 0; g < workers; g++ {
		<-done
	}
	for _, a := range parts {
		o.Merge(a)
	}
	o.Count("parallel_batches", 1)
}
