package vrt

import (
	"fmt"
	"runtime/debug"
	"time"
)

// CPUGuard runs f on a goroutine of its own and waits for it. If f has not returned after the
// worker process burnt cpuLimit of CPU time since the call began, CPUGuard gives up and reports
// spun=true: the call spins (the verdict is CPU time, not wall time: load makes a spinning call
// slow, not innocent). The goroutine cannot be stopped, so the caller must set Obs.Poisoned and end
// the case: the framework then retires this worker process. If f neither returns nor burns that
// much CPU within wallCap the call is abandoned as well, with spun=false (inconclusive).
// A panic of f is re-raised on the caller's goroutine.
func CPUGuard(f func(), cpuLimit, wallCap time.Duration) (returned, spun bool) {
	done := make(chan struct{})
	var pan any
	var stack []byte
	c0 := cpuMillis()
	t0 := time.Now()
	go func() {
		defer func() {
			if r := recover(); r != nil {
				pan, stack = r, debug.Stack()
			}
			close(done)
		}()
		f()
	}()
	t := time.NewTimer(50 * time.Millisecond)
	defer t.Stop()
wait:
	for {
		select {
		case <-done:
			break wait
		case <-t.C:
			if time.Duration(cpuMillis()-c0)*time.Millisecond >= cpuLimit {
				return false, true
			}
			if time.Since(t0) >= wallCap {
				return false, false
			}
			t.Reset(250 * time.Millisecond)
		}
	}
	if pan != nil {
		panic(fmt.Sprintf("%v\n%s", pan, stack))
	}
	return true, false
}
