package vrt

import (
	"bufio"
	"os"
	"strings"
)

// Finding is one `finding:` line of known_findings.txt:
//
//	finding: property=<ID> key=<key> <what fails>
//	fixed: property=<ID> <commit> <what failed>        (documentation only; suppresses nothing)
//
// The file is committed and never written at run time.
type Finding struct {
	Key  string
	Desc string
}

type KnownFindings struct{ Findings []Finding }

func LoadKnownFindings(path, property string) *KnownFindings {
	kf := &KnownFindings{}
	f, err := os.Open(path)
	if err != nil {
		return kf
	}
	defer f.Close()
	sc := bufio.NewScanner(f)
	for sc.Scan() {
		line := strings.TrimSpace(sc.Text())
		if !strings.HasPrefix(line, "finding:") {
			continue
		}
		fields := strings.Fields(strings.TrimPrefix(line, "finding:"))
		if len(fields) < 2 || fields[0] != "property="+property || !strings.HasPrefix(fields[1], "key=") {
			continue
		}
		kf.Findings = append(kf.Findings, Finding{Key: strings.TrimPrefix(fields[1], "key="), Desc: strings.Join(fields[2:], " ")})
	}
	return kf
}

// Match returns the finding whose key equals key exactly (keys never contain white space).
func (k *KnownFindings) Match(key string) *Finding {
	key = NormKey(key)
	for i := range k.Findings {
		if k.Findings[i].Key == key {
			return &k.Findings[i]
		}
	}
	return nil
}

// NormKey makes a violation key white-space free.
func NormKey(key string) string { return strings.Join(strings.Fields(key), "_") }
