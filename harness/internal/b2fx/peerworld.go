package b2fx

import (
	"bytes"
	"fmt"
	"math/rand"
	"strings"
	"time"

	"github.com/la5nta/wl2k-go/fbb"

	"verif/internal/mem"
	"verif/internal/ref/b2fref"
	"verif/internal/vpipe"
)

// PeerWorld is one "real Session vs reference peer" setup: what both sides have queued, how each
// answers, the station's configuration and the peer's plan of conforming encodings.
type PeerWorld struct {
	LibCall, PeerCall string
	Locator           string
	UA                fbb.UserAgent
	Aux               []string
	LibMaster         bool
	MOTD              []string
	// Session, when set, is used instead of a new Session value: a program that retries on the Session it already has
	// (Exchange may be called again as long as the session is not done, e.g. after a refused login or a lost link).
	Session   *fbb.Session
	Gzip      bool
	Seg       int
	LibMsgs   []MsgSpec                     // queued at the station under test
	PeerMsgs  []MsgSpec                     // queued at the peer
	Truth     map[string][]byte             // canonical bytes of every message
	LibPolicy map[string]fbb.ProposalAnswer // the station's handler answers to peer proposals
	Batched   bool
	Plan      b2fref.PeerPlan
	Secure    func(fbb.Address) (string, error) // secure login callback (nil = none registered)
	Tag       string
	// Status (optional) is registered as the station's StatusUpdater; WriteDelay paces the link
	// (per write, [station->peer, peer->station]).
	Status     fbb.StatusUpdater
	WriteDelay [2]time.Duration
}

var AnswerTokens = map[byte][]string{
	'+': {"+", "Y", "y", "!0", "A0", "a0"},
	'-': {"-", "N", "n", "R", "r"},
	'=': {"=", "L", "l", "H", "h"},
}

var PeerSIDs = []string{"[WL2K-5.0-B2FWIHJM$]", "[RMS Express-1.5.9.0-B2FHM$]", "[wl2kgo-0.1a-B2FHM$]", "[FBB-7.00-AB1B2FHMX$]", "[paclink-unix-0.5-B2FIHM$]", "[WL2K-B2FHM$]", "[BPQ-6.0.24.1-B2FWIHJM$]"}

// Precedence derives the Winlink precedence (0 flash .. 3 routine) from a raw Subject header.
func Precedence(subject string) int {
	m := new(fbb.Message)
	m.Header = fbb.Header{}
	m.Header.Set("Subject", subject)
	s := m.Subject()
	switch {
	case strings.Contains(s, "//WL2K Z/"):
		return 0
	case strings.Contains(s, "//WL2K O/"):
		return 1
	case strings.Contains(s, "//WL2K P/"):
		return 2
	}
	return 3
}

// BaseWorld returns a minimal world with fixed configuration.
func BaseWorld(tag string, libMaster bool) *PeerWorld {
	w := &PeerWorld{Truth: map[string][]byte{}, LibPolicy: map[string]fbb.ProposalAnswer{}, Tag: tag}
	w.LibCall, w.PeerCall, w.Locator = "N0LIB", "N0PEER", "JO29PJ"
	w.UA = fbb.UserAgent{Name: "wl2kgo", Version: "0.1a"}
	w.LibMaster = libMaster
	w.Plan = b2fref.PeerPlan{Seed: 1, Master: !libMaster, MyCall: w.PeerCall, TheirCall: w.LibCall, SID: "[WL2K-5.0-B2FWIHJM$]", Prompt: "CMS >",
		Comment: "; N0LIB DE N0PEER (JO59)", FW: []string{"N0PEER"}, Answers: map[string]string{}, ExpectUAName: "wl2kgo", ExpectUAVersion: "0.1a", ExpectLocator: "JO29PJ"}
	return w
}

// AddLib queues a message at the station under test; answer is the peer's answer token.
func (w *PeerWorld) AddLib(mid, subject string, body []byte, answer string) error {
	m := MsgSpec{MID: mid, From: w.LibCall, To: []string{w.PeerCall}, Subject: subject, Body: body, Shape: fmt.Sprintf("subject[%d] body[%d]", len(subject), len(body))}
	c, err := m.Canonical()
	if err != nil {
		return err
	}
	w.Truth[mid] = c
	w.LibMsgs = append(w.LibMsgs, m)
	w.Plan.Answers[mid] = answer
	return nil
}

// AddPeer queues a message at the peer; pol is the station handler's answer.
func (w *PeerWorld) AddPeer(mid, title string, body []byte, pol fbb.ProposalAnswer) error {
	m := MsgSpec{MID: mid, From: w.PeerCall, To: []string{w.LibCall}, Subject: title, Body: body, Shape: fmt.Sprintf("body[%d]", len(body))}
	c, err := m.Canonical()
	if err != nil {
		return err
	}
	w.Truth[mid] = c
	w.PeerMsgs = append(w.PeerMsgs, m)
	w.LibPolicy[mid] = pol
	w.Plan.Outbound = append(w.Plan.Outbound, b2fref.OutMsg{MID: mid, Type: "EM", Title: title, Data: c})
	return nil
}

func asciiTitle(r *rand.Rand, i int) string {
	switch r.Intn(4) {
	case 0:
		return "t"
	case 1:
		return strings.Repeat("T", 80)
	default:
		return fmt.Sprintf("peer message %d //WL2K R/", i)
	}
}

// GenPeerWorld draws a world: station configuration, message sets and the peer's conforming
// encodings.
func GenPeerWorld(r *rand.Rand, tag string) (*PeerWorld, error) {
	w := &PeerWorld{Truth: map[string][]byte{}, LibPolicy: map[string]fbb.ProposalAnswer{}, Tag: tag}
	calls := []string{"N0LIB", "LA5NTA-1", "W1AW-15", "N0LIB-T"}
	w.LibCall = calls[r.Intn(len(calls))]
	w.PeerCall = []string{"N0PEER", "LA1B-10", "WL2K"}[r.Intn(3)]
	w.Locator = []string{"JO29PJ", "JP20qe", "", "FN31"}[r.Intn(4)]
	w.UA = []fbb.UserAgent{{Name: "wl2kgo", Version: "0.1a"}, {Name: "Pat", Version: "0.16.0"}, {Name: "x", Version: "1"}}[r.Intn(3)]
	for i, n := 0, r.Intn(4); i < n; i++ {
		w.Aux = append(w.Aux, fmt.Sprintf("AUX%d", i))
	}
	w.LibMaster = r.Intn(2) == 0
	w.Gzip = r.Intn(6) == 0
	w.Seg = r.Intn(4)
	w.Batched = r.Intn(2) == 0
	if w.LibMaster && r.Intn(2) == 0 {
		w.MOTD = []string{"Welcome", "This node runs an exercise"}[:1+r.Intn(2)]
	}
	count := func() int {
		switch r.Intn(5) {
		case 0:
			return 0
		case 1:
			return 1
		case 2:
			return 5 + r.Intn(3)
		default:
			return r.Intn(13)
		}
	}
	nl, np := count(), count()
	manyMixed := r.Intn(8) == 0
	if manyMixed {
		nl = 13 + r.Intn(12) // 13..24 pending messages with mixed precedence
	}
	pl := &w.Plan
	pl.Seed = r.Int63()
	pl.Master = !w.LibMaster
	pl.MyCall, pl.TheirCall = w.PeerCall, w.LibCall
	pl.SID = PeerSIDs[r.Intn(len(PeerSIDs))]
	pl.Gzip = w.Gzip
	if w.Gzip {
		pl.SID = strings.Replace(pl.SID, "$]", "G$]", 1)
	}
	if pl.Master {
		if r.Intn(2) == 0 {
			pl.MOTD = []string{"Welcome to the reference node", "Stats Total connects = 2580 Total messages = 3900", "*** MTD Stats Total connects = 2580 Total messages = 3900", "*** Sysop: Bob, QTH: Oslo"}[:1+r.Intn(4)]
		}
		pl.Prompt = []string{w.PeerCall + " DE " + w.LibCall + ">", "CMS via exercise >", ">"}[r.Intn(3)]
		if r.Intn(5) == 0 {
			pl.Challenge = fmt.Sprintf("%08d", r.Intn(100000000))
			w.Secure = func(fbb.Address) (string, error) { return "S3cretPw", nil }
		}
	} else {
		pl.Comment = fmt.Sprintf("; %s DE %s (JO59)", w.LibCall, w.PeerCall)
	}
	switch r.Intn(3) {
	case 0:
		pl.FW = nil
	case 1:
		pl.FW = []string{w.PeerCall}
	case 2:
		pl.FW = []string{w.PeerCall, "AUXP1|12345678", "AUXP2"}
	}
	pl.Answers = map[string]string{}
	pl.Comments = r.Intn(3)
	pl.EarlyFQ = r.Intn(4) == 0
	pl.CMSHangup = pl.Seed%4 == 1
	pl.DupInBlock = r.Intn(6) == 0
	pl.HoldFirst = pl.Seed%3 == 0
	pl.DupPos = int(pl.Seed % 4) // 0 = the duplicate comes last, else at that index (derived, no extra draw)
	pl.MaxPerBlock = []int{5, 5, 5, 1, 3}[r.Intn(5)]
	if r.Intn(4) == 0 {
		pl.BlockSize = []int{1, 125, 250, 255, 256}[r.Intn(5)]
	}
	pl.ExpectUAName, pl.ExpectUAVersion, pl.ExpectLocator = w.UA.Name, w.UA.Version, w.Locator
	for i := 0; i < nl; i++ {
		m := GenMsg(r, GenMID(r, "L", i), w.LibCall, w.PeerCall)
		if len(m.Body) > 12000 {
			m.Body = m.Body[:12000]
		}
		if manyMixed {
			if len(m.Body) > 900 {
				m.Body = m.Body[:1+r.Intn(900)]
			}
			m.Files = nil
			m.Subject = []string{"//WL2K Z/ ", "//WL2K O/ ", "//WL2K P/ ", "", "", ""}[r.Intn(6)] + fmt.Sprintf("mixed %d", i)
			m.Shape = fmt.Sprintf("subject(%s) body[%d]", m.Subject, len(m.Body))
		}
		c, err := m.Canonical()
		if err != nil {
			return nil, err
		}
		w.Truth[m.MID] = c
		w.LibMsgs = append(w.LibMsgs, m)
		kind := []byte{'+', '+', '+', '+', '-', '='}[r.Intn(6)]
		toks := AnswerTokens[kind]
		pl.Answers[m.MID] = toks[r.Intn(len(toks))]
		// one accepted message in eight is taken from an offset > 0 (the remote holds the beginning from an earlier,
		// interrupted session): every form of the offset answer; the compressed message is longer than 40 bytes whatever it is
		if kind == '+' && len(c) >= 40 && r.Intn(8) == 0 {
			off := []int{1, 2, 5, 6, 7, 31}[r.Intn(6)]
			pl.Answers[m.MID] = fmt.Sprintf([]string{"!%d", "A%d", "a%d"}[r.Intn(3)], off)
		}
	}
	for i := 0; i < np; i++ {
		m := GenMsg(r, GenMID(r, "P", i), w.PeerCall, w.LibCall)
		m.Subject = asciiTitle(r, i)
		if len(m.Body) > 12000 {
			m.Body = m.Body[:12000]
		}
		c, err := m.Canonical()
		if err != nil {
			return nil, err
		}
		w.Truth[m.MID] = c
		w.PeerMsgs = append(w.PeerMsgs, m)
		w.LibPolicy[m.MID] = []fbb.ProposalAnswer{fbb.Accept, fbb.Accept, fbb.Accept, fbb.Reject, fbb.Defer}[r.Intn(5)]
		// The title of the transfer header is the remote's business: other Winlink programs put the subject there as raw
		// ISO-8859-1 bytes or as an RFC 2047 encoded word (what this library itself sends for such a subject). Its length on
		// the wire is what the header's length byte counts.
		title := m.Subject
		switch i % 6 {
		case 4:
			title = "Bl\xe5b\xe6rsyltet\xf8y p\xe5 fjellet " + fmt.Sprint(i)
		case 5:
			title = "=?utf-8?q?Bl=C3=A5b=C3=A6rsyltet=C3=B8y_p=C3=A5_fjellet_" + fmt.Sprint(i) + "?="
		}
		pl.Outbound = append(pl.Outbound, b2fref.OutMsg{MID: m.MID, Type: []string{"EM", "EM", "CM"}[r.Intn(3)], Title: title, Data: c})
	}
	return w, nil
}

func (w *PeerWorld) Describe() map[string]any {
	lib := []string{}
	for _, m := range w.LibMsgs {
		lib = append(lib, fmt.Sprintf("%s answer %q %s", m.MID, w.Plan.Answers[m.MID], m.Shape))
	}
	peer := []string{}
	for _, m := range w.PeerMsgs {
		peer = append(peer, fmt.Sprintf("%s policy %c %s", m.MID, rune(w.LibPolicy[m.MID]), m.Shape))
	}
	return map[string]any{"lib_call": w.LibCall, "peer_call": w.PeerCall, "lib_master": w.LibMaster, "ua": w.UA, "aux": w.Aux, "locator": w.Locator,
		"gzip": w.Gzip, "seg": w.Seg, "motd": w.MOTD, "lib_msgs": lib, "peer_msgs": peer, "peer_plan": w.Plan}
}

// NewStation builds the station's in-memory mailbox and the peer's ground truth about it.
func (w *PeerWorld) NewStation(lg *mem.Log) (*mem.Station, map[string]b2fref.LibMsg) {
	st := mem.NewStation("L", lg)
	st.Batched = w.Batched
	truth := map[string]b2fref.LibMsg{}
	for _, m := range w.LibMsgs {
		st.Queue(m.MID, w.Truth[m.MID])
		truth[m.MID] = b2fref.LibMsg{Data: w.Truth[m.MID], Precedence: Precedence(m.Subject)}
	}
	for mid, a := range w.LibPolicy {
		st.Policy[mid] = a
	}
	return st, truth
}

// NewLibSession builds the Session of the station under test.
func (w *PeerWorld) NewLibSession(h fbb.MBoxHandler) *fbb.Session {
	s := fbb.NewSession(w.LibCall, w.PeerCall, w.Locator, h)
	s.IsMaster(w.LibMaster)
	s.SetLogger(Discard)
	if len(w.MOTD) > 0 {
		s.SetMOTD(w.MOTD...)
	}
	s.SetUserAgent(w.UA)
	for _, a := range w.Aux {
		s.AddAuxiliaryAddress(fbb.AddressFromString(a))
	}
	if w.Secure != nil {
		s.SetSecureLoginHandleFunc(w.Secure)
	}
	if w.Status != nil {
		s.SetStatusUpdater(w.Status)
	}
	return s
}

// PeerRun is the outcome of one station-vs-peer session.
type PeerRun struct {
	Res     *b2fref.Result
	Lib     Outcome
	Link    vpipe.State
	Station *mem.Station
	Events  []mem.Event
	Truth   map[string]b2fref.LibMsg
	LibWire []byte       // bytes the station wrote (when recorded)
	Session *fbb.Session // the station's Session value (see PeerWorld.Session)
}

// Run executes the world once. edits (optional) alter the byte streams in transit:
// direction vpipe.AtoB is station→peer, vpipe.BtoA is peer→station.
func (w *PeerWorld) Run(record bool, edits [2][]vpipe.Edit) *PeerRun {
	SetGzip(w.Gzip)
	defer SetGzip(false)
	lg := &mem.Log{}
	st, truth := w.NewStation(lg)
	sess := w.Session
	if sess == nil {
		sess = w.NewLibSession(st.AsHandler())
	}
	ea, eb, link := vpipe.New(vpipe.Plan{Seed: w.Plan.Seed, Seg: w.Seg, CutDir: vpipe.NoCut, DetectDeadlock: true, Edits: edits, WriteDelay: w.WriteDelay}, record)
	pr := &PeerRun{Station: st, Truth: truth, Session: sess}
	done := make(chan struct{}, 1)
	go runExchange(sess, ea, &pr.Lib, done)
	plan := w.Plan
	plan.Record = record
	pr.Res = b2fref.Run(eb, plan, truth)
	select {
	case <-done:
	case <-timeAfter(WatchdogGrace):
		link.Kill()
		<-done
	}
	pr.Link = link.State()
	pr.Events = lg.Events()
	if record {
		pr.LibWire = link.Transcript(vpipe.AtoB)
	}
	return pr
}

// Equal is a tiny helper.
func Equal(a, b []byte) bool { return bytes.Equal(a, b) }
