package b2fx

import (
	"fmt"
	"math/rand"
	"strings"

	"github.com/la5nta/wl2k-go/fbb"

	"verif/internal/mem"
)

// Scenario is the ground truth of a two-station exchange: what each station has queued and how
// the peer's handler will answer each proposal.
type Scenario struct {
	MasterIsA bool
	MsgsA     []MsgSpec // queued at A, addressed to B
	MsgsB     []MsgSpec
	Policy    map[string]fbb.ProposalAnswer // per MID, applied at the receiving station
	BatchedA  bool
	BatchedB  bool
	MOTD      []string
	Gzip      bool
	Seg       int
	Truth     map[string][]byte // MID -> canonical bytes
}

const CallA, CallB = "N0AAA", "N0BBB"

var motdLines = []string{"Welcome to the exercise node", "MOTD: have a nice day", "Stats Total connects = 2580 Total messages = 3900", "line with > inside it", "73 de " + CallA,
	// banner lines that begin with asterisks (a CMS sends its statistics that way; sysops decorate): during the handshake they are text, not errors
	"*** MTD Stats Total connects = 2580 Total messages = 3900", "*** Sysop: Bob, QTH: Oslo", "* * * net on Sundays 19:00 * * *", "*** Welcome ***"}

// GenScenario draws a scenario. nMax bounds the number of messages per direction.
func GenScenario(r *rand.Rand, nMax int) (*Scenario, error) {
	sc := &Scenario{Policy: map[string]fbb.ProposalAnswer{}, Truth: map[string][]byte{}}
	sc.MasterIsA = r.Intn(2) == 0
	sc.BatchedA, sc.BatchedB = r.Intn(2) == 0, r.Intn(2) == 0
	sc.Seg = r.Intn(4)
	sc.Gzip = r.Intn(5) == 0
	if r.Intn(3) == 0 {
		n := 1 + r.Intn(3)
		for i := 0; i < n; i++ {
			sc.MOTD = append(sc.MOTD, motdLines[r.Intn(len(motdLines))])
		}
	}
	counts := func() int {
		switch r.Intn(6) {
		case 0:
			return 0
		case 1:
			return 1
		case 2:
			return 5 + r.Intn(2) // exactly one block / one over
		case 3:
			return 10 + r.Intn(4) // 2-3 blocks
		default:
			return r.Intn(nMax + 1)
		}
	}
	na, nb := counts(), counts()
	if na > nMax {
		na = nMax
	}
	if nb > nMax {
		nb = nMax
	}
	gen := func(n int, prefix, from, to string) ([]MsgSpec, error) {
		var out []MsgSpec
		for i := 0; i < n; i++ {
			mid := GenMID(r, prefix, i)
			if i > 0 && r.Intn(5) == 0 && out[i-1].MID == strings.ToUpper(out[i-1].MID) {
				// a MID that differs from the previous message's only in the case of its letters:
				// MIDs are case-sensitive identifiers, these are two messages
				mid = strings.ToLower(out[i-1].MID)
			}
			m := GenMsg(r, mid, from, to)
			c, err := m.Canonical()
			if err != nil {
				return nil, fmt.Errorf("%s: %w", m.Shape, err)
			}
			sc.Truth[m.MID] = c
			switch r.Intn(8) {
			case 0:
				sc.Policy[m.MID] = fbb.Reject
			case 1:
				sc.Policy[m.MID] = fbb.Defer
			default:
				sc.Policy[m.MID] = fbb.Accept
			}
			out = append(out, m)
		}
		return out, nil
	}
	var err error
	if sc.MsgsA, err = gen(na, "A", CallA, CallB); err != nil {
		return nil, err
	}
	if sc.MsgsB, err = gen(nb, "B", CallB, CallA); err != nil {
		return nil, err
	}
	return sc, nil
}

// Stations builds fresh in-memory mailboxes for the scenario.
func (sc *Scenario) Stations(lg *mem.Log) (*mem.Station, *mem.Station) {
	a, b := mem.NewStation("A", lg), mem.NewStation("B", lg)
	a.Batched, b.Batched = sc.BatchedA, sc.BatchedB
	for _, m := range sc.MsgsA {
		a.Queue(m.MID, sc.Truth[m.MID])
		b.Policy[m.MID] = sc.Policy[m.MID]
	}
	for _, m := range sc.MsgsB {
		b.Queue(m.MID, sc.Truth[m.MID])
		a.Policy[m.MID] = sc.Policy[m.MID]
	}
	return a, b
}

// Sides builds the session sides for the scenario.
func (sc *Scenario) Sides(a, b *mem.Station) (*Side, *Side) {
	sa := &Side{Call: CallA, Station: a, Master: sc.MasterIsA}
	sb := &Side{Call: CallB, Station: b, Master: !sc.MasterIsA}
	if sc.MasterIsA {
		sa.MOTD = sc.MOTD
	} else {
		sb.MOTD = sc.MOTD
	}
	return sa, sb
}

// Describe returns a compact description for evidence samples.
func (sc *Scenario) Describe() map[string]any {
	d := map[string]any{"master_is_A": sc.MasterIsA, "batched": []bool{sc.BatchedA, sc.BatchedB}, "seg": sc.Seg, "gzip": sc.Gzip, "motd": sc.MOTD}
	desc := func(ms []MsgSpec) []string {
		var out []string
		for _, m := range ms {
			out = append(out, fmt.Sprintf("%s %c %s", m.MID, rune(sc.Policy[m.MID]), m.Shape))
		}
		return out
	}
	d["A_to_B"] = desc(sc.MsgsA)
	d["B_to_A"] = desc(sc.MsgsB)
	return d
}

// GenSmallScenario draws a scenario whose transcript stays within a few kilobytes (for exhaustive
// fault enumeration): 0..nMax small messages each way, accept/defer policies only (a reject then
// always means "the receiver already holds it").
func GenSmallScenario(r *rand.Rand, nMax int, withDefer bool) (*Scenario, error) {
	master := r.Intn(2) == 0
	na, nb := r.Intn(nMax+1), r.Intn(nMax+1)
	if na+nb == 0 {
		na = 1
	}
	return GenShapedScenario(r, master, na, nb, withDefer)
}

// GenShapedScenario: like GenSmallScenario with the session structure given: who is master and how many messages each
// station has queued (0 = that station's turns are FF; more than five = several blocks).
func GenShapedScenario(r *rand.Rand, masterIsA bool, na, nb int, withDefer bool) (*Scenario, error) {
	sc := &Scenario{Policy: map[string]fbb.ProposalAnswer{}, Truth: map[string][]byte{}}
	sc.MasterIsA = masterIsA
	sc.BatchedA, sc.BatchedB = r.Intn(2) == 0, r.Intn(2) == 0
	sc.Seg = []int{0, 3}[r.Intn(2)]
	gen := func(n int, prefix, from, to string) ([]MsgSpec, error) {
		var out []MsgSpec
		for i := 0; i < n; i++ {
			m := MsgSpec{MID: GenMID(r, prefix, i), From: from, To: []string{to}}
			if i%3 == 2 && out[i-1].MID == strings.ToUpper(out[i-1].MID) && out[i-1].MID != strings.ToLower(out[i-1].MID) {
				// every third message: a MID that differs from the previous message's only in the case of its letters - two
				// messages (a station that already holds the one has not received the other); no PRNG draw is spent on this
				m.MID = strings.ToLower(out[i-1].MID)
			}
			m.Subject = fmt.Sprintf("small %d", r.Intn(100))
			m.Body = genBytes(r, 1+r.Intn(300), r.Intn(4))
			if r.Intn(4) == 0 {
				m.Files = []FileSpec{{Name: "f.bin", Data: genBytes(r, r.Intn(200), 0)}}
			}
			if i%2 == 0 { // extension fields of the application's own: part of the message
				m.Extra = [][2]string{{"X-Location", "60.1N 5.3E (GPS)"}, {"X-Source", from}}
			}
			m.Shape = fmt.Sprintf("body[%d] files[%d]", len(m.Body), len(m.Files))
			c, err := m.Canonical()
			if err != nil {
				return nil, err
			}
			sc.Truth[m.MID] = c
			sc.Policy[m.MID] = fbb.Accept
			if withDefer && r.Intn(6) == 0 {
				sc.Policy[m.MID] = fbb.Defer
			}
			out = append(out, m)
		}
		return out, nil
	}
	var err error
	if sc.MsgsA, err = gen(na, "A", CallA, CallB); err != nil {
		return nil, err
	}
	if sc.MsgsB, err = gen(nb, "B", CallB, CallA); err != nil {
		return nil, err
	}
	return sc, nil
}
