package b2fx

import (
	"bytes"
	"fmt"
	"regexp"
	"sort"
	"strings"

	"github.com/la5nta/wl2k-go/fbb"

	"verif/internal/mem"
	"verif/internal/ref/msgref"
	"verif/internal/vrt"
)

var digitsRe = regexp.MustCompile(`[0-9]+`)

// ErrClass normalises an error text into a key fragment (digits and MIDs removed).
func ErrClass(err error) string {
	if err == nil {
		return "nil"
	}
	s := err.Error()
	if i := strings.Index(s, "\n"); i >= 0 {
		s = s[:i]
	}
	if i := strings.Index(s, "compressed stream:"); i >= 0 {
		s = s[:i+len("compressed stream")] // the offending byte varies from case to case
	}
	s = digitsRe.ReplaceAllString(s, "N")
	s = strings.Map(func(r rune) rune {
		if r < 0x20 || r > 0x7e {
			return '?'
		}
		return r
	}, s)
	if len(s) > 60 {
		s = s[:60]
	}
	return strings.Join(strings.Fields(s), "_")
}

type dirTruth struct {
	sender, receiver string
	msgs             []MsgSpec
	senderOut        Outcome
	receiverOut      Outcome
}

// CheckCompleted is the offline checker for a fault-free session (property C01): every accepted
// message delivered exactly once and intact and reported sent exactly once, rejected ones reported
// sent(rejected) without transfer, deferred ones reported deferred and still pending, both results
// nil, statistics exact, connection closed.
func CheckCompleted(o *vrt.Obs, sc *Scenario, res Result, pendingA, pendingB []string, events []mem.Event) {
	if res.A.Panic != nil {
		o.Violations = append(o.Violations, vrt.PanicViolation(res.A.Panic, []byte(res.A.Stack)))
	}
	if res.B.Panic != nil {
		o.Violations = append(o.Violations, vrt.PanicViolation(res.B.Panic, []byte(res.B.Stack)))
	}
	if res.Link.Deadlock {
		o.Violate("deadlock", "both stations blocked in Read with nothing in flight (A err=%v, B err=%v)", res.A.Err, res.B.Err)
	}
	if res.Spun {
		o.Poisoned = true
		o.Violate("no-return:cpu-spin", "%s", res.KillWhy)
	} else if res.Killed {
		o.Violate("no-return:"+strings.Join(strings.Fields(res.KillWhy), "_"), "%s", res.KillWhy)
	}
	if res.A.Err != nil {
		o.Violate("exchange-error:"+ErrClass(res.A.Err), "station A: Exchange returned %v (B returned %v)", res.A.Err, res.B.Err)
	}
	if res.B.Err != nil {
		o.Violate("exchange-error:"+ErrClass(res.B.Err), "station B: Exchange returned %v (A returned %v)", res.B.Err, res.A.Err)
	}
	if !res.Link.Closed[0] || !res.Link.Closed[1] {
		o.Violate("conn-not-closed", "connection closed flags after Exchange: A=%v B=%v", res.Link.Closed[0], res.Link.Closed[1])
	}
	if len(o.Violations) > 0 {
		return // the per-message bookkeeping below presumes a completed exchange
	}
	type key struct{ st, kind, mid string }
	idx := map[key][]mem.Event{}
	for _, e := range events {
		if e.MID != "" {
			k := key{e.Station, e.Kind, e.MID}
			idx[k] = append(idx[k], e)
		}
	}
	known := map[string]bool{}
	for _, d := range []dirTruth{{"A", "B", sc.MsgsA, res.A, res.B}, {"B", "A", sc.MsgsB, res.B, res.A}} {
		var wantSent []string
		pendingAfter := map[string]bool{}
		pend := pendingA
		if d.sender == "B" {
			pend = pendingB
		}
		for _, m := range pend {
			pendingAfter[m] = true
		}
		for _, m := range d.msgs {
			known[m.MID] = true
			pi := idx[key{d.receiver, mem.EvProcessInbound, m.MID}]
			ss := idx[key{d.sender, mem.EvSetSent, m.MID}]
			sd := idx[key{d.sender, mem.EvSetDeferred, m.MID}]
			pol := sc.Policy[m.MID]
			desc := fmt.Sprintf("message %s (%s→%s, policy %c, %s)", m.MID, d.sender, d.receiver, rune(pol), m.Shape)
			switch pol {
			case fbb.Accept:
				wantSent = append(wantSent, m.MID)
				o.Count("accepted_messages_checked", 1)
				switch {
				case len(pi) == 0:
					o.Violate("accepted-not-delivered", "%s: never handed to the receiving handler", desc)
				case len(pi) > 1:
					o.Violate("accepted-delivered-twice", "%s: handed to the receiving handler %d times", desc, len(pi))
				case pi[0].Hash != mem.Hash(sc.Truth[m.MID]):
					o.Violate("content-mismatch", "%s: delivered bytes differ from the queued message (got %d bytes, queued %d)", desc, pi[0].Size, len(sc.Truth[m.MID]))
				}
				switch {
				case len(ss) != 1:
					o.Violate("setsent-count", "%s: SetSent called %d times", desc, len(ss))
				case ss[0].Flag:
					o.Violate("setsent-flag", "%s: reported as rejected although it was transferred", desc)
				case len(pi) == 1 && ss[0].Seq >= 0 && pi[0].Seq >= 0 && ss[0].Seq < pi[0].Seq:
					o.Violate("setsent-before-delivery", "%s: reported sent before the peer's handler had received it", desc)
				}
				if len(sd) != 0 {
					o.Violate("spurious-setdeferred", "%s: SetDeferred called", desc)
				}
				if pendingAfter[m.MID] {
					o.Violate("still-pending", "%s: still pending after being sent", desc)
				}
			case fbb.Reject:
				o.Count("rejected_messages_checked", 1)
				if len(pi) != 0 {
					o.Violate("rejected-but-transferred", "%s: transferred although rejected", desc)
				}
				if len(ss) != 1 || !ss[0].Flag {
					o.Violate("rejected-setsent", "%s: SetSent(rejected=true) expected exactly once, got %v", desc, ss)
				}
				if len(sd) != 0 {
					o.Violate("spurious-setdeferred", "%s: SetDeferred called", desc)
				}
			case fbb.Defer:
				o.Count("deferred_messages_checked", 1)
				if len(pi) != 0 {
					o.Violate("deferred-but-transferred", "%s: transferred although deferred", desc)
				}
				if len(ss) != 0 {
					o.Violate("deferred-setsent", "%s: reported sent although deferred", desc)
				}
				if len(sd) != 1 {
					o.Violate("deferred-count", "%s: SetDeferred called %d times", desc, len(sd))
				}
				if !pendingAfter[m.MID] {
					o.Violate("deferred-not-pending", "%s: no longer pending", desc)
				}
			}
		}
		sort.Strings(wantSent)
		if got := SortedCopy(d.senderOut.Stats.Sent); !equalStrings(got, wantSent) {
			o.Violate("stats-sent", "station %s TrafficStats.Sent = %v, transferred MIDs = %v", d.sender, got, wantSent)
		}
		if got := SortedCopy(d.receiverOut.Stats.Received); !equalStrings(got, wantSent) {
			o.Violate("stats-received", "station %s TrafficStats.Received = %v, transferred MIDs = %v", d.receiver, got, wantSent)
		}
	}
	for k := range idx {
		if !known[k.mid] {
			o.Violate("unknown-mid-event", "handler event %s for MID %q that nobody queued", k.kind, k.mid)
		}
	}
}

func equalStrings(a, b []string) bool {
	if len(a) != len(b) {
		return false
	}
	for i := range a {
		if a[i] != b[i] {
			return false
		}
	}
	return true
}

// EventCounts tallies events by kind into the observation counters.
func EventCounts(o *vrt.Obs, events []mem.Event) {
	for _, e := range events {
		o.Count("ev_"+e.Kind, 1)
	}
}

// CheckSafety is the offline checker for histories that contain faulty sessions (property C02). It
// looks at the whole event log so far: a message is reported sent only after the peer's handler
// completely received it, "rejected" reports only for messages the peer holds, everything handed
// to a handler is byte-identical to what was queued, nothing is delivered twice.
func CheckSafety(o *vrt.Obs, sc *Scenario, events []mem.Event) {
	recv := map[string]string{"A": "B", "B": "A"}
	delivered := map[string]mem.Event{} // receiver|mid -> first successful ProcessInbound
	for _, e := range events {
		switch e.Kind {
		case mem.EvProcessInbound:
			truth, ok := sc.Truth[e.MID]
			switch {
			case !ok:
				o.Violate("unknown-mid-delivered", "ProcessInbound for MID %q that nobody queued", e.MID)
			case e.Hash != mem.Hash(truth):
				o.Violate("content-mismatch", "message %s handed to station %s differs from the queued bytes (session %d)", e.MID, e.Station, e.Session)
			}
			k := e.Station + "|" + e.MID
			if prev, dup := delivered[k]; dup {
				o.Violate("delivered-twice", "message %s handed to station %s twice (sessions %d and %d)", e.MID, e.Station, prev.Session, e.Session)
			} else {
				delivered[k] = e
			}
			o.Count("deliveries_checked", 1)
		case mem.EvSetSent:
			d, ok := delivered[recv[e.Station]+"|"+e.MID]
			if !ok || d.Seq > e.Seq {
				if e.Flag {
					o.Violate("rejected-without-holding", "message %s reported sent(rejected) at station %s in session %d although the peer does not hold it", e.MID, e.Station, e.Session)
				} else {
					o.Violate("sent-without-delivery", "message %s reported successfully sent at station %s in session %d although the peer's handler had not completely received it", e.MID, e.Station, e.Session)
				}
			}
			o.Count("setsent_checked", 1)
		}
	}
}

// CheckNilMeansDone is evaluated after a session on a faulty link (or with a storage error): a station whose Exchange
// returned nil has told its caller that the session completed, and a caller that repeats sessions "until one completes"
// stops there. Nothing of that station's outbox may then be in limbo: every message still pending must have been
// reported deferred in THIS session (everything else was reported sent or rejected and is not pending any more).
func CheckNilMeansDone(o *vrt.Obs, res Result, a, b *mem.Station, events []mem.Event, what string) {
	last := -1
	for _, e := range events {
		last = max(last, e.Session)
	}
	for _, st := range []struct {
		s   *mem.Station
		err error
	}{{a, res.A.Err}, {b, res.B.Err}} {
		if st.err != nil {
			continue
		}
		o.Count("exchange_returned_nil_on_a_faulty_session", 1)
		deferred := map[string]bool{}
		for _, e := range events {
			if e.Session == last && e.Station == st.s.Name && e.Kind == mem.EvSetDeferred {
				deferred[e.MID] = true
			}
		}
		var limbo []string
		for _, mid := range st.s.Pending() {
			if !deferred[mid] {
				limbo = append(limbo, mid)
			}
		}
		if len(limbo) > 0 {
			o.Violate("completed-with-unreported-messages", "%s: Exchange returned nil at station %s (\"session completed\") although its outbox still holds %v, reported neither sent nor deferred in this session - a caller that repeats sessions until one completes stops here with these messages undelivered",
				what, st.s.Name, limbo)
		}
	}
}

// CheckConverged is evaluated after the first clean session that completed: every non-deferred
// message delivered exactly once and reported sent exactly once, nothing pending.
func CheckConverged(o *vrt.Obs, sc *Scenario, a, b *mem.Station, events []mem.Event) {
	cnt := map[string]int{}
	for _, e := range events {
		if e.Kind == mem.EvProcessInbound || e.Kind == mem.EvSetSent {
			cnt[e.Kind+"|"+e.Station+"|"+e.MID]++
		}
	}
	pend := map[string]bool{}
	for _, m := range append(a.Pending(), b.Pending()...) {
		pend[m] = true
	}
	chk := func(ms []MsgSpec, s, r string) {
		for _, m := range ms {
			if sc.Policy[m.MID] == fbb.Defer {
				if !pend[m.MID] || cnt[mem.EvProcessInbound+"|"+r+"|"+m.MID] != 0 {
					o.Violate("deferred-lost", "always-deferred message %s is not pending any more or was delivered", m.MID)
				}
				continue
			}
			if n := cnt[mem.EvProcessInbound+"|"+r+"|"+m.MID]; n != 1 {
				o.Violate("converged-delivery-count", "after the completing session message %s was delivered %d times", m.MID, n)
			}
			if n := cnt[mem.EvSetSent+"|"+s+"|"+m.MID]; n != 1 {
				o.Violate("converged-setsent-count", "after the completing session message %s was reported sent %d times", m.MID, n)
			}
			if pend[m.MID] {
				o.Violate("converged-still-pending", "after the completing session message %s is still pending", m.MID)
			}
			o.Count("converged_messages_checked", 1)
		}
	}
	chk(sc.MsgsA, "A", "B")
	chk(sc.MsgsB, "B", "A")
}

// CheckReturned records the termination facts of one (possibly faulty) session.
func CheckReturned(o *vrt.Obs, res Result, what string) {
	if res.A.Panic != nil {
		o.Violations = append(o.Violations, vrt.PanicViolation(res.A.Panic, []byte(res.A.Stack)))
	}
	if res.B.Panic != nil {
		o.Violations = append(o.Violations, vrt.PanicViolation(res.B.Panic, []byte(res.B.Stack)))
	}
	if res.Link.Deadlock {
		o.Violate("hang:deadlock", "%s: both stations blocked in Read with nothing in flight and the link intact", what)
	}
	if res.Spun {
		o.Poisoned = true
		o.Violate("hang:cpu-spin", "%s: %s", what, res.KillWhy)
	} else if res.Killed {
		o.Violate("hang:"+strings.Join(strings.Fields(res.KillWhy), "_"), "%s: %s", what, res.KillWhy)
	}
	if !res.Link.Closed[0] || !res.Link.Closed[1] {
		o.Violate("conn-not-closed", "%s: connection closed flags after Exchange: A=%v B=%v", what, res.Link.Closed[0], res.Link.Closed[1])
	}
}

// CheckContent compares what a station's handler was handed with what was queued at the other
// station WITHOUT going through the library's message parser: the delivered bytes are split into
// sections by the independent reader msgref and body, attachment data and raw attachment names are
// compared with the generator's specification. (The hash comparison of CheckCompleted uses ground
// truth that was canonicalised by the library's own parse + serialise; a parser that damages a
// message the same way every time is invisible there.)
func CheckContent(o *vrt.Obs, specs []MsgSpec, inbox map[string][]byte, receiver string) {
	for _, m := range specs {
		got, ok := inbox[m.MID]
		if !ok {
			continue
		}
		o.Count("delivered_messages_compared_section_by_section", 1)
		ref, err := msgref.Parse(got)
		if err != nil {
			o.Violate("content-independent:unparseable", "station %s: the delivered message %s is not well-formed for the independent reader: %v", receiver, m.MID, err)
			continue
		}
		if subj, _ := ref.Get("Subject"); subj != m.Subject {
			o.Violate("content-independent:subject", "station %s: Subject of the delivered message %s is %q, queued %q", receiver, m.MID, subj, m.Subject)
		}
		switch {
		case !bytes.Equal(ref.Body, m.Body):
			o.Violate("content-independent:body", "station %s: body of the delivered message %s (%d bytes) differs from the queued body (%d bytes, %s)", receiver, m.MID, len(ref.Body), len(m.Body), m.Shape)
		case len(ref.Files) != len(m.Files):
			o.Violate("content-independent:attachments", "station %s: delivered message %s has %d attachments, queued %d (%s)", receiver, m.MID, len(ref.Files), len(m.Files), m.Shape)
		default:
			for i, f := range m.Files {
				if !bytes.Equal(ref.Files[i].Data, f.Data) || ref.Files[i].RawName != f.Name {
					o.Violate("content-independent:attachment", "station %s: attachment %d of the delivered message %s (%q, %d bytes) differs from the queued one (%q, %d bytes; %s)", receiver, i, m.MID, ref.Files[i].RawName, len(ref.Files[i].Data), f.Name, len(f.Data), m.Shape)
					break
				}
			}
		}
	}
}
