package b2fx

import (
	"encoding/json"
	"fmt"

	"github.com/la5nta/wl2k-go/fbb"
	"github.com/la5nta/wl2k-go/mailbox"

	"verif/internal/mboxkit"
	"verif/internal/ref/b2fref"
	"verif/internal/vpipe"
)

// SessionJailArg parameterises the "session" jail operation of C12: a real Session with the real
// directory mailbox receives a message from the reference peer, which proposes it under op.MID
// while the message itself carries HeaderMID in its Mid header (they may differ: the handler is
// asked about the former and stores under the latter).
type SessionJailArg struct {
	HeaderMID []byte `json:"header_mid"`
	LibMaster bool   `json:"lib_master"`
}

func init() {
	mboxkit.RegisterJailOp("session", func(mbox string, op mboxkit.Op) string {
		var arg SessionJailArg
		if err := json.Unmarshal(op.Arg, &arg); err != nil {
			return "skipped: bad arg: " + err.Error()
		}
		w := BaseWorld("c12-session", arg.LibMaster)
		spec := MsgSpec{MID: string(arg.HeaderMID), From: w.PeerCall, To: []string{w.LibCall}, Subject: "hostile identifier", Body: []byte("confinement probe\r\n")}
		data := spec.Wire()
		w.Plan.Outbound = []b2fref.OutMsg{{MID: string(op.MID), Type: "EM", Title: "hostile identifier", Data: data}}
		h := mailbox.NewDirHandler(mbox, false)
		sess := w.NewLibSession(h)
		ea, eb, link := vpipe.New(vpipe.Plan{Seed: 1, CutDir: vpipe.NoCut, DetectDeadlock: true}, false)
		var out Outcome
		done := make(chan struct{}, 1)
		go runExchange(sess, ea, &out, done)
		res := b2fref.Run(eb, w.Plan, map[string]b2fref.LibMsg{})
		select {
		case <-done:
		case <-timeAfter(WatchdogGrace):
			link.Kill()
			<-done
		}
		if out.Panic != nil {
			return fmt.Sprintf("panic: %v", out.Panic)
		}
		return fmt.Sprintf("exchange=%v delivered=%v rejected=%v deferred=%v peer=%v", out.Err, res.Delivered, res.RejectedByLib, res.DeferredByLib, res.Err)
	})
}

var _ = fbb.Accept
