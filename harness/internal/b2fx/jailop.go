package b2fx

import (
	"bytes"
	"encoding/json"
	"fmt"

	"github.com/la5nta/wl2k-go/fbb"
	"github.com/la5nta/wl2k-go/mailbox"

	"verif/internal/mboxkit"
	"verif/internal/ref/b2fref"
	"verif/internal/vpipe"
)

// SessionJailArg parameterises the "session" jail operation of C12: a real Session with the real
// directory mailbox receives a message from the reference peer, which proposes it under op.MID
// while the message itself carries HeaderMID in its Mid header (they may differ: the handler is
// asked about the former and stores under the latter).
type SessionJailArg struct {
	HeaderMID []byte `json:"header_mid"`
	LibMaster bool   `json:"lib_master"`
	// Extra header lines of the delivered message (hostile header content other than Mid).
	Extra [][2]string `json:"extra,omitempty"`
}

func init() {
	mboxkit.RegisterJailOp("session", func(mbox string, op mboxkit.Op) string {
		var arg SessionJailArg
		if err := json.Unmarshal(op.Arg, &arg); err != nil {
			return "skipped: bad arg: " + err.Error()
		}
		w := BaseWorld("c12-session", arg.LibMaster)
		spec := MsgSpec{MID: string(arg.HeaderMID), From: w.PeerCall, To: []string{w.LibCall}, Subject: "hostile identifier", Body: []byte("confinement probe\r\n"), Extra: arg.Extra}
		data := spec.Wire()
		w.Plan.Outbound = []b2fref.OutMsg{{MID: string(op.MID), Type: "EM", Title: "hostile identifier", Data: data}}
		h := mailbox.NewDirHandler(mbox, false)
		sess := w.NewLibSession(h)
		ea, eb, link := vpipe.New(vpipe.Plan{Seed: 1, CutDir: vpipe.NoCut, DetectDeadlock: true}, false)
		var out Outcome
		done := make(chan struct{}, 1)
		go runExchange(sess, ea, &out, done)
		res := b2fref.Run(eb, w.Plan, map[string]b2fref.LibMsg{})
		select {
		case <-done:
		case <-timeAfter(WatchdogGrace):
			link.Kill()
			<-done
		}
		if out.Panic != nil {
			return fmt.Sprintf("panic: %v", out.Panic)
		}
		return fmt.Sprintf("exchange=%v delivered=%v rejected=%v deferred=%v peer=%v", out.Err, res.Delivered, res.RejectedByLib, res.DeferredByLib, res.Err)
	})
}

// "inbound-hdr": a message with a harmless Mid (op.MID) and hostile content in other headers is
// parsed by the library (as a session does) and handed to ProcessInbound of the real mailbox.
func init() {
	mboxkit.RegisterJailOp("inbound-hdr", func(mbox string, op mboxkit.Op) string {
		var arg SessionJailArg
		if err := json.Unmarshal(op.Arg, &arg); err != nil {
			return "skipped: bad arg: " + err.Error()
		}
		spec := MsgSpec{MID: string(op.MID), From: "N0PEER", To: []string{"N0LIB"}, Subject: "hostile header", Body: []byte("confinement probe\r\n"), Extra: arg.Extra}
		m := new(fbb.Message)
		if err := m.ReadFrom(bytes.NewReader(spec.Wire())); err != nil {
			return "skipped: the library's message parser refused the bytes"
		}
		h := mailbox.NewDirHandler(mbox, false)
		if err := h.Prepare(); err != nil {
			return "error: prepare: " + err.Error()
		}
		if err := h.ProcessInbound(m); err != nil {
			return "error: " + err.Error()
		}
		return "nil"
	})
}
