package b2fx

import (
	"fmt"
	"io"
	"log"
	"net"
	"os"
	"sort"
	"time"
	"verif/internal/vrt"

	"github.com/la5nta/wl2k-go/fbb"

	"verif/internal/mem"
	"verif/internal/vpipe"
)

var Discard = log.New(io.Discard, "", 0)

// Side is one station of a two-station session.
type Side struct {
	Call    string
	Station *mem.Station
	Handler fbb.MBoxHandler // defaults to Station.AsHandler()
	Master  bool
	MOTD    []string
	Status  fbb.StatusUpdater
	Modem   bool // pose as a modem with TxBufferLen/Flush/SetRobust
	// ModemTxDelay is the latency of the modem's TxBufferLen query.
	ModemTxDelay time.Duration
	// ModemTxHold: see vpipe.ModemEnd.TxHold (turn-around of an ARQ modem).
	ModemTxHold time.Duration
	// ModemTxWindow: see vpipe.ModemEnd.TxWindow; ModemNoFlush: the connection offers TxBufferLen only.
	ModemTxWindow time.Duration
	ModemNoFlush  bool
	Setup         func(*fbb.Session)
}

// Outcome is what one Exchange call returned.
type Outcome struct {
	Stats    fbb.TrafficStats
	Err      error
	Panic    any
	Stack    string
	Returned bool
}

// Result of one session between two sides.
type Result struct {
	A, B     Outcome
	Link     vpipe.State
	Killed   bool // the harness had to drop the link to release a blocked Exchange
	Spun     bool // an Exchange goroutine spins (see RunPair): the worker process must be retired
	KillWhy  string
	Duration time.Duration
}

func runExchange(s *fbb.Session, conn net.Conn, out *Outcome, done chan<- struct{}) {
	defer func() {
		if r := recover(); r != nil {
			out.Panic = r
			out.Stack = string(stack())
		}
		out.Returned = true
		done <- struct{}{}
	}()
	out.Stats, out.Err = s.Exchange(conn)
}

// NewSession builds the fbb.Session for a side.
func NewSession(me, peer *Side) *fbb.Session {
	h := me.Handler
	if h == nil && me.Station != nil {
		h = me.Station.AsHandler()
	}
	s := fbb.NewSession(me.Call, peer.Call, "JO29PJ", h)
	s.IsMaster(me.Master)
	s.SetLogger(Discard)
	if len(me.MOTD) > 0 {
		s.SetMOTD(me.MOTD...)
	}
	if me.Status != nil {
		s.SetStatusUpdater(me.Status)
	}
	if me.Setup != nil {
		me.Setup(s)
	}
	return s
}

// RunPair runs one B2F session between two library stations over a vpipe link with the given
// plan. It always returns: if an Exchange stays blocked after its peer has returned and the link
// reports no progress possible, the link is killed and the fact recorded.
func RunPair(a, b *Side, plan vpipe.Plan, record bool) (Result, *vpipe.Link) {
	plan.DetectDeadlock = true
	ea, eb, link := vpipe.New(plan, record)
	var ca, cb net.Conn = ea, eb
	if a.Modem {
		m := vpipe.AsModem(ea)
		m.TxQueryDelay, m.TxHold, m.TxWindow = a.ModemTxDelay, a.ModemTxHold, a.ModemTxWindow
		ca = m
		if a.ModemNoFlush {
			ca = vpipe.WithoutFlush(m)
		}
	}
	if b.Modem {
		m := vpipe.AsModem(eb)
		m.TxQueryDelay, m.TxHold, m.TxWindow = b.ModemTxDelay, b.ModemTxHold, b.ModemTxWindow
		cb = m
		if b.ModemNoFlush {
			cb = vpipe.WithoutFlush(m)
		}
	}
	sa, sb := NewSession(a, b), NewSession(b, a)
	var res Result
	t0 := time.Now()
	doneA, doneB := make(chan struct{}, 1), make(chan struct{}, 1)
	go runExchange(sa, ca, &res.A, doneA)
	go runExchange(sb, cb, &res.B, doneB)
	var gotA, gotB bool
	// A peer that returned without closing its end would leave the other blocked forever. The
	// link-level facts decide (closed flags); the timer below is only a watchdog for the harness.
	grace := time.NewTimer(WatchdogGrace)
	defer grace.Stop()
	c0 := vrt.CPUMillis()
	tick := time.NewTicker(500 * time.Millisecond)
	defer tick.Stop()
	for !(gotA && gotB) {
		select {
		case <-doneA:
			gotA = true
		case <-doneB:
			gotB = true
		case <-tick.C:
			// an exchange of a few kB takes milliseconds; one that is still running after 5 s while the process has burnt
			// 20 s of CPU since it began spins (a blocked exchange uses no CPU; load makes a spinner slow, not innocent).
			// A spinning goroutine cannot be stopped: the verdict is taken, the link dropped, and the worker retired.
			if cpu := vrt.CPUMillis() - c0; cpu >= 20000 && time.Since(t0) >= 5*time.Second {
				res.Killed, res.Spun = true, true
				res.KillWhy = fmt.Sprintf("cpu-spin: an Exchange call did not return and %d s of CPU were burnt since it began", cpu/1000)
				link.Kill()
				deadline := time.After(2 * time.Second)
				for !(gotA && gotB) {
					select {
					case <-doneA:
						gotA = true
					case <-doneB:
						gotB = true
					case <-deadline:
						res.Duration = time.Since(t0)
						res.Link = link.State()
						return res, link
					}
				}
			}
			continue
		case <-grace.C:
			res.Killed, res.KillWhy = true, "watchdog: exchange did not return"
			link.Kill()
			grace.Reset(WatchdogGrace)
			continue
		}
		if gotA != gotB {
			st := link.State()
			idx := 0
			if gotB {
				idx = 1
			}
			if !st.Closed[idx] && !st.Cut && !st.Deadlock {
				// returned without closing: record and release the peer
				res.Killed, res.KillWhy = true, fmt.Sprintf("end %d returned from Exchange without closing the connection", idx)
				link.Kill()
			}
		}
	}
	res.Duration = time.Since(t0)
	res.Link = link.State()
	return res, link
}

// WatchdogGrace is the harness watchdog inside a case (not a verdict by itself).
var WatchdogGrace = 90 * time.Second

func SortedCopy(s []string) []string {
	c := append([]string(nil), s...)
	sort.Strings(c)
	return c
}

func SetGzip(on bool) {
	if on {
		os.Setenv("GZIP_EXPERIMENT", "1")
	} else {
		os.Unsetenv("GZIP_EXPERIMENT")
	}
}
