package b2fx

import (
	"encoding/json"
	"fmt"
	"math/rand"
	"net"
	"os"
	"os/exec"
	"syscall"
	"time"

	"github.com/la5nta/wl2k-go/fbb"

	"verif/internal/mem"
)

// GZIP_EXPERIMENT is read from the process environment by the library, so the two asymmetric
// settings (on at one station, off at the other) need station B in a process of its own. The
// child is this same binary (ChildDispatch is called from an init() of cmd/check); the link is a
// Unix socketpair wrapped in a read-segmenting adapter.

const childEnv = "VERIF_B2FX_CHILD"

type childSpec struct {
	Call, PeerCall string
	Master         bool
	MOTD           []string
	Batched        bool
	Queue          []childMsg
	Policy         map[string]string // MID -> "+", "-", "="
	Seg            int
	Seed           int64
}

type childMsg struct {
	MID  string
	Data []byte
}

type childReport struct {
	Err     string
	Panic   string
	Stats   fbb.TrafficStats
	Events  []mem.Event
	Pending []string
	Closed  bool
}

// segConn limits how much each Read returns (PRNG), like vpipe's segmentation.
type segConn struct {
	net.Conn
	seg    int
	rng    *rand.Rand
	closed bool
}

func (c *segConn) Read(p []byte) (int, error) {
	k := len(p)
	switch c.seg {
	case 1:
		k = 1
	case 2:
		k = 1 + c.rng.Intn(7)
	case 3:
		switch c.rng.Intn(3) {
		case 0:
			k = 1
		case 1:
			k = 2 + c.rng.Intn(6)
		}
	}
	if k > len(p) {
		k = len(p)
	}
	if k == 0 {
		return 0, nil
	}
	return c.Conn.Read(p[:k])
}

func (c *segConn) Close() error { c.closed = true; return c.Conn.Close() }

// ChildDispatch turns the process into station B when the environment says so.
func ChildDispatch() {
	if os.Getenv(childEnv) == "" {
		return
	}
	var spec childSpec
	rep := childReport{}
	defer func() {
		json.NewEncoder(os.Stdout).Encode(rep)
		os.Exit(0)
	}()
	if err := json.NewDecoder(os.Stdin).Decode(&spec); err != nil {
		rep.Err = "child: bad spec: " + err.Error()
		return
	}
	f := os.NewFile(3, "link")
	conn, err := net.FileConn(f)
	if err != nil {
		rep.Err = "child: link: " + err.Error()
		return
	}
	lg := &mem.Log{}
	st := mem.NewStation("B", lg)
	st.Batched = spec.Batched
	for _, m := range spec.Queue {
		st.Queue(m.MID, m.Data)
	}
	for mid, a := range spec.Policy {
		st.Policy[mid] = fbb.ProposalAnswer(a[0])
	}
	side := &Side{Call: spec.Call, Station: st, Master: spec.Master, MOTD: spec.MOTD}
	sess := NewSession(side, &Side{Call: spec.PeerCall})
	sc := &segConn{Conn: conn, seg: spec.Seg, rng: rand.New(rand.NewSource(spec.Seed))}
	func() {
		defer func() {
			if r := recover(); r != nil {
				rep.Panic = fmt.Sprintf("%v\n%s", r, stack())
			}
		}()
		stats, err := sess.Exchange(sc)
		rep.Stats = stats
		if err != nil {
			rep.Err = err.Error()
		}
	}()
	rep.Events = lg.Events()
	rep.Pending = st.Pending()
	rep.Closed = sc.closed
}

// RunPairSplit runs station A in this process and station B in a child process whose
// GZIP_EXPERIMENT setting is gzipB (this process uses gzipA).
func RunPairSplit(sc *Scenario, gzipA, gzipB bool) (res Result, a *mem.Station, events []mem.Event, pendingB []string, err error) {
	fds, err := syscall.Socketpair(syscall.AF_UNIX, syscall.SOCK_STREAM|syscall.SOCK_CLOEXEC, 0)
	if err != nil {
		return res, nil, nil, nil, err
	}
	fa, fb := os.NewFile(uintptr(fds[0]), "a"), os.NewFile(uintptr(fds[1]), "b")
	ca, err := net.FileConn(fa)
	fa.Close()
	if err != nil {
		fb.Close()
		return res, nil, nil, nil, err
	}
	spec := childSpec{Call: CallB, PeerCall: CallA, Master: !sc.MasterIsA, Batched: sc.BatchedB, Policy: map[string]string{}, Seg: sc.Seg, Seed: 2}
	if !sc.MasterIsA {
		spec.MOTD = sc.MOTD
	}
	for _, m := range sc.MsgsB {
		spec.Queue = append(spec.Queue, childMsg{m.MID, sc.Truth[m.MID]})
	}
	for _, m := range sc.MsgsA {
		spec.Policy[m.MID] = string(rune(sc.Policy[m.MID]))
	}
	cmd := exec.Command(os.Args[0])
	cmd.ExtraFiles = []*os.File{fb}
	cmd.Env = append(os.Environ(), childEnv+"=1")
	if gzipB {
		cmd.Env = append(cmd.Env, "GZIP_EXPERIMENT=1")
	} else {
		cmd.Env = append(cmd.Env, "GZIP_EXPERIMENT=0")
	}
	stdin, _ := cmd.StdinPipe()
	stdout, _ := cmd.StdoutPipe()
	cmd.Stderr = os.Stderr
	if err := cmd.Start(); err != nil {
		fb.Close()
		ca.Close()
		return res, nil, nil, nil, err
	}
	fb.Close()
	json.NewEncoder(stdin).Encode(spec)
	stdin.Close()

	SetGzip(gzipA)
	defer SetGzip(false)
	lg := &mem.Log{}
	a = mem.NewStation("A", lg)
	a.Batched = sc.BatchedA
	for _, m := range sc.MsgsA {
		a.Queue(m.MID, sc.Truth[m.MID])
	}
	for _, m := range sc.MsgsB {
		a.Policy[m.MID] = sc.Policy[m.MID]
	}
	sa := &Side{Call: CallA, Station: a, Master: sc.MasterIsA}
	if sc.MasterIsA {
		sa.MOTD = sc.MOTD
	}
	sess := NewSession(sa, &Side{Call: CallB})
	connA := &segConn{Conn: ca, seg: sc.Seg, rng: rand.New(rand.NewSource(1))}
	done := make(chan struct{}, 1)
	go runExchange(sess, connA, &res.A, done)
	var rep childReport
	decErr := make(chan error, 1)
	go func() { decErr <- json.NewDecoder(stdout).Decode(&rep) }()
	select {
	case <-done:
	case <-time.After(WatchdogGrace):
		res.Killed, res.KillWhy = true, "watchdog: station A did not return"
		ca.Close()
		<-done
	}
	select {
	case e := <-decErr:
		if e != nil {
			err = fmt.Errorf("child report: %v", e)
		}
	case <-time.After(WatchdogGrace):
		cmd.Process.Kill()
		res.Killed, res.KillWhy = true, "watchdog: station B (child process) did not return"
	}
	cmd.Wait()
	if rep.Err != "" {
		res.B.Err = fmt.Errorf("%s", rep.Err)
	}
	if rep.Panic != "" {
		res.B.Panic, res.B.Stack = rep.Panic, rep.Panic
	}
	res.B.Stats, res.B.Returned = rep.Stats, true
	res.Link.Closed = [2]bool{connA.closed, rep.Closed}
	events = lg.Events()
	for _, e := range rep.Events {
		e.Seq = -1 // no common clock with station A: ordering clauses are not evaluated on this leg
		events = append(events, e)
	}
	return res, a, events, rep.Pending, err
}
