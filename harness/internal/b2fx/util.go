package b2fx

import "runtime/debug"

func stack() []byte { return debug.Stack() }
