package b2fx

import (
	"runtime/debug"
	"time"
)

func stack() []byte { return debug.Stack() }

func timeAfter(d time.Duration) <-chan time.Time { return time.After(d) }
