// Package b2fx drives real fbb.Session objects over vpipe links: message and scenario generators,
// the two-station runner, and the log checkers shared by C01/C02/C04/C05/C17.
package b2fx

import (
	"bytes"
	"fmt"
	"math/rand"
	"strings"

	"github.com/la5nta/wl2k-go/fbb"
)

// MsgSpec describes one valid outbound message. The wire form is built by hand (not through the
// setters) so that bodies and attachments can be arbitrary bytes; it is then canonicalised by one
// parse + serialise through the library (C09 checks that canonicalisation separately).
type MsgSpec struct {
	MID     string     `json:"mid"`
	From    string     `json:"from"`
	To      []string   `json:"to"`
	Subject string     `json:"subject"` // raw header value (ASCII, may be an RFC 2047 encoded word)
	Body    []byte     `json:"-"`
	Files   []FileSpec `json:"-"`
	Shape   string     `json:"shape"` // human-readable description for evidence
	// Minimal: only the fields Validate asks for (no Content-*, Mbo, Type): the smallest messages there are
	Minimal bool `json:"minimal,omitempty"`
	// NoDate: the message has no Date field (Validate does not ask for one: still a valid message to queue).
	NoDate bool `json:"no_date,omitempty"`
	// Extra header lines (name, raw value) - used for hostile header content.
	Extra [][2]string `json:"extra,omitempty"`
}

type FileSpec struct {
	Name string // raw header value
	Data []byte
}

// Wire renders the message in Winlink message format.
func (m MsgSpec) Wire() []byte {
	var b bytes.Buffer
	fmt.Fprintf(&b, "Mid: %s\r\n", m.MID)
	fmt.Fprintf(&b, "Body: %d\r\n", len(m.Body))
	if !m.Minimal {
		fmt.Fprintf(&b, "Content-Transfer-Encoding: 8bit\r\n")
		fmt.Fprintf(&b, "Content-Type: text/plain; charset=ISO-8859-1\r\n")
	}
	if !m.NoDate {
		fmt.Fprintf(&b, "Date: 2024/05/17 13:45\r\n")
	}
	for _, f := range m.Files {
		fmt.Fprintf(&b, "File: %d %s\r\n", len(f.Data), f.Name)
	}
	fmt.Fprintf(&b, "From: %s\r\n", m.From)
	if !m.Minimal {
		fmt.Fprintf(&b, "Mbo: %s\r\n", m.From)
	}
	fmt.Fprintf(&b, "Subject: %s\r\n", m.Subject)
	for _, t := range m.To {
		fmt.Fprintf(&b, "To: %s\r\n", t)
	}
	for _, h := range m.Extra {
		fmt.Fprintf(&b, "%s: %s\r\n", h[0], h[1])
	}
	if !m.Minimal {
		fmt.Fprintf(&b, "Type: Private\r\n")
	}
	b.WriteString("\r\n")
	b.Write(m.Body)
	if len(m.Files) > 0 {
		b.WriteString("\r\n")
	}
	for _, f := range m.Files {
		b.Write(f.Data)
		b.WriteString("\r\n")
	}
	return b.Bytes()
}

// Canonical parses the wire form with the library and re-serialises it. It also checks that the
// message is valid per Message.Validate (the generator's contract).
func (m MsgSpec) Canonical() ([]byte, error) {
	msg := new(fbb.Message)
	if m.NoDate {
		// built the way an application builds it: the message object without a Date field (parsed with one, field removed)
		dated := m
		dated.NoDate = false
		if err := msg.ReadFrom(bytes.NewReader(dated.Wire())); err != nil {
			return nil, fmt.Errorf("generated message does not parse: %w", err)
		}
		msg.Header.Del("Date")
	} else if err := msg.ReadFrom(bytes.NewReader(m.Wire())); err != nil {
		return nil, fmt.Errorf("generated message does not parse: %w", err)
	}
	if err := msg.Validate(); err != nil {
		return nil, fmt.Errorf("generated message is not valid: %w", err)
	}
	b, err := msg.Bytes()
	if err != nil {
		// the library parsed the message and calls it valid, and cannot write it: such a message can be queued and will
		// never be proposed - a verdict for the properties that quantify over "valid queued messages", not a harness problem
		return nil, &UnserialisableError{MID: m.MID, Shape: m.Shape, Err: err}
	}
	return b, nil
}

// UnserialisableError: Message.ReadFrom and Validate accepted the message, Message.Bytes failed.
type UnserialisableError struct {
	MID, Shape string
	Err        error
}

func (e *UnserialisableError) Error() string {
	return fmt.Sprintf("message %s (%s) parses and is valid per Validate, but cannot be serialised: %v", e.MID, e.Shape, e.Err)
}

const midAlphabet = "ABCDEFGHIJKLMNOPQRSTUVWXYZ0123456789"

// GenMID returns a MID of 1..12 alphanumerics, unique for (prefix,i).
func GenMID(r *rand.Rand, prefix string, i int) string {
	n := 1 + r.Intn(12)
	base := fmt.Sprintf("%s%dX", prefix, i) // the non-digit after the index keeps (prefix,i) -> MID injective
	if n < len(base) {
		n = len(base)
	}
	for len(base) < n {
		base += string(midAlphabet[r.Intn(len(midAlphabet))])
	}
	if len(base) > 12 {
		base = base[:12]
	}
	return base
}

func qEncodeLatin1(s []byte) string {
	var b strings.Builder
	b.WriteString("=?ISO-8859-1?q?")
	for _, c := range s {
		switch {
		case c == ' ':
			b.WriteByte('_')
		case c >= 33 && c < 127 && c != '=' && c != '?' && c != '_':
			b.WriteByte(c)
		default:
			fmt.Fprintf(&b, "=%02X", c)
		}
	}
	b.WriteString("?=")
	return b.String()
}

// GenSubject returns a raw Subject header value of the given shape whose length is <= 128.
func GenSubject(r *rand.Rand) (string, string) {
	switch r.Intn(9) {
	case 0:
		return "x", "1-char"
	case 8: // prose up to the header limit: words separated by one to three blanks (typed text has runs of blanks)
		n := 40 + r.Intn(89)
		var b strings.Builder
		for b.Len() < n {
			for k := 1 + r.Intn(9); k > 0; k-- {
				b.WriteByte("abcdefghijklmnopqrstuvwxyzABCDEFG0123456789.,:;!?-"[r.Intn(50)])
			}
			b.WriteString(strings.Repeat(" ", []int{1, 1, 1, 2, 2, 3}[r.Intn(6)]))
		}
		s := strings.TrimSpace(b.String()[:n])
		return s, fmt.Sprintf("prose-%d", len(s))
	case 1: // precedence markers
		p := []string{"//WL2K Z/", "//WL2K O/", "//WL2K P/", "//WL2K R/"}[r.Intn(4)]
		n := r.Intn(1000)
		if n%2 == 0 { // the marker in a subject that also has non-ASCII characters (word-encoded on the wire)
			return qEncodeLatin1([]byte(fmt.Sprintf("%s \xf8velse %d", p, n))), "precedence-latin1 " + p
		}
		return p + " exercise " + fmt.Sprint(n), "precedence " + p
	case 2: // long ASCII (up to the 128 byte header limit)
		n := 81 + r.Intn(48)
		return strings.Repeat("s", n), fmt.Sprintf("ascii-%d", n)
	case 3: // Latin-1, few characters
		n := 1 + r.Intn(10)
		raw := make([]byte, n)
		for i := range raw {
			raw[i] = byte(0xC0 + r.Intn(0x3f))
		}
		return qEncodeLatin1(raw), fmt.Sprintf("latin1-%d", n)
	case 4: // Latin-1 up to the header limit: 37 chars * 3 + 17 = 128
		n := 30 + r.Intn(8)
		raw := bytes.Repeat([]byte{0xE6}, n)
		return qEncodeLatin1(raw), fmt.Sprintf("latin1-%d", n)
	default:
		n := 1 + r.Intn(60)
		var b strings.Builder
		for i := 0; i < n; i++ {
			b.WriteByte("abcdefghijklmnopqrstuvwxyz ABCDEFG0123456789-/.,:"[r.Intn(49)])
		}
		s := strings.TrimSpace(b.String())
		if s == "" {
			s = "s"
		}
		return s, fmt.Sprintf("ascii-%d", len(s))
	}
}

func genBytes(r *rand.Rand, n int, kind int) []byte {
	b := make([]byte, n)
	switch kind {
	case 0: // arbitrary bytes
		r.Read(b)
	case 1: // text-like Latin-1 with CRLF lines
		for i := range b {
			switch {
			case i%61 == 59:
				b[i] = '\r'
			case i%61 == 60:
				b[i] = '\n'
			case r.Intn(20) == 0:
				b[i] = byte(0xC0 + r.Intn(0x3f))
			default:
				b[i] = byte(' ' + r.Intn(95))
			}
		}
	case 2: // highly repetitive
		for i := range b {
			b[i] = "abcabcabd"[i%9]
		}
	case 3: // NULs and CRLF only
		for i := range b {
			b[i] = []byte{0, '\r', '\n', 0}[r.Intn(4)]
		}
	}
	return b
}

// GenMsg builds one valid message spec.
func GenMsg(r *rand.Rand, mid, from string, to string) MsgSpec {
	m := MsgSpec{MID: mid, From: from, To: []string{to}}
	var sshape string
	m.Subject, sshape = GenSubject(r)
	if r.Intn(12) == 0 {
		m.NoDate = true
		sshape += ",no-date"
	}
	if r.Intn(6) == 0 { // extension fields of the application's own: part of the message
		m.Extra = [][2]string{{"X-Location", "60.1N 5.3E (GPS)"}, {"X-Source", from}}
		sshape += ",x-fields"
	}
	// body 1 B .. 40 kB
	var n int
	switch r.Intn(6) {
	case 0:
		n = 1
	case 1:
		n = 1 + r.Intn(10)
	case 2:
		n = 100 + r.Intn(2000)
	case 3:
		n = 120 + r.Intn(12) // around the 125-byte chunk of the framed transfer after compression
	case 4:
		n = 5000 + r.Intn(35000)
	default:
		n = 1 + r.Intn(600)
	}
	bk := r.Intn(4)
	m.Body = genBytes(r, n, bk)
	nf := 0
	if r.Intn(3) == 0 {
		nf = 1 + r.Intn(3)
	}
	fshape := ""
	for i := 0; i < nf; i++ {
		var data []byte
		switch r.Intn(5) {
		case 0:
			data = nil // empty attachment
		case 1:
			data = []byte("\r\n")
		case 2:
			data = []byte{0}
		default:
			n := 1 + r.Intn(3000)
			if n%7 == 0 { // one in seven is larger than the 4 KiB / 32 KiB buffers along the way
				n = 4000 + (n*13)%36000
			}
			data = genBytes(r, n, r.Intn(4))
		}
		name := fmt.Sprintf("file%d.bin", i)
		switch r.Intn(6) {
		case 0:
			name = qEncodeLatin1([]byte{'f', 0xE6, 0xF8, 0xE5, '.', 't', 'x', 't'})
		case 1: // a long name with blanks and runs of blanks, as desktop users produce them
			var b strings.Builder
			for n := 30 + r.Intn(130); b.Len() < n; {
				for k := 1 + r.Intn(12); k > 0; k-- {
					b.WriteByte("abcdefghijklmnopqrstuvwxyz0123456789_-()"[r.Intn(40)])
				}
				b.WriteString(strings.Repeat(" ", []int{1, 1, 2, 3}[r.Intn(4)]))
			}
			name = strings.TrimSpace(b.String()) + fmt.Sprintf(" %d.txt", i)
		}
		m.Files = append(m.Files, FileSpec{Name: name, Data: data})
		fshape += fmt.Sprintf(" file[%d]", len(data))
	}
	m.Shape = fmt.Sprintf("subject(%s) body[%d,kind%d]%s", sshape, n, bk, fshape)
	return m
}
