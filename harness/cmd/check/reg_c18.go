package main

import (
	"verif/checks/c18"
	"verif/internal/vrt"
)

func init() { vrt.Register(c18.Check) }
