package main

import "verif/internal/lzwork"

// see lzwork.ChildDispatch: the same binary serves as the address-space-bounded decompressor of C08
func init() { lzwork.ChildDispatch() }
