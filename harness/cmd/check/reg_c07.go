package main

import (
	"verif/checks/c07"
	"verif/internal/vrt"
)

func init() { vrt.Register(c07.Check) }
