package main

import (
	"verif/checks/c16"
	"verif/internal/vrt"
)

func init() { vrt.Register(c16.Check) }
