package main

import (
	"verif/checks/c10"
	"verif/internal/vrt"
)

func init() { vrt.Register(c10.Check) }
