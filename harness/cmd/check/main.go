// check <ID> --tier quick|thorough [--replay file]   (parent)
// check <ID> --worker                                 (worker; started by the parent)
package main

import (
	"flag"
	"fmt"
	"os"
	"strconv"

	"verif/internal/vrt"
)

func main() {
	if len(os.Args) < 2 {
		fmt.Println("usage: check <ID> [--tier quick|thorough] [--replay file] | check --list")
		os.Exit(2)
	}
	if os.Args[1] == "--list" {
		for _, id := range vrt.IDs() {
			fmt.Println(id)
		}
		return
	}
	id := os.Args[1]
	ch := vrt.Lookup(id)
	if ch == nil {
		fmt.Printf("unknown check %q (have %v)\n", id, vrt.IDs())
		os.Exit(2)
	}
	fs := flag.NewFlagSet("check", flag.ExitOnError)
	worker := fs.Bool("worker", false, "worker mode")
	tier := fs.String("tier", "quick", "quick|thorough")
	replay := fs.String("replay", "", "replay file")
	root := fs.String("root", "/verif", "verif root")
	scratch := fs.String("scratch", "", "scratch dir")
	workers := fs.Int("workers", 0, "override worker count")
	fs.Parse(os.Args[2:])
	if *worker {
		vrt.WorkerMain(ch)
		return
	}
	if *tier != "quick" && *tier != "thorough" {
		fmt.Println("tier must be quick or thorough")
		os.Exit(2)
	}
	seed := int64(1)
	if s := os.Getenv("VERIF_SEED"); s != "" {
		if v, err := strconv.ParseInt(s, 10, 64); err == nil {
			seed = v
		}
	}
	exe, err := os.Executable()
	if err != nil {
		fmt.Println(err)
		os.Exit(2)
	}
	ownScratch := false
	if *scratch == "" {
		d, err := os.MkdirTemp("", "verif-check-")
		if err != nil {
			fmt.Println(err)
			os.Exit(2)
		}
		*scratch, ownScratch = d, true
	}
	code := vrt.Run(ch, vrt.Options{Seed: seed, Tier: *tier, Root: *root, Scratch: *scratch, Replay: *replay, Exe: exe, Workers: *workers})
	if code != 0 || ownScratch {
		os.RemoveAll(*scratch) // (os.Exit skips deferred calls)
	}
	os.Exit(code)
}
