package main

import (
	"verif/checks/c04"
	"verif/internal/vrt"
)

func init() { vrt.Register(c04.Check) }
