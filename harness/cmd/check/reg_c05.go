package main

import (
	"verif/checks/c05"
	"verif/internal/vrt"
)

func init() { vrt.Register(c05.Check) }
