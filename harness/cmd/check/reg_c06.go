package main

import (
	"verif/checks/c06"
	"verif/internal/ref/lzref"
	"verif/internal/vrt"
)

func init() {
	// C06's verdict is identity only; the reference decoder is used to describe what the streams
	// exercised (tree rebuilds, match lengths), so it is self-tested here as well.
	c06.Check.SelfTest = lzref.SelfTest
	vrt.Register(c06.Check)
}
