package main

import (
	"verif/checks/c08"
	"verif/internal/vrt"
)

func init() { vrt.Register(c08.Check) }
