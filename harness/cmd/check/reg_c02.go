package main

import (
	"verif/checks/c02"
	"verif/internal/vrt"
)

func init() { vrt.Register(c02.Check) }
