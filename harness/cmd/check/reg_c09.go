package main

import (
	"verif/checks/c09"
	"verif/internal/vrt"
)

func init() { vrt.Register(c09.Check) }
