package main

import (
	"verif/checks/c17"
	"verif/internal/vrt"
)

func init() { vrt.Register(c17.Check) }
