package main

import (
	"verif/checks/c20"
	"verif/internal/vrt"
)

func init() { vrt.Register(c20.Check) }
