package main

import (
	"verif/checks/c01"
	"verif/internal/vrt"
)

func init() { vrt.Register(c01.Check) }
