package main

import (
	"verif/checks/c19"
	"verif/internal/vrt"
)

func init() { vrt.Register(c19.Check) }
