package main

import (
	"verif/checks/c03"
	"verif/internal/vrt"
)

func init() { vrt.Register(c03.Check) }
