package main

import "verif/internal/b2fx"

// Station B of the split-process runner is this same binary (see b2fx.RunPairSplit).
func init() { b2fx.ChildDispatch() }
