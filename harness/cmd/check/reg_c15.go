package main

import (
	"verif/checks/c15"
	"verif/internal/vrt"
)

func init() { vrt.Register(c15.Check) }
