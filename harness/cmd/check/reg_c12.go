package main

import (
	"verif/checks/c12"
	"verif/internal/vrt"
)

func init() { vrt.Register(c12.Check) }
