package main

import (
	"verif/checks/c14"
	"verif/internal/vrt"
)

func init() { vrt.Register(c14.Check) }
