package main

import (
	"verif/checks/c11"
	"verif/internal/vrt"
)

func init() { vrt.Register(c11.Check) }
