package main

import "verif/internal/mboxkit"

// The harness binary doubles as the crash victim / jailed child of the mailbox checks (C11, C12).
// This file sorts last in the package, so its init() runs after every other package (and every
// other file of package main) has been initialised.
func init() { mboxkit.ChildDispatch() }
