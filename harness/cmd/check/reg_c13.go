package main

import (
	"verif/checks/c13"
	"verif/internal/vrt"
)

func init() { vrt.Register(c13.Check) }
