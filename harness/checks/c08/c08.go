// Package c08: the decompressor is safe on arbitrary input and its integrity verdict is sound.
//
// Monitors (all logical, no wall clock): panic; non-termination = 1000 consecutive (0,nil) reads or
// more Read calls than the declared size + 64; bytes read > max(declared size, 0); and
// Close() == nil only if the independent reference decoder (verif/internal/ref/lzref) decodes the
// same bytes exactly, the CRC-16 (B2 mode) matches and the bytes read are identical to the
// reference's output. For inputs that carry bytes after the canonical end of the data only the CRC
// clause is skipped (what the checksum covers there is ambiguous).
package c08

import (
	"bytes"
	"encoding/binary"
	"errors"
	"fmt"
	"hash/fnv"
	"io"
	"math"
	"strings"

	"verif/internal/lzwork"
	"verif/internal/ref/lzref"
	"verif/internal/vrt"
)

type params struct {
	Kind string `json:"kind"`           // regress | mutate | random | syms
	Mode string `json:"mode,omitempty"` // mutate: b2 | raw
	Lo   int    `json:"lo,omitempty"`
	Hi   int    `json:"hi,omitempty"`
	N    int    `json:"n,omitempty"`
	Seed int64  `json:"seed"`
}

var Check = &vrt.Check{
	ID:    "C08",
	Level: "exploration",
	Rule: "inputs: random bytes (0..4 kB, raw and behind a plausible header); for valid canonical streams of small inputs every truncation, every " +
		"single-bit flip (CRC left alone, and CRC recomputed), header edits (size -1, -2, -2^31, 0, n-1, n+1, n+59..61, 2^31-1; CRC +-1, swapped, 0x0000/0xffff/0x0001/0x8000 alone and with body bit flips), crafted " +
		"overruns (final match of length L, size lowered by 1..L-1, CRC recomputed), trailing bytes, splices of two streams, byte insertions/deletions; a fixed " +
		"regression list (negative sizes, overruns, short headers) under every source x buffer combination. Each input is read through the real Reader " +
		"with rotating source readers (bytes.Reader, 1-byte, PRNG 1..7, data+EOF, PRNG 1..4096) and buffers 1, 7, 60, 4096, PRNG, to the end or up to an " +
		"early Close. Non-trivial = the Reader accepted the header and Read was called; distinct = distinct (reference verdict class, header mode, input bytes) " +
		"(at most 4096 signatures per batch are kept)",
	Assumptions: []string{
		"the reference decoder defines 'canonical decoding'; it is validated against the five golden .lzh files before every run",
		"for inputs with bytes after the canonical end of the data the CRC clause of the Close verdict is not judged (all other clauses are)",
		"for inputs in which a match copies window bytes that neither the space pre-fill nor earlier output has written (positions N-F..N-1 during the first 60 output bytes; uninitialised in LZHUF.C) the decoded bytes are not defined by the format, so only the byte-identity clause is skipped for them",
		"Close()==nil is judged against the bytes actually obtained from Read before Close (an early Close after fewer bytes than the declared size must not succeed)",
	},
	SelfTest:        lzref.SelfTest,
	Plan:            plan,
	Run:             run,
	Exhaustive:      func(string) bool { return false },
	HangIsViolation: true,
	HangKey: func(c vrt.Case) string {
		var p params
		vrt.Params(c, &p)
		return p.Kind
	},
	MinNontrivial: 5000,
	Extra: func(tier string) map[string]any {
		return map[string]any{"exhaustive_subspaces": []string{
			"every truncation and every single-bit flip of each valid base stream of at most 400 bytes (strided above)",
			"every overrun depth 1..L-1 of every base stream that ends in a match",
			"the fixed regression inputs under all 5 source readers x 5 buffer plans x both header modes",
		}}
	},
}

func plan(seed int64, tier string) []vrt.Case {
	var cs []vrt.Case
	nBase, nRand, timeout := 40, 60, 240
	if tier == "thorough" {
		nBase, nRand, timeout = 900, 1500, 600
	}
	add := func(id string, p params) {
		p.Seed = seed
		cs = append(cs, vrt.Case{ID: id, Params: vrt.MustParams(p), TimeoutS: timeout})
	}
	add("regress", params{Kind: "regress"})
	for i := 0; i < nBase; i++ {
		add(fmt.Sprintf("mutate-%d-b2", i), params{Kind: "mutate", Mode: "b2", Lo: i, Hi: i + 1, N: nBase})
		add(fmt.Sprintf("mutate-%d-raw", i), params{Kind: "mutate", Mode: "raw", Lo: i, Hi: i + 1, N: nBase})
	}
	for i := 0; i < nRand; i++ {
		add(fmt.Sprintf("random-%d", i), params{Kind: "random", Lo: i})
		add(fmt.Sprintf("syms-%d", i), params{Kind: "syms", Lo: i})
	}
	// header edits copied with io.Copy in a process whose address space is bounded
	nBounded := 4
	if tier == "thorough" {
		nBounded = 60
	}
	for i := 0; i < nBounded; i++ {
		add(fmt.Sprintf("bounded-%d", i), params{Kind: "bounded", Lo: i, N: nBase})
	}
	return lzwork.LeadWithOneOfEach(cs, func(c vrt.Case) string { return strings.SplitN(c.ID, "-", 2)[0] })
}

// ---------------------------------------------------------------------------------------------
// oracle

func hashOf(b []byte) uint64 {
	h := fnv.New64a()
	h.Write(b)
	return h.Sum64()
}

func modeName(crc bool) string {
	if crc {
		return "b2"
	}
	return "raw"
}

// verdict is the reference's view of one hostile input.
type verdict struct {
	class    string // exact | exact+trailing | truncated | overrun | bad-size | short-header
	declared int64  // size field (0 if the header is incomplete)
	out      []byte // reference output (complete only for the exact classes)
	crcOK    bool   // B2: the first two bytes are CRC-16/XMODEM of everything after them
	// undefined: a match copies window bytes that nothing has written yet (see lzref.Stats.Undefined):
	// the format does not define the decoded bytes, so the byte-identity clause is not judged.
	undefined bool
	mask      []bool // per output byte: true = not defined by the stream (only set when undefined)
}

func refVerdict(in []byte, crc bool) verdict {
	hdr := 4
	if crc {
		hdr = 6
	}
	if len(in) < hdr {
		return verdict{class: "short-header"}
	}
	raw := in[hdr-4:]
	v := verdict{declared: int64(int32(binary.LittleEndian.Uint32(raw)))}
	if crc {
		v.crcOK = binary.LittleEndian.Uint16(in) == lzref.CRC(in[2:])
	}
	out, used, st, err := lzref.DecodeStats(raw)
	v.out = out
	v.undefined = st.Undefined > 0
	if v.undefined {
		v.mask = st.UndefMask
	}
	switch {
	case err == nil && used == len(raw):
		v.class = "exact"
	case err == nil:
		v.class = "exact+trailing"
	case errors.Is(err, lzref.ErrTrunc):
		v.class = "truncated"
	case errors.Is(err, lzref.ErrOverrun):
		v.class = "overrun"
	case errors.Is(err, lzref.ErrSize):
		v.class = "bad-size"
	default:
		panic("c08: unknown reference error " + err.Error())
	}
	return v
}

type ctx struct {
	o      *vrt.Obs
	seed   int64
	j      uint64 // running execution counter: rotates sources, buffer plans and early-close points
	perKey map[string]int
	sigs   map[uint64]bool
	// example: one execution of the case written out for the evidence file (the first one whose
	// header the Reader accepted)
	example map[string]any
}

// sig records one distinct (class, mode, input) per case only once, so that the framework's cap of
// 4096 signatures per case is not used up by the 30 executions of one regression input.
func (c *ctx) sig(class, mode string, in []byte) {
	h := hashOf(in) ^ hashOf([]byte(class+"|"+mode))
	if c.sigs == nil {
		c.sigs = map[uint64]bool{}
	}
	if !c.sigs[h] {
		c.sigs[h] = true
		c.o.Sig("%s|%s|%d|%x", class, mode, len(in), h)
	}
}

// at most this many violations of one key are written out per case (all are counted)
const maxPerKeyPerCase = 4

func (c *ctx) add(v vrt.Violation) {
	if c.perKey == nil {
		c.perKey = map[string]int{}
	}
	c.perKey[v.Key]++
	c.o.Count("violating_executions", 1)
	if c.perKey[v.Key] > maxPerKeyPerCase {
		c.o.Count("violations_not_listed_over_cap", 1)
		return
	}
	c.o.Violations = append(c.o.Violations, v)
}

var copyPlans = []lzwork.ReadPlan{{Kind: "copy"}, {Kind: "head-copy"}}

var bufPlans = []lzwork.ReadPlan{{Kind: "fixed", K: 1}, {Kind: "fixed", K: 7}, {Kind: "fixed", K: 60}, {Kind: "fixed", K: 4096}, {Kind: "prng"}}

// exec runs one hostile input through the real Reader and judges what was observed.
// stopAfter < 0: read to the end.
func (c *ctx) exec(what string, in []byte, crc bool, v verdict, src lzwork.Source, rp lzwork.ReadPlan, stopAfter int64) {
	if c.o.Poisoned {
		return // a spinning call is still burning CPU in this process: the case is over
	}
	c.o.Evals++
	m := modeName(crc)
	declared := max(v.declared, 0)
	capBytes := int64(480*len(in) + 8192) // no input bit can yield more than one symbol of 60 bytes
	lim := lzwork.Limits{
		MaxReads:   declared + 64,
		MaxBytes:   min(capBytes, declared+4096),
		Keep:       len(v.out) + 64,
		StopAfter:  stopAfter,
		ExtraReads: 2,
	}
	res := lzwork.Decompress(in, crc, src, rp, lim)
	c.o.Count("class_"+v.class, 1)
	c.o.Count("read_calls", res.Reads)
	det := func() map[string]any {
		d := map[string]any{"input": what, "stream_hex": lzwork.Hex(in, 600), "stream_len": len(in), "mode": m, "reference_class": v.class, "declared_size": v.declared,
			"source": src, "read_plan": rp, "bytes_read": res.Total, "read_calls": res.Reads, "read_error": fmt.Sprint(res.ReadErr)}
		if stopAfter >= 0 {
			d["close_after_bytes"] = stopAfter
		}
		if res.Closed {
			d["close_result"] = fmt.Sprint(res.CloseErr)
		}
		return d
	}
	violate := func(key, format string, a ...any) {
		c.add(vrt.Violation{Key: key, Desc: what + " [" + m + ", " + src.String() + ", buf " + rp.String() + "]: " + fmt.Sprintf(format, a...), Detail: det()})
	}
	if res.ClosedTwice {
		c.o.Count("readers_closed_twice", 1)
		if res.CloseErr != nil && res.Close2Err == nil {
			violate("close-nil:second-close", "the first Close returned %v, a second Close on the same Reader returned nil: success from Close must mean that CRC and size match, whichever call it is", res.CloseErr)
		}
	}
	if res.SourceDamage != "" {
		violate("source-memory-modified", "reading the stream changed the memory it was served from: %s", res.SourceDamage)
	}
	if res.Spun {
		c.o.Poisoned = true
		violate("no-termination:cpu-spin", "one decompression (NewReader, Reads, Close) burnt %v of CPU time without any call returning: a call spins", lzwork.SpinCPU)
		return
	}
	if res.Abandoned {
		c.o.Poisoned = true
		c.o.Inconclusive = append(c.o.Inconclusive, what+": decompression neither returned nor used CPU within "+lzwork.SpinWall.String())
		return
	}
	if res.Panic != nil {
		w := *res.Panic
		w.Desc = what + ": " + w.Desc + " (in " + res.PanicIn + ")"
		w.Detail = map[string]any{"stack": res.Panic.Detail, "case": det()}
		c.add(w)
		return
	}
	if res.NewErr != nil {
		c.o.Count("newreader_rejected", 1)
		return // terminated with an error before any byte was produced
	}
	c.o.Count("source_"+src.String(), 1)
	c.o.Count("bufplan_"+rp.String(), 1)
	c.sig(v.class, m, in)
	if c.example == nil && len(in) > 8 {
		c.example = det()
		c.example["stream_hex"] = lzwork.Hex(in, 64)
	}
	if res.BadCount != "" {
		violate("bad-read-count", "%s", res.BadCount)
		return
	}
	// termination (logical criteria)
	switch {
	case res.NoProgress:
		violate("no-termination:"+v.class, "Read returned (0,nil) 1000 times in a row (declared size %d, %d bytes read so far): a caller looping until io.EOF never returns", v.declared, res.Total)
	case res.TooMany:
		violate("no-termination:"+v.class, "%d Read calls without io.EOF or an error for a declared size of %d (%d bytes read)", res.Reads, v.declared, res.Total)
	case res.Runaway && res.Total <= declared:
		c.o.Inconclusive = append(c.o.Inconclusive, fmt.Sprintf("%s: %d bytes produced from a %d-byte input without end (stopped by the harness)", what, res.Total, len(in)))
	}
	// bounded output
	if res.Total > declared {
		violate("excess-bytes:"+v.class, "Read yielded %d bytes, declared size is %d", res.Total, v.declared)
	}
	switch {
	case res.ReadErr == io.EOF:
		c.o.Count("read_ended_eof", 1)
	case res.ReadErr != nil:
		c.o.Count("read_ended_error", 1)
	case res.Stopped:
		c.o.Count("closed_early", 1)
	}
	if res.ExtraNilErr > 0 {
		c.o.Count("reads_after_end_returning_0_nil", int64(res.ExtraNilErr))
	}
	// integrity verdict
	if !res.Closed {
		return
	}
	if res.CloseErr != nil {
		c.o.Count("close_reported_error", 1)
		if v.class == "exact" && (!crc || v.crcOK) && stopAfter < 0 {
			c.o.Count("valid_stream_refused(not_judged_here)", 1)
		}
		return
	}
	c.o.Count("close_reported_success", 1)
	exact := v.class == "exact" || v.class == "exact+trailing"
	switch {
	case !exact:
		violate("close-nil:"+v.class, "Close() == nil although the canonical decoder finds the stream %s (declared %d, %d bytes read)", v.class, v.declared, res.Total)
	case crc && v.class == "exact" && !v.crcOK:
		violate("close-nil:crc-mismatch", "Close() == nil although the CRC-16 in the header (%04x) is not the checksum of the stream (%04x)",
			binary.LittleEndian.Uint16(in), lzref.CRC(in[2:]))
	case v.undefined && res.Total == int64(len(v.out)):
		c.o.Count("close_success_bytes_not_judged(undefined_window_reference)", 1)
		// ... but only the bytes that really derive from an undefined window position are undefined: all
		// others (literals, copies of the blank pre-fill, copies of defined output) must be canonical
		for i := 0; i < len(v.out) && i < len(res.Out) && i < len(v.mask); i++ {
			if !v.mask[i] {
				c.o.Count("defined_bytes_of_undefined_streams_compared", 1)
				if res.Out[i] != v.out[i] {
					violate("close-nil:bytes-differ", "Close() == nil but byte %d read (%#02x) is not the canonical decoding (%#02x); the stream also references undefined window bytes, this byte does not derive from them", i, res.Out[i], v.out[i])
					break
				}
			}
		}
		// Which bytes such a stream decodes to is not defined by the format - but whatever they are,
		// they must be a function of the stream alone: decode it twice more, each time right after a
		// different unrelated message went through a Reader of its own (read to the end and closed).
		// A decoder that recycles state between messages shows the previous message's bytes here.
		if stopAfter < 0 {
			big := lzwork.Limits{MaxReads: 1 << 20, MaxBytes: 1 << 20, StopAfter: -1}
			for i, dirt := range dirtyStreams() {
				lzwork.Decompress(dirt, true, lzwork.Sources[0], bufPlans[3], big)
				again := lzwork.Decompress(in, crc, src, rp, lim)
				if again.Spun || again.Abandoned {
					c.o.Poisoned = true
					if again.Spun {
						violate("no-termination:cpu-spin", "a repeated decompression burnt %v of CPU time without any call returning: a call spins", lzwork.SpinCPU)
					}
					return
				}
				c.o.Count("history_independence_decodes", 1)
				if again.Panic == nil && again.NewErr == nil && again.Closed && again.CloseErr == nil && !bytes.Equal(again.Out, res.Out) {
					violate("close-nil:history-dependent", "Close() == nil twice for the same stream, but the bytes read differ after an unrelated message #%d was decoded in between: the decoding is not a function of the stream", i)
					break
				}
			}
		}
	case res.Total < int64(len(v.out)) && (v.undefined || bytes.Equal(res.Out, v.out[:res.Total])):
		violate("close-nil:short-read", "Close() == nil after only %d of the %d declared bytes had been read", res.Total, len(v.out))
	case res.Total != int64(len(v.out)) || !bytes.Equal(res.Out, v.out):
		violate("close-nil:bytes-differ", "Close() == nil but the %d bytes read are not the canonical decoding (%d bytes)", res.Total, len(v.out))
	default:
		c.o.Count("close_success_confirmed_by_reference", 1)
	}
}

// one runs in under one rotating (source, buffer) combination and, for every sixth input, once
// more with an early Close.
func (c *ctx) one(what string, in []byte, crc bool) {
	v := refVerdict(in, crc)
	j := c.j
	c.j++
	src := lzwork.Sources[j%uint64(len(lzwork.Sources))]
	rp := bufPlans[(j/5)%5]
	if j%7 == 5 {
		// the stream is taken the way io.Copy takes it (from the start, or after a few Read calls, or behind a bufio.Reader)
		rp = copyPlans[(j/7)%2]
	}
	rp.Seed = c.seed + int64(j)
	c.exec(what, in, crc, v, src, rp, -1)
	if j%6 == 0 {
		n := int64(len(v.out))
		stop := []int64{0, 1, n / 2, n - 1, n, max(v.declared, 0) - 1}[(j/6)%6]
		if stop >= 0 {
			c.exec(what+"+early-close", in, crc, v, lzwork.Sources[(j/6)%uint64(len(lzwork.Sources))], bufPlans[(j/30)%5], stop)
		}
	}
}

// all runs in under every source x buffer combination (regression inputs).
func (c *ctx) all(what string, in []byte, crc bool) {
	v := refVerdict(in, crc)
	for _, src := range lzwork.Sources {
		for _, rp := range append(append([]lzwork.ReadPlan{}, bufPlans...), copyPlans...) {
			rp.Seed = c.seed + 7
			c.exec(what, in, crc, v, src, rp, -1)
		}
	}
	n := int64(len(v.out))
	for _, stop := range []int64{0, 1, n / 2, n - 1, n} {
		if stop >= 0 {
			c.exec(what+"+early-close", in, crc, v, lzwork.Sources[int(stop)%len(lzwork.Sources)], bufPlans[int(stop/5)%5], stop)
		}
	}
}

// ---------------------------------------------------------------------------------------------
// stream surgery (built with the reference encoder only)

// stream builds the canonical stream of in for the header mode.
func stream(in []byte, crc bool) []byte {
	if crc {
		return lzref.EncodeB2(in)
	}
	return lzref.Encode(in)
}

// fixCRC recomputes the B2 checksum in place (no-op for raw streams or too short ones).
func fixCRC(s []byte, crc bool) []byte {
	if crc && len(s) >= 2 {
		binary.LittleEndian.PutUint16(s, lzref.CRC(s[2:]))
	}
	return s
}

func clone(s []byte) []byte { return append([]byte(nil), s...) }

// withSize returns a copy of s with the size field replaced (and the CRC recomputed if asked).
func withSize(s []byte, crc bool, size int64, refix bool) []byte {
	t := clone(s)
	off := 0
	if crc {
		off = 2
	}
	binary.LittleEndian.PutUint32(t[off:], uint32(int32(size)))
	if refix {
		fixCRC(t, crc)
	}
	return t
}

// lastLen returns the length of the final symbol of a valid raw stream (1 = literal, 0 = empty).
func lastLen(s []byte, crc bool) int {
	raw := s
	if crc {
		raw = s[2:]
	}
	_, _, st, err := lzref.DecodeStats(raw)
	if err != nil {
		return 0
	}
	return st.LastLen
}

// positions returns the offsets to mutate: all of [0,n) up to 400, else a stride plus both ends.
func positions(n int) []int {
	var out []int
	if n <= 400 {
		for i := 0; i < n; i++ {
			out = append(out, i)
		}
		return out
	}
	step := n/400 + 1
	for i := 0; i < n; i++ {
		if i < 12 || i >= n-12 || i%step == 0 {
			out = append(out, i)
		}
	}
	return out
}

// ---------------------------------------------------------------------------------------------
// workloads

// baseSpecs: the inputs whose canonical streams are mutated. The first ones are fixed; the rest PRNG.
func baseSpecs(seed int64, n int) []lzwork.Spec {
	out := []lzwork.Spec{
		{Fam: "text", Size: 200, Seed: 1}, {Fam: "text", Size: 0, Seed: 1}, {Fam: "text", Size: 1, Seed: 1}, {Fam: "text", Size: 3, Seed: 1},
		{Fam: "onebyte", Size: 100, P: 'a', Seed: 1}, {Fam: "onebyte", Size: 61, P: ' ', Seed: 1}, {Fam: "dict", Size: 150, P: 6, Seed: 1},
		{Fam: "runs", Size: 180, P: 70, Seed: 1}, {Fam: "random", Size: 64, Seed: 1}, {Fam: "period", Size: 130, P: 50, Seed: 1},
		{Fam: "lowent", Size: 300, P: 3, Seed: 1}, {Fam: "text", Size: 2500, Seed: 1}, {Fam: "spaces", Size: 90, P: 40, Seed: 1},
		{Fam: "period", Size: 5000, P: 2047, Seed: 1},
	}
	r := vrt.Rand(seed, "c08-bases")
	for len(out) < n {
		s := lzwork.Spec{Seed: r.Int63(), Fam: vrt.Pick(r, []string{"text", "text", "dict", "lowent", "runs", "random", "onebyte", "spaces", "period", "mixed"})}
		switch x := r.Intn(20); {
		case x < 14:
			s.Size = r.Intn(400)
		case x < 19:
			s.Size = r.Intn(1500)
		default:
			s.Size = r.Intn(9000)
		}
		switch s.Fam {
		case "lowent":
			s.P = 2 + r.Intn(5)
		case "onebyte":
			s.P = r.Intn(256)
		case "runs":
			s.P = vrt.Pick(r, []int{5, 59, 60, 61, 130})
		case "period":
			s.P = vrt.Pick(r, []int{1, 2, 3, 7, 59, 60, 61, 100, 2047, 2048, 1 + r.Intn(300)})
		case "dict":
			s.P = vrt.Pick(r, []int{3, 8, 30})
		case "spaces":
			s.P = r.Intn(100)
		}
		out = append(out, s)
	}
	return out[:n]
}

func (c *ctx) mutate(idx int, specs []lzwork.Spec, mode string) {
	sp := specs[idx]
	in := sp.Bytes()
	other := specs[(idx+1)%len(specs)].Bytes()
	r := vrt.Rand(c.seed, "c08-mutate", idx)
	n := int64(len(in))
	for _, crc := range []bool{mode == "b2"} {
		s := stream(in, crc)
		name := sp.String()
		c.o.Count("base_streams", 1)
		c.o.Count("base_stream_bytes", int64(len(s)))
		hdr := 4
		if crc {
			hdr = 6
		}
		// the untouched stream, under every combination
		c.all(name+":valid", s, crc)
		// the same valid stream from a source that fails ONCE (a transient error at byte k) and then carries
		// on: whatever the Reader makes of it, success from Close still means the canonical bytes were read
		// (the bit reader's error is sticky: a swallowed error must not turn into silently wrong data)
		vv := refVerdict(s, crc)
		for j := 0; j < 16 && len(s) > 8; j++ {
			k := 1 + (j*(len(s)-2))/16 + j%3
			rp := bufPlans[j%len(bufPlans)]
			rp.Seed = c.seed + int64(j)
			c.exec(fmt.Sprintf("%s:transient-source-error@%d", name, k), s, crc, vv, lzwork.Source{Kind: "transient", K: k}, rp, -1)
			c.o.Count("transient_source_error_runs", 1)
		}
		// (a) truncations
		for _, k := range positions(len(s)) {
			c.one(fmt.Sprintf("%s:truncated-to-%d", name, k), s[:k], crc)
		}
		// (b) single-bit flips, checksum left alone; (c) the same with the checksum recomputed
		for _, i := range positions(len(s)) {
			for bit := 0; bit < 8; bit++ {
				t := clone(s)
				t[i] ^= 1 << bit
				c.one(fmt.Sprintf("%s:bitflip-%d.%d", name, i, bit), t, crc)
				if crc && i >= 2 {
					c.one(fmt.Sprintf("%s:bitflip-%d.%d+crc", name, i, bit), fixCRC(clone(t), true), crc)
				}
			}
		}
		// (d) header edits
		seen := map[int64]bool{n: true}
		for _, sz := range []int64{-1, -2, -60, math.MinInt32, 0, n - 1, n + 1, n + 2, n + 59, n + 60, n + 61, n + 4096, math.MaxInt32, math.MaxInt32 - 1} {
			if seen[sz] {
				continue
			}
			seen[sz] = true
			c.all(fmt.Sprintf("%s:size=%d+crc", name, sz), withSize(s, crc, sz, true), crc)
			if crc {
				c.one(fmt.Sprintf("%s:size=%d", name, sz), withSize(s, crc, sz, false), crc)
			}
		}
		if crc {
			for _, d := range []uint16{1, 0xffff, 0x100, 0x8000} {
				t := clone(s)
				binary.LittleEndian.PutUint16(t, binary.LittleEndian.Uint16(t)+d)
				c.all(fmt.Sprintf("%s:crc+%#x", name, d), t, crc)
			}
			t := clone(s)
			t[0], t[1] = t[1], t[0]
			c.one(name+":crc-bytes-swapped", t, crc)
			// distinguished values of the CRC field (a zero or all-ones field must not mean "no checksum"),
			// alone and together with damage to the body
			for _, v := range []uint16{0x0000, 0xffff, 0x0001, 0x8000} {
				t := clone(s)
				binary.LittleEndian.PutUint16(t, v)
				c.all(fmt.Sprintf("%s:crc=%#04x", name, v), t, crc)
				for k := 0; k < 6 && len(t) > 7; k++ {
					u := clone(t)
					i := 6 + (k*7919+int(v))%(len(u)-6)
					u[i] ^= 1 << uint(k%8)
					c.one(fmt.Sprintf("%s:crc=%#04x+bitflip@%d", name, v, i), u, crc)
				}
			}
		}
		// (e) crafted overruns: the final symbol is a match of length L, lower the size by 1..L-1
		if L := lastLen(s, crc); L >= 3 {
			c.o.Count("base_streams_ending_in_match", 1)
			for d := 1; d < L; d++ {
				c.one(fmt.Sprintf("%s:overrun-by-%d-of-%d", name, d, L), withSize(s, crc, n-int64(d), true), crc)
				c.o.Count("crafted_overruns", 1)
			}
		}
		// (f) bytes after the end of the data
		for _, g := range [][]byte{{0}, {0xff}, {0, 0}, vrt.Bytes(r, 10), vrt.Bytes(r, 5000)} {
			t := append(clone(s), g...)
			c.one(fmt.Sprintf("%s:trailing-%d", name, len(g)), t, crc)
			if crc {
				c.one(fmt.Sprintf("%s:trailing-%d+crc", name, len(g)), fixCRC(clone(t), true), crc)
			}
		}
		// (g) splices with the next base stream; (h) insertions and deletions
		o := stream(other, crc)
		for k := 0; k < 8; k++ {
			a, b := r.Intn(len(s)+1), r.Intn(len(o)+1)
			t := append(clone(s[:a]), o[b:]...)
			c.one(fmt.Sprintf("%s:splice-%d-with-%d", name, a, b), t, crc)
			c.one(fmt.Sprintf("%s:splice-%d-with-%d+crc", name, a, b), fixCRC(clone(t), crc), crc)
			if len(s) > hdr {
				p := hdr + r.Intn(len(s)-hdr)
				del := append(clone(s[:p]), s[p+1:]...)
				c.one(fmt.Sprintf("%s:delete-%d+crc", name, p), fixCRC(del, crc), crc)
				ins := append(append(clone(s[:p]), byte(r.Intn(256))), s[p:]...)
				c.one(fmt.Sprintf("%s:insert-%d+crc", name, p), fixCRC(ins, crc), crc)
			}
		}
	}
	c.o.Sample = map[string]any{"kind": "mutate", "header_mode": mode, "base_input": sp.String(), "base_input_bytes": len(in), "mutations": []string{"valid", "truncated-to-k", "bitflip-i.b", "bitflip+crc", "size=x", "crc+d", "overrun-by-d-of-L", "trailing-n", "splice", "delete", "insert"}}
}

func (c *ctx) regress() {
	r := vrt.Rand(99, "c08-regress") // independent of VERIF_SEED on purpose
	x := vrt.Bytes(r, 100)
	txt := lzwork.Spec{Fam: "text", Size: 300, Seed: 5}.Bytes()
	for _, crc := range []bool{true, false} {
		// negative declared sizes on a valid body, on an empty body and on a bare header
		for _, in := range [][]byte{txt, x, nil} {
			s := stream(in, crc)
			for _, sz := range []int64{-1, -2, -59, -60, -61, -4096, math.MinInt32, math.MinInt32 + 1} {
				c.all(fmt.Sprintf("negative-size:%d-on-%d-byte-input", sz, len(in)), withSize(s, crc, sz, true), crc)
			}
		}
		// final match of length L overrunning the declared size by every depth
		for _, L := range []int{3, 4, 10, 59, 60} {
			in := append(clone(x), x[:L]...)
			s := stream(in, crc)
			if got := lastLen(s, crc); got != L {
				c.o.Count("regress_overrun_base_without_expected_final_match", 1)
				continue
			}
			for d := 1; d < L; d++ {
				c.all(fmt.Sprintf("overrun:final-match-%d-size-lowered-by-%d", L, d), withSize(s, crc, int64(len(in)-d), true), crc)
				c.o.Count("crafted_overruns", 1)
			}
		}
		// a run: every symbol after the first is a match of length 60; sizes that cut into the last one
		run := bytes.Repeat([]byte{'z'}, 1+60*3)
		s := stream(run, crc)
		for d := 1; d < 60; d += 7 {
			c.all(fmt.Sprintf("overrun:run-size-lowered-by-%d", d), withSize(s, crc, int64(len(run)-d), true), crc)
		}
		// too-large sizes (stream ends early), zero size with a body, and short headers
		for _, sz := range []int64{0, 1, 299, 301, 359, 360, 361, 1 << 20, math.MaxInt32} {
			c.all(fmt.Sprintf("size:%d-on-300-byte-input", sz), withSize(stream(txt, crc), crc, sz, true), crc)
		}
		full := stream(txt, crc)
		for k := 0; k <= 8; k++ {
			c.all(fmt.Sprintf("short-stream:%d-bytes", k), full[:k], crc)
		}
		// valid streams that no canonical encoder emits: a match into the space pre-fill at every kind of
		// distance, as the first symbol and after k literals (the decoded bytes are defined: spaces)
		for _, L := range []int{3, 60} {
			for _, pos := range []int{0, 1, 59, 60, 61, 565, 566, 1000, 1421, 1422, 1423, 1450, 1481, 1482, 1483, 1927, 1928, 1987 - L, 1987} {
				c.all(fmt.Sprintf("prefill-match:first-symbol-len-%d-pos-%d", L, pos), symStream(crc, int32(L), []lzref.Sym{{Len: L, Pos: pos}}), crc)
			}
		}
		for _, k := range []int{1, 59, 60, 100, 505, 506, 565, 566, 567, 625, 626, 700} {
			var syms []lzref.Sym
			for i := 0; i < k; i++ {
				syms = append(syms, lzref.Sym{Lit: byte('A' + i%26)})
			}
			for _, d := range []int{0, 1, 1000, 1422, 1481, 1482, 1900} {
				if pos := k + d; pos+60 < 2048 {
					c.all(fmt.Sprintf("prefill-match:after-%d-literals-pos-%d", k, pos), symStream(crc, int32(k+60), append(syms[:k:k], lzref.Sym{Len: 60, Pos: pos})), crc)
				}
			}
		}
		c.all("all-zero-64", make([]byte, 64), crc)
		c.all("all-ff-64", bytes.Repeat([]byte{0xff}, 64), crc)
	}
	c.o.Sample = map[string]any{"kind": "regress", "inputs": []string{"negative sizes (-1, -2, -59..-61, -4096, -2^31) on 300-, 100- and 0-byte inputs",
		"final match of length 3, 4, 10, 59, 60 with the size lowered by 1..L-1 (CRC recomputed)", "size 0/1/n-1/n+1/n+59..61/2^20/2^31-1", "streams of 0..8 bytes", "64 zero / 0xff bytes",
		"symbol-level streams: one match of length 3/60 into the space pre-fill at positions 0..1987 as first symbol and after 1..700 literals"},
		"combinations": "5 source readers x 5 buffer plans x {b2, raw} + early Close"}
}

func (c *ctx) random(idx int) {
	r := vrt.Rand(c.seed, "c08-random", idx)
	for k := 0; k < 400; k++ {
		crc := r.Intn(2) == 0
		var n int
		switch r.Intn(4) {
		case 0:
			n = r.Intn(12)
		case 1:
			n = r.Intn(200)
		default:
			n = r.Intn(4097)
		}
		b := vrt.Bytes(r, n)
		what := fmt.Sprintf("random-bytes:%d", n)
		switch r.Intn(3) {
		case 1: // plausible header: small positive size (so that decoding runs into the size limit), CRC as drawn
			if hdr := map[bool]int{true: 6, false: 4}[crc]; n >= hdr {
				sz := int64(r.Intn(3000))
				b = withSize(b, crc, sz, false)
				what = fmt.Sprintf("random-body:%d-size-%d", n, sz)
			}
		case 2: // plausible header and matching CRC: the verdict rests on the decoder alone
			if hdr := map[bool]int{true: 6, false: 4}[crc]; n >= hdr {
				sz := int64(r.Intn(40000))
				b = withSize(b, crc, sz, true)
				what = fmt.Sprintf("random-body:%d-size-%d+crc", n, sz)
			}
		}
		c.one(what, b, crc)
	}
	c.o.Sample = map[string]any{"kind": "random", "inputs": 400, "lengths": "0..4096", "headers": "as drawn | small size | small size + matching CRC"}
}

func symStream(crc bool, size int32, syms []lzref.Sym) []byte {
	if crc {
		return lzref.EncodeSymsB2(size, syms)
	}
	return lzref.EncodeSyms(size, syms)
}

// syms: streams assembled symbol by symbol with the reference's adaptive Huffman coder: arbitrary
// match positions and lengths (overlaps, references into the space pre-fill at any distance), i.e.
// streams a canonical decoder accepts but the canonical encoder never produces; with the true size,
// and with sizes that make the last symbol overrun or the stream end early. The CRC always matches,
// so the Close verdict rests on the decoder.
func (c *ctx) syms(idx int) {
	r := vrt.Rand(c.seed, "c08-syms", idx)
	for k := 0; k < 300; k++ {
		crc := r.Intn(2) == 0
		ns := 1 + r.Intn(vrt.Pick(r, []int{3, 20, 200}))
		var syms []lzref.Sym
		total := 0
		for i := 0; i < ns; i++ {
			if r.Intn(2) == 0 {
				syms = append(syms, lzref.Sym{Lit: byte(r.Intn(256))})
				total++
				continue
			}
			L := vrt.Pick(r, []int{3, 4, 59, 60, 3 + r.Intn(58)})
			var pos int
			switch r.Intn(5) {
			case 0:
				pos = r.Intn(2048)
			case 1:
				pos = r.Intn(8) // overlapping copies
			case 2:
				pos = min(2047, total+r.Intn(4)) // just behind the first data byte
			case 3:
				pos = 1400 + r.Intn(120)
			default:
				pos = min(2047, total+r.Intn(2048-min(total, 2047)))
			}
			syms = append(syms, lzref.Sym{Len: L, Pos: pos})
			total += L
		}
		size := int64(total)
		what := fmt.Sprintf("symbol-stream:%d-symbols-%d-bytes", ns, total)
		switch r.Intn(6) {
		case 0:
			size -= int64(1 + r.Intn(60))
			what += fmt.Sprintf("-size%+d", size-int64(total))
		case 1:
			size += int64(1 + r.Intn(60))
			what += fmt.Sprintf("-size%+d", size-int64(total))
		}
		s := symStream(crc, int32(size), syms)
		if r.Intn(8) == 0 {
			s = fixCRC(append(s, vrt.Bytes(r, 1+r.Intn(4))...), crc)
			what += "-trailing"
		}
		c.one(what, s, crc)
	}
	c.o.Sample = map[string]any{"kind": "syms", "streams": 300, "symbols_per_stream": "1..200", "sizes": "true total | lowered by 1..60 | raised by 1..60", "crc": "always matching"}
}

func run(cs vrt.Case) vrt.Obs {
	var p params
	vrt.Params(cs, &p)
	var o vrt.Obs
	c := &ctx{o: &o, seed: p.Seed}
	switch p.Kind {
	case "regress":
		c.regress()
	case "mutate":
		specs := baseSpecs(p.Seed, p.N)
		for i := p.Lo; i < p.Hi; i++ {
			c.j = uint64(i)*7 + uint64(len(p.Mode))
			c.mutate(i, specs, p.Mode)
		}
	case "random":
		c.j = uint64(p.Lo) * 3
		c.random(p.Lo)
	case "syms":
		c.j = uint64(p.Lo) * 11
		c.syms(p.Lo)
	case "bounded":
		c.bounded(p.Lo, baseSpecs(p.Seed, max(p.N, 20)))
	default:
		panic("c08: unknown case kind " + p.Kind)
	}
	if m, ok := o.Sample.(map[string]any); ok && c.example != nil {
		m["example_execution"] = c.example
	}
	return o
}

// bounded: valid streams whose size field was raised (and a few other header edits), each copied with io.Copy
// into a bytes.Buffer by a child process whose address space is limited to its size at start + 1 GiB (see
// lzwork.RunCopyBatch). Every stream must come to an end in the child: end-of-stream or an error. A child that dies
// inside a stream (the runtime's "out of memory" is not a panic that anything could recover) refutes "terminates ...
// without panicking" for that input in an environment users have.
func (c *ctx) bounded(idx int, specs []lzwork.Spec) {
	const headroomMiB = 1024
	var batch lzwork.CopyBatch
	batch.HeadroomMiB = headroomMiB
	var names []string
	r := vrt.Rand(c.seed, "c08-bounded", idx)
	for k := 0; k < 6; k++ {
		sp := specs[(idx*6+k)%len(specs)]
		in := sp.Bytes()
		for _, crc := range []bool{true, false} {
			s := stream(in, crc)
			n := int64(len(in))
			sizes := []int64{n, n + 1, n + 60, 65536, 1 << 20, 1 << 24, 1 << 28, 1<<30 - 1, 1 << 30, 1<<31 - 1, -1, -(1 << 31), int64(r.Int31()), int64(r.Int31())}
			for _, sz := range sizes {
				for _, refix := range []bool{true, false} {
					if !crc && !refix {
						continue
					}
					batch.Streams = append(batch.Streams, withSize(s, crc, sz, refix))
					batch.CRC = append(batch.CRC, crc)
					names = append(names, fmt.Sprintf("%s:size=%d(refix=%v) [%s]", sp.String(), sz, refix, modeName(crc)))
				}
			}
		}
	}
	run, err := lzwork.RunCopyBatch(batch)
	if err != nil || !run.LimitSet {
		c.o.Inconclusive = append(c.o.Inconclusive, fmt.Sprintf("bounded-%d: the address-space-limited child could not be used (err=%v, limit set=%v)", idx, err, run.LimitSet))
		return
	}
	c.o.Count("bounded_children_run", 1)
	for i, oc := range run.Outcomes {
		if !oc.Begun {
			continue // the child died before it got here: the stream that killed it is reported below
		}
		c.o.Evals++
		c.o.Count("bounded_streams_copied_under_address_space_limit", 1)
		det := map[string]any{"input": names[i], "stream_hex": lzwork.Hex(batch.Streams[i], 600), "address_space_limit": fmt.Sprintf("size at start + %d MiB", headroomMiB),
			"child_exit_code": run.ExitCode, "child_signal": run.Signal, "child_stderr": run.Stderr}
		switch {
		case !oc.Ended:
			c.add(vrt.Violation{Key: "process-death:copy-under-address-space-limit", Detail: det,
				Desc: fmt.Sprintf("%s (%d bytes): the process copying this stream with io.Copy into a bytes.Buffer died inside it (exit %d %s): %s", names[i], len(batch.Streams[i]), run.ExitCode, run.Signal, strings.SplitN(run.Stderr, "\n", 2)[0])})
		case oc.Panic != "":
			c.add(vrt.Violation{Key: "panic:copy-under-address-space-limit", Detail: det, Desc: fmt.Sprintf("%s: io.Copy from the Reader panicked: %s", names[i], oc.Panic)})
		default:
			v := refVerdict(batch.Streams[i], batch.CRC[i])
			if oc.N > max(v.declared, 0) {
				c.add(vrt.Violation{Key: "more-than-declared:copy", Detail: det, Desc: fmt.Sprintf("%s: io.Copy yielded %d bytes, the header declares %d", names[i], oc.N, v.declared)})
			}
			if oc.Close == "<nil>" && (!(v.class == "exact" || v.class == "exact+trailing") || v.class == "exact" && batch.CRC[i] && !v.crcOK) {
				c.add(vrt.Violation{Key: "close-success:copy:" + v.class, Detail: det, Desc: fmt.Sprintf("%s: Close returned nil after io.Copy although the reference classifies the stream as %s", names[i], v.class)})
			}
			c.o.Sig("bounded %s", names[i])
		}
	}
	if c.o.Sample == nil {
		c.o.Sample = map[string]any{"kind": "bounded", "streams_in_child": len(batch.Streams), "address_space_limit": fmt.Sprintf("size at start + %d MiB", headroomMiB), "first": names[0]}
	}
}

var dirtyOnce [][]byte

// dirtyStreams are two valid, unrelated B2 streams whose first 60 decoded bytes are distinctive.
func dirtyStreams() [][]byte {
	if dirtyOnce == nil {
		dirtyOnce = [][]byte{
			lzref.EncodeB2(bytes.Repeat([]byte("PREVIOUS-MESSAGE-ONE/0123456789/"), 12)),
			lzref.EncodeB2(bytes.Repeat([]byte("another earlier message: ZYXWVUTSRQ "), 9)),
		}
	}
	return dirtyOnce
}
