// Package c07: LZHUF streams interoperate with the canonical FBB/Winlink codec.
// Oracle: verif/internal/ref/lzref, an independent port of the 1988 LZHUF.C with the FBB parameters
// that reproduces the repository's five golden .lzh files byte for byte (self-tested at every start).
// The verdict is decodability in both directions plus the header layout, never byte equality of the
// two encoders (the library's encoder legitimately differs for some inputs).
package c07

import (
	"bytes"
	"encoding/binary"
	"errors"
	"fmt"
	"hash/fnv"
	"io"
	"strings"

	"verif/internal/lzwork"
	"verif/internal/ref/lzref"
	"verif/internal/vrt"
)

type params struct {
	Kind  string        `json:"kind"` // short | long | golden
	Range *lzwork.Range `json:"range,omitempty"`
	Lo    int           `json:"lo,omitempty"`
	Hi    int           `json:"hi,omitempty"`
	N     int           `json:"n,omitempty"`
	Full  bool          `json:"full,omitempty"`
	Seed  int64         `json:"seed"`
}

var Check = &vrt.Check{
	ID:    "C07",
	Level: "exploration",
	Rule: "inputs: every string over {a,b} and {space,a,b} up to a bound, the generated long families of C06 (random, low entropy, runs, periods around " +
		"60/1988/2048/4096 and beyond the window, > 33k literals, > 33k matches, English text, mixed) and the golden corpus; each in both header modes and " +
		"both directions (library Writer -> reference decoder + header layout; reference encoder -> library Reader under rotating source readers and " +
		"read-buffer plans). An execution is non-trivial when a non-empty input crossed between the two codecs and was compared; distinct = distinct " +
		"(direction, header mode, input) triples (at most 4096 signatures per batch are kept)",
	Assumptions: []string{
		"the reference codec is canonical: it is validated against the five golden .lzh files (encoder byte-identical, decoder exact) before every run",
		"byte equality between the library's and the canonical encoder's output is not demanded (only counted)",
	},
	SelfTest:   lzref.SelfTest,
	Plan:       plan,
	Run:        run,
	Exhaustive: func(string) bool { return false },
	// "is decompressed correctly" needs the codec calls to return: a case (normally < 5 s) that does
	// not return within its watchdog in three isolated attempts is reported as a violation.
	HangIsViolation: true,
	HangKey:         func(c vrt.Case) string { return strings.SplitN(c.ID, "-", 2)[0] },
	MinNontrivial:   5000,
	Extra: func(tier string) map[string]any {
		ab, sab := 14, 9
		if tier == "thorough" {
			ab, sab = 18, 12
		}
		return map[string]any{"exhaustive_subspaces": []string{
			fmt.Sprintf("all strings over {a,b} of length 0..%d, both directions, both header modes", ab),
			fmt.Sprintf("all strings over {space,a,b} of length 0..%d, both directions, both header modes", sab),
		}}
	},
}

const batch = 1000

func plan(seed int64, tier string) []vrt.Case {
	var cs []vrt.Case
	ab, sab, nLong, nRebuild, timeout := 14, 9, 150, 320, 240
	if tier == "thorough" {
		ab, sab, nLong, nRebuild, timeout = 18, 12, 5800, 8000, 600
	}
	add := func(id string, p params) {
		p.Seed = seed
		cs = append(cs, vrt.Case{ID: id, Params: vrt.MustParams(p), TimeoutS: timeout})
	}
	for _, ch := range lzwork.LongChunks(nLong) {
		add(fmt.Sprintf("long-%d-%d", ch[0], ch[1]), params{Kind: "long", Lo: ch[0], Hi: ch[1], N: nLong})
	}
	for lo := 0; lo < nRebuild; lo += 10 {
		add(fmt.Sprintf("rebuild-%d", lo), params{Kind: "rebuild", Lo: lo, Hi: min(lo+10, nRebuild), N: nRebuild})
	}
	nAlign := len(lzwork.AlignSpecs(tier == "thorough"))
	for lo := 0; lo < nAlign; lo += 400 {
		add(fmt.Sprintf("align-%d", lo), params{Kind: "align", Lo: lo, Hi: min(lo+400, nAlign), N: nAlign, Full: tier == "thorough"})
	}
	nConc := 6
	if tier == "thorough" {
		nConc = 160
	}
	for i := 0; i < nConc; i++ {
		add(fmt.Sprintf("concurrent-%d", i), params{Kind: "concurrent", Lo: i, N: 30})
		add(fmt.Sprintf("interleave-%d", i), params{Kind: "interleave", Lo: i, N: 25})
	}
	add("golden", params{Kind: "golden"})
	rangeID := func(r lzwork.Range) string {
		return fmt.Sprintf("short-%s-p%d-n%d-%d", strings.ReplaceAll(r.Alpha, " ", "S"), len(r.Prefix), r.Len, r.Lo)
	}
	for _, r := range lzwork.ShortRanges("ab", ab, batch, "") {
		add(rangeID(r), params{Kind: "short", Range: &r})
	}
	for _, r := range lzwork.ShortRanges(" ab", sab, batch, "") {
		add(rangeID(r), params{Kind: "short", Range: &r})
	}
	// tails crossing the 60-byte look-ahead fill
	const t = "the quick brown fox jumps over the lazy dog and the quick cat naps"
	for _, pl := range []int{55, 58, 59, 60} {
		for _, r := range lzwork.ShortRanges(" ab", 6, batch, t[:pl]) {
			if r.Len >= 4 {
				add(rangeID(r), params{Kind: "short", Range: &r})
			}
		}
	}
	return lzwork.LeadWithOneOfEach(cs, func(c vrt.Case) string { return strings.SplitN(c.ID, "-", 2)[0] })
}

func hashOf(b []byte) uint64 {
	h := fnv.New64a()
	h.Write(b)
	return h.Sum64()
}

func modeName(crc bool) string {
	if crc {
		return "b2"
	}
	return "raw"
}

type ctx struct {
	o     *vrt.Obs
	seed  int64
	calls int
}

const maxViolationsPerCase = 40

func (c *ctx) violate(key string, detail map[string]any, format string, a ...any) {
	if len(c.o.Violations) >= maxViolationsPerCase {
		c.o.Count("violations_not_listed_over_cap", 1)
		return
	}
	c.o.Violate(key, format, a...).Detail = detail
}

func (c *ctx) panicked(v *vrt.Violation, det map[string]any) {
	w := *v
	w.Detail = map[string]any{"stack": v.Detail, "case": det}
	if len(c.o.Violations) < maxViolationsPerCase {
		c.o.Violations = append(c.o.Violations, w)
	}
}

func firstDiff(a, b []byte) int {
	n := min(len(a), len(b))
	for i := 0; i < n; i++ {
		if a[i] != b[i] {
			return i
		}
	}
	return n
}

func refClass(err error) string {
	switch {
	case err == nil:
		return "exact"
	case errors.Is(err, lzref.ErrTrunc):
		return "truncated"
	case errors.Is(err, lzref.ErrOverrun):
		return "overrun"
	case errors.Is(err, lzref.ErrSize):
		return "bad-size"
	case errors.Is(err, lzref.ErrCRC):
		return "crc-mismatch"
	}
	return "error"
}

// libToRef: the library compresses, the header is checked against the canonical layout and the
// reference decoder must return the input exactly.
func (c *ctx) libToRef(what string, in []byte, crc bool, parts []int, stats bool) (stream []byte) {
	if c.o.Poisoned {
		return nil // a spinning call is still burning CPU in this process: the case is over
	}
	c.o.Evals++
	m := modeName(crc)
	det := func(stream []byte) map[string]any {
		return map[string]any{"direction": "library->reference", "input": what, "input_hex": lzwork.Hex(in, 200), "stream_hex": lzwork.Hex(stream, 200), "mode": m}
	}
	c.calls++
	if c.calls%200 == 17 {
		// now and then a transfer of this process fails (destination drops after a few kB): what it leaves
		// behind must not leak into the next stream
		junk := lzwork.Spec{Fam: "random", Size: 9000 + 500*(c.calls%7), Seed: int64(c.calls)}.Bytes()
		if pv := lzwork.CompressToFailingDestination(junk, c.calls%400 == 17, []int{0, 100, 4096, 5000, 8191}[(c.calls/200)%5]); pv != nil {
			c.panicked(pv, det(nil))
		}
		c.o.Count("failed_transfers_interleaved", 1)
	}
	res := lzwork.Compress(in, crc, parts)
	switch {
	case res.Spun:
		c.o.Poisoned = true
		c.violate("no-termination:cpu-spin", det(nil), "%s: compression (Writes and Close) burnt %v of CPU time without returning: a call spins", what, lzwork.SpinCPU)
		return nil
	case res.Abandoned:
		c.o.Poisoned = true
		c.o.Inconclusive = append(c.o.Inconclusive, what+": compression neither returned nor used CPU within "+lzwork.SpinWall.String())
		return nil
	case res.Panic != nil:
		c.panicked(res.Panic, det(nil))
		return nil
	case !res.OK():
		c.violate("compress-failed:"+m, det(nil), "%s: library Writer failed: %s %v", what, res.WriteErr, res.CloseErr)
		return nil
	}
	s := res.Out
	hdr := 4
	if crc {
		hdr = 6
	}
	if len(s) < hdr {
		c.violate("header-short:"+m, det(s), "%s: stream of %d bytes is shorter than its %d-byte header", what, len(s), hdr)
		return nil
	}
	raw := s
	if crc {
		raw = s[2:]
		// canonical B2 header: little-endian CRC-16/XMODEM over (size || data)
		if got, want := binary.LittleEndian.Uint16(s), lzref.CRC(raw); got != want {
			d := det(s)
			alt := "no"
			switch got {
			case lzref.CRC(raw[4:]):
				alt = "CRC of the data without the size field"
			case want<<8 | want>>8:
				alt = "the right CRC in big-endian byte order"
			}
			d["matches_other_layout"] = alt
			c.violate("header-crc", d, "%s: first two bytes %04x (LE) are not CRC-16/XMODEM(size||data) = %04x (other layout: %s)", what, got, want, alt)
		} else {
			c.o.Count("headers_crc_checked", 1)
		}
	}
	if got := int32(binary.LittleEndian.Uint32(raw)); int(got) != len(in) {
		c.violate("header-size:"+m, det(s), "%s: size field % x is not the little-endian 32-bit input length %d", what, raw[:4], len(in))
	} else {
		c.o.Count("headers_size_checked", 1)
	}
	var (
		out  []byte
		used int
		err  error
		st   lzref.Stats
	)
	if stats {
		out, used, st, err = lzref.DecodeStats(raw)
	} else {
		out, used, err = lzref.Decode(raw)
	}
	if err != nil {
		d := det(s)
		d["reference_decoded_bytes"] = len(out)
		d["first_difference_at"] = firstDiff(out, in)
		c.violate("ref-decode-failed:"+m+":"+refClass(err), d, "%s: the canonical decoder rejects the library's stream: %v after %d of %d bytes (first difference to the input at %d)",
			what, err, len(out), len(in), firstDiff(out, in))
		return nil
	}
	if !bytes.Equal(out, in) {
		d := det(s)
		d["first_difference_at"] = firstDiff(out, in)
		c.violate("ref-decode-mismatch:"+m, d, "%s: the canonical decoder reads the library's stream as different data (first difference at %d of %d)", what, firstDiff(out, in), len(in))
		return nil
	}
	c.o.Count("lib_streams_decoded_by_reference", 1)
	c.o.Count("bytes_compared", int64(len(in)))
	if used != len(raw) {
		c.o.Count("lib_streams_with_bytes_after_end_of_data", 1)
	}
	if stats {
		c.o.Count("symbols_literal", int64(st.Literals))
		c.o.Count("symbols_match", int64(st.Matches))
		c.o.Count("adaptive_tree_rebuilds", int64(st.Rebuilds))
		if st.Rebuilds > 0 {
			c.o.Count("inputs_with_tree_rebuild", 1)
		}
		for i, n := range st.PosHi {
			if n > 0 {
				c.o.Count(fmt.Sprintf("matches_with_position_code_%02d", i), int64(n))
			}
		}
		c.o.Count("matches_of_length_03", int64(st.Len[3]))
		c.o.Count("matches_of_length_60", int64(st.Len[60]))
	}
	if len(in) > 0 {
		c.o.Sig("l2r|%s|%d|%x", m, len(in), hashOf(in))
	}
	return s
}

// refToLib: the canonical encoder compresses, the library must decode exactly and Close() == nil.
func (c *ctx) refToLib(what string, in, stream []byte, crc bool, src lzwork.Source, rp lzwork.ReadPlan) {
	if c.o.Poisoned {
		return
	}
	c.o.Evals++
	m := modeName(crc)
	res := lzwork.Decompress(stream, crc, src, rp, lzwork.Limits{StopAfter: -1, Keep: len(in) + 256, MaxBytes: int64(len(in)) + 4096})
	if res.Spun || res.Abandoned {
		c.o.Poisoned = true
		if res.Spun {
			c.violate("no-termination:cpu-spin", map[string]any{"direction": "reference->library", "input": what, "input_hex": lzwork.Hex(in, 200), "stream_hex": lzwork.Hex(stream, 200), "mode": m},
				"%s: decompressing a canonical stream burnt %v of CPU time without returning: a call spins", what, lzwork.SpinCPU)
		} else {
			c.o.Inconclusive = append(c.o.Inconclusive, what+": decompression neither returned nor used CPU within "+lzwork.SpinWall.String())
		}
		return
	}
	c.o.Count("read_calls", res.Reads)
	c.o.Count("readplan_"+rp.String(), 1)
	c.o.Count("source_"+src.String(), 1)
	if res.BeyondEndAt >= 0 {
		// a complete, valid stream: everything the Reader needs has been delivered. A source that stays open after the
		// message (TNC link, TCP session) would block in that call and the message would never come out.
		c.violate("reads-beyond-end-of-stream", map[string]any{"input": what, "stream_hex": lzwork.Hex(stream, 200), "mode": m, "source": src, "read_plan": rp},
			"%s: the Reader called its source again after the last byte of a complete stream had been delivered (%d of %d output bytes handed out by then): on a connection that stays open this call blocks", what, res.BeyondEndAt, len(in))
	}
	if res.SourceDamage != "" {
		c.violate("source-memory-modified", map[string]any{"direction": "reference->library", "input": what, "stream_hex": lzwork.Hex(stream, 200), "mode": m, "source": src},
			"%s: decompressing changed the memory the stream was served from (%s source): %s", what, src.String(), res.SourceDamage)
	}
	if res.Panic == nil && res.NewErr == nil && res.BadCount == "" && res.ReadErr == io.EOF && res.CloseErr == nil &&
		res.Total == int64(len(in)) && bytes.Equal(res.Out, in) {
		c.o.Count("canonical_streams_decoded_by_library", 1)
		c.o.Count("bytes_compared", int64(len(in)))
		if res.ClosedTwice {
			c.o.Count("canonical_streams_closed_twice", 1)
			if lzwork.SaysCorrupt(res.Close2Err) {
				c.violate("lib-close-error:second-close", map[string]any{"direction": "reference->library", "input": what, "mode": m, "source": src},
					"%s: canonical stream decoded to the right %d bytes and Close returned nil, a second Close on the same Reader calls the stream corrupt: %v", what, len(in), res.Close2Err)
			}
		}
		if len(in) > 0 {
			c.o.Sig("r2l|%s|%d|%x", m, len(in), hashOf(in))
		}
		return
	}
	det := map[string]any{"direction": "reference->library", "input": what, "input_hex": lzwork.Hex(in, 200), "stream_hex": lzwork.Hex(stream, 200), "mode": m, "read_plan": rp, "source": src}
	switch {
	case res.Panic != nil:
		c.panicked(res.Panic, det)
	case res.NewErr != nil:
		c.violate("lib-newreader-error:"+m, det, "%s: NewReader rejects a canonical stream: %v", what, res.NewErr)
	case res.BadCount != "":
		c.violate("lib-bad-read-count:"+m, det, "%s: %s", what, res.BadCount)
	case res.NoProgress:
		c.violate("lib-read-no-progress:"+m, det, "%s: Read returned (0,nil) 1000 times in a row after %d of %d bytes of a canonical stream", what, res.Total, len(in))
	case res.Total != int64(len(in)) || !bytes.Equal(res.Out, in):
		det["first_difference_at"] = firstDiff(res.Out, in)
		c.violate("lib-output-mismatch:"+m, det, "%s: library decodes a canonical stream to different data (read %d bytes, expected %d, first difference at %d, read error %v)",
			what, res.Total, len(in), firstDiff(res.Out, in), res.ReadErr)
	case res.ReadErr != io.EOF:
		c.violate("lib-read-error:"+m, det, "%s: Read of a canonical stream ended with %v instead of io.EOF", what, res.ReadErr)
	default:
		c.violate("lib-close-error:"+m, det, "%s: canonical stream decoded to the right %d bytes but Reader.Close() = %v", what, len(in), res.CloseErr)
	}
}

func (c *ctx) both(what string, in []byte, j uint64, stats bool, parts []int) {
	c.modes(what, in, j, stats, parts, []bool{true, false})
}

func (c *ctx) modes(what string, in []byte, j uint64, stats bool, parts []int, modes []bool) {
	for mi, crc := range modes {
		lib := c.libToRef(what, in, crc, parts, stats && mi == 0)
		var canon []byte
		if crc {
			canon = lzref.EncodeB2(in)
		} else {
			canon = lzref.Encode(in)
		}
		// is the library's stream the canonical one? (counted, never judged)
		if lib != nil {
			if bytes.Equal(lib, canon) {
				c.o.Count("lib_stream_identical_to_canonical_encoder", 1)
			} else {
				c.o.Count("lib_stream_differs_from_canonical_encoder", 1)
			}
		}
		k := j*2 + uint64(mi)
		c.refToLib(what, in, canon, crc, lzwork.Sources[k%uint64(len(lzwork.Sources))], lzwork.PickReadPlan(k/2+uint64(3*mi), c.seed))
		if len(modes) == 1 {
			// the single-mode families (rebuild, align) are about one moment inside the stream: read them with a
			// large and a tiny buffer as well, so that buffer-size dependent paths all meet that moment
			c.refToLib(what, in, canon, crc, lzwork.Sources[0], lzwork.ReadPlan{Kind: "fixed", K: 4096})
			if len(in) <= 8192 {
				c.refToLib(what, in, canon, crc, lzwork.Sources[(k+1)%uint64(len(lzwork.Sources))], lzwork.ReadPlan{Kind: "fixed", K: 1})
			}
		}
	}
}

// decodesTo: the reference decoder gets want back from stream.
func decodesTo(stream, want []byte, crc bool) bool {
	raw := stream
	if crc {
		if len(raw) < 2 {
			return false
		}
		raw = raw[2:]
	}
	out, _, err := lzref.Decode(raw)
	return err == nil && bytes.Equal(out, want)
}

func run(cs vrt.Case) vrt.Obs {
	var p params
	vrt.Params(cs, &p)
	var o vrt.Obs
	c := &ctx{o: &o, seed: p.Seed}
	switch p.Kind {
	case "short":
		r := *p.Range
		r.Each(func(idx uint64, s []byte) { c.both(fmt.Sprintf("%q", s), s, idx, false, nil) })
		o.Sample = map[string]any{"kind": "short", "alphabet": r.Alpha, "length": r.Len, "prefix_len": len(r.Prefix),
			"first": string(append([]byte(r.Prefix), lzwork.ShortString([]byte(r.Alpha), r.Len, r.Lo)...)), "count": r.Hi - r.Lo}
	case "long":
		specs := lzwork.LongSpecs(p.Seed, p.N)
		var names []string
		for i := p.Lo; i < p.Hi && i < len(specs); i++ {
			sp := specs[i]
			in := sp.Bytes()
			names = append(names, sp.String())
			o.Count("inputs_"+sp.Fam, 1)
			o.Count("input_bytes", int64(len(in)))
			// the library side is written in a PRNG partition for every other input (chunking must not matter: C06)
			var parts []int
			if i%2 == 1 {
				parts = lzwork.Partition("prng-mixed", len(in), vrt.Rand(p.Seed, "c07-parts", i))
			}
			c.both(sp.String(), in, uint64(i), true, parts)
		}
		o.Sample = map[string]any{"kind": "long", "inputs": names, "directions": "library->reference (header + decode), reference->library (Read + Close)", "header_modes": "b2 and raw"}
	case "rebuild", "align":
		// rebuild: volume over the moment the adaptive tree is rebuilt (lzwork.RebuildSpecs); align: a long
		// repeat at every alignment relative to the ring buffer (lzwork.AlignSpecs). One header mode per input.
		specs := lzwork.RebuildSpecs(p.Seed, p.N)
		if p.Kind == "align" {
			specs = lzwork.AlignSpecs(p.Full)
		}
		var names []string
		for i := p.Lo; i < p.Hi && i < len(specs); i++ {
			in := specs[i].Bytes()
			if len(names) < 12 {
				names = append(names, specs[i].String())
			}
			o.Count("inputs_"+p.Kind+"_family", 1)
			o.Count("input_bytes", int64(len(in)))
			c.modes(specs[i].String(), in, uint64(i), true, nil, []bool{i%2 == 0})
		}
		o.Sample = map[string]any{"kind": p.Kind, "inputs": p.Hi - p.Lo, "first_inputs": names}
	case "concurrent":
		// four goroutines run both directions on different inputs at the same time
		vrt.Parallel(&o, 4, func(g int, po *vrt.Obs) {
			cc := &ctx{o: po, seed: p.Seed}
			r := vrt.Rand(p.Seed, "c07-concurrent", p.Lo, g)
			for i := 0; i < p.N; i++ {
				sp := lzwork.RandomSpec(r)
				sp.Size %= 70001
				po.Count("inputs_coded_while_other_goroutines_were_at_work", 1)
				cc.modes(sp.String(), sp.Bytes(), uint64(i+7*g), false, nil, []bool{(i+g)%2 == 0})
			}
		})
		// Close calls lined up: four Writers filled independently, closed at the same moment (large inputs: the moment is long)
		ar := vrt.Rand(p.Seed, "c07-aligned", p.Lo)
		for round := 0; round < 12 && !o.Poisoned; round++ {
			var ins [][]byte
			for g := 0; g < 4; g++ {
				sp := lzwork.RandomSpec(ar)
				sp.Size = 20000 + sp.Size%60001
				ins = append(ins, sp.Bytes())
			}
			crc := round%4 != 3
			res := lzwork.CompressAligned(ins, crc)
			for g, r := range res {
				o.Evals++
				lone := lzwork.Compress(ins[g], crc, nil)
				switch {
				case r.Panic != nil:
					o.Violations = append(o.Violations, *r.Panic)
				case !r.OK() || !lone.OK():
					o.Violate("aligned-close:failed", "Writer %d of 4 closed at the same moment as the others: write error %q, Close %v", g, r.WriteErr, r.CloseErr)
				case !bytes.Equal(r.Out, lone.Out):
					o.Violate("aligned-close:stream-differs", "a Writer closed at the same moment as three others (own input of %d bytes, own destination) produced a stream that differs from the one a lone Writer produces for that input (%s mode): first difference at byte %d of %d",
						len(ins[g]), modeName(crc), firstDiff(r.Out, lone.Out), len(lone.Out))
				case !decodesTo(r.Out, ins[g], crc):
					o.Violate("aligned-close:not-decodable", "the reference decoder does not get the input back from a stream whose Writer was closed at the same moment as three others")
				default:
					o.Count("writers_closed_at_the_same_moment_as_others", 1)
				}
			}
		}
		o.Sample = map[string]any{"kind": "concurrent", "goroutines": 4, "inputs_per_goroutine": p.N}
	case "interleave":
		// two compressions and one decompression alive at the same time in one goroutine, fed in turns; before
		// that the process has closed Readers twice (lzwork.Decompress does, as "defer Close()" code does): what one
		// codec value did, or how it was closed, must not leak into another
		r := vrt.Rand(p.Seed, "c07-interleave", p.Lo)
		for i := 0; i < p.N; i++ {
			sp1, sp2, sp3 := lzwork.RandomSpec(r), lzwork.RandomSpec(r), lzwork.RandomSpec(r)
			sp1.Size, sp2.Size, sp3.Size = sp1.Size%20001, sp2.Size%20001, sp3.Size%20001
			in1, in2, in3 := sp1.Bytes(), sp2.Bytes(), sp3.Bytes()
			crc := i%2 == 0
			enc := lzref.Encode
			if crc {
				enc = lzref.EncodeB2
			}
			c3 := enc(in3)
			// history: plain decodes, some of them closed twice
			for k := 0; k < 3; k++ {
				c.refToLib("interleave-history:"+sp3.String(), in3, c3, crc, lzwork.Sources[k%len(lzwork.Sources)], lzwork.ReadPlan{Kind: "fixed", K: 4096})
			}
			// what a lone Writer makes of the two inputs (judged against the reference elsewhere in this check)
			lone1, lone2 := lzwork.Compress(in1, crc, nil), lzwork.Compress(in2, crc, nil)
			if !lone1.OK() || !lone2.OK() {
				o.Inconclusive = append(o.Inconclusive, "interleave: lone compression failed (reported by the other kinds)")
				continue
			}
			o.Evals++
			out1, out2, dec3, rerr, cerr, pan, spun, abandoned := lzwork.Interleave(in1, in2, c3, crc, p.Seed+int64(i))
			what := fmt.Sprintf("interleaved codecs: writers %s | %s, reader %s", sp1.String(), sp2.String(), sp3.String())
			if spun {
				o.Poisoned = true
				o.Violate("interleaved:cpu-spin", "%s: the calls burnt %v of CPU time without returning: a codec call spins", what, lzwork.SpinCPU)
				break
			}
			if abandoned {
				o.Poisoned = true
				o.Inconclusive = append(o.Inconclusive, what+": did not return within the wall-clock cap without burning CPU")
				break
			}
			switch {
			case pan != nil:
				pan.Desc = what + ": " + pan.Desc
				o.Violations = append(o.Violations, *pan)
			case !bytes.Equal(out1, lone1.Out) || !bytes.Equal(out2, lone2.Out):
				o.Violate("interleaved:stream-differs", "%s: a Writer that shared the process with other live codecs produced a stream that differs from the one a lone Writer produces for the same input", what)
			case !decodesTo(out1, in1, crc) || !decodesTo(out2, in2, crc):
				o.Violate("interleaved:not-decodable", "%s: the reference decoder does not get the input back from a stream written next to other live codecs", what)
			case rerr != nil || cerr != nil || !bytes.Equal(dec3, in3):
				o.Violate("interleaved:decode", "%s: the Reader that shared the process with live Writers failed on a canonical stream (read error %v, close %v, %d of %d bytes)", what, rerr, cerr, len(dec3), len(in3))
			default:
				o.Sig("interleave %s %s %s", sp1.String(), sp2.String(), sp3.String())
			}
			o.Count("interleaved_codec_triples", 1)
		}
		o.Sample = map[string]any{"kind": "interleave", "triples": p.N}
	case "golden":
		// streams made by the original tool chain (not by the reference encoder): the library must read them
		var names []string
		for gi, g := range lzwork.GoldenPlain() {
			names = append(names, g.Name)
			for k := 0; k < 6; k++ {
				j := uint64(gi*6 + k)
				c.refToLib("golden:"+g.Name+".lzh", g.Data, g.LZH, true, lzwork.Sources[j%uint64(len(lzwork.Sources))], lzwork.PickReadPlan(j, p.Seed))
				c.refToLib("golden:"+g.Name+".lzh[2:]", g.Data, g.LZH[2:], false, lzwork.Sources[(j+1)%uint64(len(lzwork.Sources))], lzwork.PickReadPlan(j+5, p.Seed))
			}
			c.libToRef("golden:"+g.Name, g.Data, true, nil, true)
			c.libToRef("golden:"+g.Name, g.Data, false, nil, false)
		}
		o.Sample = map[string]any{"kind": "golden", "files": names}
	default:
		panic("c07: unknown case kind " + p.Kind)
	}
	return o
}
