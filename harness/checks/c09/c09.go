// Package c09: message serialisation round-trips and is canonical.
//
// Oracles: (1) identity - parse(serialise(m)) equals m on headers, body, attachments and accessors,
// and serialise(parse(serialise(m))) is byte-identical; (2) the independent reader/writer
// verif/internal/ref/msgref must read the library's bytes to the same sections, decode the
// word-encoded Subject / attachment names to what was set, and reproduce the same bytes.
package c09

import (
	"bytes"
	"fmt"
	"hash/fnv"
	"io"
	"math/rand"
	"mime"
	"net/textproto"
	"sort"
	"strings"
	"testing/iotest"
	"time"

	"github.com/la5nta/wl2k-go/fbb"

	"verif/internal/ref/msgref"
	"verif/internal/vrt"
)

type params struct {
	Kind string `json:"kind"`        // api | raw | fixed
	G    int    `json:"g,omitempty"` // > 0: this is goroutine G of a batch that runs four at once
	Seed int64  `json:"seed"`
	Idx  int    `json:"idx"`
	N    int    `json:"n"`
}

var Check = &vrt.Check{
	ID:    "C09",
	Level: "exploration",
	Rule: "cases are batches of generated messages. kind=api: built through the public API (NewMessage/Header.Set, SetFrom, AddTo/AddCc in callsign, " +
		"@winlink.org, SMTP and SMTP: forms, SetSubject, SetDate, SetBody, AddFile, extra X- headers), serialised, parsed back through five reader shapes " +
		"(whole, 1 byte per Read, PRNG chunks, PRNG chunks with the last one delivered together with io.EOF, iotest.DataErrReader) and compared; " +
		"kind=raw: bytes written by the reference writer with arbitrary body/attachment bytes, parsed by the library, re-serialised and re-read by the reference; " +
		"kind=fixed: boundary messages (sections around the 4096-byte read buffer, empty/CRLF/NUL attachments, 200-character subjects). " +
		"An execution is non-trivial when the library parsed a message and all sections were compared; distinct = distinct serialised messages",
	Assumptions: []string{
		"header-borne strings (subject, attachment names, X- values) are Latin-1 without CR/LF, without leading/trailing space or tab (the format trims them) and without the RFC 2047 token \"=?\"",
		"raw X- header values carry no control characters (a header line cannot hold them; subject and attachment names may, they are word-encoded)",
		"dates have 4-digit years (1..9999) and whole minutes (the Date header has minute resolution)",
		"attachment names are non-empty (NewFile panics by contract on an empty name)",
		"header names are set through Header.Set/Add (canonical MIME form), not by writing non-canonical keys into the map",
	},
	SelfTest:      msgref.SelfTest,
	Plan:          plan,
	Run:           run,
	Exhaustive:    func(string) bool { return false },
	MinNontrivial: 500,
}

func plan(seed int64, tier string) []vrt.Case {
	var cs []vrt.Case
	add := func(kind string, idx, n int) {
		cs = append(cs, vrt.Case{ID: fmt.Sprintf("%s-%d", kind, idx), Params: vrt.MustParams(params{Kind: kind, Seed: seed, Idx: idx, N: n}), TimeoutS: 900})
	}
	add("fixed", 0, 0)
	nAPI, nRaw, per := 150, 50, 200
	if tier == "thorough" {
		nAPI, nRaw, per = 1200, 300, 1000
	}
	// one case of every kind first (they become the evidence samples), then the rest
	add("api", 0, per)
	add("raw", 0, per)
	for i := 1; i < nAPI; i++ {
		add("api", i, per)
	}
	for i := 1; i < nRaw; i++ {
		add("raw", i, per)
	}
	return cs
}

// ---- readers -------------------------------------------------------------------------------------

// chunkReader returns PRNG-sized chunks; with eofWithData the last chunk comes together with io.EOF
// (both behaviours are allowed by the io.Reader contract).
type chunkReader struct {
	b           []byte
	r           *rand.Rand
	max         int
	eofWithData bool
}

func (c *chunkReader) Read(p []byte) (int, error) {
	if len(c.b) == 0 {
		return 0, io.EOF
	}
	n := 1 + c.r.Intn(c.max)
	n = min(n, len(p), len(c.b))
	copy(p, c.b[:n])
	c.b = c.b[n:]
	if len(c.b) == 0 && c.eofWithData {
		return n, io.EOF
	}
	return n, nil
}

var readerKinds = []string{"whole", "onebyte", "chunks", "chunks-eof", "dataerr"}

func mkReader(kind string, b []byte, r *rand.Rand) io.Reader {
	maxes := []int{2, 7, 64, 1000, 4096, 5000, 1 << 20}
	switch kind {
	case "onebyte":
		return iotest.OneByteReader(bytes.NewReader(b))
	case "chunks":
		return &chunkReader{b: b, r: r, max: vrt.Pick(r, maxes)}
	case "chunks-eof":
		return &chunkReader{b: b, r: r, max: vrt.Pick(r, maxes), eofWithData: true}
	case "dataerr":
		return iotest.DataErrReader(bytes.NewReader(b))
	}
	return bytes.NewReader(b)
}

// ---- the model of what was set ---------------------------------------------------------------------

type fileSpec struct {
	Name string
	Data []byte
}

type model struct {
	mid, typ, mbo string
	hasFrom       bool
	from          addr
	to, cc        []addr
	hasSubject    bool
	subject       string
	hasDate       bool
	date          time.Time
	hasBody       bool
	bodyText      string
	files         []fileSpec
	nExtra        int
}

type ctx struct {
	o    *vrt.Obs
	seen map[string]int
	desc string
	// kept: the last few messages built or parsed, with their serialisation at that time. A message
	// must not change because OTHER messages are built, serialised or parsed afterwards (shared
	// buffers, cached encoders): re-serialised before every new message.
	kept       []keptMsg
	lastParsed *fbb.Message // the message value of the previous parse (see the reuse in check)
}

type keptMsg struct {
	m    *fbb.Message
	wire []byte
	desc string
}

func (c *ctx) recheckKept() {
	for _, k := range c.kept {
		now, err := k.m.Bytes()
		c.o.Count("earlier_messages_rechecked", 1)
		if err != nil || !bytes.Equal(now, k.wire) {
			d := c.desc
			c.desc = k.desc
			c.violate("earlier-message-changed", "a message serialises differently after other messages were built/parsed (first difference at byte %d, err=%v)", firstDiff(now, k.wire), err)
			c.desc = d
		}
	}
}

func (c *ctx) keep(m *fbb.Message, wire []byte, desc string) {
	if len(wire) > 1<<15 {
		return
	}
	c.kept = append(c.kept, keptMsg{m, append([]byte(nil), wire...), desc})
	if len(c.kept) > 3 {
		c.kept = c.kept[1:]
	}
}

// violate records at most two instances per key and case (the classes matter, not the count).
func (c *ctx) violate(key, format string, a ...any) {
	c.seen[key]++
	if c.seen[key] > 2 {
		c.o.Count("violations_suppressed_same_key", 1)
		return
	}
	c.o.Violate(key, "%s [%s]", fmt.Sprintf(format, a...), c.desc)
}

func clip(s string) string {
	if len(s) > 300 {
		return s[:300] + "..."
	}
	return s
}

// errClass turns an error into a stable key fragment: text up to the first ':' or '(', digits
// folded, so that offsets and quoted content never make it into a violation key.
func errClass(err error) string {
	s := err.Error()
	if i := strings.IndexAny(s, ":("); i > 0 {
		s = s[:i]
	}
	s = strings.TrimSpace(strings.Map(func(c rune) rune {
		switch {
		case c >= 'a' && c <= 'z', c >= 'A' && c <= 'Z', c == ' ', c == '-':
			return c
		}
		return -1
	}, s))
	if len(s) > 40 {
		s = s[:40]
	}
	return strings.ReplaceAll(strings.ToLower(s), " ", "-")
}

func normHeader(h fbb.Header) map[string][]string {
	out := map[string][]string{}
	for k, v := range h {
		if len(v) > 0 {
			out[k] = append([]string(nil), v...)
		}
	}
	return out
}

func headerDiff(a, b map[string][]string) string {
	keys := map[string]bool{}
	for k := range a {
		keys[k] = true
	}
	for k := range b {
		keys[k] = true
	}
	var ks []string
	for k := range keys {
		ks = append(ks, k)
	}
	sort.Strings(ks)
	for _, k := range ks {
		if fmt.Sprintf("%q", a[k]) != fmt.Sprintf("%q", b[k]) {
			return fmt.Sprintf("%s: %q vs %q", k, a[k], b[k])
		}
	}
	return ""
}

func latin1ToUTF8(b []byte) string {
	rs := make([]rune, len(b))
	for i, c := range b {
		rs[i] = rune(c)
	}
	return string(rs)
}

func isASCIIHeaderText(s string) bool {
	for i := 0; i < len(s); i++ {
		if (s[i] < 0x20 && s[i] != '\t') || s[i] > 0x7e {
			return false
		}
	}
	return true
}

func eqAddrs(got []fbb.Address, want []addr) bool {
	if len(got) != len(want) {
		return false
	}
	for i := range got {
		if got[i].Proto != want[i].Proto || got[i].Addr != want[i].Addr {
			return false
		}
	}
	return true
}

func dateHeader(t time.Time) string {
	u := t.UTC()
	return fmt.Sprintf("%04d/%02d/%02d %02d:%02d", u.Year(), int(u.Month()), u.Day(), u.Hour(), u.Minute())
}

// ---- building a message through the public API -------------------------------------------------------

func buildAPI(r *rand.Rand, bigBody bool) (*fbb.Message, *model, error) {
	md := &model{}
	var m *fbb.Message
	md.mid = pickStr(r, upperAN, 1+r.Intn(12))
	if r.Intn(2) == 0 {
		md.typ = string(vrt.Pick(r, []fbb.MsgType{fbb.Private, fbb.Service, fbb.Inquiry, fbb.PositionReport, fbb.Option, fbb.System}))
		call := genCall(r)
		m = fbb.NewMessage(fbb.MsgType(md.typ), call)
		md.mbo, md.hasFrom, md.from = call, true, addr{In: call, Addr: call}
		md.hasDate = true // NewMessage stamps time.Now(); always replaced below (determinism)
		m.Header.Set("Mid", md.mid)
	} else {
		m = &fbb.Message{Header: fbb.Header{}}
		m.Header.Set(fbb.HEADER_MID, md.mid)
		if r.Intn(2) == 0 {
			md.typ = "Private"
			m.Header.Set(fbb.HEADER_TYPE, md.typ)
		}
		if r.Intn(2) == 0 {
			md.mbo = genCall(r)
			m.Header.Set(fbb.HEADER_MBO, md.mbo)
		}
	}
	if md.hasDate || r.Intn(10) > 0 {
		md.hasDate, md.date = true, genDate(r)
		m.SetDate(md.date)
	}
	if r.Intn(6) > 0 {
		md.hasFrom, md.from = true, genAddr(r)
		m.SetFrom(md.from.In)
	}
	// again: a recipient that is already on the list, in the same or in another spelling (a group list that was
	// merged from two sources): every entry that was added is an entry of the message
	again := func(list []addr) addr {
		a := list[r.Intn(len(list))]
		if a.Proto == "" {
			a.In = vrt.Pick(r, []string{a.In, a.Addr, strings.ToLower(a.Addr), a.Addr + "@winlink.org"})
		} else {
			a.In = vrt.Pick(r, []string{a.In, a.Addr, "SMTP:" + a.Addr})
		}
		return a
	}
	for i, n := 0, r.Intn(6); i < n; i++ {
		a := genAddr(r)
		if len(md.to) > 0 && r.Intn(5) == 0 {
			a = again(md.to)
		}
		md.to = append(md.to, a)
		if r.Intn(2) == 0 && i+1 < n { // variadic form
			b := genAddr(r)
			md.to = append(md.to, b)
			m.AddTo(a.In, b.In)
			i++
		} else {
			m.AddTo(a.In)
		}
	}
	for i, n := 0, r.Intn(6); i < n; i++ {
		a := genAddr(r)
		if r.Intn(5) == 0 {
			if len(md.cc) > 0 && r.Intn(2) == 0 {
				a = again(md.cc)
			} else if len(md.to) > 0 {
				a = again(md.to)
			}
		}
		md.cc = append(md.cc, a)
		m.AddCc(a.In)
	}
	if r.Intn(8) > 0 {
		md.hasSubject = true
		md.subject = genText(r, r.Intn(3), genLen(r, 200))
		m.SetSubject(md.subject)
	}
	for i, n := 0, r.Intn(4); i < n; i++ {
		name, v := genXName(r), genXValue(r)
		if r.Intn(3) == 0 {
			m.Header.Add(name, v)
			m.Header.Add(name, genXValue(r))
		} else {
			m.Header.Set(name, v)
		}
		md.nExtra++
	}
	if r.Intn(8) > 0 {
		md.hasBody = true
		size := []int{0, 1, 80, 700, 3000}[r.Intn(5)]
		if bigBody {
			size = 4000 + r.Intn(40000)
		}
		if size > 0 {
			md.bodyText = genBodyText(r, size)
		}
		if err := m.SetBody(md.bodyText); err != nil {
			return nil, nil, fmt.Errorf("SetBody(%d chars): %v", len(md.bodyText), err)
		}
	}
	nFiles := r.Intn(5)
	if r.Intn(3) == 0 || bigBody {
		nFiles = 0
	}
	for i := 0; i < nFiles; i++ {
		name := genText(r, r.Intn(3), 1+genLen(r, 59))
		if r.Intn(30) == 0 {
			name = genText(r, r.Intn(2), 255)
		}
		f := fileSpec{Name: name, Data: genData(r, r.Intn(25) == 0)}
		if len(md.files) > 0 && r.Intn(4) == 0 {
			// the same file attached twice, or another file of the same name and size: two attachments
			prev := md.files[r.Intn(len(md.files))]
			f = fileSpec{Name: prev.Name, Data: append([]byte(nil), prev.Data...)}
			if r.Intn(2) == 0 {
				for k := range f.Data {
					f.Data[k] ^= byte(1 + r.Intn(255))
				}
			}
		}
		md.files = append(md.files, f)
		m.AddFile(fbb.NewFile(f.Name, f.Data))
	}
	return m, md, nil
}

func shape(md *model, b []byte) string {
	h := fnv.New64a()
	h.Write(b)
	return fmt.Sprintf("to%d cc%d subj%d body%d files%d x%d %016x", len(md.to), len(md.cc), len(md.subject), len(md.bodyText), len(md.files), md.nExtra, h.Sum64())
}

// checkAPI runs every oracle on one message built through the public API.
func checkAPI(c *ctx, r *rand.Rand, m *fbb.Message, md *model, kinds []string) {
	o := c.o
	o.Evals++
	o.Count("messages_built", 1)
	c.desc = "mid=" + md.mid
	b1, err := m.Bytes()
	if err != nil {
		c.violate("write-error:"+errClass(err), "Bytes() of a message built through the API failed: %v", err)
		return
	}
	c.desc = fmt.Sprintf("mid=%s len=%d head=%q", md.mid, len(b1), clip(string(b1[:min(len(b1), 160)])))
	o.Count("bytes_serialised", int64(len(b1)))
	c.recheckKept()
	c.keep(m, b1, c.desc)
	if b1again, _ := m.Bytes(); !bytes.Equal(b1, b1again) {
		c.violate("serialise-unstable", "two serialisations of the same message differ")
	}
	want := normHeader(m.Header)
	wantBody, _ := m.Body()

	// --- accessors of the built message and of every re-parsed one
	accessors := func(who string, x *fbb.Message) {
		if x.MID() != md.mid {
			c.violate("accessor:mid", "%s: MID() = %q, set %q", who, x.MID(), md.mid)
		}
		if md.hasSubject && x.Subject() != md.subject {
			c.violate("accessor:subject", "%s: Subject() = %q, set %q (header %q)", who, clip(x.Subject()), clip(md.subject), clip(x.Header.Get("Subject")))
		}
		if md.hasDate && !x.Date().Equal(md.date) {
			c.violate("accessor:date", "%s: Date() = %v, set %v (header %q)", who, x.Date().UTC(), md.date.UTC(), x.Header.Get("Date"))
		}
		if md.hasFrom && (x.From().Proto != md.from.Proto || x.From().Addr != md.from.Addr) {
			c.violate("accessor:from", "%s: From() = %+v, set %q", who, x.From(), md.from.In)
		}
		if !eqAddrs(x.To(), md.to) {
			c.violate("accessor:to", "%s: To() = %+v, set %+v", who, x.To(), md.to)
		}
		if !eqAddrs(x.Cc(), md.cc) {
			c.violate("accessor:cc", "%s: Cc() = %+v, set %+v", who, x.Cc(), md.cc)
		}
		if string(x.Type()) != md.typ || x.Mbo() != md.mbo {
			c.violate("accessor:type-mbo", "%s: Type()/Mbo() = %q/%q, set %q/%q", who, x.Type(), x.Mbo(), md.typ, md.mbo)
		}
		fs := x.Files()
		if len(fs) != len(md.files) {
			c.violate("file-count", "%s: %d attachments, %d added", who, len(fs), len(md.files))
			return
		}
		for i, f := range fs {
			if f.Name() != md.files[i].Name {
				c.violate("file-name", "%s: attachment %d name %q, added as %q (header %q)", who, i, clip(f.Name()), clip(md.files[i].Name), clip(strings.Join(x.Header["File"], " | ")))
			}
			if !bytes.Equal(f.Data(), md.files[i].Data) || f.Size() != len(md.files[i].Data) {
				c.violate("file-data", "%s: attachment %d has %d bytes differing from the %d added", who, i, f.Size(), len(md.files[i].Data))
			}
			o.Count("attachment_bytes_compared", int64(len(md.files[i].Data)))
		}
	}
	accessors("built message", m)

	// --- identity through every reader shape
	parsedOK := 0
	for ki, kind := range kinds {
		p := new(fbb.Message)
		if ki%2 == 1 && c.lastParsed != nil {
			// every other parse goes into a Message value that already holds an earlier message (a receive loop that
			// decodes one message after another into the same variable): what it held before is replaced, not kept
			p = c.lastParsed
			o.Count("parses_into_a_message_value_that_held_another_message", 1)
		} else if ki%2 == 1 {
			p = m // ... or into the message that was just composed (re-loaded from its own bytes)
		}
		if err := p.ReadFrom(mkReader(kind, b1, r)); err != nil {
			c.violate("parse-own-output:"+kind+":"+errClass(err), "ReadFrom(%s reader) of the library's own output failed: %v", kind, err)
			continue
		}
		c.lastParsed = p
		o.Count("parses_"+kind, 1)
		parsedOK++
		if d := headerDiff(normHeader(p.Header), want); d != "" {
			c.violate("header-differs", "parsed (%s) header differs from the one serialised: %s", kind, clip(d))
		}
		o.Count("header_keys_compared", int64(len(want)))
		gotBody, berr := p.Body()
		if berr != nil || gotBody != wantBody || p.BodySize() != m.BodySize() {
			c.violate("body-differs", "parsed (%s) body differs: %d vs %d chars, BodySize %d vs %d, err %v", kind, len(gotBody), len(wantBody), p.BodySize(), m.BodySize(), berr)
		}
		accessors("parsed ("+kind+")", p)
		b2, err := p.Bytes()
		if err != nil {
			c.violate("rewrite-error:"+errClass(err), "Bytes() of the parsed (%s) message failed: %v", kind, err)
			continue
		}
		if !bytes.Equal(b1, b2) {
			c.violate("reserialise-differs", "re-serialisation of the parsed (%s) message differs from the first serialisation (first difference at byte %d of %d/%d)", kind, firstDiff(b1, b2), len(b1), len(b2))
		}
		o.Count("bytes_compared_reserialised", int64(len(b1)))
	}

	// --- the independent reader
	ref, err := msgref.Parse(b1)
	if err != nil {
		c.violate("ref:parse-error:"+errClass(err), "the reference parser refuses the library's bytes: %v", err)
		return
	}
	o.Count("ref_parses", 1)
	got := map[string][]string{}
	for _, h := range ref.Headers {
		k := textproto.CanonicalMIMEHeaderKey(h.Name)
		got[k] = append(got[k], h.Value)
	}
	if d := headerDiff(got, want); d != "" {
		c.violate("ref:header-differs", "header lines on the wire differ from the header set: %s", clip(d))
	}
	if !bytes.Equal(ref.Bytes(), b1) {
		c.violate("ref:writer-differs", "the reference writer does not reproduce the library's bytes from the parsed sections")
	}
	if latin1ToUTF8(ref.Body) != wantBody || len(ref.Body) != m.BodySize() {
		c.violate("ref:body", "body section on the wire (%d bytes) is not the message body (%d chars, Body header %d)", len(ref.Body), len(wantBody), m.BodySize())
	}
	o.Count("body_bytes_compared", int64(len(ref.Body)))
	if len(ref.Files) != len(md.files) {
		c.violate("ref:file-count", "%d attachment sections on the wire, %d added", len(ref.Files), len(md.files))
	} else {
		for i, f := range ref.Files {
			if !bytes.Equal(f.Data, md.files[i].Data) {
				c.violate("ref:file-data", "attachment section %d on the wire differs from the data added", i)
			}
			name, derr := msgref.DecodeWords(f.RawName)
			if derr != nil || name != md.files[i].Name || !isASCIIHeaderText(f.RawName) {
				c.violate("ref:file-name", "File header name %q decodes to %q (%v), added as %q", clip(f.RawName), clip(name), derr, clip(md.files[i].Name))
			}
		}
	}
	if md.hasSubject {
		raw, _ := ref.Get("Subject")
		s, derr := msgref.DecodeWords(raw)
		if derr != nil || s != md.subject || !isASCIIHeaderText(raw) {
			c.violate("ref:subject", "Subject header %q decodes to %q (%v), set %q", clip(raw), clip(s), derr, clip(md.subject))
		}
		if strings.Contains(raw, "=?") {
			o.Count("subjects_word_encoded", 1)
			if strings.Count(raw, "=?") > 1 {
				o.Count("subjects_multi_word", 1)
			}
		}
	}
	if md.hasDate {
		if raw, _ := ref.Get("Date"); raw != dateHeader(md.date) {
			c.violate("ref:date", "Date header %q, set %v (want %q)", raw, md.date.UTC(), dateHeader(md.date))
		}
	}
	eqList := func(name string, as []addr) {
		var w []string
		for _, a := range as {
			w = append(w, a.header())
		}
		if g := ref.Values(name); fmt.Sprintf("%q", g) != fmt.Sprintf("%q", w) {
			c.violate("ref:"+strings.ToLower(name), "%s header lines %q, want %q", name, g, w)
		}
	}
	eqList("To", md.to)
	eqList("Cc", md.cc)
	if md.hasFrom {
		eqList("From", []addr{md.from})
	}
	if parsedOK == len(kinds) {
		o.Sig("api %s", shape(md, b1))
	}
}

func firstDiff(a, b []byte) int {
	n := min(len(a), len(b))
	for i := 0; i < n; i++ {
		if a[i] != b[i] {
			return i
		}
	}
	return n
}

// ---- raw kind: bytes from the reference writer ---------------------------------------------------------

func checkRaw(c *ctx, r *rand.Rand, big bool) {
	o := c.o
	o.Evals++
	hs := []msgref.Header{{Name: "Mid", Value: pickStr(r, upperAN, 1+r.Intn(12))}}
	date := genDate(r)
	rest := []msgref.Header{{Name: "Date", Value: dateHeader(date)}, {Name: "From", Value: genAddr(r).header()}, {Name: "Type", Value: "Private"}}
	for i, n := 0, r.Intn(4); i < n; i++ {
		rest = append(rest, msgref.Header{Name: "To", Value: genAddr(r).header()})
	}
	subject, hasSubject := "", r.Intn(2) == 0
	if hasSubject {
		subject = genText(r, r.Intn(2), genLen(r, 100))
		rest = append(rest, msgref.Header{Name: "Subject", Value: mime.QEncoding.Encode("ISO-8859-1", string(toLatin1(subject)))})
	}
	for i, n := 0, r.Intn(3); i < n; i++ {
		v := genXValue(r)
		if r.Intn(4) == 0 {
			v = string(toLatin1(v)) // raw ISO-8859-1 bytes on the wire
		}
		rest = append(rest, msgref.Header{Name: genXName(r), Value: v})
	}
	if r.Intn(2) == 0 { // any order on the wire
		r.Shuffle(len(rest), func(i, j int) { rest[i], rest[j] = rest[j], rest[i] })
	}
	hs = append(hs, rest...)
	if r.Intn(3) == 0 { // header names are case-insensitive
		for i := range hs {
			hs[i].Name = randCase(r, hs[i].Name)
		}
	}
	body := genData(r, big)
	var files []msgref.File
	var names []string
	nf := r.Intn(5)
	if big {
		nf = r.Intn(2)
	}
	for i := 0; i < nf; i++ {
		name := genText(r, r.Intn(2), 1+genLen(r, 40))
		names = append(names, name)
		files = append(files, msgref.File{RawName: mime.QEncoding.Encode("ISO-8859-1", string(toLatin1(name))), Data: genData(r, r.Intn(25) == 0)})
	}
	w := msgref.New(hs, body, files)
	if nf == 0 && r.Intn(4) == 0 { // no Body header at all and an empty body
		w = &msgref.Msg{Headers: hs}
		body = nil
	}
	wire := w.Bytes()
	if nf == 0 && r.Intn(3) == 0 {
		wire = append(wire, "\r\n"...) // Winlink Express ends the body section with CRLF
	}
	c.desc = fmt.Sprintf("raw len=%d head=%q", len(wire), clip(string(wire[:min(len(wire), 160)])))
	want := map[string][]string{}
	for _, h := range w.Headers {
		k := textproto.CanonicalMIMEHeaderKey(h.Name)
		want[k] = append(want[k], h.Value)
	}
	kind := vrt.Pick(r, readerKinds)
	p := new(fbb.Message)
	if err := p.ReadFrom(mkReader(kind, wire, r)); err != nil {
		c.violate("parse-ref-output:"+kind+":"+errClass(err), "ReadFrom(%s reader) of a well-formed message failed: %v", kind, err)
		return
	}
	o.Count("parses_"+kind, 1)
	o.Count("raw_messages_parsed", 1)
	if d := headerDiff(normHeader(p.Header), want); d != "" {
		c.violate("raw:header-differs", "parsed header differs from the lines on the wire: %s", clip(d))
	}
	if s, err := p.Body(); err != nil || s != latin1ToUTF8(body) {
		c.violate("raw:body-differs", "Body() (%d chars, err %v) is not the %d-byte body section", len(s), err, len(body))
	}
	o.Count("body_bytes_compared", int64(len(body)))
	if hasSubject && p.Subject() != subject {
		c.violate("raw:subject", "Subject() = %q for header %q encoding %q", clip(p.Subject()), clip(p.Header.Get("Subject")), clip(subject))
	}
	if !p.Date().Equal(date) {
		c.violate("raw:date", "Date() = %v for header %q", p.Date().UTC(), p.Header.Get("Date"))
	}
	if len(p.Files()) != len(files) {
		c.violate("raw:file-count", "%d attachments parsed, %d on the wire", len(p.Files()), len(files))
		return
	}
	for i, f := range p.Files() {
		if !bytes.Equal(f.Data(), files[i].Data) {
			c.violate("raw:file-data", "attachment %d: %d bytes parsed differ from the %d-byte section", i, f.Size(), len(files[i].Data))
		}
		if f.Name() != names[i] {
			c.violate("raw:file-name", "attachment %d: name %q, header %q encodes %q", i, clip(f.Name()), clip(files[i].RawName), clip(names[i]))
		}
		o.Count("attachment_bytes_compared", int64(len(files[i].Data)))
	}
	// canonical re-serialisation: stable, and the reference reads it to the same sections
	b2, err := p.Bytes()
	if err != nil {
		c.violate("rewrite-error:"+errClass(err), "Bytes() of the parsed message failed: %v", err)
		return
	}
	ref, err := msgref.Parse(b2)
	if err != nil {
		c.violate("ref:parse-error:"+errClass(err), "the reference parser refuses the re-serialised message: %v", err)
		return
	}
	o.Count("ref_parses", 1)
	got := map[string][]string{}
	for _, h := range ref.Headers {
		k := textproto.CanonicalMIMEHeaderKey(h.Name)
		got[k] = append(got[k], h.Value)
	}
	if d := headerDiff(got, want); d != "" {
		c.violate("raw:ref-header-differs", "re-serialised header lines differ from the original ones: %s", clip(d))
	}
	if !bytes.Equal(ref.Body, body) || len(ref.Files) != len(files) {
		c.violate("raw:ref-sections-differ", "re-serialised body/attachment sections differ from the original ones")
	} else {
		for i := range files {
			if !bytes.Equal(ref.Files[i].Data, files[i].Data) || ref.Files[i].RawName != files[i].RawName {
				c.violate("raw:ref-sections-differ", "re-serialised attachment %d differs from the original one", i)
			}
		}
	}
	p2 := new(fbb.Message)
	if err := p2.ReadFrom(bytes.NewReader(b2)); err != nil {
		c.violate("parse-own-output:whole:"+errClass(err), "ReadFrom of the re-serialised message failed: %v", err)
		return
	}
	if b3, _ := p2.Bytes(); !bytes.Equal(b2, b3) {
		c.violate("reserialise-differs", "serialise(parse(x)) is not a fixed point (first difference at byte %d)", firstDiff(b2, b3))
	}
	o.Count("bytes_compared_reserialised", int64(len(b2)))
	h := fnv.New64a()
	h.Write(wire)
	o.Sig("raw files%d body%d %016x", len(files), len(body), h.Sum64())
}

func toLatin1(s string) []byte {
	var b []byte
	for _, c := range s {
		b = append(b, byte(c))
	}
	return b
}

// bodyOfSize returns CRLF-terminated text whose stored form is exactly n bytes (n = 0 or n >= 2).
func bodyOfSize(n int) string {
	var b strings.Builder
	for n-b.Len() >= 82 {
		b.WriteString(strings.Repeat("x", 78) + "\r\n")
	}
	if rest := n - b.Len(); rest >= 2 {
		b.WriteString(strings.Repeat("y", rest-2) + "\r\n")
	}
	return b.String()
}

// ---- fixed boundary cases -------------------------------------------------------------------------------

func fixedCases(c *ctx, r *rand.Rand) {
	base := func(mid string) (*fbb.Message, *model) {
		m := &fbb.Message{Header: fbb.Header{}}
		md := &model{mid: mid, typ: "Private", mbo: "N0CALL", hasFrom: true, from: addr{In: "n0call", Addr: "N0CALL"},
			to: []addr{{In: "la5nta@Winlink.ORG", Addr: "LA5NTA"}}, hasDate: true, date: time.Date(2024, 2, 29, 23, 59, 0, 0, time.UTC)}
		m.Header.Set("Mid", mid)
		m.Header.Set("Type", md.typ)
		m.Header.Set("Mbo", md.mbo)
		m.SetFrom(md.from.In)
		m.AddTo(md.to[0].In)
		m.SetDate(md.date)
		return m, md
	}
	// final body section of every size around the parser's 4096-byte buffer, no attachments
	for _, n := range []int{0, 2, 3, 3000, 3800, 4094, 4095, 4096, 4097, 4200, 8190, 8192, 8194, 12000, 20000, 70000} {
		m, md := base(fmt.Sprintf("BODY%d", n))
		md.hasBody = true
		md.bodyText = bodyOfSize(n)
		m.SetBody(md.bodyText)
		checkAPI(c, r, m, md, readerKinds)
		// the same through a reader that hands over everything that is left, together with io.EOF
		c.o.Evals++
		b, _ := m.Bytes()
		for _, mx := range []int{1 << 20, 4096, 5000} {
			p := new(fbb.Message)
			if err := p.ReadFrom(&chunkReader{b: b, r: r, max: mx, eofWithData: true}); err != nil {
				c.violate("parse-own-output:chunks-eof:"+errClass(err), "ReadFrom(reader returning up to %d bytes, the last ones with io.EOF) failed on a %d-byte body: %v", mx, n, err)
			} else if s, _ := p.Body(); s != md.bodyText {
				c.violate("body-differs", "body read through a data+EOF reader differs (%d-byte body)", n)
			}
			c.o.Count("parses_chunks-eof", 1)
		}
	}
	// attachment shapes, also as the last section
	shapes := [][]byte{nil, []byte("\r\n"), []byte("\r"), []byte("\n"), {0}, bytes.Repeat([]byte{0}, 5000), []byte("\r\n\r\n\r\n"),
		[]byte("Mid: X\r\nBody: 1\r\n\r\nx"), bytes.Repeat([]byte("\r\n"), 4096), vrt.Bytes(r, 4096), vrt.Bytes(r, 4095), vrt.Bytes(r, 70000)}
	for i, last := range shapes {
		for nBefore := 0; nBefore < 3; nBefore++ {
			m, md := base(fmt.Sprintf("FILE%dX%d", i, nBefore))
			if i%2 == 0 {
				md.hasBody, md.bodyText = true, "see attachments\n"
				m.SetBody(md.bodyText)
			}
			for k := 0; k < nBefore; k++ {
				f := fileSpec{Name: fmt.Sprintf("f%d.bin", k), Data: shapes[(i+k+1)%len(shapes)]}
				md.files = append(md.files, f)
				m.AddFile(fbb.NewFile(f.Name, f.Data))
			}
			f := fileSpec{Name: "last æøå.bin", Data: last}
			md.files = append(md.files, f)
			m.AddFile(fbb.NewFile(f.Name, f.Data))
			checkAPI(c, r, m, md, readerKinds)
		}
	}
	// subjects and names at the length bounds, every Latin-1 character once
	var all []rune
	for ch := rune(0); ch < 0x100; ch++ {
		if ch != '\r' && ch != '\n' {
			all = append(all, ch)
		}
	}
	subjects := []string{"", "a", strings.Repeat("x", 200), strings.Repeat("æ", 200), "x" + string(all) + "x", "Re: //WL2K P/ test", "a?b=c_d", "=", "?=", "æ =", "ü?=ü",
		strings.Repeat("ab ", 66) + "øø", strings.Repeat("a", 74) + "é", strings.Repeat("a", 75) + "é", strings.Repeat("é", 25) + " " + strings.Repeat("é", 25)}
	for i, s := range subjects {
		m, md := base(fmt.Sprintf("SUBJ%d", i))
		md.hasSubject, md.subject = true, s
		m.SetSubject(s)
		f := fileSpec{Name: s, Data: []byte("x")}
		if s != "" {
			md.files = append(md.files, f)
			m.AddFile(fbb.NewFile(f.Name, f.Data))
		}
		checkAPI(c, r, m, md, readerKinds)
	}
	c.o.Sample = map[string]any{"kind": "fixed", "body_sizes_around_buffer": "0..70000", "attachment_shapes": len(shapes), "subjects": len(subjects)}
}

// zones: the process's local time zone is part of the environment; the instants a message's dates denote are not.
var zones = []*time.Location{time.UTC, time.FixedZone("UTC+2", 2*3600), time.FixedZone("UTC-3:30", -(3*3600 + 1800)), time.FixedZone("UTC+13", 13*3600)}

func run(cs vrt.Case) vrt.Obs {
	var p params
	vrt.Params(cs, &p)
	if p.G == 0 {
		// a worker runs one case at a time: the case's zone is set for the whole process and put back afterwards
		old := time.Local
		time.Local = zones[p.Idx%len(zones)]
		defer func() { time.Local = old }()
	}
	if p.Kind != "fixed" && p.Idx%4 == 3 && p.G == 0 {
		// every fourth batch is worked on by four goroutines at once (a program that builds, serialises and
		// parses messages from several sessions simultaneously): each goroutine checks its own messages
		var o vrt.Obs
		vrt.Parallel(&o, 4, func(g int, po *vrt.Obs) {
			q := p
			q.G, q.N = g+1, p.N/4
			*po = run(vrt.Case{ID: cs.ID, Params: vrt.MustParams(q)})
		})
		o.Count("messages_checked_while_other_goroutines_were_at_work", int64(p.N/4*4))
		return o
	}
	var o vrt.Obs
	c := &ctx{o: &o, seen: map[string]int{}}
	r := vrt.Rand(p.Seed, "c09", p.Kind, p.Idx, p.G)
	switch p.Kind {
	case "fixed":
		vrt.Guard(&o, func() { fixedCases(c, r) })
	case "api":
		var sample any
		for i := 0; i < p.N; i++ {
			big := i%50 == 7
			vrt.Guard(&o, func() {
				m, md, err := buildAPI(r, big)
				if err != nil {
					o.Evals++
					c.violate("setbody-error", "%v", err)
					return
				}
				kinds := readerKinds
				if i%4 != 0 { // one PRNG-chosen reader shape plus the whole-slice reader for most messages
					kinds = []string{"whole", readerKinds[1+r.Intn(len(readerKinds)-1)]}
				}
				checkAPI(c, r, m, md, kinds)
				if sample == nil {
					b, _ := m.Bytes()
					sample = map[string]any{"kind": "api", "first_message": clip(string(b))}
				}
			})
		}
		o.Sample = sample
	case "raw":
		for i := 0; i < p.N; i++ {
			vrt.Guard(&o, func() { checkRaw(c, r, i%40 == 3) })
		}
		o.Sample = map[string]any{"kind": "raw", "messages": p.N, "last": c.desc}
	}
	return o
}
