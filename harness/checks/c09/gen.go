package c09

import (
	"fmt"
	"math/rand"
	"strings"
	"time"
)

// ---- input generators (all PRNG choices come from the case's *rand.Rand) ----

const (
	upperAN = "ABCDEFGHIJKLMNOPQRSTUVWXYZ0123456789"
	alnum   = "ABCDEFGHIJKLMNOPQRSTUVWXYZabcdefghijklmnopqrstuvwxyz0123456789"
)

func pickStr(r *rand.Rand, alphabet string, n int) string {
	b := make([]byte, n)
	for i := range b {
		b[i] = alphabet[r.Intn(len(alphabet))]
	}
	return string(b)
}

func randCase(r *rand.Rand, s string) string {
	b := []byte(s)
	for i, c := range b {
		if r.Intn(2) == 0 {
			if c >= 'A' && c <= 'Z' {
				b[i] = c + 32
			} else if c >= 'a' && c <= 'z' {
				b[i] = c - 32
			}
		}
	}
	return string(b)
}

// addr is one address as handed to the API and what the accessors must return for it.
type addr struct {
	In    string
	Proto string
	Addr  string
}

func (a addr) header() string {
	if a.Proto == "" {
		return a.Addr
	}
	return a.Proto + ":" + a.Addr
}

func genCall(r *rand.Rand) string {
	c := pickStr(r, "ABCDEFGHIJKLMNOPQRSTUVWXYZ", 1+r.Intn(2)) + pickStr(r, "0123456789", 1) + pickStr(r, "ABCDEFGHIJKLMNOPQRSTUVWXYZ", 1+r.Intn(3))
	if r.Intn(3) == 0 {
		c += fmt.Sprintf("-%d", 1+r.Intn(15))
	}
	return c
}

func genEmail(r *rand.Rand) string {
	local := pickStr(r, alnum+"._+-", 1+r.Intn(12))
	dom := pickStr(r, alnum+"-", 1+r.Intn(10)) + "." + pickStr(r, "abcdefghijklmnopqrstuvwxyzABC", 2+r.Intn(3))
	if strings.EqualFold(dom, "winlink.org") {
		dom = "example.org"
	}
	return local + "@" + dom
}

func genAddr(r *rand.Rand) addr {
	call := genCall(r)
	switch r.Intn(5) {
	case 0:
		return addr{In: call, Addr: call}
	case 1:
		return addr{In: randCase(r, call), Addr: call}
	case 2:
		return addr{In: randCase(r, call) + "@" + randCase(r, "winlink.org"), Addr: call}
	case 3:
		e := genEmail(r)
		return addr{In: e, Proto: "SMTP", Addr: e}
	default:
		e := genEmail(r)
		return addr{In: "SMTP:" + e, Proto: "SMTP", Addr: e}
	}
}

// text classes for header-borne strings
const (
	clsASCII   = iota // printable ASCII
	clsLatin1         // printable ASCII + U+00A0..U+00FF
	clsControl        // Latin-1 incl. C0/C1 controls and DEL (never CR, LF)
)

// genText returns n characters of the class, satisfying the stated domain: no CR/LF, no leading or
// trailing white space, no "=?" token.
func genText(r *rand.Rand, cls, n int) string {
	rs := make([]rune, n)
	for i := range rs {
		var c rune
		switch {
		case cls == clsASCII || r.Intn(3) > 0:
			if r.Intn(6) == 0 {
				c = ' '
			} else {
				c = rune(0x21 + r.Intn(0x7f-0x21))
			}
		case cls == clsLatin1 || r.Intn(4) > 0:
			c = rune(0xA0 + r.Intn(0x60))
		default:
			c = rune(r.Intn(0x100))
			if c == '\r' || c == '\n' {
				c = '\t'
			}
		}
		rs[i] = c
	}
	// the format trims blanks (space, tab) around header values
	isWS := func(c rune) bool { return c == ' ' || c == '\t' }
	if n > 0 {
		for isWS(rs[0]) {
			rs[0] = rune('a' + r.Intn(26))
		}
		for isWS(rs[n-1]) {
			rs[n-1] = rune('a' + r.Intn(26))
		}
	}
	for i := 0; i+1 < n; i++ {
		if rs[i] == '=' && rs[i+1] == '?' {
			rs[i+1] = '!'
		}
	}
	return string(rs)
}

func genLen(r *rand.Rand, max int) int {
	switch r.Intn(8) {
	case 0:
		return 0
	case 1:
		return max
	case 2:
		return 1 + r.Intn(max)
	default:
		return 1 + r.Intn(min(max, 40))
	}
}

// genBodyText: Latin-1 text with LF / CRLF line ends, with or without a final newline.
func genBodyText(r *rand.Rand, size int) string {
	var b strings.Builder
	for b.Len() < size {
		ll := r.Intn(120)
		if r.Intn(10) == 0 {
			ll = 0
		}
		for i := 0; i < ll; i++ {
			switch r.Intn(8) {
			case 0:
				b.WriteRune(rune(0xA0 + r.Intn(0x60)))
			case 1:
				b.WriteByte(' ')
			default:
				b.WriteByte(byte(0x21 + r.Intn(0x7f-0x21)))
			}
		}
		if r.Intn(2) == 0 {
			b.WriteString("\r\n")
		} else {
			b.WriteString("\n")
		}
	}
	s := b.String()
	if r.Intn(3) == 0 {
		s = strings.TrimRight(s, "\r\n")
	}
	return s
}

// genData: attachment / raw body bytes of several hostile shapes.
func genData(r *rand.Rand, big bool) []byte {
	n := 0
	switch r.Intn(6) {
	case 0:
		n = 0
	case 1:
		n = 1 + r.Intn(4)
	default:
		n = r.Intn(3000)
	}
	if big {
		n = 4000 + r.Intn(30000)
	}
	b := make([]byte, n)
	switch r.Intn(6) {
	case 0: // CRLF soup
		for i := range b {
			b[i] = "\r\n"[r.Intn(2)]
		}
	case 1: // NULs
	case 2: // looks like the message structure
		copy(b, []byte(strings.Repeat("\r\nBody: 5\r\nFile: 3 x\r\n\r\n", n/22+1)))
	case 3: // ends in CR / LF / CRLF
		r.Read(b)
		if n >= 2 {
			copy(b[n-2:], "\r\n")
		}
	default:
		r.Read(b)
	}
	return b
}

func genDate(r *rand.Rand) time.Time {
	var y int
	switch r.Intn(6) {
	case 0:
		y = 1 + r.Intn(9999)
	case 1:
		y = []int{1, 999, 1000, 1969, 1970, 2000, 2038, 9999}[r.Intn(8)]
	default:
		y = 1980 + r.Intn(80)
	}
	t := time.Date(y, time.Month(1+r.Intn(12)), 1+r.Intn(28), r.Intn(24), r.Intn(60), 0, 0, time.UTC)
	if r.Intn(3) == 0 && y > 1 && y < 9999 { // same instant expressed in another zone
		t = t.In(time.FixedZone("", (r.Intn(27)-13)*3600+r.Intn(4)*900))
	}
	return t
}

func genXName(r *rand.Rand) string {
	return "X-" + pickStr(r, alnum, 1) + pickStr(r, alnum+"-", r.Intn(11))
}

// genXValue: printable Latin-1 (raw header values cannot carry control characters).
func genXValue(r *rand.Rand) string {
	cls := clsASCII
	if r.Intn(2) == 0 {
		cls = clsLatin1
	}
	return genText(r, cls, genLen(r, 120))
}
