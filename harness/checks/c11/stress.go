package c11

import (
	"bytes"
	"fmt"
	"os"
	"time"

	"github.com/la5nta/wl2k-go/fbb"
	"github.com/la5nta/wl2k-go/mailbox"

	"verif/internal/mboxkit"
	"verif/internal/vrt"
)

// Leg "stress": several goroutines of ONE process store versions of the same inbound and outbound message and toggle
// read flags at the same time; the process is killed after a PRNG delay; the mailbox is then checked the way a
// restarted program finds it (see mboxkit.StressRun). The crash-point enumeration above cannot produce these
// states: they depend on how two writers interleave, not on where one writer stops.

const (
	stressIn  = "STRESSIN0001"
	stressOut = "STRESSOUT001"
)

func stressVersions(mid string, n int, seed int64) []mboxkit.MsgSpec {
	var vs []mboxkit.MsgSpec
	for i := 0; i < n; i++ {
		vs = append(vs, mboxkit.MsgSpec{MID: mid, From: "N0SRC", To: []string{"N0DST"}, BodyLen: 150000 + 170000*i, FileLen: 40000 * (i % 2), Tag: fmt.Sprintf("v%d-%d", i, seed)})
	}
	return vs
}

func runStress(o *vrt.Obs, seed int64, idx, rounds int) {
	mboxkit.Janitor()
	base := mboxkit.MkTemp("c11s")
	defer os.RemoveAll(base)
	pre, run := base+"/pre", base+"/run"
	inV, outV := stressVersions(stressIn, 4, seed), stressVersions(stressOut, 3, seed)
	h := mailbox.NewDirHandler(pre, false)
	if err := h.Prepare(); err != nil {
		o.Inconclusive = append(o.Inconclusive, "stress: cannot prepare the mailbox: "+err.Error())
		return
	}
	by := mboxkit.MsgSpec{MID: "BYIN00000001", To: []string{"N0AAA"}, BodyLen: 500, Tag: "by"}
	if err := h.ProcessInbound(by.Build(), inV[0].Build()); err != nil {
		o.Inconclusive = append(o.Inconclusive, "stress: "+err.Error())
		return
	}
	if err := h.AddOut(outV[0].Build()); err != nil {
		o.Inconclusive = append(o.Inconclusive, "stress: "+err.Error())
		return
	}
	canon := func(vs []mboxkit.MsgSpec) [][]byte {
		var out [][]byte
		for _, v := range vs {
			out = append(out, mboxkit.Canon(mboxkit.MustBytes(v.Build())))
		}
		return out
	}
	inC, outC, byC := canon(inV), canon(outV), mboxkit.Canon(mboxkit.MustBytes(by.Build()))
	r := vrt.Rand(seed, "c11-stress", idx)
	viol := 0
	for round := 0; round < rounds && viol < 3; round++ {
		os.RemoveAll(run)
		if err := mboxkit.CopyTree(pre, run); err != nil {
			o.Inconclusive = append(o.Inconclusive, "stress: "+err.Error())
			return
		}
		delay := time.Duration(1+r.Intn(60)) * time.Millisecond
		ops, err := mboxkit.StressRun(mboxkit.StressSpec{Dir: run, Inbound: inV, Outbound: outV, Flags: round%2 == 0}, delay)
		if err != nil {
			o.Inconclusive = append(o.Inconclusive, "stress: "+err.Error())
			return
		}
		o.Evals++
		o.Count("stress_kills", 1)
		o.Count("stress_operations_completed_before_the_kill", int64(ops))
		point := fmt.Sprintf("process killed %v after %d concurrent writers (+flag toggler: %v) were at work, %d operations completed", delay, len(inV)+len(outV), round%2 == 0, ops)
		bad := func(key, format string, a ...any) {
			viol++
			v := o.Violate(key+":concurrent-writers", "%s | %s", fmt.Sprintf(format, a...), point)
			v.Detail = map[string]any{"leg": "stress", "round": round, "delay_ms": delay.Milliseconds(), "inbound_versions": len(inV), "outbound_versions": len(outV)}
		}
		vrt.Guard(o, func() {
			hh := mailbox.NewDirHandler(run, false)
			if err := hh.Prepare(); err != nil {
				bad("prepare-error", "Prepare() on the restarted mailbox failed: %v", err)
			}
			for _, f := range []struct {
				name string
				list func() ([]*fbb.Message, error)
			}{{"in", hh.Inbox}, {"out", hh.Outbox}, {"sent", hh.Sent}, {"archive", hh.Archive}} {
				if _, err := f.list(); err != nil {
					bad("load-error:"+f.name, "%s/ no longer loads after the kill: %v", f.name, err)
				}
			}
			post, err := mboxkit.ReadTree(run)
			if err != nil {
				o.Inconclusive = append(o.Inconclusive, "stress: cannot read the tree: "+err.Error())
				return
			}
			check := func(rel string, allowed [][]byte) {
				got, ok := post[rel]
				o.Count("stored_messages_compared", 1)
				switch {
				case !ok:
					bad("stored-message-lost", "%s was stored before the writers started and is gone", rel)
				case !oneOf(allowed, mboxkit.Canon(got)):
					bad("stored-message-damaged", "%s is none of the %d complete versions that were being stored: %d bytes %q...", rel, len(allowed), len(got), head(got, 60))
				}
			}
			check("in/"+stressIn+mailbox.Ext, inC)
			check("out/"+stressOut+mailbox.Ext, outC)
			check("in/BYIN00000001"+mailbox.Ext, [][]byte{byC})
			if ans := hh.GetInboundAnswer(*fbb.NewProposal(stressIn, "title", fbb.BasicProposal, []byte("x"))); ans == fbb.Reject {
				if got, ok := post["in/"+stressIn+mailbox.Ext]; !ok || !oneOf(inC, mboxkit.Canon(got)) {
					bad("reject-without-complete-copy", "a proposal for %s is answered 'already received' but no complete copy is in the inbox", stressIn)
				}
			}
		})
		o.Sig("stress %d %d %d", idx, round, ops)
	}
	_ = bytes.Equal
	o.Sample = map[string]any{"kind": "stress", "rounds": rounds, "writers": len(inV) + len(outV), "message_sizes": "150-660 kB"}
}
