// Package c11: the mailbox survives a crash at any point.
//
// A child process (this binary, see mboxkit.ChildDispatch) performs ONE mailbox operation on a copy
// of a prepared mailbox while strace watches it. A recording run lists the file-system calls of the
// operation; then the child is really killed (SIGKILL injected by strace at the entry of the N-th
// call) once per call, and - for every write - after genuine partial writes of chosen lengths
// (RLIMIT_FSIZE lowered inside the child makes the kernel cut the write; the child is killed at the
// entry of the retry). After every kill the worker opens the directory with a fresh DirHandler and
// checks the four clauses of the property against what was stored before.
package c11

import (
	"bytes"
	"fmt"
	"os"
	"path/filepath"
	"sort"
	"strings"
	"syscall"
	"time"

	"github.com/la5nta/wl2k-go/fbb"
	"github.com/la5nta/wl2k-go/mailbox"

	"verif/internal/mboxkit"
	"verif/internal/vrt"
)

var Check = &vrt.Check{
	ID:    "C11",
	Level: "fault_enumeration",
	Rule: "scenarios = operation {ProcessInbound of a new MID / of a MID already stored (same and different content), AddOut new / replacing, SetSent, SetUnread true / false} " +
		"x 0-3 bystander messages (in, out, sent) x 3 message sizes. For each scenario a recording run under strace lists the file-system calls the operation makes; the process is then " +
		"killed (real SIGKILL at syscall entry) once before each of them, and for every write after a genuine partial write of k bytes (quick: k in {1, first line, header end, n/2, n-1} + 3 PRNG " +
		"values; thorough: every k for the small and medium message, every k in the first 400 and last 200 bytes plus every 7th for the large one); the storage-error path (write cut by " +
		"RLIMIT_FSIZE, next write fails with EFBIG) is enumerated the same way. An execution is non-trivial when the strace log proves that the intended call was hit (same call sequence as " +
		"the recording up to the kill, process killed) and the recovery checker ran; distinct = distinct (scenario, crash point)",
	Assumptions: []string{
		"process death, not power loss: what the kernel has accepted is what the restarted process sees (page-cache reordering is not modelled)",
		"the state of the directory is constant between two state-changing system calls, so killing at the entry of each of them (plus completion) visits every on-disk state of the operation; read-only calls are not kill points",
		"'previously stored message intact' is judged on the file text modulo the headers the mailbox adds itself (X-FilePath, X-Unread); the message an interrupted operation was replacing may be the old or the complete new version",
		"an outbound message being marked sent must be in exactly one of out/ and sent/ after the crash (DESIGN.md C11: 'neither or both' refutes)",
		"a stale temporary file left by a crash is not a violation as long as no clause of the property is affected (it is counted in the evidence)",
	},
	SelfTest:      mboxkit.SelfTestCrashInjection,
	Plan:          plan,
	Run:           run,
	Exhaustive:    func(string) bool { return false },
	MinNontrivial: 300,
	Extra: func(tier string) map[string]any {
		ex := []string{"every state-changing file-system call boundary of every explored scenario"}
		if tier == "thorough" {
			ex = append(ex, "every prefix length of every write for the small and medium message")
		}
		return map[string]any{"exhaustive_subspaces": ex}
	},
}

// ---------------------------------------------------------------------------------------------
// scenarios

var opNames = []string{"ProcessInbound-new", "ProcessInbound-dup", "ProcessInbound-replace", "AddOut-new", "AddOut-replace", "AddOut-resend", "SetSent", "SetSent-rejected", "SetUnread-true", "SetUnread-false", "ProcessInbound-longmid", "ProcessInbound-globmid"}

var sizes = map[string][2]int{"small": {30, 0}, "medium": {900, 0}, "large": {3000, 1500}}
var sizeNames = []string{"small", "medium", "large"}

const targetMID = "TARGET000001"
const dotMID = ".BYDOT000001"

// longMID: a legal identifier (no separators) so long that "<MID>.b2f" still fits a file name but a
// longer temporary name built from it does not (NAME_MAX 255).
var longMID = strings.Repeat("L", 244)

// mid is the identifier of the message the operation works on.
func (sc scenario) mid() string {
	if strings.HasSuffix(sc.Op, "-longmid") {
		return longMID
	}
	if strings.HasSuffix(sc.Op, "-globmid") {
		// a legal identifier made of pattern characters that, read as a file-name pattern, names the first
		// bystander message of the inbox
		return "BYIN0000000?"
	}
	return targetMID
}

var bystanders = []struct{ folder, mid string }{{"in", "BYIN00000001"}, {"out", "BYOUT0000001"}, {"sent", "BYSENT000001"}}

type scenario struct {
	Op   string `json:"op"`
	Pre  int    `json:"pre"`  // number of bystander messages (0..3)
	Size string `json:"size"` // small | medium | large
	Seed int64  `json:"seed"`
	// Var: how the message the operation works on is stored before the operation:
	//   ""         a regular file <MID>.b2f
	//   "symlink"  <MID>.b2f is a symbolic link to a regular file kept in a store directory next to the folders
	//   "upperext" the file is named <MID>.B2F (the folder listing takes any case of the extension)
	//   "hardlink" the regular file <MID>.b2f has a second hard link in a store directory next to the folders
	Var string `json:"var,omitempty"`
}

func (sc scenario) String() string {
	if sc.Var != "" {
		return fmt.Sprintf("%s+%s/pre%d/%s", sc.Op, sc.Var, sc.Pre, sc.Size)
	}
	return fmt.Sprintf("%s/pre%d/%s", sc.Op, sc.Pre, sc.Size)
}

const storeDir = "store"

// upper is the differently-cased name of a message file.
func upper(rel string) string {
	return strings.TrimSuffix(rel, mailbox.Ext) + strings.ToUpper(mailbox.Ext)
}

// applyVar re-arranges how the operation's message is stored (see scenario.Var).
func (sc scenario) applyVar(dir string) error {
	if sc.Var == "sentfs" {
		return nil // arranged per run, see bench.fresh
	}
	if sc.Var == "dangling" {
		// the message's name exists in the folder as a link to a file that is not there (an archive disk that is not
		// mounted): no copy of the message is in the mailbox
		for _, rel := range sc.targetPaths() {
			p := filepath.Join(dir, rel)
			if _, err := os.Lstat(p); err == nil {
				continue
			}
			if err := os.Symlink(filepath.Join("..", storeDir, "not-mounted", filepath.Base(rel)), p); err != nil {
				return err
			}
		}
		return nil
	}
	for _, rel := range sc.targetPaths() {
		p := filepath.Join(dir, rel)
		if st, err := os.Lstat(p); err != nil || !st.Mode().IsRegular() {
			continue
		}
		switch sc.Var {
		case "symlink":
			if err := os.MkdirAll(filepath.Join(dir, storeDir), 0o755); err != nil {
				return err
			}
			if err := os.Rename(p, filepath.Join(dir, storeDir, filepath.Base(rel))); err != nil {
				return err
			}
			if err := os.Symlink(filepath.Join("..", storeDir, filepath.Base(rel)), p); err != nil {
				return err
			}
		case "hardlink":
			// a second name of the same file outside the folders (an archive or snapshot made with "cp -l"): the operation
			// must not go through the shared file in a way that leaves both names with half a message
			if err := os.MkdirAll(filepath.Join(dir, storeDir), 0o755); err != nil {
				return err
			}
			if err := os.Link(p, filepath.Join(dir, storeDir, filepath.Base(rel))); err != nil {
				return err
			}
		case "upperext":
			if err := os.Rename(p, filepath.Join(dir, upper(rel))); err != nil {
				return err
			}
		}
	}
	return nil
}

func (sc scenario) target(tag string) mboxkit.MsgSpec {
	sz := sizes[sc.Size]
	return mboxkit.MsgSpec{MID: sc.mid(), From: "N0SRC", To: []string{"N0DST"}, BodyLen: sz[0], FileLen: sz[1], Tag: fmt.Sprintf("%s%d", tag, sc.Seed)}
}

// libOp is the operation name the child understands.
func (sc scenario) libOp() string { return strings.SplitN(sc.Op, "-", 2)[0] }

// targetPaths are the files the operation may legitimately change.
func (sc scenario) targetPaths() []string {
	switch sc.libOp() {
	case "ProcessInbound", "SetUnread":
		return []string{"in/" + sc.mid() + mailbox.Ext}
	case "AddOut":
		return []string{"out/" + sc.mid() + mailbox.Ext}
	case "SetSent":
		return []string{"out/" + sc.mid() + mailbox.Ext, "sent/" + sc.mid() + mailbox.Ext}
	}
	return nil
}

func (sc scenario) crashSpec(dir string) mboxkit.CrashSpec {
	sp := mboxkit.CrashSpec{Dir: dir, Op: sc.libOp(), MID: sc.mid()}
	switch sc.libOp() {
	case "ProcessInbound", "AddOut":
		t := sc.target("new")
		sp.Msg = &t
	case "SetUnread":
		sp.Unread = sc.Op == "SetUnread-true"
	case "SetSent":
		sp.Rejected = sc.Op == "SetSent-rejected"
	}
	return sp
}

// buildPre prepares the mailbox as it is before the operation (in the worker, with the library's
// own operations; nothing is killed here).
func (sc scenario) buildPre(dir string) error {
	if err := sc.buildPreRegular(dir); err != nil {
		return err
	}
	return sc.applyVar(dir)
}

func (sc scenario) buildPreRegular(dir string) error {
	h := mailbox.NewDirHandler(dir, false)
	if err := h.Prepare(); err != nil {
		return err
	}
	for i := 0; i < sc.Pre; i++ {
		b := bystanders[i]
		m := mboxkit.MsgSpec{MID: b.mid, To: []string{"N0AAA"}, BodyLen: 120 + 200*i, FileLen: 90 * i, Tag: "by"}.Build()
		switch b.folder {
		case "in":
			if err := h.ProcessInbound(m); err != nil {
				return err
			}
		case "out":
			if err := h.AddOut(m); err != nil {
				return err
			}
		case "sent":
			if err := h.AddOut(m); err != nil {
				return err
			}
			h.SetSent(b.mid, false)
		}
	}
	if sc.Pre >= 3 {
		// a stored message whose identifier begins with a dot (legal): its file is a hidden file of the inbox
		if err := h.ProcessInbound(mboxkit.MsgSpec{MID: dotMID, To: []string{"N0AAA"}, BodyLen: 333, Tag: "dot"}.Build()); err != nil {
			return err
		}
	}
	switch sc.Op {
	case "ProcessInbound-dup":
		return h.ProcessInbound(sc.target("new").Build())
	case "ProcessInbound-replace":
		return h.ProcessInbound(sc.target("old").Build())
	case "AddOut-replace":
		return h.AddOut(sc.target("old").Build())
	case "AddOut-resend":
		// the message was posted and sent earlier; now a (corrected) copy with the same identifier is posted again
		if err := h.AddOut(sc.target("old").Build()); err != nil {
			return err
		}
		h.SetSent(sc.mid(), false)
		return nil
	case "SetSent", "SetSent-rejected":
		return h.AddOut(sc.target("new").Build())
	case "SetUnread-false", "SetUnread-true":
		if err := h.ProcessInbound(sc.target("new").Build()); err != nil {
			return err
		}
		if sc.Op == "SetUnread-true" {
			list, err := h.Inbox()
			if err != nil {
				return err
			}
			for _, m := range list {
				if m.MID() == sc.mid() {
					return mailbox.SetUnread(m, false)
				}
			}
			return fmt.Errorf("target not listed")
		}
	}
	return nil
}

// ---------------------------------------------------------------------------------------------
// one scenario at work

type bench struct {
	o         *vrt.Obs
	sc        scenario
	base      string // scratch directory of this case
	preDir    string
	runDir    string
	pre       map[string][]byte
	ref       map[string][]byte // tree after the complete, undisturbed operation
	rec       mboxkit.Trace     // the recording run
	nViol     int
	inconcl   int
	opFails   bool            // the undisturbed operation ends with an error (see record)
	nRecov    int             // recoveries checked so far
	preBroken map[string]bool // folders that do not load in the prepared mailbox
	ext       string          // Var "sentfs": this run's sent folder on the other file system
}

func (b *bench) violate(key, point, format string, a ...any) {
	b.nViol++
	if b.nViol > 6 {
		b.o.Count("violations_not_listed", 1)
		return
	}
	v := b.o.Violate(key+":"+b.sc.Op, "%s | scenario %s, crash point: %s", fmt.Sprintf(format, a...), b.sc, point)
	var calls []string
	for _, s := range b.rec.Window {
		calls = append(calls, strings.ReplaceAll(s.Text, b.runDir, "<mbox>"))
	}
	v.Detail = map[string]any{"scenario": b.sc, "crash_point": point, "operation_syscalls": calls}
}

func newBench(o *vrt.Obs, sc scenario) (*bench, error) {
	b := &bench{o: o, sc: sc, base: mboxkit.MkTemp("c11")}
	b.preDir, b.runDir = filepath.Join(b.base, "pre"), filepath.Join(b.base, "run")
	if err := sc.buildPre(b.preDir); err != nil {
		return b, fmt.Errorf("cannot prepare the mailbox: %v", err)
	}
	var err error
	if b.pre, err = mboxkit.ReadTree(b.preDir); err != nil {
		return b, err
	}
	// which folders load at all before the operation (a mailbox with a dangling link in a folder does not list that folder)
	b.preBroken = map[string]bool{}
	ph := mailbox.NewDirHandler(b.preDir, false)
	for _, f := range []struct {
		name string
		list func() ([]*fbb.Message, error)
	}{{"in", ph.Inbox}, {"out", ph.Outbox}, {"sent", ph.Sent}, {"archive", ph.Archive}} {
		if _, err := f.list(); err != nil {
			b.preBroken[f.name] = true
		}
	}
	return b, nil
}

func (b *bench) close() {
	os.RemoveAll(b.base)
	if b.ext != "" {
		os.RemoveAll(b.ext)
	}
}

// fresh gives the next run its own copy of the prepared mailbox.
func (b *bench) fresh() error {
	os.RemoveAll(b.runDir)
	if err := mboxkit.CopyTree(b.preDir, b.runDir); err != nil {
		return err
	}
	if b.sc.Var == "hardlink" {
		// the copy made two files of the two names: make them one file again
		for _, rel := range b.sc.targetPaths() {
			p, q := filepath.Join(b.runDir, rel), filepath.Join(b.runDir, storeDir, filepath.Base(rel))
			if st, err := os.Lstat(p); err != nil || !st.Mode().IsRegular() {
				continue
			}
			if _, err := os.Lstat(q); err != nil {
				continue
			}
			if err := os.Remove(q); err != nil {
				return err
			}
			if err := os.Link(p, q); err != nil {
				return err
			}
			b.o.Count("runs_on_a_message_file_with_two_hard_links", 1)
		}
	}
	if b.sc.Var != "sentfs" {
		return nil
	}
	// the sent folder lives on another file system (a linked folder on a bigger disk): a new directory there for every run
	if b.ext != "" {
		os.RemoveAll(b.ext)
	}
	ext, err := os.MkdirTemp(os.TempDir(), "verif-mbox-c11ext-")
	if err != nil {
		return err
	}
	b.ext = ext
	sent := filepath.Join(b.runDir, "sent")
	if err := mboxkit.CopyTree(sent, ext); err != nil {
		return err
	}
	if err := os.RemoveAll(sent); err != nil {
		return err
	}
	return os.Symlink(ext, sent)
}

// otherFileSystem reports whether the system's temporary directory is on another device than the mailbox scratch area.
func otherFileSystem() bool {
	var a, c syscall.Stat_t
	if syscall.Stat(mboxkit.TempBase(), &a) != nil || syscall.Stat(os.TempDir(), &c) != nil {
		return false
	}
	return a.Dev != c.Dev
}

// traced runs the operation once in a child under strace.
func (b *bench) traced(fsize int64, inj *mboxkit.Inject) (mboxkit.Trace, error) {
	if err := b.fresh(); err != nil {
		return mboxkit.Trace{}, err
	}
	sp := b.sc.crashSpec(b.runDir)
	sp.Fsize = fsize
	b.o.Count("child_runs_under_strace", 1)
	return mboxkit.RunTraced("crashop", sp, inj, b.base)
}

func names(w []mboxkit.Sys) string {
	n := make([]string, len(w))
	for i, s := range w {
		n[i] = s.Name
	}
	return strings.Join(n, ",")
}

// record performs the undisturbed run, checks that its outcome is what the operation promises and
// stores the resulting tree as the "complete new version".
func (b *bench) record() bool {
	t, err := b.traced(0, nil)
	// an identifier the file system cannot take may make the undisturbed operation fail cleanly: that is
	// a legitimate outcome (nothing stored, nothing damaged), and the crash points are enumerated all the same
	b.opFails = err == nil && t.ExitCode == mboxkit.ExitOpError && strings.HasSuffix(b.sc.Op, "-longmid")
	if b.sc.Var == "sentfs" && err == nil && t.BeginSeen && !t.EndSeen && t.ExitCode != 0 && !t.Killed {
		// the unchanged library cannot move a message to another file system and ends the process (log.Fatalf, as for
		// every failing rename in SetSent): the message must simply still be in the outbox
		b.o.Count("setsent_across_file_systems_ended_the_process", 1)
		b.o.Evals++
		b.recovery("the operation ended the process by itself (SetSent across file systems)")
		b.o.Sig("%s|process-exit", b.sc)
		return false
	}
	if err != nil || !t.BeginSeen || !t.EndSeen || (t.ExitCode != mboxkit.ExitOpOK && !b.opFails) || t.OtherThread != 0 {
		b.o.Inconclusive = append(b.o.Inconclusive, fmt.Sprintf("%s: recording run unusable (err=%v begin=%v end=%v exit=%d out=%q other-thread calls=%d)", b.sc, err, t.BeginSeen, t.EndSeen, t.ExitCode, t.Stdout, t.OtherThread))
		return false
	}
	b.rec = t
	b.ref, _ = mboxkit.ReadTree(b.runDir)
	b.o.Count("operation_syscalls_recorded", int64(len(t.Window)))
	for _, s := range t.Window {
		b.o.Count("syscall_"+s.Name, 1)
	}
	// the undisturbed result (C10 checks this over histories; here it is the baseline of "complete copy")
	want := mboxkit.Canon(mboxkit.MustBytes(b.sc.target("new").Build()))
	bad := ""
	if b.opFails {
		b.o.Count("undisturbed_operation_failed_cleanly", 1)
		if _, stored := b.ref["in/"+b.sc.mid()+mailbox.Ext]; stored {
			bad = "the operation reported an error but left a file under the message's name"
		}
	}
	switch op := b.sc.libOp(); {
	case b.opFails:
	case op == "ProcessInbound":
		got := b.ref["in/"+b.sc.mid()+mailbox.Ext]
		if !bytes.Equal(mboxkit.Canon(got), want) || !mboxkit.HasHeader(got, "x-unread") {
			bad = "in/ does not hold the received message flagged unread"
		}
	case op == "AddOut":
		if !bytes.Equal(mboxkit.Canon(b.ref["out/"+b.sc.mid()+mailbox.Ext]), want) {
			bad = "out/ does not hold the added message"
		}
	case op == "SetSent":
		_, inOut := b.ref["out/"+b.sc.mid()+mailbox.Ext]
		if inOut || !bytes.Equal(mboxkit.Canon(b.ref["sent/"+b.sc.mid()+mailbox.Ext]), want) {
			bad = "message not moved from out/ to sent/"
		}
	case op == "SetUnread":
		got := b.ref["in/"+b.sc.mid()+mailbox.Ext]
		if !bytes.Equal(mboxkit.Canon(got), want) || mboxkit.HasHeader(got, "x-unread") != (b.sc.Op == "SetUnread-true") {
			bad = "flag not rewritten / message changed"
		}
	}
	if bad != "" {
		b.violate("nocrash-result", "no crash", "the undisturbed operation did not do its job: %s", bad)
		return false
	}
	b.recovery("completed (no crash)")
	return true
}

// killAt kills the child at the entry of window call i (as recorded) and checks recovery.
// fsize/expectPartial describe a partial-write run: the call before the kill point must have
// returned expectPartial bytes.
func (b *bench) killAt(rec mboxkit.Trace, i int, fsize int64, label string, verify func(t mboxkit.Trace) bool) {
	s := rec.Window[i]
	for attempt := 1; ; attempt++ {
		t, err := b.traced(fsize, &mboxkit.Inject{Name: s.Name, When: s.Ordinal})
		b.o.Evals++
		b.o.Count("kill_runs", 1)
		ok := err == nil && t.Killed && !t.EndSeen && t.BeginSeen && t.OtherThread == 0 && len(t.Window) == i+1 && names(t.Window) == names(rec.Window[:i+1])
		if ok && verify != nil {
			ok = verify(t)
		}
		if ok {
			b.o.Count("kills_proven_by_strace_log", 1)
			b.o.Count("killed_at_"+s.Name, 1)
			b.recovery(label)
			b.o.Sig("%s|%s", b.sc, label)
			return
		}
		b.o.Count("kill_runs_not_matching_recording", 1)
		if dbg := os.Getenv("VERIF_C11_DEBUG"); dbg != "" {
			f, _ := os.OpenFile(dbg, os.O_APPEND|os.O_CREATE|os.O_WRONLY, 0o644)
			defer f.Close()
			fmt.Fprintf(f, "MISMATCH %s %s attempt %d err=%v killed=%v end=%v begin=%v other=%d\n--- want %s\n--- log:\n%s\n", b.sc, label, attempt, err, t.Killed, t.EndSeen, t.BeginSeen, t.OtherThread, names(rec.Window[:i+1]), t.Log)
		}
		if attempt == 3 {
			b.inconcl++
			if b.inconcl <= 3 {
				b.o.Inconclusive = append(b.o.Inconclusive, fmt.Sprintf("%s %s: the kill did not hit the intended call in 3 attempts (err=%v killed=%v calls=%s, wanted %s)", b.sc, label, err, t.Killed, names(t.Window), names(rec.Window[:i+1])))
			}
			return
		}
	}
}

// boundaries kills once before every state-changing call of the recorded operation.
func (b *bench) boundaries() {
	for i, s := range b.rec.Window {
		b.killAt(b.rec, i, 0, fmt.Sprintf("killed entering call %d/%d %s", i+1, len(b.rec.Window), s.Name), nil)
	}
}

// writeInfo locates the writes of the recording and the file offset each one starts at.
type writeInfo struct {
	idx, off, n int
}

func writesOf(w []mboxkit.Sys) []writeInfo {
	var res []writeInfo
	off := map[int]int{}
	for i, s := range w {
		switch s.Name {
		case "openat", "open", "creat":
			if fd, ok := s.RetInt(); ok && fd >= 0 {
				off[fd] = 0
			}
		case "write":
			if n, ok := s.RetInt(); ok && n >= 0 {
				res = append(res, writeInfo{idx: i, off: off[s.FD], n: s.Count})
				off[s.FD] += n
			}
		}
	}
	return res
}

// partial: for write w of the recording, cut it after k bytes for every k in ks (genuine partial
// write through RLIMIT_FSIZE), kill at the entry of the retry, check recovery.
func (b *bench) partial(w writeInfo, ks []int) {
	for _, k := range ks {
		if k <= 0 || k >= w.n {
			continue
		}
		// the run has one more write than the recording: the cut one, then the retry we kill at
		exp := mboxkit.Trace{Window: append(append([]mboxkit.Sys{}, b.rec.Window[:w.idx+1]...), b.rec.Window[w.idx])}
		exp.Window[w.idx+1].Ordinal = b.rec.Window[w.idx].Ordinal + 1
		label := fmt.Sprintf("killed after a partial write of %d/%d bytes (call %d)", k, w.n, w.idx+1)
		b.killAt(exp, w.idx+1, int64(w.off+k), label, func(t mboxkit.Trace) bool {
			got, ok := t.Window[w.idx].RetInt()
			if ok && got == k {
				b.o.Count("genuine_partial_writes", 1)
				return true
			}
			return false
		})
	}
}

// errPath: the write is cut by RLIMIT_FSIZE and the retry fails with EFBIG; the operation runs its
// error handling. Kill before every call of that error handling, and check the state it leaves
// when it is allowed to finish.
func (b *bench) errPath(w writeInfo) {
	k := w.n / 2
	fsize := int64(w.off + k)
	t, err := b.traced(fsize, nil)
	if err != nil || !t.BeginSeen || !t.EndSeen || t.OtherThread != 0 || len(t.Window) < w.idx+2 {
		b.o.Inconclusive = append(b.o.Inconclusive, fmt.Sprintf("%s: storage-error recording unusable (err=%v)", b.sc, err))
		return
	}
	if got, ok := t.Window[w.idx].RetInt(); !ok || got != k || !strings.Contains(t.Window[w.idx+1].Ret, "EFBIG") {
		b.o.Inconclusive = append(b.o.Inconclusive, fmt.Sprintf("%s: RLIMIT_FSIZE did not produce partial write + EFBIG (%q, %q)", b.sc, t.Window[w.idx].Ret, t.Window[w.idx+1].Ret))
		return
	}
	b.o.Count("storage_error_runs", 1)
	if t.ExitCode == mboxkit.ExitOpError {
		b.o.Count("storage_error_reported_by_operation", 1)
	}
	b.o.Evals++
	b.recovery(fmt.Sprintf("storage error after %d/%d bytes, operation returned (%q), process ended", k, w.n, t.Stdout))
	b.o.Sig("%s|errpath-complete", b.sc)
	for i := w.idx + 2; i < len(t.Window); i++ {
		b.killAt(t, i, fsize, fmt.Sprintf("storage error after %d/%d bytes, killed entering error-path call %d/%d %s", k, w.n, i+1, len(t.Window), t.Window[i].Name), nil)
	}
}

// ---------------------------------------------------------------------------------------------
// the recovery checker: a fresh DirHandler on the post-crash directory

func oneOf(list [][]byte, b []byte) bool {
	for _, x := range list {
		if bytes.Equal(x, b) {
			return true
		}
	}
	return false
}

func (b *bench) recovery(point string) {
	o := b.o
	o.Count("recoveries_checked", 1)
	post, err := mboxkit.ReadTree(b.runDir)
	if err != nil {
		o.Inconclusive = append(o.Inconclusive, "cannot read the post-crash tree: "+err.Error())
		return
	}
	isTarget := map[string]bool{}
	for _, p := range b.sc.targetPaths() {
		isTarget[p] = true
	}
	b.nRecov++
	if b.nRecov%2 == 0 {
		// every other restart happens a day later: whatever the crash (and the time before it) left in the mailbox is
		// 26 hours old when the program comes up again
		old := time.Now().Add(-26 * time.Hour)
		filepath.Walk(b.runDir, func(p string, info os.FileInfo, err error) error {
			if err == nil && info.Mode().IsRegular() {
				os.Chtimes(p, old, old)
			}
			return nil
		})
		o.Count("restarts_a_day_after_the_crash", 1)
	}
	vrt.Guard(o, func() {
		h := mailbox.NewDirHandler(b.runDir, false)
		// clause 1: every folder loads
		if err := h.Prepare(); err != nil {
			b.violate("prepare-error", point, "Prepare() on the restarted mailbox failed: %v", err)
		}
		// what the restarted program's start-up left of the tree (the listings below only read)
		if again, err := mboxkit.ReadTree(b.runDir); err == nil {
			post = again
		}
		listed := map[string]map[string][][]byte{}
		for _, f := range []struct {
			name string
			list func() ([]*fbb.Message, error)
		}{{"in", h.Inbox}, {"out", h.Outbox}, {"sent", h.Sent}, {"archive", h.Archive}} {
			msgs, err := f.list()
			if err != nil {
				if b.preBroken[f.name] {
					// the folder did not load before the operation either (its content was like that): nothing the crash did
					o.Count("folders_that_did_not_load_before_the_operation_either", 1)
					continue
				}
				b.violate("load-error:"+f.name, point, "%s/ no longer loads after the crash: %v", f.name, err)
				continue
			}
			listed[f.name] = map[string][][]byte{}
			for _, m := range msgs {
				if mb, err := m.Bytes(); err == nil {
					listed[f.name][m.MID()] = append(listed[f.name][m.MID()], mboxkit.Canon(mb))
					o.Count("messages_listed_after_crash", 1)
				}
			}
		}
		// clause 2: every previously stored message is intact
		var rels []string
		for rel := range b.pre {
			rels = append(rels, rel)
		}
		sort.Strings(rels)
		for _, rel := range rels {
			if b.sc.libOp() == "SetSent" && isTarget[rel] {
				continue // clause 3 below
			}
			base := filepath.Base(rel)
			folder, mid := filepath.Dir(rel), base[:len(base)-len(filepath.Ext(base))]
			allowed := [][]byte{mboxkit.Canon(b.pre[rel])}
			if r, ok := b.ref[rel]; ok && isTarget[rel] {
				allowed = append(allowed, mboxkit.Canon(r)) // the complete new version of what was being replaced
			}
			lower := folder + "/" + mid + mailbox.Ext
			if folder == storeDir {
				// the file a message name links to: the old version, or the complete new one should the operation
				// write through the link (whether it does is the implementation's choice)
				for t := range isTarget {
					if r, ok := b.ref[t]; ok && filepath.Base(t) == base {
						allowed = append(allowed, mboxkit.Canon(r))
					}
				}
			}
			got, ok := post[rel]
			o.Count("stored_messages_compared", 1)
			switch {
			case !ok && b.sc.Op == "AddOut-resend" && rel == "sent/"+b.sc.mid()+mailbox.Ext:
				// the earlier, sent copy may be retired once the complete new copy is in the outbox (never before: the
				// message must be in outbox or sent at every moment)
				o.Count("resend_sent_copy_retired", 1)
				out := "out/" + b.sc.mid() + mailbox.Ext
				if r, stored := post[out]; !stored || !bytes.Equal(mboxkit.Canon(r), mboxkit.Canon(b.ref[out])) {
					b.violate("outbound-lost", point, "%s (the copy sent earlier) is gone and %s does not hold the complete new copy: the message is in neither folder", rel, out)
				}
			case !ok && b.sc.Var == "upperext" && isTarget[lower] && rel != lower:
				// the differently-cased file may be retired once the complete new version is stored under the usual name
				if r, stored := post[lower]; !stored || !bytes.Equal(mboxkit.Canon(r), mboxkit.Canon(b.ref[lower])) {
					b.violate("stored-message-lost", point, "%s was stored before the operation and is gone, and %s does not hold the complete new version", rel, lower)
				}
			case !ok:
				b.violate("stored-message-lost", point, "%s was stored before the operation and is gone", rel)
			case !oneOf(allowed, mboxkit.Canon(got)):
				b.violate("stored-message-damaged", point, "%s was stored before the operation and is now neither the old nor the complete new version: %d bytes %q...", rel, len(got), head(got, 60))
			default:
				if l, ok := listed[folder]; ok && !strings.HasPrefix(base, ".") { // hidden files are not listed (counted only)
					found := false
					for _, v := range l[mid] {
						found = found || oneOf(allowed, v)
					}
					if !found {
						b.violate("stored-message-damaged", point, "%s is intact on disk but the %s/ listing does not return it intact", rel, folder)
					}
				}
			}
		}
		// clause 3: an outbound message being marked sent is still in out/ or sent/
		if b.sc.libOp() == "SetSent" {
			want := mboxkit.Canon(b.pre["out/"+b.sc.mid()+mailbox.Ext])
			o1, inOut := post["out/"+b.sc.mid()+mailbox.Ext]
			o2, inSent := post["sent/"+b.sc.mid()+mailbox.Ext]
			switch {
			case !inOut && !inSent:
				b.violate("outbound-lost", point, "the message is in neither out/ nor sent/")
			case inOut && inSent:
				b.violate("outbound-in-both", point, "the message is in both out/ and sent/")
			case inOut && !bytes.Equal(mboxkit.Canon(o1), want), inSent && !bytes.Equal(mboxkit.Canon(o2), want):
				b.violate("stored-message-damaged", point, "the outbound message changed while being marked sent")
			}
			o.Count("outbound_placement_checked", 1)
		}
		// clause 4: "already received" only if a complete copy is in the inbox
		complete := map[string][][]byte{b.sc.mid(): {mboxkit.Canon(mboxkit.MustBytes(b.sc.target("new").Build()))}}
		// (the last two can never have been stored: no file system takes a name of that length - the look-up fails with
		// something other than "does not exist")
		mids := []string{b.sc.mid(), "NEVERSEEN001", strings.Repeat("L", 252), strings.Repeat("M", 300)}
		for i := 0; i < b.sc.Pre; i++ {
			mids = append(mids, bystanders[i].mid)
		}
		for _, mid := range mids {
			rel := "in/" + mid + mailbox.Ext
			if p, ok := b.pre[rel]; ok {
				complete[mid] = append(complete[mid], mboxkit.Canon(p))
			}
			ans := h.GetInboundAnswer(*fbb.NewProposal(mid, "title", fbb.BasicProposal, []byte("x")))
			o.Count("answer_"+string(rune(ans)), 1)
			if ans == fbb.Reject {
				got, ok := post[rel]
				if !ok || !oneOf(complete[mid], mboxkit.Canon(got)) {
					b.violate("reject-without-complete-copy", point, "a proposal for %s is answered 'already received' (-) but %s is not a complete copy of it (present=%v, %d bytes)", mid, rel, ok, len(got))
				}
			}
		}
		// information only (no clause of the property speaks about it): do the *Count methods agree
		// with the listings after the crash?
		for _, f := range []struct {
			name  string
			count int
		}{{"in", h.InboxCount()}, {"out", h.OutboxCount()}, {"sent", h.SentCount()}, {"archive", h.ArchiveCount()}} {
			if l, ok := listed[f.name]; ok && f.count != len(l) {
				o.Count("count_differs_from_listing_after_crash", 1)
			}
		}
		// clause 5 ("survives"): the restarted mailbox stays usable - the interrupted store can be
		// repeated, also with a (shorter) other version of the message, and the result is exactly
		// that message; leftovers of the interrupted operation must not leak into it.
		if op := b.sc.libOp(); (op == "ProcessInbound" || op == "AddOut") && len(o.Violations) == 0 && !b.opFails {
			redo := mboxkit.MsgSpec{MID: b.sc.mid(), From: "N0SRC", To: []string{"N0DST"}, BodyLen: 12, Tag: "redo-after-crash"}
			msg := redo.Build()
			want := mboxkit.Canon(mboxkit.MustBytes(redo.Build()))
			var err error
			folder := "in"
			if op == "ProcessInbound" {
				err = h.ProcessInbound(msg)
			} else {
				folder = "out"
				err = h.AddOut(msg)
			}
			o.Count("redo_after_crash_operations", 1)
			rel := folder + "/" + b.sc.mid() + mailbox.Ext
			got, rerr := os.ReadFile(filepath.Join(b.runDir, rel))
			list := h.Inbox
			if folder == "out" {
				list = h.Outbox
			}
			_, lerr := list()
			switch {
			case err != nil:
				b.violate("redo-after-crash:error", point, "repeating the interrupted %s on the restarted mailbox failed: %v", op, err)
			case rerr != nil || !bytes.Equal(mboxkit.Canon(got), want):
				b.violate("redo-after-crash:content", point, "after repeating the interrupted %s with another version of the message, %s holds %d bytes that are not that message (%q...)", op, rel, len(got), head(got, 60))
			case lerr != nil:
				b.violate("redo-after-crash:load-error", point, "after repeating the interrupted %s, %s/ no longer loads: %v", op, folder, lerr)
			}
		}
		// information: leftovers of the interrupted operation
		for rel := range post {
			if _, ok := b.pre[rel]; ok {
				continue
			}
			if _, ok := b.ref[rel]; ok {
				continue
			}
			o.Count("stale_files_left_by_crash", 1)
		}
	})
}

func head(b []byte, n int) []byte {
	if len(b) > n {
		return b[:n]
	}
	return b
}
