package c11

import (
	"bytes"
	"fmt"
	"sort"
	"strings"

	"verif/internal/mboxkit"
	"verif/internal/vrt"
)

type params struct {
	Kind   string   `json:"kind"`             // boundaries | partial | errpath | stress
	Idx    int      `json:"idx,omitempty"`    // stress: case index
	Rounds int      `json:"rounds,omitempty"` // stress: kills
	Sc     scenario `json:"scenario"`
	// partial: which prefix lengths. Set "quick": the fixed boundary set + 3 PRNG values;
	// otherwise every k in [KLo,KHi) with k % Stride == 0 or k within the dense head/tail zones.
	Set    string `json:"set,omitempty"`
	KLo    int    `json:"k_lo,omitempty"`
	KHi    int    `json:"k_hi,omitempty"`
	Stride int    `json:"stride,omitempty"`
}

func hasWrite(op string) bool { return !strings.HasPrefix(op, "SetSent") }

// plannedSize is an upper bound of the size of the file the operation writes (used only to cut the
// prefix range into cases; the real size is taken from the recording at run time).
func plannedSize(sc scenario) int {
	return len(mboxkit.MustBytes(sc.target("new").Build())) + 64
}

func plan(seed int64, tier string) []vrt.Case {
	var cs []vrt.Case
	add := func(id string, p params) {
		cs = append(cs, vrt.Case{ID: id, TimeoutS: 900, Params: vrt.MustParams(p)})
	}
	for _, op := range opNames {
		for pre := 0; pre <= 3; pre++ {
			for _, sz := range sizeNames {
				sc := scenario{Op: op, Pre: pre, Size: sz, Seed: seed}
				add("bnd-"+sc.String(), params{Kind: "boundaries", Sc: sc})
			}
		}
		if !hasWrite(op) {
			continue
		}
		for _, sz := range sizeNames {
			sc := scenario{Op: op, Pre: 3, Size: sz, Seed: seed}
			add("err-"+sc.String(), params{Kind: "errpath", Sc: sc})
			add("par-"+sc.String(), params{Kind: "partial", Sc: sc, Set: "quick"})
			if tier != "thorough" {
				continue
			}
			n, stride := plannedSize(sc), 1
			if sz == "large" {
				stride = 7
			}
			const chunk = 150
			step := chunk * stride
			for lo := 1; lo < n; lo += step {
				add(fmt.Sprintf("par-%s-%d", sc, lo), params{Kind: "partial", Sc: sc, KLo: lo, KHi: min(lo+step, n), Stride: stride})
			}
		}
		// a second bystander population for the quick boundary set of partial writes
		sc := scenario{Op: op, Pre: 0, Size: "small", Seed: seed}
		add("par-"+sc.String(), params{Kind: "partial", Sc: sc, Set: "quick"})
	}
	// concurrent writers of one process, killed at PRNG instants
	nStress, rounds := 4, 12
	if tier == "thorough" {
		nStress, rounds = 16, 40
	}
	for i := 0; i < nStress; i++ {
		add(fmt.Sprintf("stress-%d", i), params{Kind: "stress", Idx: i, Rounds: rounds, Sc: scenario{Seed: seed}})
	}
	// the sent folder on another file system than the outbox (a linked folder); only where the machine has two
	if otherFileSystem() {
		for _, sz := range sizeNames {
			sc := scenario{Op: "SetSent", Pre: 3, Size: sz, Seed: seed, Var: "sentfs"}
			add("bnd-"+sc.String(), params{Kind: "boundaries", Sc: sc})
			if sz != "small" {
				add("par-"+sc.String(), params{Kind: "partial", Sc: sc, Set: "quick"})
			}
		}
	}
	// other ways the message the operation works on may be stored: behind a symbolic link, under a
	// differently-cased extension
	for _, v := range []struct {
		name string
		ops  []string
	}{
		{"symlink", []string{"ProcessInbound-dup", "ProcessInbound-replace", "AddOut-replace", "SetSent", "SetUnread-true", "SetUnread-false"}},
		{"upperext", []string{"ProcessInbound-dup", "ProcessInbound-replace", "AddOut-replace"}},
		{"hardlink", []string{"ProcessInbound-dup", "ProcessInbound-replace", "AddOut-replace", "SetSent", "SetUnread-true", "SetUnread-false"}},
		{"dangling", []string{"ProcessInbound-new", "AddOut-new"}},
	} {
		for _, op := range v.ops {
			for _, sz := range sizeNames {
				if tier != "thorough" && sz == "large" {
					continue
				}
				sc := scenario{Op: op, Pre: 2, Size: sz, Seed: seed, Var: v.name}
				add("bnd-"+sc.String(), params{Kind: "boundaries", Sc: sc})
				if hasWrite(op) && sz != "small" {
					add("par-"+sc.String(), params{Kind: "partial", Sc: sc, Set: "quick"})
					add("err-"+sc.String(), params{Kind: "errpath", Sc: sc})
				}
			}
		}
	}
	return cs
}

// quickSet: 1, end of the first header line, end of the header, n/2, n-1 and three PRNG values.
func quickSet(sc scenario, content []byte, n int) []int {
	ks := map[int]bool{1: true, n / 2: true, n - 1: true}
	if i := bytes.Index(content, []byte("\r\n")); i > 0 {
		ks[i+2] = true
	}
	if i := bytes.Index(content, []byte("\r\n\r\n")); i > 0 {
		ks[i+4] = true
		ks[i+2] = true
	}
	r := vrt.Rand(sc.Seed, "c11-partial", sc.String())
	for i := 0; i < 3 && n > 2; i++ {
		ks[1+r.Intn(n-1)] = true
	}
	var out []int
	for k := range ks {
		if k > 0 && k < n {
			out = append(out, k)
		}
	}
	sort.Ints(out)
	return out
}

func run(c vrt.Case) vrt.Obs {
	var o vrt.Obs
	var p params
	vrt.Params(c, &p)
	if p.Kind == "stress" {
		runStress(&o, p.Sc.Seed, p.Idx, p.Rounds)
		return o
	}
	mboxkit.Janitor()
	b, err := newBench(&o, p.Sc)
	defer b.close()
	if err != nil {
		o.Inconclusive = append(o.Inconclusive, p.Sc.String()+": "+err.Error())
		return o
	}
	if !b.record() {
		return o
	}
	var calls []string
	for _, s := range b.rec.Window {
		t := strings.ReplaceAll(s.Text, b.runDir, "<mbox>")
		if len(t) > 200 {
			t = t[:200] + "..."
		}
		calls = append(calls, t)
	}
	o.Sample = map[string]any{"kind": p.Kind, "scenario": p.Sc, "operation_syscalls": calls}
	ws := writesOf(b.rec.Window)
	switch p.Kind {
	case "boundaries":
		b.boundaries()
	case "errpath":
		for _, w := range ws {
			b.errPath(w)
		}
	case "partial":
		for _, w := range ws {
			var ks []int
			if p.Set == "quick" {
				// the content about to be written: the complete new version of the target file
				content := b.ref[p.Sc.targetPaths()[0]]
				ks = quickSet(p.Sc, content, w.n)
			} else {
				for k := p.KLo; k < p.KHi && k < w.n; k++ {
					if p.Stride <= 1 || k%p.Stride == 0 || k <= 400 || k >= w.n-200 {
						ks = append(ks, k)
					}
				}
			}
			b.partial(w, ks)
		}
	}
	return o
}
