// Package c17: transfer progress reporting is race-free and well-formed.
// Built with -race. Two real Sessions with recording StatusUpdaters exchange messages over a
// paced in-memory link (per-write delays from none to longer than the 250 ms reporting period,
// with and without a modem-style transmit buffer). Verdicts: (1) the Go race detector's reports
// (collected per process by the framework), (2) an offline checker over the recorded Status values.
package c17

import (
	"bytes"
	"fmt"
	"runtime"
	"sync"
	"time"

	"github.com/la5nta/wl2k-go/fbb"

	"verif/internal/b2fx"
	"verif/internal/mem"
	"verif/internal/vpipe"
	"verif/internal/vrt"
)

type params struct {
	Seed    int64 `json:"seed"`
	Index   int   `json:"index"`
	DelayMS int   `json:"delay_ms"` // per write on the link
	Size    int   `json:"size"`     // body bytes of the big message (incompressible)
	NMsgs   int   `json:"n_msgs"`   // messages in the block
	Modem   bool  `json:"modem"`    // transport reports a transmit-buffer length and can Flush
	Rep     int   `json:"rep"`
	// TxDelayMS: latency of the modem's TxBufferLen query; UpdDelayMS: time the application's
	// StatusUpdater takes per report (e.g. a UI redraw). Both keep the reporting goroutine busy, so
	// that transfers end while a periodic report is being produced.
	TxDelayMS  int `json:"tx_delay_ms,omitempty"`
	UpdDelayMS int `json:"upd_delay_ms,omitempty"`
	// TxHoldMS: turn-around of the modem: a burst stays in the reported transmit buffer (and Flush
	// blocks) that long, so periodic reports fall into moments where the modem holds more bytes
	// (message + framing) than message bytes have been written.
	TxHoldMS int `json:"tx_hold_ms,omitempty"`
	// ResumeAt > 0: the "resume" leg - the station under test sends to the reference peer, which
	// answers the proposal with an offset request (!n / An): the transfer resumes at that offset.
	ResumeAt int `json:"resume_at,omitempty"`
	// ResumeEnd > 0 (resume leg): the offset asked for is the compressed size of the message minus (ResumeEnd-1) - the
	// upper end of the range: 1 = nothing is left to send, 2 = one byte is.
	ResumeEnd int `json:"resume_end,omitempty"`
	// GateFirst: on both stations the first periodic report stays inside UpdateStatus until both Exchange
	// calls have returned; the reports still owed (in particular that transfer's Done) arrive afterwards.
	GateFirst bool `json:"gate_first,omitempty"`
	// TxWindowMS > 0: the sending connections report a transmit buffer (no Flush) holding what was written within
	// the last TxWindowMS; the pacing of the link starts only after SlowAfter bytes (a fast first message, a
	// slow second one: the reported buffer is high when the second transfer starts and falls during it).
	TxWindowMS int   `json:"tx_window_ms,omitempty"`
	SlowAfter  int64 `json:"slow_after,omitempty"`
	// BigFirst: the first (large) message carries a precedence marker, so that it is transferred BEFORE the
	// smaller ones (proposals go out by precedence, then size).
	BigFirst bool `json:"big_first,omitempty"`
	// OneProc: the case process runs with GOMAXPROCS(1) (a single-core board): reporting goroutines only get to run when
	// the session goroutine blocks, so what they owe piles up between transfers.
	OneProc bool `json:"one_proc,omitempty"`
	// CSize > 0: the messages from A have a compressed size of exactly this many bytes (searched): 125 is one full data block
	CSize int `json:"csize,omitempty"`
}

var Check = &vrt.Check{
	ID:          "C17",
	Level:       "exploration",
	Race:        true,
	ProcPerCase: true,
	Rule: "one case = one paced exchange in its own -race process: message sizes 200 B..60 kB, per-write link delays {0,1,50,300} ms chosen so that paced transfers span >= 2 reporting ticks, " +
		"1-3 messages per block, transports with and without TxBufferLen/Flush, both directions; non-trivial = at least one periodic (non-final) status report was observed on either side; " +
		"distinct = (scenario index, repetition, number of periodic reports)",
	Assumptions: []string{
		"race reports are deduplicated by the pair of innermost library frames; a report without a library frame is a harness bug (exit 2)",
		"the final Done report is delivered asynchronously (possibly after Exchange returned): the monitor waits on the logical condition 'expected number of Done reports seen', with a 60 s cap whose expiry is inconclusive",
		"BytesTotal is compared with the compressed size of the proposal as returned by Proposal.CompressedSize()",
	},
	Plan:          plan,
	Run:           run,
	MinNontrivial: 4,
	MaxWorkers:    16,
}

func plan(seed int64, tier string) []vrt.Case {
	type sc struct {
		delay, size, n int
		modem          bool
		tx, upd        int
		hold           int
	}
	base := []sc{
		{0, 200, 1, false, 0, 0, 0}, {0, 60000, 3, false, 0, 0, 0}, {0, 6000, 2, true, 0, 0, 0},
		{1, 60000, 1, false, 0, 0, 0}, {1, 60000, 2, true, 0, 0, 0},
		{50, 1500, 1, false, 0, 0, 0}, {50, 3000, 2, false, 0, 0, 0}, {50, 1500, 1, true, 0, 0, 0}, {50, 6000, 3, true, 0, 0, 0},
		{300, 400, 1, false, 0, 0, 0}, {300, 300, 2, true, 0, 0, 0}, {300, 600, 1, true, 0, 0, 0},
		// slow modem query / slow updater: the end of a transfer falls into a periodic report
		{50, 2600, 3, true, 120, 0, 0}, {50, 2900, 3, false, 0, 120, 0}, {50, 3300, 3, true, 90, 60, 0}, {300, 500, 3, true, 150, 0, 0},
		// modem turn-around longer than the reporting period: reports are taken while the modem still holds the whole burst
		{0, 3000, 2, true, 0, 0, 400}, {1, 6000, 1, true, 0, 0, 700}, {0, 200, 3, true, 0, 0, 300}, {50, 1500, 2, true, 60, 0, 600},
	}
	reps := 2
	if tier == "thorough" {
		reps = 3
		r := vrt.Rand(seed, "c17plan")
		for i := 0; i < 120; i++ {
			d := []int{0, 1, 50, 300}[r.Intn(4)]
			var size int
			switch d {
			case 0:
				size = 200 + r.Intn(60000)
			case 1:
				size = 40000 + r.Intn(20000)
			case 50:
				size = 1500 + r.Intn(3000)
			default:
				size = 300 + r.Intn(500)
			}
			base = append(base, sc{d, size, 1 + r.Intn(3), r.Intn(2) == 0, []int{0, 0, 100, 160}[r.Intn(4)], []int{0, 0, 0, 90}[r.Intn(4)], 0})
			if last := &base[len(base)-1]; last.modem && r.Intn(3) == 0 {
				last.hold = 260 + r.Intn(600)
			}
		}
	}
	var cs []vrt.Case
	for i, s := range base {
		for rep := 0; rep < reps; rep++ {
			cs = append(cs, vrt.Case{ID: fmt.Sprintf("s%d-r%d", i, rep), Params: vrt.MustParams(params{Seed: seed, Index: i, DelayMS: s.delay, Size: s.size, NMsgs: s.n, Modem: s.modem, Rep: rep, TxDelayMS: s.tx, UpdDelayMS: s.upd, TxHoldMS: s.hold}), TimeoutS: 600})
		}
	}
	// a TxBuffer-only modem whose reported buffer follows the write rate; a large message received before smaller ones
	for rep := 0; rep < reps; rep++ {
		cs = append(cs, vrt.Case{ID: fmt.Sprintf("txwindow-r%d", rep), Params: vrt.MustParams(params{Seed: seed, Index: 3000, DelayMS: 50, Size: 2600, NMsgs: 2, Modem: true, Rep: rep, TxWindowMS: 700, SlowAfter: 3000}), TimeoutS: 600})
		cs = append(cs, vrt.Case{ID: fmt.Sprintf("bigfirst-r%d", rep), Params: vrt.MustParams(params{Seed: seed, Index: 3001, DelayMS: 50, Size: 3200, NMsgs: 3, Rep: rep, BigFirst: true}), TimeoutS: 600})
	}
	// compressed sizes that are whole numbers of data blocks (125 bytes each), and their neighbours
	for _, cz := range []int{124, 125, 126, 250} {
		cs = append(cs, vrt.Case{ID: fmt.Sprintf("csize%d", cz), Params: vrt.MustParams(params{Seed: seed, Index: 5000 + cz, DelayMS: 0, Size: 100, NMsgs: 2, Rep: cz % 2, CSize: cz}), TimeoutS: 600})
	}
	// a single-core machine, unpaced links, blocks of three messages
	for i, sz := range []int{200, 3000, 20000} {
		for rep := 0; rep < reps; rep++ {
			cs = append(cs, vrt.Case{ID: fmt.Sprintf("oneproc%d-r%d", i, rep), Params: vrt.MustParams(params{Seed: seed, Index: 4000 + i, DelayMS: 0, Size: sz, NMsgs: 3, Modem: i == 1, Rep: rep, OneProc: true}), TimeoutS: 600})
		}
	}
	// a display that is still busy with a periodic report when the exchange ends (paced, so that periodic reports happen)
	for i, sz := range []int{2600, 5200} {
		for rep := 0; rep < reps; rep++ {
			cs = append(cs, vrt.Case{ID: fmt.Sprintf("gate%d-r%d", i, rep), Params: vrt.MustParams(params{Seed: seed, Index: 2000 + i, DelayMS: 50, Size: sz, NMsgs: 1 + i, Rep: rep, GateFirst: true}), TimeoutS: 600})
		}
	}
	// resumed transfers (offset requests by the remote), paced so that periodic reports happen
	for i, at := range []int{1, 125, 1000, 2500} {
		for rep := 0; rep < reps; rep++ {
			cs = append(cs, vrt.Case{ID: fmt.Sprintf("resume%d-r%d", at, rep), Params: vrt.MustParams(params{Seed: seed, Index: 1000 + i, DelayMS: []int{0, 40}[rep%2], Size: 3600, NMsgs: 2, Rep: rep, ResumeAt: at}), TimeoutS: 600})
		}
	}
	for end := 1; end <= 2; end++ {
		for rep := 0; rep < 2; rep++ {
			cs = append(cs, vrt.Case{ID: fmt.Sprintf("resume-end%d-r%d", end, rep), Params: vrt.MustParams(params{Seed: seed, Index: 1100 + end, DelayMS: []int{0, 40}[rep%2], Size: 700, NMsgs: 2, Rep: rep, ResumeAt: 1, ResumeEnd: end}), TimeoutS: 600})
		}
	}
	return cs
}

// recorder is a thread-safe StatusUpdater.
type recorder struct {
	mu    sync.Mutex
	log   []fbb.Status
	delay time.Duration
	sink  int
	// gate (optional): the first periodic report blocks inside UpdateStatus until the gate is closed (the
	// harness closes it when Exchange has returned): a display that is busy while the exchange ends.
	gate  chan struct{}
	gated bool
	// previews: the messages read from the proposals named by Done reports of received transfers
	previews []preview
}

func (r *recorder) UpdateStatus(s fbb.Status) {
	// read what a progress display reads (the race detector watches these reads)
	seen := 0
	for _, p := range []*fbb.Proposal{s.Sending, s.Receiving} {
		if p != nil {
			seen += len(p.Title()) + len(p.MID()) + p.Size() + p.CompressedSize()
		}
	}
	if r.delay > 0 && !s.Done {
		time.Sleep(r.delay) // a slow consumer of periodic reports (the report is logged when it completes)
	}
	if r.gate != nil && !s.Done {
		r.mu.Lock()
		first := !r.gated
		r.gated = true
		r.mu.Unlock()
		if first {
			select {
			case <-r.gate:
			case <-time.After(2 * time.Minute):
			}
		}
	}
	var pv *preview
	if s.Done && s.Receiving != nil && s.Receiving.DataIsComplete() {
		// a display that shows the received message when its transfer is done: the proposal a Done report names
		// holds that message - also a moment later, while the session is already receiving the next one
		time.Sleep(2 * time.Millisecond)
		pv = &preview{mid: s.Receiving.MID()}
		if m, err := s.Receiving.Message(); err != nil {
			pv.err = err.Error()
		} else if raw, err := m.Bytes(); err != nil {
			pv.err = "serialising the previewed message: " + err.Error()
		} else {
			pv.raw = raw
		}
	}
	r.mu.Lock()
	r.log = append(r.log, s)
	r.sink += seen
	if pv != nil {
		r.previews = append(r.previews, *pv)
	}
	r.mu.Unlock()
}

// preview: what a Done report's Receiving proposal yielded when the display read its message.
type preview struct {
	mid string
	err string
	raw []byte
}

func (r *recorder) previewed() []preview {
	r.mu.Lock()
	defer r.mu.Unlock()
	return append([]preview(nil), r.previews...)
}

func (r *recorder) snapshot() []fbb.Status {
	r.mu.Lock()
	defer r.mu.Unlock()
	return append([]fbb.Status(nil), r.log...)
}

func (r *recorder) dones() int {
	r.mu.Lock()
	defer r.mu.Unlock()
	n := 0
	for _, s := range r.log {
		if s.Done {
			n++
		}
	}
	return n
}

// run executes the scenario; when a final Done report is still missing after the quiescence cap the
// whole scenario is executed a second time: only a Done report that is missing for the same station
// and direction in both independent executions (each waited for 60 s after Exchange had returned)
// is reported as a violation of "exactly one final report is delivered" - a bounded restatement of
// the liveness clause; a single miss stays inconclusive.
func run(c vrt.Case) vrt.Obs {
	o, missing := attempt(c)
	if len(missing) == 0 {
		return o
	}
	o2, missing2 := attempt(c)
	o.Evals += o2.Evals
	o.Violations = append(o.Violations, o2.Violations...)
	both := false
	for k := range missing {
		if missing2[k] {
			both = true
			o.Violate("status-done-missing", "%s: no report with Done set was delivered within 60 s after Exchange returned, in two independent executions of the scenario", k)
		}
	}
	if both {
		o.Inconclusive = nil
	}
	return o
}

func attempt(c vrt.Case) (vrt.Obs, map[string]bool) {
	var p0 params
	vrt.Params(c, &p0)
	if p0.ResumeAt > 0 {
		return attemptResume(p0)
	}
	return attemptPair(c)
}

// attemptResume: the station sends two messages to the reference peer; the first is answered with an
// offset request. Every report must still name the message, lie within [0, compressed size] and the
// transfer must end with exactly one Done report.
func attemptResume(p params) (o vrt.Obs, missing map[string]bool) {
	missing = map[string]bool{}
	o.Evals = 1
	rng := vrt.Rand(p.Seed, "c17resume", p.Index, p.Rep)
	w := b2fx.BaseWorld(fmt.Sprintf("c17resume-%d-%d", p.ResumeAt, p.Rep), p.Rep%2 == 0)
	tok := fmt.Sprintf("!%d", p.ResumeAt)
	if p.Rep%2 == 1 {
		tok = fmt.Sprintf("A%d", p.ResumeAt)
	}
	if err := w.AddLib("RESUME000001", "resumed transfer", vrt.Bytes(rng, p.Size), tok); err != nil {
		o.Inconclusive = append(o.Inconclusive, err.Error())
		return
	}
	if p.ResumeEnd > 0 {
		msg := new(fbb.Message)
		if err := msg.ReadFrom(bytes.NewReader(w.Truth["RESUME000001"])); err != nil {
			o.Inconclusive = append(o.Inconclusive, err.Error())
			return
		}
		pr, err := msg.Proposal(fbb.Wl2kProposal)
		if err != nil {
			o.Inconclusive = append(o.Inconclusive, err.Error())
			return
		}
		p.ResumeAt = pr.CompressedSize() - (p.ResumeEnd - 1)
		tok = fmt.Sprintf("%c%d", tok[0], p.ResumeAt)
		w.Plan.Answers["RESUME000001"] = tok
		o.Count("resumed_transfers_from_the_upper_end_of_the_offset_range", 1)
	}
	if err := w.AddLib("RESUME000002", "ordinary transfer", vrt.Bytes(rng, 900), "+"); err != nil {
		o.Inconclusive = append(o.Inconclusive, err.Error())
		return
	}
	rec := &recorder{}
	w.Status = rec
	w.WriteDelay = [2]time.Duration{time.Duration(p.DelayMS) * time.Millisecond, 0}
	run := w.Run(false, [2][]vpipe.Edit{})
	if run.Lib.Err != nil || run.Lib.Panic != nil || run.Res.Err != nil {
		o.Inconclusive = append(o.Inconclusive, fmt.Sprintf("resume leg: session did not complete: station=%v panic=%v peer=%v complaints=%v", run.Lib.Err, run.Lib.Panic != nil, run.Res.Err, run.Res.Complaints))
		return
	}
	if run.Res.ResumedTransfers == 0 {
		o.Inconclusive = append(o.Inconclusive, "resume leg: the peer did not see a resumed transfer")
		return
	}
	o.Count("resumed_transfers", int64(run.Res.ResumedTransfers))
	deadline := time.Now().Add(60 * time.Second)
	for rec.dones() < 2 && time.Now().Before(deadline) {
		time.Sleep(20 * time.Millisecond)
	}
	time.Sleep(300 * time.Millisecond)
	dones := map[string]int{}
	after := map[string]bool{}
	periodic := 0
	for i, s := range rec.snapshot() {
		if s.Sending == nil || s.Receiving != nil {
			o.Violate("status-direction", "resume leg: report #%d does not name exactly the sent proposal", i)
			continue
		}
		mid := s.Sending.MID()
		o.Count("status_reports_checked", 1)
		if mid != "RESUME000001" && mid != "RESUME000002" {
			o.Violate("status-wrong-message", "resume leg: report #%d names %s", i, mid)
			continue
		}
		if s.BytesTotal != s.Sending.CompressedSize() {
			o.Violate("status-total", "resume leg %s: BytesTotal=%d, compressed size of the proposal is %d", mid, s.BytesTotal, s.Sending.CompressedSize())
		}
		if s.BytesTransferred < 0 || s.BytesTransferred > s.BytesTotal {
			o.Violate("status-bytes-out-of-range", "resume leg %s (answered %s): BytesTransferred=%d outside [0,%d] (done=%v)", mid, tok, s.BytesTransferred, s.BytesTotal, s.Done)
		}
		if after[mid] {
			o.Violate("status-after-done", "resume leg %s: a report follows the Done report", mid)
		}
		if s.Done {
			dones[mid]++
			after[mid] = true
		} else {
			periodic++
		}
	}
	for _, mid := range []string{"RESUME000001", "RESUME000002"} {
		switch n := dones[mid]; {
		case n == 1:
			o.Count("done_reports_exactly_one", 1)
		case n == 0:
			o.Inconclusive = append(o.Inconclusive, "resume leg "+mid+": Done report not seen within the 60 s quiescence cap")
			missing[fmt.Sprintf("resume leg %s (answered %s)", mid, tok)] = true
		default:
			o.Violate("status-done-count", "resume leg %s: %d reports with Done set (expected exactly one)", mid, n)
		}
	}
	o.Count("periodic_reports", int64(periodic))
	o.Sig("resume %d r%d periodic=%d", p.ResumeAt, p.Rep, periodic)
	o.Sample = map[string]any{"leg": "resume", "answer": tok, "periodic_reports": periodic, "delay_ms": p.DelayMS}
	return
}

func attemptPair(c vrt.Case) (vrt.Obs, map[string]bool) {
	missing := map[string]bool{}
	var p params
	vrt.Params(c, &p)
	var o vrt.Obs
	o.Evals = 1
	if p.OneProc {
		runtime.GOMAXPROCS(1) // this case has a process of its own
		o.Count("scenarios_on_one_processor", 1)
	}
	rng := vrt.Rand(p.Seed, "c17", p.Index, p.Rep)
	sc := &b2fx.Scenario{Policy: map[string]fbb.ProposalAnswer{}, Truth: map[string][]byte{}, MasterIsA: p.Rep%2 == 0}
	mk := func(mid, from, to string, size int) (b2fx.MsgSpec, error) {
		m := b2fx.MsgSpec{MID: mid, From: from, To: []string{to}, Subject: "progress " + mid, Body: vrt.Bytes(rng, size), Shape: fmt.Sprintf("body[%d]", size)}
		if p.BigFirst && mid == "A0" {
			m.Subject = "//WL2K P/ progress " + mid
		}
		cb, err := m.Canonical()
		if err == nil {
			sc.Truth[mid], sc.Policy[mid] = cb, fbb.Accept
		}
		return m, err
	}
	if p.CSize > 0 {
		// messages whose COMPRESSED size is exactly p.CSize (a whole number of 125-byte blocks): the body is searched
		found := 0
		for try := 0; try < 20000 && found < p.NMsgs; try++ {
			mid := fmt.Sprintf("A%d", found)
			// a short message: compressible filler plus a few PRNG bytes (the smallest messages compress to about 110 bytes)
			body := append(bytes.Repeat([]byte("a"), 1+try%97), vrt.Bytes(rng, (try/97)%(8+p.CSize/3))...)
			m := b2fx.MsgSpec{MID: mid, From: b2fx.CallA, To: []string{b2fx.CallB}, Subject: "s", Body: body, Shape: "searched", Minimal: p.CSize < 200, NoDate: p.CSize < 200 && try%2 == 0}
			cb, err := m.Canonical()
			if err != nil {
				continue
			}
			msg := new(fbb.Message)
			if msg.ReadFrom(bytes.NewReader(cb)) != nil {
				continue
			}
			if pr, err := msg.Proposal(fbb.Wl2kProposal); err != nil || pr.CompressedSize() != p.CSize {
				continue
			}
			sc.Truth[mid], sc.Policy[mid] = cb, fbb.Accept
			sc.MsgsA = append(sc.MsgsA, m)
			found++
		}
		if found < p.NMsgs {
			o.Inconclusive = append(o.Inconclusive, fmt.Sprintf("no message with a compressed size of exactly %d bytes found", p.CSize))
			return o, missing
		}
		o.Count("messages_with_a_compressed_size_of_whole_blocks", int64(found))
	}
	for i := 0; i < p.NMsgs && p.CSize == 0; i++ {
		size := p.Size + rng.Intn(1+p.Size/8) // jitter: the end of the transfer falls at varying phases of the 250 ms tick
		if i > 0 && p.TxDelayMS+p.UpdDelayMS == 0 {
			size = 50 + p.Size/4
		}
		if p.TxWindowMS > 0 {
			size = p.Size + 40*i // two messages of about the same size
		}
		m, err := mk(fmt.Sprintf("A%d", i), b2fx.CallA, b2fx.CallB, size)
		if err != nil {
			o.Inconclusive = append(o.Inconclusive, err.Error())
			return o, missing
		}
		sc.MsgsA = append(sc.MsgsA, m)
	}
	// and one message the other way, so that both stations both send and receive
	mb, err := mk("B0", b2fx.CallB, b2fx.CallA, 50+p.Size/2)
	if err != nil {
		o.Inconclusive = append(o.Inconclusive, err.Error())
		return o, missing
	}
	sc.MsgsB = []b2fx.MsgSpec{mb}

	lg := &mem.Log{}
	a, b := sc.Stations(lg)
	sa, sb := sc.Sides(a, b)
	ra, rb := &recorder{delay: time.Duration(p.UpdDelayMS) * time.Millisecond}, &recorder{delay: time.Duration(p.UpdDelayMS) * time.Millisecond}
	sa.ModemTxDelay, sb.ModemTxDelay = time.Duration(p.TxDelayMS)*time.Millisecond, time.Duration(p.TxDelayMS)*time.Millisecond
	sa.ModemTxHold, sb.ModemTxHold = time.Duration(p.TxHoldMS)*time.Millisecond, time.Duration(p.TxHoldMS)*time.Millisecond
	if p.GateFirst {
		ra.gate, rb.gate = make(chan struct{}), make(chan struct{})
	}
	sa.Status, sb.Status = ra, rb
	sa.Modem, sb.Modem = p.Modem, p.Modem
	if p.TxWindowMS > 0 {
		sa.ModemTxWindow, sb.ModemTxWindow = time.Duration(p.TxWindowMS)*time.Millisecond, time.Duration(p.TxWindowMS)*time.Millisecond
		sa.ModemNoFlush, sb.ModemNoFlush = true, true
	}
	var pl vpipe.Plan
	pl.CutDir = vpipe.NoCut
	pl.WriteDelay = [2]time.Duration{time.Duration(p.DelayMS) * time.Millisecond, time.Duration(p.DelayMS) * time.Millisecond}
	pl.WriteDelayAfter = [2]int64{p.SlowAfter, p.SlowAfter}
	res, _ := b2fx.RunPair(sa, sb, pl, false)
	if p.GateFirst {
		close(ra.gate)
		close(rb.gate)
	}
	if res.A.Err != nil || res.B.Err != nil || res.A.Panic != nil || res.B.Panic != nil {
		o.Violate("exchange-failed", "paced exchange failed: A=%v B=%v panics=%v/%v", res.A.Err, res.B.Err, res.A.Panic, res.B.Panic)
		return o, missing
	}
	// quiescence: wait for the logical condition "every transfer has produced its Done report"
	wantA := len(sc.MsgsA) + len(sc.MsgsB) // A sends MsgsA and receives MsgsB
	wantB := wantA
	deadline := time.Now().Add(60 * time.Second)
	for (ra.dones() < wantA || rb.dones() < wantB) && time.Now().Before(deadline) {
		time.Sleep(20 * time.Millisecond)
	}
	// let stragglers arrive (a report after Done or a duplicate Done would be a violation)
	time.Sleep(300*time.Millisecond + 3*time.Duration(p.UpdDelayMS+p.TxDelayMS)*time.Millisecond)
	csize := map[string]int{}
	for _, e := range lg.Events() {
		if e.Kind == mem.EvGetInboundAns {
			csize[e.MID] = e.Size
		}
	}
	periodic := 0
	check := func(name string, rec *recorder, sends, receives []b2fx.MsgSpec) {
		type key struct {
			mid string
			dir string
		}
		allowed := map[key]bool{}
		for _, m := range sends {
			allowed[key{m.MID, "send"}] = true
		}
		for _, m := range receives {
			allowed[key{m.MID, "recv"}] = true
		}
		dones := map[key]int{}
		afterDone := map[key]bool{}
		for i, s := range rec.snapshot() {
			var k key
			var prop *fbb.Proposal
			switch {
			case s.Sending != nil && s.Receiving == nil:
				k, prop = key{s.Sending.MID(), "send"}, s.Sending
			case s.Receiving != nil && s.Sending == nil:
				k, prop = key{s.Receiving.MID(), "recv"}, s.Receiving
			default:
				o.Violate("status-direction", "station %s report #%d names neither or both of Sending/Receiving", name, i)
				continue
			}
			o.Count("status_reports_checked", 1)
			if !allowed[k] {
				o.Violate("status-wrong-message", "station %s report #%d names %s (%s), which is not one of its transfers in that direction", name, i, k.mid, k.dir)
				continue
			}
			if s.BytesTransferred < 0 || s.BytesTransferred > s.BytesTotal {
				o.Violate("status-bytes-out-of-range", "station %s %s %s: BytesTransferred=%d outside [0,%d]", name, k.dir, k.mid, s.BytesTransferred, s.BytesTotal)
			}
			if want, ok := csize[k.mid]; ok && (s.BytesTotal != want || prop.CompressedSize() != want) {
				o.Violate("status-total", "station %s %s %s: BytesTotal=%d, compressed size of the proposal is %d", name, k.dir, k.mid, s.BytesTotal, want)
			}
			if afterDone[k] {
				o.Violate("status-after-done", "station %s %s %s: a report follows the Done report", name, k.dir, k.mid)
			}
			if s.Done {
				dones[k]++
				afterDone[k] = true
			} else {
				periodic++
			}
		}
		for k := range allowed {
			switch n := dones[k]; {
			case n == 1:
				o.Count("done_reports_exactly_one", 1)
			case n == 0 && !time.Now().Before(deadline):
				missing[fmt.Sprintf("station %s %s %s", name, k.dir, k.mid)] = true
				o.Inconclusive = append(o.Inconclusive, fmt.Sprintf("station %s %s %s: Done report not seen within the 60 s quiescence cap", name, k.dir, k.mid))
			default:
				o.Violate("status-done-count", "station %s %s %s: %d reports with Done set (expected exactly one)", name, k.dir, k.mid, n)
			}
		}
	}
	check("A", ra, sc.MsgsA, sc.MsgsB)
	check("B", rb, sc.MsgsB, sc.MsgsA)
	// "names that message": the proposal of a Done report holds the message that was transferred
	for _, side := range []struct {
		name     string
		rec      *recorder
		receives []b2fx.MsgSpec
	}{{"A", ra, sc.MsgsB}, {"B", rb, sc.MsgsA}} {
		got := map[string][]byte{}
		for _, pv := range side.rec.previewed() {
			o.Count("messages_read_from_done_reports", 1)
			if pv.err != "" {
				o.Violate("status-done-proposal-unreadable", "station %s: the proposal named by the Done report of %s does not yield its message: %s", side.name, pv.mid, pv.err)
				continue
			}
			got[pv.mid] = pv.raw
		}
		b2fx.CheckContent(&o, side.receives, got, side.name+" (message read from the Done report)")
	}
	o.Count("periodic_reports", int64(periodic))
	o.Count("exchange_ms", res.Duration.Milliseconds())
	if periodic > 0 {
		o.Sig("s%d r%d periodic=%d", p.Index, p.Rep, periodic)
	}
	o.Sample = map[string]any{"delay_ms": p.DelayMS, "size": p.Size, "n_msgs": p.NMsgs, "modem": p.Modem, "periodic_reports": periodic, "exchange_ms": res.Duration.Milliseconds()}
	return o, missing
}
