// Package c12: the mailbox never touches files outside its own directory.
//
// The real mailbox.DirHandler runs in a child process that has chroot()ed into a jail
// (mboxkit.JailRun): the mailbox sits six levels deep, every ancestor level and several sibling
// directories hold decoy files (so that overwrites, renames and deletions have targets), and a
// recursive snapshot (type, mode, size, mtime, inode, content hash) of everything outside the
// mailbox directory is compared before and after every single call. Hostile identifiers are
// applied directly to ProcessInbound (as the Mid header of the received message, set directly and
// through the library's message parser), GetInboundAnswer, SetSent and SetDeferred, and - as a
// history - to an outbox message with that Mid header which GetOutbound hands out and whose own
// identifier is then given back to SetSent / SetDeferred ("relay-*").
//
// The "through a real Session fed by the reference B2F peer" leg is added by registering a jail
// operation (mboxkit.RegisterJailOp) and appending cases of that kind to plan().
package c12

import (
	"encoding/base64"
	"encoding/hex"
	"encoding/json"
	"fmt"
	"path/filepath"
	"strings"

	"verif/internal/b2fx"
	"verif/internal/mboxkit"
	"verif/internal/vrt"
)

var Check = &vrt.Check{
	ID:    "C12",
	Level: "exploration",
	Rule: "a case is a batch of calls {ProcessInbound (Mid header set directly / delivered through the message parser), GetInboundAnswer, SetSent, SetDeferred, relayed outbox message with that Mid header -> GetOutbound -> SetSent(sent/rejected)/SetDeferred with the identifier handed out} x hostile identifiers " +
		"(../ chains of depth 1-8 aimed at decoy files and at folders named like mailbox folders, absolute paths, sub-paths, '.', '..', empty, 251/255/300/5000 characters, Latin-1, UTF-8, NUL, " +
		"backslashes, trailing dots/blanks, CR/LF, x/../../y mixtures, PRNG compositions of such segments) and a few valid MIDs, applied to a mailbox inside a chroot jail; " +
		"an execution is non-trivial when the call really ran in the jail and the before/after snapshots of everything outside the mailbox were compared; distinct = distinct (call, identifier)",
	Assumptions: []string{
		"confinement is the claim: a call that fails, panics or ends the process (mailbox.SetSent calls log.Fatalf when the rename fails) is not a violation by itself; the jail is diffed from outside when the child dies",
		"differences are looked for in path set, type/mode, size, mtime, inode and content hash (regular files) or target (symlinks); access times are not part of the snapshot (the property speaks of create/modify/rename/delete)",
		"mailbox FOLDERS that are symbolic links to other places are out of scope (where the folders live is the local configuration); message FILES that are symbolic links to files elsewhere are in scope: the remote station's use of that identifier must not reach through the link",
	},
	Plan:          plan,
	Run:           run,
	Exhaustive:    func(string) bool { return false },
	MinNontrivial: 200,
}

type midCase struct {
	Class string
	MID   string
}

// fixedMIDs is the regression list of both tiers.
func fixedMIDs() []midCase {
	var l []midCase
	add := func(class string, mids ...string) {
		for _, m := range mids {
			l = append(l, midCase{class, m})
		}
	}
	for depth := 1; depth <= 8; depth++ {
		up := strings.Repeat("../", depth)
		add("dotdot", up+"x", up+"decoy")
		add("dotdot-folder", up+"in/x", up+"sent/y")
		add("dotdot-special", up+"empty", up+"folder", up+"ro")
	}
	add("dotdot-special", "/abs/empty", "/empty", "../../other/in/empty", "/l1/empty")
	add("dotdot", "../AAAAAAAAAAA1", "../../AAAAAAAAAAA1", "../../../../../../../../../../../../x", "../../other/in/x", "../../mbox2/in/x", "../../link")
	add("absolute", "/abs/x", "/x", "/etc/passwd", "/tmp/x", "//abs/x", "/l1/x", "/l1/l2/l3/l4/l5/l6/x")
	add("subpath", "a/b", "in/x", "x/y/z", "./x", "x/.", "x/")
	add("dots", "..", ".", "...", "../", "./", "x/..", "../.", "..x", "x..")
	add("empty", "")
	add("long", strings.Repeat("A", 251), strings.Repeat("A", 252), strings.Repeat("A", 255), strings.Repeat("A", 300), strings.Repeat("A", 5000),
		"../../"+strings.Repeat("B", 300), strings.Repeat("../", 100)+"x", strings.Repeat("d/", 150)+"x")
	add("non-ascii", "\xe6\xf8\xe5", "æøå", "../../\xe6", "../../ø", "\xff\xfe", "x‮", "../../x ")
	add("nul", "x\x00y", "\x00", "../../x\x00", "../../x\x00.b2f", "\x00../../x", "../\x00/../x")
	add("backslash", `..\..\x`, `a\b`, `\abs\x`, `..\x`, `../..\x`, `x\`)
	add("trailing", "x.", "x ", "x. ", " x", "../../x ", "../../x.", " ../../x", "x.b2f", "../../x.b2f")
	add("mixed", "x/../../y", "a/../../../x", "./../x", "..//x", "../in/../../x", "in/../../../y", "a/b/../../../../decoy", "..//..//x", ".././../x", "x/../../../../../../../../y")
	// shapes that survive naive sanitising (removing "../" once, checking only a prefix, Clean()-ing)
	add("bypass", "....//....//x", "....//x", "..././..././x", ".../...//x", "....\\/....\\/x", "x/../../../decoy", "./../../x", "%2e%2e/%2e%2e/x", "..%2f..%2fx", "..;/..;/x", "a/b/c/../../../../../x", "in/../../../x")
	// identifiers that turn into a traversal only after some decoding step a mailbox might apply to a
	// name (RFC 2047 encoded words as in header fields, percent-escapes, HTML entities, overlong and
	// full-width forms, case folding of escapes) - the raw strings contain no separator at all
	for _, target := range []string{"../../x", "../../decoy", "../../../../../../x", "/abs/x", "../../mbox2/in/x", "../in/../../x"} {
		q, pc := "", ""
		for i := 0; i < len(target); i++ {
			q += fmt.Sprintf("=%02X", target[i])
			pc += fmt.Sprintf("%%%02x", target[i])
		}
		b64 := base64.StdEncoding.EncodeToString([]byte(target))
		add("encoded", "=?utf-8?q?"+q+"?=", "=?UTF-8?Q?"+q+"?=", "=?iso-8859-1?q?"+q+"?=", "=?utf-8?b?"+b64+"?=", "=?ISO-8859-1?B?"+b64+"?=", "=?us-ascii?q?"+strings.ReplaceAll(target, "/", "=2F")+"?=",
			"x =?utf-8?q?"+q+"?=", pc, strings.ReplaceAll(target, "/", "%2F"), strings.ReplaceAll(target, "/", "%252f"), strings.ReplaceAll(target, "/", "&#47;"), strings.ReplaceAll(target, "/", "\u2215"),
			strings.ReplaceAll(strings.ReplaceAll(target, "/", "\xc0\xaf"), ".", "\xc0\xae"), strings.ReplaceAll(strings.ReplaceAll(target, "/", "\uff0f"), ".", "\uff0e"), b64, q)
	}
	// identifiers whose characters turn into separators and dots when a rune is cut down to its low byte (U+012E -> '.',
	// U+012F -> '/', U+015C -> '\\'; also from higher planes): the raw strings contain no ASCII separator at all
	for _, target := range []string{"../../x", "../../decoy", "../../../../../../x", "/abs/x", "../../mbox2/in/x", "../../empty", "..\\..\\x"} {
		for _, hi := range []rune{0x100, 0x200, 0x1F00, 0x2F00, 0x10100} {
			var b strings.Builder
			for _, c := range target {
				if c == '.' || c == '/' || c == '\\' {
					b.WriteRune(hi | c)
				} else {
					b.WriteRune(c)
				}
			}
			add("rune-truncation", b.String())
		}
	}
	// targets below directories that do not exist (yet): a helper that "creates the missing folder" first
	add("newdir", "../../N0NEW/in/x", "../../../spool/cron/x", "../newdir/x", "/abs/newdir/x", "../../Q/x", "../Q/x", "../../../../../../new/dir/deep/x", "newdir/x", "in/newdir/x", "../../mbox2/newdir/x")
	// identifiers made of file-name pattern characters (a helper that globs instead of opening)
	add("glob", "*", "?", "VALIDIN0000?", "[A-Z]*", "../*", "../../*/in/*", "../../deco?", "{a,b}", "../../[d]ecoy", "*/../../x")
	// a traversal behind an element that is longer than a file name, a path or a scan bound may be: the file system would refuse
	// the long element, but a lexical clean-up of "<long>/.." removes it before the kernel sees it (seeded change C12-20)
	for _, n := range []int{64, 128, 200, 254, 255, 256, 257, 300, 511, 512, 513, 1023, 1024, 1025, 4095, 4096, 4097, 5000, 65536, 70000} {
		for depth := 1; depth <= 4; depth++ {
			up := strings.Repeat("../", depth+1)
			add("long-prefix", strings.Repeat("A", n)+"/"+up+"x", strings.Repeat("L", n)+"/"+up+"decoy", strings.Repeat("a", n)+"\\"+up+"x")
		}
		add("long-prefix", strings.Repeat("A", n)+"/../../../empty", strings.Repeat("A", n)+"/../../in/x", strings.Repeat("B", n-2)+"/B/../../../../x", strings.Repeat("C", n)+"/../../../mbox2/in/x")
	}
	// an ordinary identifier, a character at which some other notation ends its "identifier part" (Message-ID form id@host, a
	// parameter, a fragment, a list), then the traversal: a validator that looks at the part before that character only
	for _, c := range []string{"@", ":", ";", ",", "?", "#", "&", "=", "+", " ", "|", "%", "!", "~", "<", ">", "(", "\t", "$", "*"} {
		add("split-char", "GOODMID00001"+c+"/../../../x", "A"+c+"b/../../../../decoy", "GOODMID00001"+c+"../../x", "VALID0000002"+c+"host/../../../mbox2/in/x",
			"GOODMID00001"+c+"/../../in/x", "A"+c+"/../../../empty", "GOODMID00001"+c+"\\..\\..\\..\\x")
	}
	add("crlf", "x\r\nX-Evil: 1", "../../x\n", "../../x\r", "x\ny", "\r\n")
	add("valid", "VALID0000002", "x", "AAAAAAAAAAA1", "abc123", "Z")
	return l
}

// prngMID composes an identifier: a chain of ".." steps (with lexically neutral noise such as
// "x/..", "." and doubled separators), then a way down into directories that exist in the jail, then
// a file name (decoys, new names), with occasional absolute prefix, backslashes and suffix noise.
func prngMID(seed int64, i int) string {
	r := vrt.Rand(seed, "c12-mid", i)
	sep := func() string {
		switch r.Intn(12) {
		case 0:
			return "//"
		case 1:
			return "\\"
		}
		return "/"
	}
	var b strings.Builder
	if r.Intn(8) == 0 {
		b.WriteString("/")
	}
	for up := r.Intn(10); up > 0; up-- {
		switch r.Intn(8) {
		case 0:
			b.WriteString(vrt.Pick(r, []string{"x", "in", "a", "nonexistent"}) + sep() + ".." + sep())
		case 1:
			b.WriteString("." + sep())
		}
		b.WriteString(".." + sep())
	}
	b.WriteString(vrt.Pick(r, []string{"", "", "", "in/", "out/", "sent/", "archive/", "other/in/", "mbox2/in/", "mbox/in/", "l6/", "l5/l6/", "l1/", "l1/l2/", "abs/", "etc/", "tmp/", "a/"}))
	b.WriteString(vrt.Pick(r, []string{"x", "x", "y", "decoy", "AAAAAAAAAAA1", "new", "passwd", "link", "b", "VALIDIN00001", "..", ".", "empty", "empty", "folder", "ro"}))
	switch r.Intn(12) {
	case 0:
		b.WriteString("\x00")
	case 1:
		b.WriteString(" ")
	case 2:
		b.WriteString(".")
	case 3:
		b.WriteString(".b2f")
	case 4:
		b.WriteString("\x00.b2f")
	case 5:
		b.WriteString("/")
	}
	return b.String()
}

var kinds = []struct {
	kind   string
	parsed bool
}{{"ProcessInbound", false}, {"ProcessInbound", true}, {"GetInboundAnswer", false},
	// the relay histories come before the direct SetDeferred of the same identifier: GetOutbound does not hand out deferred messages
	{"relay-sent", false}, {"relay-rejected", false}, {"relay-deferred", false},
	// several messages in one ProcessInbound call, the hostile one behind messages that fail for other reasons
	{"batch-invalid-first", false}, {"batch-good-baddate-hostile", false}, {"batch-two-hostile", false},
	{"SetSent", false}, {"SetDeferred", false}}

type params struct {
	Ops []mboxkit.Op `json:"ops"`
}

func plan(seed int64, tier string) []vrt.Case {
	var cs []vrt.Case
	batch := func(id string, mids []midCase) {
		var ops []mboxkit.Op
		for _, m := range mids {
			for _, k := range kinds {
				ops = append(ops, mboxkit.Op{Kind: k.kind, Parsed: k.parsed, MID: []byte(m.MID), Note: m.Class})
			}
		}
		cs = append(cs, vrt.Case{ID: id, TimeoutS: 600, Params: vrt.MustParams(params{Ops: ops})})
	}
	fixed := fixedMIDs()
	const per = 8
	for lo := 0; lo < len(fixed); lo += per {
		batch(fmt.Sprintf("fixed-%d", lo), fixed[lo:min(lo+per, len(fixed))])
	}
	// The "through a real Session" leg: the reference B2F peer proposes a message to a real Session
	// whose handler is the directory mailbox. Variant 1: the hostile identifier is the proposed MID
	// and the message's Mid header. Variant 2: a harmless MID is proposed and only the Mid header of
	// the delivered message is hostile (the handler is asked about one name and stores under another).
	var sess []mboxkit.Op
	for i, m := range fixed {
		inLine := !strings.ContainsAny(m.MID, " \r\n\x00") && m.MID != ""
		mk := func(proposed, header string, variant string) {
			arg, _ := json.Marshal(b2fx.SessionJailArg{HeaderMID: []byte(header), LibMaster: i%2 == 0})
			sess = append(sess, mboxkit.Op{Kind: "session", MID: []byte(proposed), Arg: arg, Note: m.Class + "/" + variant})
		}
		if inLine {
			mk(m.MID, m.MID, "proposed+header")
		}
		if !strings.ContainsAny(m.MID, "\r\n") {
			mk(fmt.Sprintf("BENIGN%d", i), m.MID, "header-only")
		}
	}
	// Hostile content in headers other than Mid (the property speaks of "message identifier or header
	// content chosen by a remote station"): mailbox-private headers (X-FilePath, X-Unread, X-P2POnly)
	// that a remote has no business setting, attachment names, duplicate Mid lines - with path values
	// aimed at the decoys. Both directly (parsed message -> ProcessInbound) and through a real Session.
	hostileValues := []string{"/l1/decoy.b2f", "/l1/l2/l3/l4/l5/l6/x.b2f", "/abs/created-by-header.b2f", "/etc/passwd", "../../decoy.b2f", "../x.b2f", "../../../../../../../x",
		"/l1/l2/l3/l4/l5/l6/mbox2/in/x.b2f", "/l1/l2/l3/l4/l5/l6/link.b2f", "/tmp/new/dir/file.b2f", "true", ""}
	hostileNames := []string{"X-FilePath", "X-Filepath", "x-filepath", "X-Unread", "X-P2POnly", "X-File-Path", "Content-Location", "X-Mid", "Mid"}
	hi := 0
	for _, hn := range hostileNames {
		for _, hv := range hostileValues {
			hi++
			extra := [][2]string{{hn, hv}}
			if hi%4 == 0 {
				extra = append(extra, [2]string{"File", "0 ../../../x"})
			}
			arg, _ := json.Marshal(b2fx.SessionJailArg{HeaderMID: []byte(fmt.Sprintf("HDR%d", hi)), LibMaster: hi%2 == 0, Extra: extra})
			sess = append(sess, mboxkit.Op{Kind: "inbound-hdr", MID: []byte(fmt.Sprintf("HDR%d", hi)), Arg: arg, Note: "header:" + strings.ToLower(hn)})
			sess = append(sess, mboxkit.Op{Kind: "session", MID: []byte(fmt.Sprintf("HDS%d", hi)), Arg: mustArg(b2fx.SessionJailArg{HeaderMID: []byte(fmt.Sprintf("HDS%d", hi)), LibMaster: hi%2 == 0, Extra: extra}), Note: "header:" + strings.ToLower(hn) + "/session"})
		}
	}
	// message files of the mailbox that are symbolic links to files kept elsewhere (planted by the harness as a local
	// user or an archiving tool would), and the remote station using exactly those - ordinary - identifiers
	li := 0
	var linked []mboxkit.Op
	for _, target := range []string{"/abs/x.b2f", "/l1/decoy.b2f", "../../x.b2f", "../../../other/in/x.b2f", "/etc/passwd", "/abs/empty.b2f", "/l1/l2/l3/l4/l5/l6/link.b2f", "/abs/not-there-yet.b2f", "hard:/abs/x.b2f", "hard:/l1/decoy.b2f"} {
		for _, k := range []struct{ folder, kind string }{{"in", "ProcessInbound"}, {"in", "ProcessInbound(parsed)"}, {"in", "GetInboundAnswer"}, {"in", "session"}, {"out", "SetSent"}, {"out", "SetDeferred"}, {"in", "batch-good-baddate-hostile"}} {
			li++
			mid := fmt.Sprintf("LINKED%06d", li)
			linked = append(linked, mboxkit.Op{Kind: "plant-link", MID: []byte(mid), Arg: mustArg(k.folder + "|" + target), Note: "linked/plant"})
			op := mboxkit.Op{Kind: strings.TrimSuffix(k.kind, "(parsed)"), Parsed: strings.HasSuffix(k.kind, "(parsed)"), MID: []byte(mid), Note: "linked:" + target}
			if k.kind == "session" {
				op.Arg = mustArg(b2fx.SessionJailArg{HeaderMID: []byte(mid), LibMaster: li%2 == 0})
			}
			linked = append(linked, op)
		}
	}
	for lo := 0; lo < len(linked); lo += 14 {
		cs = append(cs, vrt.Case{ID: fmt.Sprintf("linked-%d", lo), TimeoutS: 900, Params: vrt.MustParams(params{Ops: linked[lo:min(lo+14, len(linked))]})})
	}
	// the handler value pointed at another mailbox directory (history, independent of remote content)
	for i := 0; i < 6; i++ {
		sess = append(sess, mboxkit.Op{Kind: "reconfigured", MID: []byte(fmt.Sprintf("RECONF%d", i)), Note: "reconfigured"})
	}
	for lo := 0; lo < len(sess); lo += 12 {
		cs = append(cs, vrt.Case{ID: fmt.Sprintf("session-%d", lo), TimeoutS: 900, Params: vrt.MustParams(params{Ops: sess[lo:min(lo+12, len(sess))]})})
	}
	nPRNG := 400
	if tier == "thorough" {
		nPRNG = 20000
	}
	for lo := 0; lo < nPRNG; lo += per {
		var l []midCase
		for i := lo; i < min(lo+per, nPRNG); i++ {
			l = append(l, midCase{"prng", prngMID(seed, i)})
		}
		batch(fmt.Sprintf("prng-%d", lo), l)
	}
	return cs
}

func retClass(r mboxkit.OpResult) string {
	switch {
	case r.Fatal:
		return "process_exit"
	case r.Panicked:
		return "panic"
	case strings.HasPrefix(r.Ret, "error:"):
		return "error"
	case strings.HasPrefix(r.Ret, "skipped:"):
		return "skipped"
	case strings.HasPrefix(r.Ret, "answer:"):
		return "answer_" + strings.TrimPrefix(r.Ret, "answer:")
	}
	return "returned_ok"
}

func run(c vrt.Case) vrt.Obs {
	var o vrt.Obs
	var p params
	vrt.Params(c, &p)
	mboxkit.Janitor()
	res := mboxkit.JailRun(p.Ops)
	Judge(&o, res)
	if len(res.Ops) > 0 {
		r := res.Ops[0]
		o.Sample = map[string]any{"first_call": r.Op.Kind, "mid": string(r.Op.MID), "class": r.Op.Note, "result": r.Ret, "files_touched_inside_mailbox": r.Inside, "changes_outside": len(r.Escapes), "chroot": res.Chroot, "calls_in_case": len(res.Ops)}
	}
	return o
}

// Judge turns a JailRun result into observations and violations (exported so that further legs,
// e.g. the session driver, can reuse the same verdict).
func Judge(o *vrt.Obs, res mboxkit.Result) {
	if res.Err != "" {
		o.Inconclusive = append(o.Inconclusive, "jail: "+res.Err)
	}
	if !res.Chroot {
		o.Count("calls_without_chroot_fallback_bounded_dotdot_depth", int64(len(res.Ops)))
	}
	seen := map[string]bool{}
	for _, r := range res.Ops {
		o.Count("calls_"+r.Op.Kind, 1)
		o.Count("result_"+retClass(r), 1)
		if strings.HasPrefix(r.Ret, "skipped:") {
			o.Count("skipped_"+r.Op.Kind+":"+strings.SplitN(strings.TrimPrefix(r.Ret, "skipped: "), ":", 2)[0], 1)
			continue
		}
		o.Evals++
		o.Count("snapshot_diffs_evaluated", 1)
		if r.Op.Kind == "session" {
			switch {
			case strings.Contains(r.Ret, "delivered=[]"):
				o.Count("session_leg_message_not_stored", 1)
			case strings.Contains(r.Ret, "delivered=["):
				o.Count("session_leg_message_stored_by_the_real_mailbox", 1)
			}
		}
		o.Count("files_touched_inside_mailbox", int64(r.Inside))
		kind := r.Op.Kind
		if r.Op.Parsed {
			kind += "(parsed)"
		}
		o.Sig("%s|%s", kind, hex.EncodeToString(r.Op.MID))
		if r.Op.Kind == "reconfigured" {
			// during this call the configured mailbox was <parent>/mbox2: changes there are the job, changes in
			// the directory configured before (or anywhere else) are not
			other := strings.TrimPrefix(filepath.Join(filepath.Dir(mboxkit.JailMbox), "mbox2"), "/") + "/"
			var stray []string
			for _, e := range r.Escapes {
				if !strings.HasPrefix(e.Path, other) && e.Path+"/" != other {
					stray = append(stray, e.What+" /"+e.Path)
				}
			}
			o.Count("reconfigured_handler_histories", 1)
			if r.Inside > 0 || len(stray) > 0 {
				v := o.Violate("escape:reconfigured", "after MBoxPath was pointed at another mailbox, %d file(s) of the previously configured mailbox were touched and these paths outside the new one changed: %v (call result: %s)", r.Inside, stray, r.Ret)
				v.Detail = map[string]any{"op": r.Op, "changes": r.Escapes, "touched_in_previous_mailbox": r.Inside}
			}
			continue
		}
		if len(r.Escapes) == 0 {
			continue
		}
		o.Count("calls_that_changed_something_outside", 1)
		key := "escape:" + r.Op.Kind + ":" + r.Op.Note
		if seen[key] {
			o.Count("violations_not_listed", 1)
			continue
		}
		seen[key] = true
		var what []string
		for i, e := range r.Escapes {
			if i == 4 {
				what = append(what, "...")
				break
			}
			what = append(what, e.What+" /"+e.Path)
		}
		v := o.Violate(key, "%s with identifier %q changed files outside the mailbox directory %s: %s (call result: %s)", kind, string(r.Op.MID), mboxkit.JailMbox, strings.Join(what, ", "), r.Ret)
		v.Detail = map[string]any{"op": r.Op, "mid_hex": hex.EncodeToString(r.Op.MID), "changes": r.Escapes, "result": r.Ret, "chroot": res.Chroot}
	}
}

func mustArg(v any) json.RawMessage {
	b, err := json.Marshal(v)
	if err != nil {
		panic(err)
	}
	return b
}
