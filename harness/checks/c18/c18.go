// Package c18: setting a message body preserves the text.
//
// Oracle: string predicates over the *stored* body, i.e. the body section of the serialised message
// as read by the independent parser msgref - never the value handed to the setter.
package c18

import (
	"bytes"
	"fmt"
	"hash/fnv"
	"math/rand"
	"regexp"
	"strconv"
	"strings"

	"github.com/la5nta/wl2k-go/fbb"

	"verif/internal/ref/msgref"
	"verif/internal/vrt"
)

type params struct {
	Kind string `json:"kind"` // fixed | lines | straddle | random
	Seed int64  `json:"seed,omitempty"`
	Idx  int    `json:"idx"`
	N    int    `json:"n,omitempty"`
}

var Check = &vrt.Check{
	ID:    "C18",
	Level: "exploration",
	Rule: "every execution is one SetBody(text) on a fresh message followed by Bytes(); the stored body is the body section the reference parser finds in those bytes. " +
		"kind=fixed: empty / newline-only / tiny texts and every Latin-1 code point; kind=lines: single long lines of 990..1010, 1990..2004, 65 530..65 540, 200 000 and 600 000 " +
		"bytes (ASCII and two-byte characters), alone and between other lines, with LF / CRLF / no final newline; kind=straddle: a two-byte UTF-8 character at every byte position " +
		"985..1010 and 1985..2004 of a line, the position measured in UTF-8 and in Latin-1 (0..499 two-byte characters before it); kind=random: PRNG texts " +
		"(0..40 lines, lengths from {0, short, around the 998 wrap, around 64 KiB}, ASCII / Latin-1 / control characters, mixed LF and CRLF, with and without final newline). " +
		"All executions are non-trivial (stored bytes compared); distinct = distinct input texts",
	Assumptions: []string{
		"input code points are U+0000..U+00FF (the body character set ISO-8859-1); CR occurs only as part of CRLF (a lone CR is not a line end in the input and is not representable as text in a CRLF-delimited body)",
		"line ends in the input are LF or CRLF; a final newline does not start another (empty) line",
		"a text none of whose lines exceeds 998 bytes must be stored exactly as its lines joined by CRLF, each terminated by CRLF (where the wrap falls in longer lines is left to the implementation)",
	},
	SelfTest:      msgref.SelfTest,
	Plan:          plan,
	Run:           run,
	Exhaustive:    func(string) bool { return false },
	MinNontrivial: 500,
}

func plan(seed int64, tier string) []vrt.Case {
	var cs []vrt.Case
	add := func(kind string, idx, n int) {
		cs = append(cs, vrt.Case{ID: fmt.Sprintf("%s-%d", kind, idx), Params: vrt.MustParams(params{Kind: kind, Seed: seed, Idx: idx, N: n}), TimeoutS: 900})
	}
	nRand, per := 100, 250
	if tier == "thorough" {
		nRand, per = 800, 750
	}
	// one case of every kind first (they become the evidence samples), then the rest
	add("fixed", 0, 0)
	add("lines", 0, 0)
	add("straddle", 0, 0)
	add("random", 0, per)
	for i := 1; i < len(lineLengths); i++ {
		add("lines", i, 0)
	}
	for i := 1; i < len(straddleBefore); i++ {
		add("straddle", i, 0)
	}
	for i := 1; i < nRand; i++ {
		add("random", i, per)
	}
	return cs
}

// ---- the oracle ------------------------------------------------------------------------------------

type ctx struct {
	o    *vrt.Obs
	seen map[string]int
	// kept: the last few messages whose body was set, with the serialisation taken right after
	// SetBody. A stored body must stay what it was when other bodies are set afterwards (on other
	// messages): "the stored body equals the input" is not a property of the instant after the call.
	kept []keptMsg
}

type keptMsg struct {
	m    *fbb.Message
	wire []byte
	text string
}

const keepLast = 4

// recheckKept re-serialises the messages set earlier and compares with what they were.
func (c *ctx) recheckKept() {
	for _, k := range c.kept {
		var now []byte
		if vrt.Guard(c.o, func() { now, _ = k.m.Bytes() }) {
			continue
		}
		c.o.Count("earlier_bodies_rechecked", 1)
		if !bytes.Equal(now, k.wire) {
			c.violate("content:earlier-body-changed", k.text, "the stored body of a message changed after SetBody was called on ANOTHER message: first difference at byte %d of the serialisation (%s); its own text was %s",
				firstDiff(now, k.wire), window(now, firstDiff(now, k.wire)), describe(k.text))
		}
	}
}

func (c *ctx) keep(m *fbb.Message, wire []byte, text string) {
	if len(wire) > 1<<16 {
		return // keep the harness's memory small; aliasing shows on small bodies just as well
	}
	c.kept = append(c.kept, keptMsg{m, wire, text})
	if len(c.kept) > keepLast {
		c.kept = c.kept[1:]
	}
}

// violate records at most two instances per key and case; the (costly) description of the text is
// only built for those.
func (c *ctx) violate(key, text, format string, a ...any) {
	c.seen[key]++
	if c.seen[key] > 2 {
		c.o.Count("violations_suppressed_same_key", 1)
		return
	}
	c.o.Violate(key, "%s", fmt.Sprintf(format, a...))
}

func describe(text string) string {
	h := fnv.New64a()
	h.Write([]byte(text))
	lines := splitInput(text)
	longest := 0
	for _, l := range lines {
		longest = max(longest, len(l))
	}
	head := text
	if len(head) > 60 {
		head = head[:60]
	}
	return fmt.Sprintf("text of %d UTF-8 bytes, %d lines, longest line %d Latin-1 bytes, fnv=%016x, starts %q", len(text), len(lines), longest, h.Sum64(), head)
}

// toLatin1 converts a string of code points <= U+00FF to ISO-8859-1 bytes.
func toLatin1(s string) []byte {
	b := make([]byte, 0, len(s))
	for _, r := range s {
		if r > 0xff {
			panic("generator produced a code point outside Latin-1")
		}
		b = append(b, byte(r))
	}
	return b
}

func fromLatin1(b []byte) string {
	var sb strings.Builder
	sb.Grow(len(b) + len(b)/4)
	for _, c := range b {
		sb.WriteRune(rune(c))
	}
	return sb.String()
}

func stripCRLF(b []byte) []byte {
	out := make([]byte, 0, len(b))
	for _, c := range b {
		if c != '\r' && c != '\n' {
			out = append(out, c)
		}
	}
	return out
}

// splitInput returns the lines of the input as Latin-1 bytes: split on LF, one CR before the LF
// belongs to the line end, a final newline does not start another line.
func splitInput(text string) [][]byte {
	if text == "" {
		return nil
	}
	parts := bytes.Split(toLatin1(text), []byte{'\n'})
	if len(parts[len(parts)-1]) == 0 {
		parts = parts[:len(parts)-1]
	}
	for i, p := range parts {
		parts[i] = bytes.TrimSuffix(p, []byte{'\r'})
	}
	return parts
}

func firstDiff(a, b []byte) int {
	n := min(len(a), len(b))
	for i := 0; i < n; i++ {
		if a[i] != b[i] {
			return i
		}
	}
	return n
}

func window(b []byte, at int) string {
	lo, hi := max(0, at-8), min(len(b), at+8)
	return fmt.Sprintf("%q", b[lo:hi])
}

// eval runs SetBody(text) on a fresh message and judges the stored body.
// eval judges SetBody(text) on a new message and then, for one text in three, an edited draft: the same message gets a
// corrected text of exactly the same length (one letter changed) after its body was read - what the message then
// stores and returns must be the corrected text.
func eval(c *ctx, text string) {
	m := evalOn(c, text, nil)
	if m == nil || len(text)%3 != 0 {
		return
	}
	for i := len(text) / 2; i < len(text); i++ {
		if text[i] >= 'a' && text[i] <= 'y' {
			c.unkeep(m)
			c.o.Count("drafts_edited_to_a_text_of_the_same_length", 1)
			evalOn(c, text[:i]+string(text[i]+1)+text[i+1:], m)
			return
		}
	}
}

// evalLiteral judges a text that contains carriage returns which are NOT part of a line end (pasted terminal output
// that redraws a line) by the literal clauses of the statement only - what such a CR "is" is not for the oracle to say:
// every LF of the stored body follows a CR and the body ends in CRLF; no stretch between two CRLFs exceeds 998 bytes;
// input and stored body are the same text once every CR and LF is removed; the Body header is the stored length.
func evalLiteral(c *ctx, text string) {
	o := c.o
	o.Evals++
	var wire []byte
	var setErr error
	if vrt.Guard(o, func() {
		m := &fbb.Message{Header: fbb.Header{}}
		m.Header.Set("Mid", "C18BODYTEST")
		if setErr = m.SetBody(text); setErr == nil {
			var err error
			if wire, err = m.Bytes(); err != nil {
				panic("Bytes() failed after SetBody: " + err.Error())
			}
		}
	}) {
		return
	}
	if setErr != nil {
		c.violate("error", text, "SetBody returned %v for representable text", setErr)
		return
	}
	ref, err := msgref.Parse(wire)
	if err != nil {
		c.violate("unparseable", text, "the serialised message is not well-formed (%v) after SetBody", err)
		return
	}
	stored := ref.Body
	o.Count("texts_with_stray_carriage_returns", 1)
	o.Count("stored_bytes_examined", int64(len(stored)))
	if a, b := stripCRLF(toLatin1(text)), stripCRLF(stored); !bytes.Equal(a, b) {
		d := firstDiff(a, b)
		c.violate("content:differs", text, "stray-CR text: input and stored body differ once CR and LF are removed, first at character %d (%s)", d, window(b, d))
	}
	for i, by := range stored {
		if by == '\n' && (i == 0 || stored[i-1] != '\r') {
			c.violate("bare-lf", text, "stray-CR text: the stored body has a LF that does not follow a CR at byte %d", i)
			break
		}
	}
	if len(stored) > 0 && !bytes.HasSuffix(stored, []byte("\r\n")) {
		c.violate("line-structure", text, "stray-CR text: the stored body does not end in CRLF")
	}
	for i, l := range bytes.Split(stored, []byte("\r\n")) {
		if len(l)+2 > 1000 {
			c.violate("line-too-long", text, "stray-CR text: stored line %d is %d bytes long including CRLF", i, len(l)+2)
			break
		}
	}
	if bh, _ := ref.Get("Body"); bh != fmt.Sprint(len(stored)) {
		c.violate("body-header", text, "stray-CR text: Body header %q, stored body has %d bytes", bh, len(stored))
	}
	h := fnv.New64a()
	h.Write([]byte(text))
	o.Sig("cr %016x", h.Sum64())
}

func (c *ctx) unkeep(m *fbb.Message) {
	out := c.kept[:0]
	for _, k := range c.kept {
		if k.m != m {
			out = append(out, k)
		}
	}
	c.kept = out
}

func evalOn(c *ctx, text string, prior *fbb.Message) (used *fbb.Message) {
	o := c.o
	o.Evals++
	var (
		m       *fbb.Message
		wire    []byte
		setErr  error
		bodyStr string
		bodyErr error
	)
	if vrt.Guard(o, func() {
		m = prior
		if m == nil {
			m = &fbb.Message{Header: fbb.Header{}}
			m.Header.Set("Mid", "C18BODYTEST")
		}
		setErr = m.SetBody(text)
		if setErr == nil {
			var err error
			if wire, err = m.Bytes(); err != nil {
				panic("Bytes() failed after SetBody: " + err.Error())
			}
			bodyStr, bodyErr = m.Body()
		}
	}) {
		return nil
	}
	if setErr != nil {
		c.violate("error", text, "SetBody returned %v for representable text", setErr)
		return nil
	}
	used = m
	c.recheckKept()
	c.keep(m, wire, text)
	ref, err := msgref.Parse(wire)
	if err != nil {
		c.violate("unparseable", text, "the serialised message is not well-formed (%v) after SetBody", err)
		return
	}
	stored := ref.Body
	o.Count("stored_bytes_examined", int64(len(stored)))
	in := toLatin1(text)

	// 1. content: removing all CR and LF from input and stored body leaves identical text
	a, b := stripCRLF(in), stripCRLF(stored)
	if !bytes.Equal(a, b) {
		d := firstDiff(a, b)
		switch {
		case d+1 < len(b) && a[d] >= 0x80 && b[d] == '?' && b[d+1] == '?':
			c.violate("content:multibyte-character-split", text, "a two-byte input character was stored as \"??\" at text byte %d: input %s stored %s", d, window(a, d), window(b, d))
		case len(b) == 0:
			c.violate("content:body-dropped", text, "the whole body was dropped: stored body is empty")
		case len(b) < len(a) && d == len(b):
			c.violate("content:text-truncated", text, "stored body ends after %d of %d text bytes", len(b), len(a))
		case len(a) == len(b):
			c.violate("content:characters-altered", text, "stored text differs from the input at text byte %d: input %s stored %s", d, window(a, d), window(b, d))
		default:
			c.violate("content:differs", text, "stored text (%d bytes) differs from the input (%d bytes) at text byte %d: input %s stored %s", len(b), len(a), d, window(a, d), window(b, d))
		}
	}
	// 2. every LF is preceded by CR; 3. a non-empty body ends in CRLF; 4. no line above 1000 bytes incl. CRLF
	if len(stored) > 0 && !bytes.HasSuffix(stored, []byte("\r\n")) {
		c.violate("no-final-crlf", text, "stored body does not end in CRLF: ...%s", window(stored, len(stored)))
	}
	lineStart, nLines := 0, 0
	for i, ch := range stored {
		if ch != '\n' {
			continue
		}
		if i == 0 || stored[i-1] != '\r' {
			c.violate("bare-lf", text, "LF without CR at stored byte %d: %s", i, window(stored, i))
		}
		if l := i + 1 - lineStart; l > 1000 {
			if c.seen["line-too-long"] < 3 {
				c.violate("line-too-long", text, "stored line %d is %d bytes long including its line end", nLines+1, l)
			}
		}
		lineStart = i + 1
		nLines++
	}
	if l := len(stored) - lineStart; l > 998 {
		c.violate("line-too-long", text, "unterminated last stored line of %d bytes", l)
	}
	o.Count("stored_lines_examined", int64(nLines))
	// 5. Body header and BodySize() equal the stored length
	if hv, ok := ref.Get("Body"); !ok || hv != strconv.Itoa(len(stored)) || m.BodySize() != len(stored) {
		c.violate("body-header", text, "Body header %q / BodySize() %d, stored body has %d bytes", hv, m.BodySize(), len(stored))
	}
	// 6. Body() is the decoded stored body
	if bodyErr != nil || bodyStr != fromLatin1(stored) {
		c.violate("body-accessor", text, "Body() (%d bytes, err %v) is not the decoded stored body (%d bytes)", len(bodyStr), bodyErr, len(stored))
	}
	// 7. nothing but line-end normalisation when no line needs wrapping
	lines := splitInput(text)
	longest := 0
	for _, l := range lines {
		longest = max(longest, len(l))
	}
	if longest <= 998 {
		var want bytes.Buffer
		for _, l := range lines {
			want.Write(l)
			want.WriteString("\r\n")
		}
		if !bytes.Equal(want.Bytes(), stored) {
			d := firstDiff(want.Bytes(), stored)
			c.violate("line-structure", text, "no line exceeds 998 bytes, yet the stored body is not the input with CRLF line ends: differs at byte %d, expected %s stored %s",
				d, window(want.Bytes(), d), window(stored, d))
		}
		o.Count("texts_needing_no_wrap", 1)
	} else {
		o.Count("texts_with_wrapped_line", 1)
		if longest > 65536 {
			o.Count("texts_with_line_over_64KiB", 1)
		}
	}
	h := fnv.New64a()
	h.Write([]byte(text))
	o.Sig("%016x", h.Sum64())
	return used
}

// charsetNames: what an application may pass to SetBodyWithCharset.
var charsetNames = []string{"ISO-8859-1", "iso-8859-1", "UTF-8", "utf-8", "utf8", "iso-8859-15", "us-ascii", "windows-1252", "latin1", "", "x-unknown"}

var charsetParam = regexp.MustCompile(`(?i)charset="?([^";\s]+)`)

// evalCharset: the second entry point. Whatever charset name the caller passes, the message must be
// consistent with itself: the stored body, read in the character set the message DECLARES, is the
// input text (apart from line-end normalisation), and Body() gives the text back. (A declared
// character set other than ISO-8859-1 / UTF-8 is counted, not judged; a refusal is not a violation.)
func evalCharset(c *ctx, cs, text string) {
	evalCharsetOn(c, cs, text, "")
}

// priorContentTypes: what a message may already carry when its body is set (a received message that is
// edited, a caller who filled in the header): the new body must still be consistent with what the
// message declares afterwards.
var priorContentTypes = []string{"text/plain; charset=UTF-8", "text/plain; charset=utf-8; format=flowed", "text/html; charset=windows-1252", "text/plain", "text/plain; charset=ISO-8859-1", "TEXT/PLAIN; CHARSET=\"UTF-8\"", "application/octet-stream"}

// evalCharsetOn: prior != "" sets a Content-Type header before the body is set; cs == "<SetBody>" uses SetBody.
func evalCharsetOn(c *ctx, cs, text, prior string) {
	o := c.o
	o.Evals++
	var (
		m       *fbb.Message
		wire    []byte
		setErr  error
		bodyStr string
		bodyErr error
	)
	if vrt.Guard(o, func() {
		m = &fbb.Message{Header: fbb.Header{}}
		m.Header.Set("Mid", "C18CHARSET")
		if prior != "" {
			m.Header.Set("Content-Type", prior)
			m.Header.Set("Content-Transfer-Encoding", "8bit")
		}
		if cs == "<SetBody>" {
			setErr = m.SetBody(text)
		} else {
			setErr = m.SetBodyWithCharset(cs, text)
		}
		if setErr == nil {
			var err error
			if wire, err = m.Bytes(); err != nil {
				panic("Bytes() failed after SetBodyWithCharset: " + err.Error())
			}
			bodyStr, bodyErr = m.Body()
		}
	}) {
		return
	}
	if setErr != nil {
		o.Count("setbodywithcharset_refused", 1)
		return
	}
	ref, err := msgref.Parse(wire)
	if err != nil {
		c.violate("charset:unparseable", text, "the serialised message is not well-formed (%v) after SetBodyWithCharset(%q)", err, cs)
		return
	}
	declared := "ISO-8859-1" // the format's default when nothing is declared
	if ct, ok := ref.Get("Content-Type"); ok {
		if mm := charsetParam.FindStringSubmatch(ct); mm != nil {
			declared = mm[1]
		}
	}
	var want []byte
	switch strings.ToLower(declared) {
	case "iso-8859-1":
		want = toLatin1(text)
	case "utf-8", "utf8":
		want = []byte(text)
	default:
		o.Count("declared_charset_not_judged", 1)
		return
	}
	o.Count("setbodywithcharset_judged", 1)
	if a, b := stripCRLF(want), stripCRLF(ref.Body); !bytes.Equal(a, b) {
		d := firstDiff(a, b)
		c.violate("charset:stored-differs", text, "SetBodyWithCharset(%q): the message declares %s, but the stored body is not the text in that character set (differs at text byte %d: expected %s stored %s)", cs, declared, d, window(a, d), window(b, d))
	}
	if hv, ok := ref.Get("Body"); !ok || hv != strconv.Itoa(len(ref.Body)) {
		c.violate("charset:body-header", text, "SetBodyWithCharset(%q): Body header %q, stored body has %d bytes", cs, hv, len(ref.Body))
	}
	strip := func(s string) string { return strings.NewReplacer("\r", "", "\n", "").Replace(s) }
	if bodyErr != nil || strip(bodyStr) != strip(text) {
		c.violate("charset:body-accessor", text, "SetBodyWithCharset(%q): Body() (err %v) does not give the text back: %q...", cs, bodyErr, bodyStr[:min(len(bodyStr), 40)])
	}
	h := fnv.New64a()
	h.Write([]byte(cs + "|" + prior + "|" + text))
	o.Sig("cs%016x", h.Sum64())
}

// ---- workloads --------------------------------------------------------------------------------------

var lineLengths = []([]int){
	{990, 991, 992, 993, 994, 995, 996, 997, 998, 999, 1000, 1001, 1002, 1003, 1004, 1005, 1006, 1007, 1008, 1009, 1010},
	{1990, 1991, 1992, 1993, 1994, 1995, 1996, 1997, 1998, 1999, 2000, 2001, 2002, 2003, 2004, 2993, 2994, 2995, 4990, 9980, 9981},
	{65530, 65531, 65532, 65533, 65534, 65535, 65536, 65537, 65538, 65539, 65540},
	{32767, 32768, 32769, 65536 - 66, 65536 + 998, 131072, 131073},
	{200000, 600000},
}

var straddleBefore = []int{0, 1, 2, 3, 7, 100, 499}

func lineOf(unit string, n int) string {
	// n Latin-1 bytes made of the repeating unit (unit characters are single Latin-1 bytes)
	rs := []rune(unit)
	out := make([]rune, n)
	for i := range out {
		out[i] = rs[i%len(rs)]
	}
	return string(out)
}

func runLines(c *ctx, idx int) {
	units := []string{"a", "æ", "abcdefghij klmno pqrstuvwxyz0123456789 ", "xæ", "ÿ\u0080"}
	for _, n := range lineLengths[idx] {
		for ui, u := range units {
			if n > 70000 && ui > 1 {
				continue
			}
			l := lineOf(u, n)
			for _, t := range []string{l, l + "\n", l + "\r\n", "first\n" + l + "\nlast\n", "first\r\n\r\n" + l + "\r\n\r\nlast", l + "\n" + l + "\n"} {
				eval(c, t)
			}
		}
	}
	c.o.Sample = map[string]any{"kind": "lines", "line_lengths_latin1_bytes": fmt.Sprint(lineLengths[idx]), "units": strings.Join(units, " | "), "contexts_per_line": 6}
}

func runStraddle(c *ctx, idx int) {
	k := straddleBefore[idx] // two-byte characters before the probe: UTF-8 position = Latin-1 position + k
	n := 0
	for _, base := range []int{0, 998, 1996} {
		for pos := base + 985; pos <= base+1010; pos++ {
			if pos < k {
				continue
			}
			for _, probe := range []string{"æ", "\u0080", "ÿ", "æø"} {
				line := strings.Repeat("ø", k) + strings.Repeat("a", pos-k) + probe + strings.Repeat("b", 30)
				eval(c, line+"\n")
				eval(c, "x\n"+line)
				n += 2
			}
		}
	}
	c.o.Count("straddle_probes", int64(n))
	c.o.Sample = map[string]any{"kind": "straddle", "two_byte_chars_before_probe": k, "latin1_positions": "985..1010, 1983..2008, 2981..3006", "probes": "æ | U+0080 | ÿ | æø"}
}

func runFixed(c *ctx) {
	texts := []string{"", "\n", "\r\n", "\n\n", "\r\n\r\n", "\n\r\n\n", "a", "a\n", "a\r\n", "a\n\nb", "\na", "\n\na\n\n", "a\nb", "a\r\nb\r\n", "a\nb\r\nc", " ", " \n ", "\t\n",
		"\x00", "a\x00b\n", "æ", "æ\n", "ÿ\r\nÿ", strings.Repeat("\n", 1000), strings.Repeat("\r\n", 1000), strings.Repeat("a\n", 40000), strings.Repeat("\n", 70000)}
	// every code point of the character set (CR only as part of CRLF)
	var all strings.Builder
	for cp := rune(0); cp <= 0xff; cp++ {
		if cp == '\r' {
			all.WriteString("\r\n")
			continue
		}
		all.WriteRune(cp)
		texts = append(texts, "x"+string(cp)+"y", string(cp))
	}
	texts = append(texts, all.String(), strings.Repeat(all.String(), 300))
	// every two-byte character right at the first wrap position
	for cp := rune(0x80); cp <= 0xff; cp++ {
		texts = append(texts, strings.Repeat("a", 997)+string(cp)+"b\n")
	}
	// Latin-1 texts whose bytes happen to be well-formed in ANOTHER encoding (what quoted mojibake
	// looks like: "Ã©", "Â°"): every two-byte UTF-8 sequence read as two Latin-1 characters, a sample of
	// the three- and four-byte ones, and texts that start with a byte-order mark. An implementation that
	// sniffs the encoding instead of using the declared one gives these back as different text.
	for lead := rune(0xC2); lead <= 0xDF; lead++ {
		for cont := rune(0x80); cont <= 0xBF; cont++ {
			texts = append(texts, "x"+string(lead)+string(cont)+"y")
		}
	}
	for lead := rune(0xE1); lead <= 0xEF; lead++ {
		for cont := rune(0x80); cont <= 0xBF; cont += 9 {
			texts = append(texts, string(lead)+string(cont)+string(0xBF-(cont-0x80))+" ok\n")
		}
	}
	for lead := rune(0xF1); lead <= 0xF3; lead++ {
		texts = append(texts, "a"+string(lead)+"\u0080\u00bf\u0081\n", string(lead)+"\u0090\u0080\u0080")
	}
	for _, bom := range []string{"\u00ef\u00bb\u00bf", "\u00ff\u00fe", "\u00fe\u00ff", "\u00ff\u00fe\x00\x00", "+/v8", "\x1b$B", "\x1b(B"} {
		texts = append(texts, bom, bom+"text\n", bom+"h\x00i\x00\n", "x"+bom+"\n")
	}
	texts = append(texts, "Your last message showed up as: Bl\u00c3\u00a5b\u00c3\u00a6rsyltet\u00c3\u00b8y\n", "Temp 21\u00c2\u00b0C\n", "3\u00c3\u00b74 \u00c2\u00abok\u00c2\u00bb \u00c2\u00bd",
		"=?utf-8?q?x?=", "=C3=A9 =E9 =\n", "=\r\n", "--boundary\n", "\u00e2\u0082\u00ac 5\n")
	for _, t := range texts {
		eval(c, t)
	}
	for i, t := range []string{"", "plain ascii\n", "Bl\u00e5b\u00e6rsyltet\u00f8y\n", "\u00bd \u00a4 \u00a6 \u00a8 \u00b4 \u00b8 \u00bc \u00be\n", "\u00ff\u00fe\u00fd", "\u0080\u009f\u00a0", all.String(), "x\u00e9\r\ny\u00fc\n\nz",
		strings.Repeat("\u00e6", 1500) + "\n", strings.Repeat("a", 997) + "\u00f8b\n", "\u00c3\u00a9 mojibake\n"} {
		for _, cs := range charsetNames {
			evalCharset(c, cs, t)
		}
		for _, prior := range priorContentTypes {
			evalCharsetOn(c, "<SetBody>", t, prior)
			evalCharsetOn(c, charsetNames[i%len(charsetNames)], t, prior)
		}
	}
	c.o.Sample = map[string]any{"kind": "fixed", "texts": len(texts)}
}

func genLine(r *rand.Rand, n int) string {
	cls := r.Intn(5)
	if cls == 4 {
		// a line whose Latin-1 bytes are well-formed UTF-8 without being ASCII ("mojibake")
		var b []rune
		for len(b) < n {
			if r.Intn(3) > 0 {
				b = append(b, rune(0x20+r.Intn(0x5f)))
				continue
			}
			cp := rune(0x80 + r.Intn(0x780))
			if r.Intn(4) == 0 {
				cp = rune(0x800 + r.Intn(0xD000))
			}
			for _, by := range []byte(string(cp)) {
				b = append(b, rune(by))
			}
		}
		return string(b[:n])
	}
	rs := make([]rune, n)
	for i := range rs {
		var ch rune
		switch {
		case cls == 0 || (cls < 3 && r.Intn(3) > 0):
			ch = rune(0x20 + r.Intn(0x5f))
		case cls == 1:
			ch = rune(0xA0 + r.Intn(0x60))
		case cls == 2:
			ch = rune(0x80 + r.Intn(0x80))
		default:
			ch = rune(r.Intn(0x100))
			if ch == '\r' || ch == '\n' {
				ch = 0
			}
		}
		rs[i] = ch
	}
	return string(rs)
}

func genTextRandom(r *rand.Rand, i int) string {
	var b strings.Builder
	nl := r.Intn(8)
	if r.Intn(4) == 0 {
		nl = r.Intn(41)
	}
	huge := i%125 == 3 // a few texts of several hundred kB
	for l := 0; l < nl; l++ {
		n := 0
		switch r.Intn(10) {
		case 0:
			n = 0
		case 1, 2:
			n = 985 + r.Intn(30)
		case 3:
			n = 998*(1+r.Intn(4)) - 3 + r.Intn(7)
		case 4:
			if i%10 == 0 {
				n = 65500 + r.Intn(80)
			} else {
				n = 1000 + r.Intn(5000)
			}
		default:
			n = 1 + r.Intn(120)
		}
		if huge && l == nl/2 {
			n = 100000 + r.Intn(500000)
		}
		b.WriteString(genLine(r, n))
		if l < nl-1 || r.Intn(3) > 0 {
			if r.Intn(2) == 0 {
				b.WriteString("\r\n")
			} else {
				b.WriteString("\n")
			}
		}
	}
	return b.String()
}

func run(cs vrt.Case) vrt.Obs {
	var p params
	vrt.Params(cs, &p)
	var o vrt.Obs
	c := &ctx{o: &o, seen: map[string]int{}}
	switch p.Kind {
	case "fixed":
		runFixed(c)
	case "lines":
		runLines(c, p.Idx)
	case "straddle":
		runStraddle(c, p.Idx)
	case "random":
		if p.Idx%5 == 4 {
			// every fifth batch: four composers set and read bodies of their own messages at the same time (a
			// gateway composing for several users); no value is shared between them, so each must see exactly
			// what it would see alone
			vrt.Parallel(&o, 4, func(g int, po *vrt.Obs) {
				pc := &ctx{o: po, seen: map[string]int{}}
				r := vrt.Rand(p.Seed, "c18par", p.Idx*4+g)
				for i := 0; i < p.N/2; i++ {
					t := genTextRandom(r, i)
					eval(pc, t)
					if i%10 == 7 && len(t) < 20000 {
						evalCharset(pc, charsetNames[r.Intn(len(charsetNames))], t)
					}
					po.Count("texts_composed_while_other_composers_were_active", 1)
				}
			})
			o.Sample = map[string]any{"kind": "random-concurrent", "composers": 4, "texts_each": p.N / 2}
			return o
		}
		r := vrt.Rand(p.Seed, "c18", p.Idx)
		var first string
		for i := 0; i < p.N; i++ {
			t := genTextRandom(r, i)
			if i == 0 {
				first = t
			}
			eval(c, t)
			if i%10 == 7 && len(t) < 20000 {
				evalCharset(c, charsetNames[r.Intn(len(charsetNames))], t)
			}
			if i%6 == 1 {
				// the same text with carriage returns sprinkled into its lines (never in front of a LF)
				rs := []rune(t)
				for k := 0; k < 1+len(rs)/40; k++ {
					if at := r.Intn(len(rs) + 1); at == len(rs) || (rs[at] != '\n' && rs[at] != '\r') {
						rs = append(rs[:at], append([]rune{'\r'}, rs[at:]...)...)
					}
				}
				if len(rs) < 400000 {
					evalLiteral(c, string(rs))
				}
			}
		}
		o.Sample = map[string]any{"kind": "random", "texts": p.N, "first": describe(first)}
	}
	return o
}
