// Package c04: a transfer damaged in transit is never delivered as a good message.
// Fault enumeration over the SOH..EOT byte range of a framed transfer: every single-byte
// substitution, deletion and insertion at every offset, and checksum-compensating pairs. The
// oracle is the handler event log of both stations plus the verdict of the independent reference
// (frame parser + 8-bit sum + lengths + CRC-16 + size + canonical decoder + message parser) on the
// altered bytes: an alteration the reference accepts as fully valid is excluded, as the property
// grants.
package c04

import (
	"bytes"
	"fmt"

	"github.com/la5nta/wl2k-go/fbb"

	"verif/internal/b2fx"
	"verif/internal/mem"
	"verif/internal/ref/b2fref"
	"verif/internal/ref/lzref"
	"verif/internal/vpipe"
	"verif/internal/vrt"
)

type params struct {
	Seed   int64  `json:"seed"`
	Leg    string `json:"leg"`  // lib (library sender -> library receiver) | ref (reference sender -> library receiver)
	Msg    int    `json:"msg"`  // message size class
	Kind   string `json:"kind"` // subst | delins | pairs
	Shard  int    `json:"shard"`
	Shards int    `json:"shards"`
	Pairs  int    `json:"pairs,omitempty"`
	// Block > 1 (library sender only): the damaged transfer is the Target-th of a block of that many
	// accepted messages, so that good transfers follow it in the same turn.
	Block  int `json:"block,omitempty"`
	Target int `json:"target,omitempty"`
	// Gzip: both stations run with GZIP_EXPERIMENT=1 (type D proposals, gzip payload).
	Gzip bool `json:"gzip,omitempty"`
	// AllValues (kind values): every byte value at every offset, not only at the structural ones.
	AllValues bool `json:"all_values,omitempty"`
	// Dup (library sender): the message under attack is offered twice in its block.
	Dup bool `json:"dup,omitempty"`
	// Modem (library sender): the sender's connection implements transport.Flusher and transport.TxBuffer.
	Modem bool `json:"modem,omitempty"`
	// ZeroSum (library sender): the message is chosen so that its transmitted data bytes sum to 0 mod 256.
	ZeroSum bool `json:"zero_sum,omitempty"`
	// SenderMaster (library sender): the sending station is the master, so the receiving station takes the first turn,
	// has nothing (FF), and the damaged transfer happens AFTER the sender has seen the remote's FF.
	SenderMaster bool `json:"sender_master,omitempty"`
	// Quiet (with SenderMaster): the receiving station has nothing to send at all - its first turn is FF and, had the
	// transfer been good, its next word would have ended the session (FQ).
	Quiet bool `json:"quiet,omitempty"`
}

var Check = &vrt.Check{
	ID:    "C04",
	Level: "fault_enumeration",
	Rule: "for each (sender kind, message) the fault-free session is recorded and the SOH..EOT range located; then one session per alteration: XOR 0x01, XOR 0x80 and +1 at every offset, " +
		"every other byte value at every structural offset (transfer header, STX/length bytes, EOT, checksum, the payload's 6-byte header) and the special bytes 00 01 02 04 0D '0' FF at every data offset (thorough: every value at every offset of message class 1), " +
		"deletion and insertion (0x00, 0xFF) at every offset, well-formed multi-byte alterations (extra/repeated/dropped/split/grown/shrunk blocks with the 8-bit checksum kept valid, title/offset fields resized with the header length adjusted, two data bytes exchanged), and PRNG checksum-compensating pairs (+d at i, -d at j) over the payload incl. its 6-byte CRC/size header. " +
		"non-trivial = the altered session got as far as the damaged frame; distinct = (leg, message, alteration)",
	Assumptions: []string{
		"an alteration that the independent reference accepts as a fully valid transfer (e.g. an edit of the unprotected title text, a 2^-16 CRC collision) is excluded; if the library then delivers, the content must equal what the reference decoded",
		"a session that stalls because the damage changed a length counts as failed (the protocol has no resynchronisation); the claim is about non-delivery",
		"the reference frame parser / LZHUF decoder / CRC are trusted (golden self-test at every start)",
	},
	SelfTest:        lzref.SelfTest,
	Plan:            plan,
	Run:             run,
	HangIsViolation: false,
	MinNontrivial:   500,
	Exhaustive:      func(string) bool { return true },
	Extra: func(string) map[string]any {
		return map[string]any{"exhaustive_over": "all offsets of the SOH..EOT range of every explored transfer for the substitution/deletion/insertion patterns; compensated pairs are sampled"}
	},
}

func plan(seed int64, tier string) []vrt.Case {
	msgs, pairs, shards := []int{1}, 2000, 4
	if tier == "thorough" {
		msgs, pairs, shards = []int{0, 1, 2}, 50000, 8
	}
	var cs []vrt.Case
	for _, leg := range []string{"lib", "ref"} {
		for _, m := range msgs {
			for _, kind := range []string{"subst", "delins", "values", "struct"} {
				for sh := 0; sh < shards; sh++ {
					if kind == "struct" && sh > 0 {
						continue // a few hundred sessions: one shard
					}
					cs = append(cs, vrt.Case{ID: fmt.Sprintf("%s-m%d-%s-%d", leg, m, kind, sh), Params: vrt.MustParams(params{Seed: seed, Leg: leg, Msg: m, Kind: kind, Shard: sh, Shards: shards, AllValues: tier == "thorough" && m == 1}), TimeoutS: 1200})
				}
			}
			for sh := 0; sh < shards; sh++ {
				cs = append(cs, vrt.Case{ID: fmt.Sprintf("%s-m%d-pairs-%d", leg, m, sh), Params: vrt.MustParams(params{Seed: seed, Leg: leg, Msg: m, Kind: "pairs", Shard: sh, Shards: shards, Pairs: pairs / len(msgs) / 2}), TimeoutS: 1200})
			}
		}
	}
	// the damaged transfer inside a block of three accepted messages (first, middle, last position)
	for _, m := range msgs {
		for target := 0; target < 3; target++ {
			for _, kind := range []string{"subst", "pairs", "struct"} {
				for sh := 0; sh < shards/2; sh++ {
					if kind == "struct" && sh > 0 {
						continue
					}
					cs = append(cs, vrt.Case{ID: fmt.Sprintf("lib-block3-t%d-m%d-%s-%d", target, m, kind, sh), TimeoutS: 1200,
						Params: vrt.MustParams(params{Seed: seed, Leg: "lib", Msg: m, Kind: kind, Shard: sh, Shards: shards / 2, Pairs: pairs / len(msgs) / 4, Block: 3, Target: target})})
				}
			}
		}
	}
	// the message under attack offered twice in its block (the receiver answers the second copy itself)
	for _, m := range msgs {
		for _, kind := range []string{"subst", "pairs", "struct"} {
			cs = append(cs, vrt.Case{ID: fmt.Sprintf("lib-dup-m%d-%s", m, kind), TimeoutS: 1200,
				Params: vrt.MustParams(params{Seed: seed, Leg: "lib", Msg: m, Kind: kind, Shard: 0, Shards: map[string]int{"subst": 8, "pairs": 1, "struct": 1}[kind], Pairs: 150, Dup: true})})
		}
	}
	// the sender on a modem-like transport (Flush blocks until the link has taken everything)
	for _, m := range msgs {
		for _, kind := range []string{"subst", "pairs", "struct"} {
			cs = append(cs, vrt.Case{ID: fmt.Sprintf("lib-modem-m%d-%s", m, kind), TimeoutS: 1200,
				Params: vrt.MustParams(params{Seed: seed, Leg: "lib", Msg: m, Kind: kind, Shard: 0, Shards: map[string]int{"subst": 8, "pairs": 1, "struct": 1}[kind], Pairs: 150, Modem: true})})
		}
	}
	// the sender is the master: its block goes out after the remote's FF (the session can end with either side's next word)
	for _, m := range msgs {
		for _, kind := range []string{"subst", "values", "pairs", "struct"} {
			for _, quiet := range []bool{false, true} {
				cs = append(cs, vrt.Case{ID: fmt.Sprintf("lib-sendermaster-q%v-m%d-%s", quiet, m, kind), TimeoutS: 1200,
					Params: vrt.MustParams(params{Seed: seed, Leg: "lib", Msg: m, Kind: kind, Shard: 0, Shards: map[string]int{"subst": 4, "values": 4, "pairs": 1, "struct": 1}[kind], Pairs: 600, SenderMaster: true, Quiet: quiet})})
			}
		}
	}
	// a message whose data bytes sum to 0 mod 256 (checksum byte 00)
	for _, kind := range []string{"values", "subst", "struct"} {
		cs = append(cs, vrt.Case{ID: "lib-zerosum-" + kind, TimeoutS: 1200,
			Params: vrt.MustParams(params{Seed: seed, Leg: "lib", Msg: 5, Kind: kind, Shard: 0, Shards: map[string]int{"values": 2, "subst": 4, "struct": 1}[kind], ZeroSum: true})})
	}
	// a message larger than 64 KiB under compensated pairs (each session moves ~60 kB: fewer of them)
	for _, leg := range []string{"lib", "ref"} {
		np := 120
		if tier == "thorough" {
			np = 1200
		}
		for sh := 0; sh < 4; sh++ {
			cs = append(cs, vrt.Case{ID: fmt.Sprintf("%s-big-pairs-%d", leg, sh), Params: vrt.MustParams(params{Seed: seed, Leg: leg, Msg: 3, Kind: "pairs", Shard: sh, Shards: 4, Pairs: np}), TimeoutS: 1200})
		}
	}
	// gzip payloads (GZIP_EXPERIMENT on both stations)
	for _, leg := range []string{"lib", "ref"} {
		for _, m := range msgs {
			for _, kind := range []string{"subst", "pairs", "struct"} {
				for sh := 0; sh < shards/2; sh++ {
					if kind == "struct" && sh > 0 {
						continue
					}
					cs = append(cs, vrt.Case{ID: fmt.Sprintf("%s-gzip-m%d-%s-%d", leg, m, kind, sh), TimeoutS: 1200,
						Params: vrt.MustParams(params{Seed: seed, Leg: leg, Msg: m, Kind: kind, Shard: sh, Shards: shards / 2, Pairs: pairs / len(msgs) / 2, Gzip: true})})
				}
			}
		}
	}
	return cs
}

// bodySuffix: see bodyFor class 5 (a worker runs one case at a time).
var bodySuffix string

// zeroSumLeg searches a message whose transmitted data bytes sum to 0 mod 256 (the checksum byte behind EOT is then 00):
// one message in 256 is like that, and arithmetic on the sum has its edge there.
func zeroSumLeg() (*libLeg, *target, error) {
	for k := 0; k < 6000; k++ {
		bodySuffix = fmt.Sprintf("suffix %d\r\n", k)
		l, err := newLibLeg(5, 1, 0, false)
		if err != nil {
			return nil, nil, err
		}
		t, err := l.record()
		if err != nil {
			return nil, nil, err
		}
		f, err := b2fref.ParseFrame(t.stream[t.start:])
		if err != nil {
			return nil, nil, err
		}
		sum := 0
		for _, b := range f.Data {
			sum += int(b)
		}
		if sum%256 == 0 {
			return l, t, nil
		}
	}
	return nil, nil, fmt.Errorf("no zero-sum message found")
}

func bodyFor(class int) []byte {
	switch class {
	case 0:
		return []byte("short\r\n")
	case 1:
		return bytes.Repeat([]byte("this is text that is not very compressible 0123456789 abcdefghij\r\n"), 6)
	case 5: // class 1 with a suffix chosen by the caller (see zeroSumLeg)
		return append(bodyFor(1), []byte(bodySuffix)...)
	case 3: // larger than 64 KiB (an attachment-sized message): size-dependent code paths of the receiver
		r := vrt.Rand(9, "c04big")
		b := make([]byte, 70000)
		for i := range b {
			b[i] = byte(' ' + r.Intn(95))
			if i%70 == 68 {
				b[i] = '\r'
			} else if i%70 == 69 {
				b[i] = '\n'
			}
		}
		return b
	default:
		r := vrt.Rand(7, "c04body")
		b := make([]byte, 1500)
		for i := range b {
			b[i] = byte(' ' + r.Intn(95))
		}
		return b
	}
}

// target describes the transfer under attack inside a recorded fault-free session.
type target struct {
	dir          int    // direction of the link that carries the frame
	start, end   int    // byte range [start,end) of SOH..EOT+checksum in that direction's stream
	code         byte   // proposal code
	usize, csize int    // as proposed
	mid          string //
	stream       []byte // the recorded stream of that direction
}

// session runs one (possibly altered) session and reports what the handlers saw.
type outcome struct {
	delivered    bool   // receiver's ProcessInbound(mid) completed
	deliveredSum string // its content hash
	setSent      bool   // sender's SetSent(mid,false)
	wire         []byte // altered stream of the attacked direction
	panics       []vrt.Violation
	reachedFrame bool
}

type leg interface {
	record() (*target, error)
	run(edits []vpipe.Edit) outcome
	truth() []byte
}

// ---- leg 1: library sender -> library receiver ---------------------------------------------------

type libLeg struct {
	sc   *b2fx.Scenario
	t    *target
	gzip bool
	dup  bool
	// modem: the sending station's connection is a modem-like transport (transport.Flusher / TxBuffer, as the
	// ardop and agwpe connections are): bookkeeping must not depend on the transport kind
	modem bool
}

func newLibLeg(class, block, tgt int, gzip bool) (*libLeg, error) {
	sc := &b2fx.Scenario{Policy: map[string]fbb.ProposalAnswer{}, Truth: map[string][]byte{}, MasterIsA: false}
	if block < 1 {
		block = 1
	}
	// proposals go out in order of compressed size: bodies of strictly increasing size make the
	// position of the damaged transfer in its block known
	for i := 0; i < block; i++ {
		mid := fmt.Sprintf("GOOD%d", i)
		if i == tgt {
			mid = "DAMAGED"
		}
		body := append(append([]byte(nil), bodyFor(class)...), bytes.Repeat([]byte("filler that grows; "), 3*i)...)
		m := b2fx.MsgSpec{MID: mid, From: b2fx.CallA, To: []string{b2fx.CallB}, Subject: "under attack", Body: body, Shape: "c04"}
		c, err := m.Canonical()
		if err != nil {
			return nil, err
		}
		sc.MsgsA = append(sc.MsgsA, m)
		sc.Truth[m.MID], sc.Policy[m.MID] = c, fbb.Accept
	}
	// a second message behind it: bytes after the damaged frame belong to later turns
	m2 := b2fx.MsgSpec{MID: "FOLLOWER", From: b2fx.CallB, To: []string{b2fx.CallA}, Subject: "next turn", Body: []byte("next\r\n"), Shape: "c04"}
	c2, err := m2.Canonical()
	if err != nil {
		return nil, err
	}
	sc.MsgsB, sc.Truth[m2.MID], sc.Policy[m2.MID] = []b2fx.MsgSpec{m2}, c2, fbb.Accept
	return &libLeg{sc: sc, gzip: gzip}, nil
}

func newLibLegDup(class int) (*libLeg, error) {
	l, err := newLibLeg(class, 1, 0, false)
	if l != nil {
		l.dup = true
	}
	return l, err
}

func (l *libLeg) truth() []byte { return l.sc.Truth["DAMAGED"] }

// dupOut makes the sending station offer the message under attack twice (an outbox that holds two
// copies of one MID, as a gateway glitch produces): the receiver answers the second copy on its own.
type dupOut struct{ fbb.MBoxHandler }

func (d dupOut) GetOutbound(fw ...fbb.Address) []*fbb.Message {
	out := d.MBoxHandler.GetOutbound(fw...)
	for _, m := range out {
		if m.MID() == "DAMAGED" {
			if b, err := m.Bytes(); err == nil {
				c := new(fbb.Message)
				if c.ReadFrom(bytes.NewReader(b)) == nil {
					return append(out, c)
				}
			}
		}
	}
	return out
}

func (l *libLeg) exec(edits []vpipe.Edit, record bool) (b2fx.Result, *vpipe.Link, []mem.Event) {
	b2fx.SetGzip(l.gzip)
	defer b2fx.SetGzip(false)
	lg := &mem.Log{}
	a, b := l.sc.Stations(lg)
	sa, sb := l.sc.Sides(a, b)
	if l.dup {
		sa.Handler = dupOut{a.AsHandler()}
	}
	if l.modem {
		sa.Modem = true
	}
	var pl vpipe.Plan
	pl.CutDir = vpipe.NoCut
	pl.Edits[vpipe.AtoB] = edits
	res, link := b2fx.RunPair(sa, sb, pl, record)
	return res, link, lg.Events()
}

func (l *libLeg) record() (*target, error) {
	res, link, ev := l.exec(nil, true)
	if res.A.Err != nil || res.B.Err != nil {
		return nil, fmt.Errorf("fault-free session failed: %v / %v", res.A.Err, res.B.Err)
	}
	stream := link.Transcript(vpipe.AtoB)
	t, err := locate(stream, "DAMAGED")
	if err != nil {
		return nil, err
	}
	t.dir = vpipe.AtoB
	ok := false
	for _, e := range ev {
		if e.Kind == mem.EvProcessInbound && e.MID == "DAMAGED" {
			ok = true
		}
	}
	if !ok {
		return nil, fmt.Errorf("fault-free session did not deliver the message")
	}
	l.t = t
	return t, nil
}

func (l *libLeg) run(edits []vpipe.Edit) outcome {
	res, link, ev := l.exec(edits, true)
	var o outcome
	for _, out := range []b2fx.Outcome{res.A, res.B} {
		if out.Panic != nil {
			o.panics = append(o.panics, vrt.PanicViolation(out.Panic, []byte(out.Stack)))
		}
	}
	for _, e := range ev {
		switch {
		case e.Kind == mem.EvProcessInbound && e.MID == "DAMAGED" && e.Station == "B":
			o.delivered, o.deliveredSum = true, e.Hash
		case e.Kind == mem.EvProcessInbound && e.Station == "B" && l.sc.Truth[e.MID] == nil:
			// a damaged transfer delivered under another identity is a delivery too
			o.delivered, o.deliveredSum = true, e.Hash
		case e.Kind == mem.EvSetSent && e.MID == "DAMAGED":
			// recorded as sent - as delivered (false) or as "the remote already has it" (true): either way
			// the message leaves the outbox
			o.setSent = true
		}
	}
	o.wire = link.Wire(vpipe.AtoB)
	o.reachedFrame = link.State().Written[vpipe.AtoB] >= int64(l.t.start)
	return o
}

// ---- leg 2: reference sender -> library receiver -------------------------------------------------

type refLeg struct {
	class int
	w     func() *b2fx.PeerWorld
	t     *target
	data  []byte
}

func newRefLeg(class int, seed int64, gzip bool) (*refLeg, error) {
	l := &refLeg{class: class}
	var gerr error
	l.w = func() *b2fx.PeerWorld {
		w := b2fx.BaseWorld("c04-ref", class%2 == 0)
		w.Plan.Seed = seed // PRNG data-block sizes 1..256
		if gzip {
			w.Gzip, w.Plan.Gzip = true, true
			w.Plan.SID = "[WL2K-5.0-B2FWIHJMG$]"
		}
		if err := w.AddPeer("DAMAGED", "under attack", bodyFor(class), fbb.Accept); err != nil {
			gerr = err
		}
		if err := w.AddLib("FOLLOWER", "next turn", []byte("next\r\n"), "+"); err != nil {
			gerr = err
		}
		l.data = w.Truth["DAMAGED"]
		return w
	}
	l.w()
	return l, gerr
}

func (l *refLeg) truth() []byte { return l.data }

func (l *refLeg) record() (*target, error) {
	run := l.w().Run(true, [2][]vpipe.Edit{})
	if run.Lib.Err != nil || run.Res.Err != nil || len(run.Res.Complaints) > 0 {
		return nil, fmt.Errorf("fault-free session failed: %v / %v / %v", run.Lib.Err, run.Res.Err, run.Res.Complaints)
	}
	for _, tg := range run.Res.Tags {
		if tg.Layer == "frame" && tg.Field == "DAMAGED" {
			stream := run.Res.Written
			t := &target{dir: vpipe.BtoA, start: tg.Off, end: tg.Off + tg.Len, code: 'C', mid: "DAMAGED", stream: stream}
			if l.w().Gzip {
				t.code = 'D'
			}
			t.usize = len(l.data)
			f, err := b2fref.ParseFrame(stream[tg.Off:])
			if err != nil {
				return nil, err
			}
			t.csize = len(f.Data)
			l.t = t
			return t, nil
		}
	}
	return nil, fmt.Errorf("frame not found in the recorded peer output")
}

func (l *refLeg) run(edits []vpipe.Edit) outcome {
	var e2 [2][]vpipe.Edit
	e2[vpipe.BtoA] = edits
	run := l.w().Run(true, e2)
	var o outcome
	if run.Lib.Panic != nil {
		o.panics = append(o.panics, vrt.PanicViolation(run.Lib.Panic, []byte(run.Lib.Stack)))
	}
	for _, e := range run.Events {
		if e.Kind == mem.EvProcessInbound {
			o.delivered, o.deliveredSum = true, e.Hash
		}
	}
	// the peer's stream after in-transit edits: rebuild from what it wrote
	o.wire = applyEdits(run.Res.Written, edits)
	o.reachedFrame = len(run.Res.Written) >= l.t.start
	return o
}

func applyEdits(stream []byte, edits []vpipe.Edit) []byte {
	var out []byte
	i := 0
	for _, e := range edits {
		if int(e.Off) > len(stream) {
			break
		}
		out = append(out, stream[i:e.Off]...)
		out = append(out, e.Ins...)
		i = int(e.Off) + e.Del
		if i > len(stream) {
			i = len(stream)
		}
	}
	return append(out, stream[i:]...)
}

// locate finds the frame of mid in a station's recorded output: the first SOH after the proposal
// block that proposes mid.
func locate(stream []byte, mid string) (*target, error) {
	p := bytes.Index(stream, []byte(" "+mid+" "))
	if p < 0 {
		return nil, fmt.Errorf("proposal for %s not found", mid)
	}
	ls := bytes.LastIndexByte(stream[:p], '\r') + 1
	le := ls + bytes.IndexByte(stream[ls:], '\r')
	var code byte
	var typ, m string
	var usize, csize, zero int
	if _, err := fmt.Sscanf(string(stream[ls:le]), "F%c %s %s %d %d %d", &code, &typ, &m, &usize, &csize, &zero); err != nil {
		return nil, fmt.Errorf("cannot parse proposal line %q: %v", stream[ls:le], err)
	}
	// position of the proposal inside its block = position of its transfer among the block's frames
	// (every proposal of the scenario is accepted)
	pos := 0
	for q := ls; q > 0; {
		prevStart := bytes.LastIndexByte(stream[:q-1], '\r') + 1
		if !bytes.HasPrefix(stream[prevStart:], []byte("FC ")) && !bytes.HasPrefix(stream[prevStart:], []byte("FD ")) {
			break
		}
		pos++
		q = prevStart
	}
	end := bytes.Index(stream[le:], []byte("\rF> "))
	if end < 0 {
		return nil, fmt.Errorf("no end of block after the proposal")
	}
	soh := bytes.IndexByte(stream[le+end+1:], b2fref.SOH)
	if soh < 0 {
		return nil, fmt.Errorf("no frame after the proposal block")
	}
	start := le + end + 1 + soh
	var f *b2fref.Frame
	for i := 0; ; i++ {
		var err error
		if f, err = b2fref.ParseFrame(stream[start:]); err != nil {
			return nil, fmt.Errorf("frame %d of the block: %v", i, err)
		}
		if i == pos {
			break
		}
		start += f.Len
	}
	if len(f.Data) != csize {
		return nil, fmt.Errorf("located frame carries %d bytes, proposal of %s declared %d", len(f.Data), mid, csize)
	}
	return &target{start: start, end: start + f.Len, code: code, usize: usize, csize: csize, mid: mid, stream: stream}, nil
}

// ---- the enumeration -----------------------------------------------------------------------------

func run(c vrt.Case) vrt.Obs {
	var p params
	vrt.Params(c, &p)
	var o vrt.Obs
	var l leg
	var err error
	if p.Leg == "lib" && p.Dup {
		l, err = newLibLegDup(p.Msg)
	} else if p.Leg == "lib" && p.Modem {
		var ll *libLeg
		ll, err = newLibLeg(p.Msg, p.Block, p.Target, p.Gzip)
		if ll != nil {
			ll.modem = true
		}
		l = ll
	} else if p.Leg == "lib" && p.SenderMaster {
		var ll *libLeg
		ll, err = newLibLeg(p.Msg, p.Block, p.Target, p.Gzip)
		if ll != nil {
			ll.sc.MasterIsA = true
			if p.Quiet {
				ll.sc.MsgsB = nil
				delete(ll.sc.Truth, "FOLLOWER")
				delete(ll.sc.Policy, "FOLLOWER")
			}
		}
		l = ll
	} else if p.Leg == "lib" {
		l, err = newLibLeg(p.Msg, p.Block, p.Target, p.Gzip)
	} else {
		l, err = newRefLeg(p.Msg, p.Seed, p.Gzip)
	}
	if p.ZeroSum && err == nil {
		var zl *libLeg
		if zl, _, err = zeroSumLeg(); zl != nil {
			l = zl
			o.Count("zero_sum_messages_under_attack", 1)
		}
	}
	if err != nil {
		o.Inconclusive = append(o.Inconclusive, "setup: "+err.Error())
		return o
	}
	t, err := l.record()
	if err != nil {
		o.Evals++
		o.Violate("fault-free-session-failed", "%s leg, message class %d: %v", p.Leg, p.Msg, err)
		return o
	}
	o.Count("frame_bytes", int64(t.end-t.start))
	try := func(name string, edits []vpipe.Edit) {
		o.Evals++
		out := l.run(edits)
		o.Count("altered_sessions", 1)
		for _, pv := range out.panics {
			if len(o.Violations) < vrt.MaxViolationsPerCase {
				pv.Desc += " (" + name + ")"
				o.Violations = append(o.Violations, pv)
			}
		}
		if out.reachedFrame {
			o.Sig("%s m%d b%d t%d g%v %s", p.Leg, p.Msg, p.Block, p.Target, p.Gzip, name)
		}
		// the reference's verdict on the altered bytes, starting where the frame starts
		var refOK bool
		var refData []byte
		var why string
		if t.start < len(out.wire) {
			refOK, why, refData = b2fref.AcceptsFrame(out.wire[t.start:], t.code, t.usize, t.csize, "0")
		} else {
			why = "stream ended before the frame"
		}
		detail := func(v *vrt.Violation) {
			v.Detail = map[string]any{"leg": p.Leg, "message_class": p.Msg, "alteration": name, "edits": edits, "frame_range": []int{t.start, t.end}, "reference_verdict": why,
				"csize": t.csize, "usize": t.usize}
		}
		switch {
		case refOK:
			o.Count("alterations_the_reference_also_accepts", 1)
			if out.delivered && out.deliveredSum != mem.Hash(refData) {
				detail(o.Violate("delivered-differs-from-reference", "%s: the reference accepts the altered transfer, but the library delivered different content", name))
			}
		case out.delivered:
			o.Count("damaged_delivered", 1)
			intact := "altered"
			if out.deliveredSum == mem.Hash(l.truth()) {
				intact = "original"
			}
			detail(o.Violate("damaged-transfer-delivered:"+classOf(name), "%s: transfer rejected by the reference (%s) was handed to the inbound handler (%s content)", name, why, intact))
		case out.setSent:
			detail(o.Violate("damaged-transfer-marked-sent:"+classOf(name), "%s: transfer rejected by the reference (%s) was recorded as sent by the sender", name, why))
		default:
			o.Count("damaged_and_not_delivered", 1)
		}
	}
	n := t.end - t.start
	k := 0
	next := func() bool { k++; return k%p.Shards == p.Shard }
	switch p.Kind {
	case "subst":
		for i := 0; i < n; i++ {
			b := t.stream[t.start+i]
			for _, v := range []struct {
				n string
				b byte
			}{{"xor01", b ^ 0x01}, {"xor80", b ^ 0x80}, {"plus1", b + 1}} {
				if !next() {
					continue
				}
				try(fmt.Sprintf("subst-%s@%d", v.n, i), []vpipe.Edit{{Off: int64(t.start + i), Del: 1, Ins: []byte{v.b}}})
			}
		}
	case "delins":
		for i := 0; i < n; i++ {
			if next() {
				try(fmt.Sprintf("delete@%d", i), []vpipe.Edit{{Off: int64(t.start + i), Del: 1}})
			}
			for _, v := range []byte{0x00, 0xFF} {
				if next() {
					try(fmt.Sprintf("insert-%02x@%d", v, i), []vpipe.Edit{{Off: int64(t.start + i), Ins: []byte{v}}})
				}
			}
		}
		if next() {
			try(fmt.Sprintf("insert-00@%d", n), []vpipe.Edit{{Off: int64(t.end), Ins: []byte{0}}})
		}
	case "values":
		// every value at every structural byte (transfer header, STX/length bytes, EOT, checksum) and at the
		// payload's own 6-byte header; the protocol's special bytes at every data offset (thorough: every value everywhere)
		f, _ := b2fref.ParseFrame(t.stream[t.start:])
		structural := map[int]bool{}
		hdrEnd := 2 + len(f.Title) + 1 + len(f.Offset) + 1
		for i := 0; i < hdrEnd; i++ {
			structural[i] = true
		}
		off := hdrEnd
		for bi, bl := range f.Blocks {
			structural[off], structural[off+1] = true, true
			if bi == 0 {
				for j := 0; j < min(bl, 6); j++ {
					structural[off+2+j] = true
				}
			}
			off += 2 + bl
		}
		structural[off], structural[off+1] = true, true
		specials := []byte{0x00, 0x01, 0x02, 0x04, 0x0d, '0', 0xff}
		for i := 0; i < n; i++ {
			b := t.stream[t.start+i]
			if structural[i] || p.AllValues {
				for v := 0; v < 256; v++ {
					if byte(v) != b && byte(v) != b^0x01 && byte(v) != b^0x80 && byte(v) != b+1 && next() {
						try(fmt.Sprintf("subst-val%02x@%d", v, i), []vpipe.Edit{{Off: int64(t.start + i), Del: 1, Ins: []byte{byte(v)}}})
					}
				}
				continue
			}
			for _, v := range specials {
				if v != b && next() {
					try(fmt.Sprintf("subst-val%02x@%d", v, i), []vpipe.Edit{{Off: int64(t.start + i), Del: 1, Ins: []byte{v}}})
				}
			}
		}
	case "struct":
		// well-formed multi-byte alterations: whole extra blocks that keep the 8-bit checksum valid, at every
		// block boundary and before EOT; a repeated block with the checksum adjusted; the last block grown or
		// shrunk by k bytes with length byte and checksum adjusted; blocks split in two (same data: the
		// reference accepts that one).
		f, _ := b2fref.ParseFrame(t.stream[t.start:])
		hdrEnd := t.start + 2 + len(f.Title) + 1 + len(f.Offset) + 1
		var starts []int // stream offsets of the STX bytes, then of EOT
		off := hdrEnd
		for _, bl := range f.Blocks {
			starts = append(starts, off)
			off += 2 + bl
		}
		eot := off
		starts = append(starts, eot)
		sumOf := func(b []byte) (s byte) {
			for _, c := range b {
				s += c
			}
			return
		}
		extras := [][]byte{{0x02, 0x01, 0x00}, {0x02, 0x02, 0x01, 0xff}, {0x02, 0x03, 0x80, 0x40, 0x40}, {0x02, 0x04, 0x00, 0x00, 0x00, 0x00}}
		for bi, at := range starts {
			for ei, ex := range extras {
				try(fmt.Sprintf("extra-block%d@b%d", ei, bi), []vpipe.Edit{{Off: int64(at), Ins: ex}})
			}
			// an extra block with arbitrary data and the checksum byte adjusted
			data := []byte{0x11, 0x22, 0x33}
			ck := t.stream[eot+1] - sumOf(data)
			try(fmt.Sprintf("extra-block-ck@b%d", bi), []vpipe.Edit{{Off: int64(at), Ins: append([]byte{0x02, 3}, data...)}, {Off: int64(eot + 1), Del: 1, Ins: []byte{ck}}})
		}
		for bi, bl := range f.Blocks {
			at := starts[bi]
			blk := t.stream[at : at+2+bl]
			// the block repeated right after itself / before EOT, checksum adjusted
			ck := t.stream[eot+1] - sumOf(blk[2:])
			try(fmt.Sprintf("repeat-block@b%d", bi), []vpipe.Edit{{Off: int64(at + 2 + bl), Ins: append([]byte(nil), blk...)}, {Off: int64(eot + 1), Del: 1, Ins: []byte{ck}}})
			if bi != len(f.Blocks)-1 {
				try(fmt.Sprintf("repeat-block-at-end@b%d", bi), []vpipe.Edit{{Off: int64(eot), Ins: append([]byte(nil), blk...)}, {Off: int64(eot + 1), Del: 1, Ins: []byte{ck}}})
			}
			// the block dropped, checksum adjusted
			try(fmt.Sprintf("drop-block@b%d", bi), []vpipe.Edit{{Off: int64(at), Del: 2 + bl}, {Off: int64(eot + 1), Del: 1, Ins: []byte{t.stream[eot+1] + sumOf(blk[2:])}}})
			// split in two at a few points: same data, other framing
			for _, k := range []int{1, bl / 2, bl - 1} {
				if k > 0 && k < bl {
					try(fmt.Sprintf("split-block@b%d.%d", bi, k), []vpipe.Edit{{Off: int64(at + 1), Del: 1, Ins: []byte{byte(k)}}, {Off: int64(at + 2 + k), Ins: []byte{0x02, byte(bl - k)}}})
				}
			}
			// grown by k bytes (zeros: checksum stays valid; other bytes: checksum adjusted), shrunk by k bytes
			for _, k := range []int{1, 2, 5} {
				if bl+k <= 255 {
					try(fmt.Sprintf("grow-block-zeros%d@b%d", k, bi), []vpipe.Edit{{Off: int64(at + 1), Del: 1, Ins: []byte{byte(bl + k)}}, {Off: int64(at + 2 + bl), Ins: make([]byte, k)}})
					junk := bytes.Repeat([]byte{0x5a}, k)
					try(fmt.Sprintf("grow-block-ck%d@b%d", k, bi), []vpipe.Edit{{Off: int64(at + 1), Del: 1, Ins: []byte{byte(bl + k)}}, {Off: int64(at + 2 + bl), Ins: junk}, {Off: int64(eot + 1), Del: 1, Ins: []byte{t.stream[eot+1] - sumOf(junk)}}})
				}
				if bl-k >= 1 {
					cut := blk[2+bl-k:]
					try(fmt.Sprintf("shrink-block-ck%d@b%d", k, bi), []vpipe.Edit{{Off: int64(at + 1), Del: 1, Ins: []byte{byte(bl - k)}}, {Off: int64(at + 2 + bl - k), Del: k}, {Off: int64(eot + 1), Del: 1, Ins: []byte{t.stream[eot+1] + sumOf(cut)}}})
				}
			}
		}
		// the payload's CRC-16 field set to a distinguished value (0x0000: "no checksum"?, 0xffff) with the
		// 8-bit block checksum kept valid by one compensating data byte - late in the stream, so that the
		// decoded message headers survive
		if len(f.Blocks) > 0 && len(f.Data) > 8 && t.code == 'C' {
			var dpos []int // stream offsets of the data bytes
			o2 := hdrEnd
			for _, bl := range f.Blocks {
				for j := 0; j < bl; j++ {
					dpos = append(dpos, o2+2+j)
				}
				o2 += 2 + bl
			}
			for _, v := range []byte{0x00, 0xff} {
				delta := (t.stream[dpos[0]] - v) + (t.stream[dpos[1]] - v) // what the two CRC bytes lose
				for k := 1; k <= 48 && k < len(dpos)-6; k++ {
					at := dpos[len(dpos)-k]
					try(fmt.Sprintf("crc=%02x%02x+compensated@-%d", v, v, k), []vpipe.Edit{{Off: int64(dpos[0]), Del: 1, Ins: []byte{v}}, {Off: int64(dpos[1]), Del: 1, Ins: []byte{v}},
						{Off: int64(at), Del: 1, Ins: []byte{t.stream[at] + delta}}})
				}
				// and with the checksum byte itself adjusted (no data byte touched: the content stays what the sender compressed)
				try(fmt.Sprintf("crc=%02x%02x+checksum", v, v), []vpipe.Edit{{Off: int64(dpos[0]), Del: 1, Ins: []byte{v}}, {Off: int64(dpos[1]), Del: 1, Ins: []byte{v}},
					{Off: int64(eot + 1), Del: 1, Ins: []byte{t.stream[eot+1] + delta}}})
			}
		}
		// two data bytes exchanged (the 8-bit sum does not care about order): the two bytes of the CRC-16 field, its neighbours
		// in the 6-byte CRC/size header, and bytes late in the stream
		if len(f.Blocks) > 0 && len(f.Data) > 24 {
			var dpos []int
			o2 := hdrEnd
			for _, bl := range f.Blocks {
				for j := 0; j < bl; j++ {
					dpos = append(dpos, o2+2+j)
				}
				o2 += 2 + bl
			}
			n := len(dpos)
			for _, pr := range [][2]int{{0, 1}, {1, 2}, {2, 3}, {3, 4}, {4, 5}, {0, 5}, {0, 2}, {1, 5}, {5, 6}, {n - 2, n - 1}, {n - 3, n - 2}, {n - 12, n - 4}, {6, n - 1}} {
				a, b := dpos[pr[0]], dpos[pr[1]]
				if t.stream[a] == t.stream[b] {
					continue
				}
				try(fmt.Sprintf("swap@%d-%d", pr[0], pr[1]), []vpipe.Edit{{Off: int64(a), Del: 1, Ins: []byte{t.stream[b]}}, {Off: int64(b), Del: 1, Ins: []byte{t.stream[a]}}})
			}
		}
		// the title grown / shrunk with the header length byte adjusted (the reference accepts a different title text)
		try("title-grow", []vpipe.Edit{{Off: int64(t.start + 1), Del: 1, Ins: []byte{t.stream[t.start+1] + 1}}, {Off: int64(t.start + 2), Ins: []byte{'X'}}})
		if len(f.Title) > 1 {
			try("title-shrink", []vpipe.Edit{{Off: int64(t.start + 1), Del: 1, Ins: []byte{t.stream[t.start+1] - 1}}, {Off: int64(t.start + 2), Del: 1}})
		}
		// the offset field changed with the length adjusted
		try("offset-grow", []vpipe.Edit{{Off: int64(t.start + 1), Del: 1, Ins: []byte{t.stream[t.start+1] + 1}}, {Off: int64(hdrEnd - 1), Ins: []byte{'0'}}})
		try("offset-one", []vpipe.Edit{{Off: int64(hdrEnd - 2), Del: 1, Ins: []byte{'1'}}})
	case "pairs":
		// data byte positions of the frame (inside STX blocks), in stream order
		f, _ := b2fref.ParseFrame(t.stream[t.start:])
		var pos []int
		off := t.start + 2 + len(f.Title) + 1 + len(f.Offset) + 1
		for _, bl := range f.Blocks {
			off += 2
			for j := 0; j < bl; j++ {
				pos = append(pos, off+j)
			}
			off += bl
		}
		r := vrt.Rand(p.Seed, "c04pairs", p.Leg, p.Msg, p.Shard)
		for q := 0; q < p.Pairs/p.Shards; q++ {
			var i, j int
			switch r.Intn(4) {
			case 0: // inside the 6-byte CRC/size header
				i, j = r.Intn(6), r.Intn(len(pos))
			case 1: // late in the stream: the decoded headers survive
				i, j = len(pos)-1-r.Intn(min(len(pos), 40)), len(pos)-1-r.Intn(min(len(pos), 40))
			default:
				i, j = r.Intn(len(pos)), r.Intn(len(pos))
			}
			if i == j {
				continue
			}
			if i > j {
				i, j = j, i
			}
			d := byte(1 + r.Intn(255))
			bi, bj := t.stream[pos[i]]+d, t.stream[pos[j]]-d
			try(fmt.Sprintf("pair+%d@%d-%d@%d", d, i, d, j), []vpipe.Edit{{Off: int64(pos[i]), Del: 1, Ins: []byte{bi}}, {Off: int64(pos[j]), Del: 1, Ins: []byte{bj}}})
		}
	}
	o.Sample = map[string]any{"leg": p.Leg, "message_class": p.Msg, "kind": p.Kind, "block": p.Block, "target_position": p.Target, "gzip": p.Gzip, "frame_bytes": n, "csize": t.csize, "usize": t.usize, "shard": fmt.Sprintf("%d/%d", p.Shard, p.Shards)}
	return o
}

func classOf(name string) string {
	for i := 0; i < len(name); i++ {
		if name[i] == '@' || name[i] == '+' {
			return name[:i]
		}
	}
	return name
}
