// Package c01: a completed exchange delivers every accepted message exactly once, intact.
// Two real Sessions over a deterministic in-memory link; the oracle is an offline checker over the
// event log of two in-memory reference mailboxes plus the link's close log.
package c01

import (
	"errors"
	"fmt"
	"time"

	"verif/internal/b2fx"
	"verif/internal/mem"
	"verif/internal/vpipe"
	"verif/internal/vrt"
)

type params struct {
	Seed  int64  `json:"seed"`
	Index int    `json:"index"`
	Count int    `json:"count"`
	Fixed string `json:"fixed,omitempty"`
	Split bool   `json:"split,omitempty"` // station B in a child process with the opposite GZIP_EXPERIMENT setting
}

var Check = &vrt.Check{
	ID:    "C01",
	Level: "exploration",
	Rule: "a case runs PRNG scenarios (message sets 0..13 each way with bodies 1 B..40 kB of arbitrary bytes/Latin-1 text, 0..3 attachments, ASCII/Latin-1/precedence subjects, " +
		"per-MID accept/reject/defer policy, role, MOTD, batched/unbatched handlers, GZIP_EXPERIMENT on/off on both sides, 4 read segmentations) between two real Sessions; " +
		"non-trivial = at least one message body was transferred; distinct = distinct (scenario index, transferred MIDs) signatures",
	Assumptions: []string{
		"MOTD lines are printable text that is not itself protocol (not starting with [ or ; and not ending in >); lines that begin with asterisks are included (banners, the CMS statistics line)",
		"GZIP_EXPERIMENT is process-global: on/on and off/off run in-process; the asymmetric settings run with station B in a child process (Unix socketpair link), where the cross-station ordering clause (reported sent only after delivery) is not evaluated for lack of a common clock - C02 decides it",
		"mailboxes are the in-memory reference handler (the directory mailbox is exercised by C02/C10-C12)",
	},
	Plan:            plan,
	Run:             run,
	HangIsViolation: true,
	HangKey:         func(c vrt.Case) string { return "session" },
	MinNontrivial:   50,
}

func plan(seed int64, tier string) []vrt.Case {
	n, per := 1500, 25
	if tier == "thorough" {
		n, per = 60000, 200
	}
	var cs []vrt.Case
	for _, f := range fixedNames {
		cs = append(cs, vrt.Case{ID: "fixed-" + f, Params: vrt.MustParams(params{Seed: seed, Fixed: f}), TimeoutS: 300})
	}
	for i := 0; i < n; i += per {
		cs = append(cs, vrt.Case{ID: fmt.Sprintf("rand-%d", i), Params: vrt.MustParams(params{Seed: seed, Index: i, Count: per}), TimeoutS: 600})
	}
	// asymmetric GZIP_EXPERIMENT settings: station B runs in a child process with its own environment
	nsplit := 48
	if tier == "thorough" {
		nsplit = 1200
	}
	for i := 0; i < nsplit; i += 6 {
		cs = append(cs, vrt.Case{ID: fmt.Sprintf("split-%d", i), Params: vrt.MustParams(params{Seed: seed, Index: i, Count: 6, Split: true}), TimeoutS: 600})
	}
	return cs
}

func runScenario(o *vrt.Obs, sc *b2fx.Scenario, tag string) {
	o.Evals++
	b2fx.SetGzip(sc.Gzip)
	defer b2fx.SetGzip(false)
	lg := &mem.Log{}
	a, b := sc.Stations(lg)
	sa, sb := sc.Sides(a, b)
	// one scenario in four runs with modem-like connections on both stations (Flush / TxBufferLen / SetRobust,
	// as the ardop and agwpe transports offer): the outcome must not depend on the transport kind
	if (len(sc.MsgsA)*5+len(sc.MsgsB)+sc.Seg)%4 == 0 {
		sa.Modem, sb.Modem = true, true
		o.Count("sessions_on_modem_like_connections", 1)
	}
	// one scenario in three runs on a link with flow control (1, 7 or 200 bytes in flight per direction)
	capacity := []int{0, 0, 0, 0, 0, 0, 1, 7, 200}[(len(sc.MsgsA)*7+len(sc.MsgsB)*3+sc.Seg)%9]
	plan := vpipe.Plan{Seed: 1, Seg: sc.Seg, CutDir: vpipe.NoCut, Capacity: capacity}
	// one scenario in four is a LONG exchange: after the first 150 / 600 / 4000 bytes two minutes pass on the link's
	// own clock (a slow radio link; the run itself stays fast). Deadlines a station has set on its connection are
	// honoured on that clock, as a net.Conn honours them.
	if k := (len(sc.MsgsA)*3 + len(sc.MsgsB)*5 + sc.Seg) % 4; k == 1 {
		plan.ClockJump = 2 * time.Minute
		plan.ClockJumpAfter = []int64{150, 600, 4000}[(len(sc.MsgsA)+len(sc.MsgsB))%3]
		o.Count("sessions_lasting_more_than_two_minutes_on_the_link_clock", 1)
	}
	res, _ := b2fx.RunPair(sa, sb, plan, false)
	if capacity > 0 {
		o.Count("sessions_on_flow_controlled_link", 1)
	}
	ev := lg.Events()
	b2fx.EventCounts(o, ev)
	before := len(o.Violations)
	b2fx.CheckCompleted(o, sc, res, a.Pending(), b.Pending(), ev)
	b2fx.CheckContent(o, sc.MsgsA, b.Inbox(), "B")
	b2fx.CheckContent(o, sc.MsgsB, a.Inbox(), "A")
	for i := before; i < len(o.Violations); i++ {
		if o.Violations[i].Detail == nil {
			o.Violations[i].Detail = map[string]any{"scenario": sc.Describe(), "case": tag}
		}
	}
	transferred := append(append([]string{}, res.A.Stats.Sent...), res.B.Stats.Sent...)
	o.Count("sessions", 1)
	o.Count("bytes_on_link", res.Link.Written[0]+res.Link.Written[1])
	o.Count("read_calls", int64(res.Link.ReadCalls[0]+res.Link.ReadCalls[1]))
	if len(sc.MsgsA) > 5 || len(sc.MsgsB) > 5 {
		o.Count("sessions_with_several_blocks", 1)
	}
	if len(transferred) > 0 {
		o.Sig("%s %v", tag, transferred)
		o.Count("messages_transferred", int64(len(transferred)))
	}
	if o.Sample == nil && len(transferred) > 1 {
		o.Sample = sc.Describe()
	}
}

// genProblem: a generator error is a harness problem (inconclusive) - except when the library itself calls a generated
// message valid and then cannot serialise it: that message could be queued and would never be delivered.
func genProblem(o *vrt.Obs, i int, err error) {
	var ue *b2fx.UnserialisableError
	if errors.As(err, &ue) {
		o.Evals++
		o.Violate("valid-message-cannot-be-serialised", "scenario %d: %v", i, err)
		return
	}
	o.Inconclusive = append(o.Inconclusive, fmt.Sprintf("scenario %d: generator: %v", i, err))
}

func run(c vrt.Case) vrt.Obs {
	var p params
	vrt.Params(c, &p)
	var o vrt.Obs
	if p.Fixed != "" {
		sc, err := fixedScenario(p.Fixed)
		if err != nil {
			o.Inconclusive = append(o.Inconclusive, "fixed scenario "+p.Fixed+": "+err.Error())
			return o
		}
		runScenario(&o, sc, "fixed-"+p.Fixed)
		return o
	}
	if p.Split {
		for i := p.Index; i < p.Index+p.Count; i++ {
			r := vrt.Rand(p.Seed, "c01split", i)
			sc, err := b2fx.GenScenario(r, 8)
			if err != nil {
				genProblem(&o, i, err)
				continue
			}
			gzA := i%2 == 0
			o.Evals++
			res, a, ev, pendB, err := b2fx.RunPairSplit(sc, gzA, !gzA)
			if err != nil {
				o.Inconclusive = append(o.Inconclusive, fmt.Sprintf("split scenario %d: %v", i, err))
				continue
			}
			b2fx.EventCounts(&o, ev)
			before := len(o.Violations)
			b2fx.CheckCompleted(&o, sc, res, a.Pending(), pendB, ev)
			b2fx.CheckContent(&o, sc.MsgsB, a.Inbox(), "A")
			for k := before; k < len(o.Violations); k++ {
				if o.Violations[k].Detail == nil {
					o.Violations[k].Detail = map[string]any{"scenario": sc.Describe(), "gzip_A": gzA, "gzip_B": !gzA, "case": fmt.Sprintf("split-%d", i)}
				}
			}
			o.Count("sessions_split_process_asymmetric_gzip", 1)
			if n := len(res.A.Stats.Sent) + len(res.B.Stats.Sent); n > 0 {
				o.Sig("split%d %v %v", i, res.A.Stats.Sent, res.B.Stats.Sent)
				o.Count("messages_transferred", int64(n))
			}
		}
		return o
	}
	if p.Count > 0 && (p.Index/p.Count)%5 == 4 {
		// every fifth batch: three pairs of stations exchange at the same time in one process (a gateway that
		// serves several links): each exchange must be as correct as if it were alone (gzip off: the
		// experiment switch is a process-wide environment variable)
		vrt.Parallel(&o, 3, func(g int, po *vrt.Obs) {
			for i := p.Index + g; i < p.Index+p.Count; i += 3 {
				r := vrt.Rand(p.Seed, "c01", i)
				sc, err := b2fx.GenScenario(r, 13)
				if err != nil {
					genProblem(po, i, err)
					continue
				}
				sc.Gzip = false
				runScenario(po, sc, fmt.Sprintf("s%d", i))
				po.Count("sessions_run_while_other_sessions_were_active", 1)
			}
		})
		return o
	}
	for i := p.Index; i < p.Index+p.Count; i++ {
		r := vrt.Rand(p.Seed, "c01", i)
		sc, err := b2fx.GenScenario(r, 13)
		if err != nil {
			genProblem(&o, i, err)
			continue
		}
		if i%8 == 5 && len(sc.MsgsA) > 0 && len(sc.MsgsB) > 0 {
			// one message is queued at BOTH stations for the other one (a message to both operators that reached both
			// mailboxes by another route; a relay handing a message back): the same MID, the same bytes, travelling in
			// both directions in one session. Each direction is judged on its own.
			m := sc.MsgsA[i/8%len(sc.MsgsA)]
			sc.MsgsB = append(sc.MsgsB[:len(sc.MsgsB):len(sc.MsgsB)], m)
			o.Count("sessions_with_the_same_message_queued_in_both_directions", 1)
		}
		runScenario(&o, sc, fmt.Sprintf("s%d", i))
		if i%8 == 6 {
			// a history: the same stations exchange the same identifiers again later in this process, after every message
			// was corrected in place (one letter of the body or of an attachment changed, all lengths as before)
			if sc2 := correctedCopy(sc); sc2 != nil {
				runScenario(&o, sc2, fmt.Sprintf("s%d-corrected", i))
				o.Count("sessions_repeating_earlier_identifiers_with_corrected_content", 1)
			}
		}
	}
	return o
}

// correctedCopy returns the scenario with one letter or digit of every message changed to another one (nil when no
// message has one): same identifiers, same sizes, other bytes.
func correctedCopy(sc *b2fx.Scenario) *b2fx.Scenario {
	cp := *sc
	cp.Truth = map[string][]byte{}
	changed := 0
	fix := func(in []b2fx.MsgSpec) []b2fx.MsgSpec {
		out := append([]b2fx.MsgSpec(nil), in...)
		for i := range out {
			m := &out[i]
			swap := func(b []byte) ([]byte, bool) {
				for k := len(b) / 2; k < len(b); k++ {
					if c := b[k]; c >= '0' && c <= '8' || c >= 'a' && c <= 'y' || c >= 'A' && c <= 'Y' {
						nb := append([]byte(nil), b...)
						nb[k] = c + 1
						return nb, true
					}
				}
				return b, false
			}
			done := false
			if nb, ok := swap(m.Body); ok {
				m.Body, done = nb, true
			} else if len(m.Files) > 0 {
				m.Files = append([]b2fx.FileSpec(nil), m.Files...)
				if nb, ok := swap(m.Files[0].Data); ok {
					m.Files[0].Data, done = nb, true
				}
			}
			if done {
				changed++
			}
			c, err := m.Canonical()
			if err != nil {
				return nil
			}
			if _, dup := cp.Truth[m.MID]; !dup {
				cp.Truth[m.MID] = c
			}
		}
		return out
	}
	if cp.MsgsA = fix(sc.MsgsA); cp.MsgsA == nil && len(sc.MsgsA) > 0 {
		return nil
	}
	if cp.MsgsB = fix(sc.MsgsB); cp.MsgsB == nil && len(sc.MsgsB) > 0 {
		return nil
	}
	if changed == 0 {
		return nil
	}
	return &cp
}
