package c01

import (
	"encoding/binary"
	"sync"
	"sync/atomic"

	"bytes"
	"fmt"
	"strings"
	"verif/internal/ref/lzref"

	"github.com/la5nta/wl2k-go/fbb"

	"verif/internal/b2fx"
)

// Fixed regression scenarios: one per boundary named in the property / defect shape of DESIGN.md
// section 7. They are part of both tiers.
var fixedNames = []string{"latin1-subject-37", "latin1-subject-34", "ascii-subject-128", "three-blocks-both-ways", "all-deferred", "all-rejected", "equal-sizes", "empty-both", "one-byte-body", "gzip-three-blocks", "distinguished-crc-values", "size-field-boundaries"}

func mk(mid, from, to, subject string, body []byte, files ...b2fx.FileSpec) b2fx.MsgSpec {
	return b2fx.MsgSpec{MID: mid, From: from, To: []string{to}, Subject: subject, Body: body, Files: files, Shape: fmt.Sprintf("subject[%d] body[%d] files[%d]", len(subject), len(body), len(files))}
}

func fixedScenario(name string) (*b2fx.Scenario, error) {
	sc := &b2fx.Scenario{Policy: map[string]fbb.ProposalAnswer{}, Truth: map[string][]byte{}, MasterIsA: true}
	A, B := b2fx.CallA, b2fx.CallB
	latin := func(n int) string {
		var b strings.Builder
		b.WriteString("=?ISO-8859-1?q?")
		for i := 0; i < n; i++ {
			b.WriteString("=E6")
		}
		b.WriteString("?=")
		return b.String()
	}
	switch name {
	case "latin1-subject-37":
		sc.MsgsA = []b2fx.MsgSpec{mk("LATIN37", A, B, latin(37), []byte("body\r\n"))}
	case "latin1-subject-34":
		sc.MsgsB = []b2fx.MsgSpec{mk("LATIN34", B, A, latin(34), []byte("body\r\n"))}
	case "ascii-subject-128":
		sc.MsgsA = []b2fx.MsgSpec{mk("ASCII128", A, B, strings.Repeat("s", 128), []byte("body\r\n"))}
	case "three-blocks-both-ways", "gzip-three-blocks":
		for i := 0; i < 13; i++ {
			sc.MsgsA = append(sc.MsgsA, mk(fmt.Sprintf("A%d", i), A, B, fmt.Sprintf("subject %d", i), bytes.Repeat([]byte{byte('a' + i)}, 10+i*37)))
			sc.MsgsB = append(sc.MsgsB, mk(fmt.Sprintf("B%d", i), B, A, fmt.Sprintf("//WL2K P/ subject %d", i), bytes.Repeat([]byte{byte('A' + i), 0, '\r', '\n'}, 1+i*11)))
		}
		sc.Policy["A3"], sc.Policy["A7"], sc.Policy["B0"], sc.Policy["B12"] = fbb.Reject, fbb.Defer, fbb.Defer, fbb.Reject
		sc.Gzip = name == "gzip-three-blocks"
		sc.Seg = 3
	case "all-deferred":
		for i := 0; i < 6; i++ {
			m := mk(fmt.Sprintf("D%d", i), A, B, "deferred", []byte("x"))
			sc.MsgsA = append(sc.MsgsA, m)
			sc.Policy[m.MID] = fbb.Defer
		}
	case "all-rejected":
		for i := 0; i < 6; i++ {
			m := mk(fmt.Sprintf("R%d", i), B, A, "rejected", []byte("x"))
			sc.MsgsB = append(sc.MsgsB, m)
			sc.Policy[m.MID] = fbb.Reject
		}
	case "equal-sizes":
		for i := 0; i < 7; i++ {
			sc.MsgsA = append(sc.MsgsA, mk(fmt.Sprintf("EQ%d", 9-i), A, B, "same size", []byte("identical body\r\n")))
		}
		sc.Seg = 1
	case "size-field-boundaries":
		// uncompressed sizes around the places where the decimal size fields of a proposal gain a digit (a seventh: the offset field's
		// own limit of 999999 does not apply to sizes) or cross a power of two; compressible content keeps the transfer short
		pat := func(n int, seed byte) []byte {
			b := make([]byte, n)
			for i := range b {
				b[i] = "winlink 2000 \r\n"[(i+int(seed))%15] + seed*byte(i/4096%3)
			}
			return b
		}
		sc.MsgsA = []b2fx.MsgSpec{
			mk("SIZE1000100", A, B, "a megabyte", []byte("see attachment\r\n"), b2fx.FileSpec{Name: "track.gpx", Data: pat(1000100, 1)}),
			mk("SIZE0099990", A, B, "just under", pat(99800, 2)),
		}
		sc.MsgsB = []b2fx.MsgSpec{
			mk("SIZE0999700", B, A, "just under a megabyte", []byte("x\r\n"), b2fx.FileSpec{Name: "a.bin", Data: pat(999700, 3)}, b2fx.FileSpec{Name: "b.bin", Data: pat(65536, 4)}),
			mk("SIZE0100100", B, A, "six digits", pat(100100, 5)),
		}
	case "distinguished-crc-values":
		// messages whose compressed stream begins with a distinguished CRC-16 value (the first two bytes of a B2
		// payload): all zero, all ones, and the gzip magic number in either byte order - a receiver that takes
		// such a value for "no checksum" or sniffs the payload type by its first bytes meets them 1 time in 65536
		want := map[uint16]bool{0x0000: true, 0xffff: true, 0x8b1f: true, 0x1f8b: true}
		type hit struct {
			v uint16
			m b2fx.MsgSpec
			i int
		}
		const workers = 8
		hits := make(chan hit, 4096)
		var bound atomic.Int64 // candidates above this index need not be looked at any more
		bound.Store(4000000)
		var wg sync.WaitGroup
		for g := 0; g < workers; g++ {
			wg.Add(1)
			go func() {
				defer wg.Done()
				for i := g; int64(i) <= bound.Load(); i += workers {
					// the identifier is part of the message: the candidate keeps it
					m := mk(fmt.Sprintf("CRC%d", i), A, B, "value search", []byte(fmt.Sprintf("searching for a checksum value, candidate %d\r\n", i)))
					c, err := m.Canonical()
					if err != nil {
						return
					}
					if v := binary.LittleEndian.Uint16(lzref.EncodeB2(c)); want[v] {
						m.Shape = fmt.Sprintf("stream CRC-16 %04x", v)
						hits <- hit{v, m, i}
					}
				}
			}()
		}
		go func() { wg.Wait(); close(hits) }()
		// the smallest candidate of every value (independent of goroutine scheduling): once every value has been
		// seen, nothing above the largest index seen can be the smallest any more
		best := map[uint16]hit{}
		for h := range hits {
			if b, ok := best[h.v]; !ok || h.i < b.i {
				best[h.v] = h
			}
			if len(best) == len(want) {
				top := 0
				for _, b := range best {
					top = max(top, b.i)
				}
				if int64(top) < bound.Load() {
					bound.Store(int64(top))
				}
			}
		}
		for _, v := range []uint16{0x0000, 0x1f8b, 0x8b1f, 0xffff} {
			if b, ok := best[v]; ok {
				sc.MsgsA = append(sc.MsgsA, b.m)
			}
		}
	case "empty-both":
	case "one-byte-body":
		sc.MsgsA = []b2fx.MsgSpec{mk("1", A, B, "s", []byte{0}, b2fx.FileSpec{Name: "e", Data: nil})}
		sc.MsgsB = []b2fx.MsgSpec{mk("ABCDEFGHIJKL", B, A, "s", []byte{0xff})}
		sc.Seg = 1
	default:
		return nil, fmt.Errorf("unknown fixed scenario %q", name)
	}
	for _, m := range append(append([]b2fx.MsgSpec{}, sc.MsgsA...), sc.MsgsB...) {
		c, err := m.Canonical()
		if err != nil {
			return nil, err
		}
		sc.Truth[m.MID] = c
		if _, ok := sc.Policy[m.MID]; !ok {
			sc.Policy[m.MID] = fbb.Accept
		}
	}
	return sc, nil
}
