package c01

import (
	"bytes"
	"fmt"
	"strings"

	"github.com/la5nta/wl2k-go/fbb"

	"verif/internal/b2fx"
)

// Fixed regression scenarios: one per boundary named in the property / defect shape of DESIGN.md
// section 7. They are part of both tiers.
var fixedNames = []string{"latin1-subject-37", "latin1-subject-34", "ascii-subject-128", "three-blocks-both-ways", "all-deferred", "all-rejected", "equal-sizes", "empty-both", "one-byte-body", "gzip-three-blocks"}

func mk(mid, from, to, subject string, body []byte, files ...b2fx.FileSpec) b2fx.MsgSpec {
	return b2fx.MsgSpec{MID: mid, From: from, To: []string{to}, Subject: subject, Body: body, Files: files, Shape: fmt.Sprintf("subject[%d] body[%d] files[%d]", len(subject), len(body), len(files))}
}

func fixedScenario(name string) (*b2fx.Scenario, error) {
	sc := &b2fx.Scenario{Policy: map[string]fbb.ProposalAnswer{}, Truth: map[string][]byte{}, MasterIsA: true}
	A, B := b2fx.CallA, b2fx.CallB
	latin := func(n int) string {
		var b strings.Builder
		b.WriteString("=?ISO-8859-1?q?")
		for i := 0; i < n; i++ {
			b.WriteString("=E6")
		}
		b.WriteString("?=")
		return b.String()
	}
	switch name {
	case "latin1-subject-37":
		sc.MsgsA = []b2fx.MsgSpec{mk("LATIN37", A, B, latin(37), []byte("body\r\n"))}
	case "latin1-subject-34":
		sc.MsgsB = []b2fx.MsgSpec{mk("LATIN34", B, A, latin(34), []byte("body\r\n"))}
	case "ascii-subject-128":
		sc.MsgsA = []b2fx.MsgSpec{mk("ASCII128", A, B, strings.Repeat("s", 128), []byte("body\r\n"))}
	case "three-blocks-both-ways", "gzip-three-blocks":
		for i := 0; i < 13; i++ {
			sc.MsgsA = append(sc.MsgsA, mk(fmt.Sprintf("A%d", i), A, B, fmt.Sprintf("subject %d", i), bytes.Repeat([]byte{byte('a' + i)}, 10+i*37)))
			sc.MsgsB = append(sc.MsgsB, mk(fmt.Sprintf("B%d", i), B, A, fmt.Sprintf("//WL2K P/ subject %d", i), bytes.Repeat([]byte{byte('A' + i), 0, '\r', '\n'}, 1+i*11)))
		}
		sc.Policy["A3"], sc.Policy["A7"], sc.Policy["B0"], sc.Policy["B12"] = fbb.Reject, fbb.Defer, fbb.Defer, fbb.Reject
		sc.Gzip = name == "gzip-three-blocks"
		sc.Seg = 3
	case "all-deferred":
		for i := 0; i < 6; i++ {
			m := mk(fmt.Sprintf("D%d", i), A, B, "deferred", []byte("x"))
			sc.MsgsA = append(sc.MsgsA, m)
			sc.Policy[m.MID] = fbb.Defer
		}
	case "all-rejected":
		for i := 0; i < 6; i++ {
			m := mk(fmt.Sprintf("R%d", i), B, A, "rejected", []byte("x"))
			sc.MsgsB = append(sc.MsgsB, m)
			sc.Policy[m.MID] = fbb.Reject
		}
	case "equal-sizes":
		for i := 0; i < 7; i++ {
			sc.MsgsA = append(sc.MsgsA, mk(fmt.Sprintf("EQ%d", 9-i), A, B, "same size", []byte("identical body\r\n")))
		}
		sc.Seg = 1
	case "empty-both":
	case "one-byte-body":
		sc.MsgsA = []b2fx.MsgSpec{mk("1", A, B, "s", []byte{0}, b2fx.FileSpec{Name: "e", Data: nil})}
		sc.MsgsB = []b2fx.MsgSpec{mk("ABCDEFGHIJKL", B, A, "s", []byte{0xff})}
		sc.Seg = 1
	default:
		return nil, fmt.Errorf("unknown fixed scenario %q", name)
	}
	for _, m := range append(append([]b2fx.MsgSpec{}, sc.MsgsA...), sc.MsgsB...) {
		c, err := m.Canonical()
		if err != nil {
			return nil, err
		}
		sc.Truth[m.MID] = c
		if _, ok := sc.Policy[m.MID]; !ok {
			sc.Policy[m.MID] = fbb.Accept
		}
	}
	return sc, nil
}
