package c13

import (
	"bytes"
	"context"
	"errors"
	"fmt"
	"io"
	"math/rand"
	"net"
	"runtime"
	"runtime/debug"
	"strings"
	"sync"
	"sync/atomic"
	"time"

	"github.com/la5nta/wl2k-go/transport/ax25/agwpe"

	"verif/internal/simagw"
	"verif/internal/vrt"
)

// burst is one batch of TNC->host connected-data frames, written back to back.
type burst struct {
	Frames  int `json:"frames"`
	MinSz   int `json:"min"`
	MaxSz   int `json:"max"`
	StallMs int `json:"stall_ms"` // >0: the reader stops reading before the burst is written and resumes StallMs after it is in the link
	// ForeignPct percent of the positions get an additional frame that must not be delivered
	ForeignPct int `json:"foreign_pct,omitempty"`
}

// scenario is the complete description of one execution. Everything not listed here (payload
// bytes, frame sizes inside the ranges, noise choices, segmentation) is drawn from a PRNG seeded
// by Seed, so a scenario is reproducible from its parameters.
type scenario struct {
	Class string `json:"class"`
	Calls int    `json:"calls,omitempty"` // index into callSets
	Seed  int64  `json:"seed"`
	Link  string `json:"link"` // pipe | tcp
	Seg   string `json:"seg"`  // pipe: hostile | bytes | whole ; tcp: percentage of frames cut, e.g. "cut20"
	Port  int    `json:"port"`
	Mode  string `json:"mode"`  // dial | accept
	Digis int    `json:"digis"` // dial only
	// CancelCtx (dial only): the dial is made with a cancellable context which is cancelled as soon
	// as DialContext has returned (the "ctx, cancel := WithTimeout(..); defer cancel()" idiom of a dial
	// helper): a context that ends after a successful dial must not touch the connection.
	CancelCtx bool `json:"cancel_ctx,omitempty"`
	// ReverseEnv: run with AGWPE_REVERSE_TO_FROM=1 (only the 'Y' queries of accepted connections may change).
	ReverseEnv bool `json:"reverse_env,omitempty"`

	MaxFrame int  `json:"maxframe"`
	TTLMax   int  `json:"ttl"`
	RegX     bool `json:"reg_reply_lowercase_x,omitempty"`

	RBuf        int     `json:"rbuf"`
	ReadDelayUs int     `json:"read_delay_us,omitempty"` // the reader sleeps this long after every 8th read
	Bursts      []burst `json:"bursts"`
	Writes      []int   `json:"writes"` // sizes of the application's Write calls
	WritePaceMs int     `json:"write_pace_ms,omitempty"`
	MidFlush    bool    `json:"mid_flush,omitempty"`

	NoisePct int    `json:"noise_pct,omitempty"` // replies preceded by unsolicited harmless frames
	End      string `json:"end"`                 // remote-disc | app-close | link-drop | close-inflight | close-stalled | tnc-close-stalled
	Version  bool   `json:"version,omitempty"`
	UI       bool   `json:"ui,omitempty"`

	// deliberately misbehaving TNC
	Dial      string `json:"dial,omitempty"` // "", refuse, badtext
	ShortX    int    `json:"short_x"`        // -1 = well formed
	ShortG    int    `json:"short_g"`
	ShortR    int    `json:"short_r"`
	ShortYAt  int    `json:"short_y_at"`
	ShortYLen int    `json:"short_y_len,omitempty"`
	Huge      int    `json:"huge,omitempty"`       // one unsolicited frame with this many data bytes inside the first burst
	OddAccept bool   `json:"odd_accept,omitempty"` // accept: 'C' frames without the expected text / for other stations first
	EarlyData int    `json:"early_data,omitempty"` // this many data frames directly behind the 'C' frame (accept: the connect notice, dial: the connect reply)
	TailLie   bool   `json:"tail_lie,omitempty"`   // finally a header announcing 1 MiB followed by the end of the link

	// DropInStall (end = link-drop): the link ends while the reader is stalled behind the last burst.
	DropInStall bool `json:"drop_in_stall,omitempty"`
	// Dual: a second connection (to another station, same port) is open during the whole scenario
	// and receives DualPct percent additional data frames interleaved with the first one's.
	Dual    bool `json:"dual,omitempty"`
	DualPct int  `json:"dual_pct,omitempty"`
	// Writes2: sizes of Write calls on the second connection, issued by a goroutine of its own
	// concurrently with the first connection's writer (two sessions sharing one TNC link).
	Writes2 []int `json:"writes2,omitempty"`
	// VaryPID: the TNC's data frames of the connection carry PIDs other than 0xF0 as well.
	VaryPID bool `json:"vary_pid,omitempty"`
}

func defaults() scenario {
	return scenario{Link: "pipe", Seg: "hostile", Mode: "dial", MaxFrame: 4, TTLMax: 2, RBuf: 4096, End: "remote-disc",
		ShortX: -1, ShortG: -1, ShortR: -1, ShortYAt: -1}
}

// callSet: the callsigns of one scenario: this application's, the remote station's, a second remote station's
// (noise, or the second connection of Dual scenarios) and a third one's (noise only).
type callSet struct{ myCall, remoteCall, otherCall, thirdCall string }

// Callsigns are up to six characters plus an optional SSID 0..15; the SSIDs 10..15, callsigns that end in
// digits and callsigns without an SSID are as legal as the textbook "-1".
var callSets = []callSet{
	{"LA5NTA-1", "N0CALL-1", "SM0XYZ-2", "OH2ABC-5"},
	{"LA1B-10", "N0CALL-10", "SM0XYZ-15", "OH2ABC-10"},
	{"LA5NTA", "N0CALL", "SM0XYZ", "OH2ABC"},
	{"LN100-10", "OZ50-10", "SM0XYZ-12", "OH2ABC-11"},
	{"LA5NTA-15", "N0CALL-7", "N0CALL-1", "N0CALL-10"},
}

func (sc scenario) callSet() callSet { return callSets[sc.Calls%len(callSets)] }

var digiCalls = []string{"WIDE1-1", "LD5SK"}

// tolerant reports whether the TNC misbehaves in a way that legitimately makes API calls fail.
func (sc scenario) tolerant() bool {
	return sc.ShortYAt >= 0
}

// env is the running state of one scenario.
type env struct {
	sc  scenario
	cs  callSet
	omu sync.Mutex // guards o: library calls run on several goroutines
	o   *vrt.Obs
	rng *rand.Rand
	sim *simagw.Sim

	host *simagw.PipeEnd // pipe link only
	ln   net.Listener    // tcp link only

	tnc     *agwpe.TNC
	port    *agwpe.Port
	tncPort *agwpe.TNCPort

	conn  net.Conn
	conn2 net.Conn // Dual: connection to otherCall
	got2  []byte
	rd2   chan struct{}
	wr2   chan struct{}

	attempted2, succeeded2 bytes.Buffer
	writeErr2              error

	readerBytes atomic.Int64
	stall       atomic.Pointer[chan struct{}]
	progressX   atomic.Int64 // bumped by harness-side steps that are progress on their own

	mu       sync.Mutex
	got      []byte
	readErr  error
	readerUp bool

	attempted bytes.Buffer // bytes of every Write call started
	succeeded bytes.Buffer // bytes of every Write call that returned (n, nil)
	writeErr  error

	phase    string
	aborted  bool
	dropLink bool

	fatalOnce sync.Once
	fatal     chan struct{} // closed when a library call panicked: the scenario ends at once
	linkLost  bool          // the library closed the TNC link on its own
	regFailed bool

	appClosedLink bool // closeAll has been called
	closeReturned bool // Conn.Close of the first connection returned nil
	stuckDump     string
}

func (e *env) vio(key, format string, a ...any) {
	ph := e.phaseName()
	e.omu.Lock()
	defer e.omu.Unlock()
	e.o.Violate(key, "[%s] "+format, append([]any{ph}, a...)...)
}

// apiErr reports an API call that failed although the simulated TNC did its part. The library's
// own reply timeouts (3 s, 10 s, 30 s) are wall-clock: a reply that is merely queued behind a long
// burst which a slow reader on a busy machine is still working through looks the same as a lost
// one. Such an error is therefore never a verdict (a reply that is really lost shows up as a call
// that hangs while nothing moves, see stuck, or as a gap in the stream).
func (e *env) apiErr(key string, err error, format string, a ...any) {
	if err != nil {
		msg := err.Error()
		if strings.Contains(msg, "timeout") || errors.Is(err, context.DeadlineExceeded) {
			e.inconclusive(fmt.Sprintf("%s/%s seed %d: %s with a wall-clock timeout inside the library (%v)", e.sc.Class, e.sc.Link, e.sc.Seed, key, err))
			return
		}
	}
	e.vio(key, format, a...)
}

func (e *env) count(name string, n int64) {
	e.omu.Lock()
	defer e.omu.Unlock()
	e.o.Count(name, n)
}

func (e *env) inconclusive(msg string) {
	e.omu.Lock()
	defer e.omu.Unlock()
	e.o.Inconclusive = append(e.o.Inconclusive, msg)
}

func (e *env) nViol() int {
	e.omu.Lock()
	defer e.omu.Unlock()
	return len(e.o.Violations)
}

// guard runs f and turns a panic into a violation whose key names the library frame.
func (e *env) guard(f func()) {
	defer func() {
		if r := recover(); r != nil {
			v := vrt.PanicViolation(r, debug.Stack())
			e.omu.Lock()
			e.o.Violations = append(e.o.Violations, v)
			e.omu.Unlock()
			e.fatalOnce.Do(func() { close(e.fatal) })
		}
	}()
	f()
}

func (e *env) phaseName() string {
	e.mu.Lock()
	defer e.mu.Unlock()
	return e.phase
}

func (e *env) setPhase(p string) {
	e.mu.Lock()
	e.phase = p
	e.mu.Unlock()
	e.progressX.Add(1)
}

// progress is a number that changes whenever anything moves: bytes read by the application, frames
// received or written by the simulator, reads performed by the library on the in-memory link.
func (e *env) progress() int64 {
	p := e.readerBytes.Load() + e.progressX.Load() + e.sim.Progress()
	if e.host != nil {
		calls, _ := e.host.ReadCalls()
		p += calls
	}
	return p
}

const (
	stuckAfter = 15 * time.Second // nothing at all moved for this long
	hardLimit  = 150 * time.Second
)

// await waits for done. It gives up when nothing has moved anywhere for stuckAfter (the library is
// blocked although the simulated TNC answered everything) and reports that as stuck.
func (e *env) await(done <-chan struct{}) bool {
	last := e.progress()
	lastChange := time.Now()
	start := lastChange
	t := time.NewTicker(100 * time.Millisecond)
	defer t.Stop()
	for {
		select {
		case <-done:
			return true
		case <-e.fatal:
			select {
			case <-done:
				return true
			case <-time.After(200 * time.Millisecond):
			}
			return false
		case <-t.C:
			if p := e.progress(); p != last {
				last, lastChange = p, time.Now()
			}
			if time.Since(lastChange) > stuckAfter || time.Since(start) > hardLimit {
				return false
			}
		}
	}
}

// call runs f (a library call) on its own goroutine, guarded, and waits for it with await.
// It returns false if the call never returned.
func (e *env) call(name string, f func()) (returned bool) {
	done := make(chan struct{})
	go func() {
		defer close(done)
		e.guard(f)
	}()
	if e.await(done) {
		return true
	}
	e.stuck(name)
	return false
}

// stuck records a call that does not return although every frame it could wait for was sent.
func (e *env) stuck(what string) {
	e.mu.Lock()
	already := e.aborted
	e.aborted = true
	e.mu.Unlock()
	if already {
		return
	}
	select {
	case <-e.fatal:
		return // a panic was recorded; whatever hangs now is a consequence
	default:
	}
	consumed := e.host != nil && e.host.Unread() == 0
	if consumed && !e.sc.tolerant() {
		e.vio("stuck:"+what, "%s does not return: the simulated TNC has answered every request, the library has consumed every byte of the link, "+
			"and nothing has moved for %v (a frame was lost inside the library)", what, stuckAfter)
		e.stuckDump = goroutineDump()
	} else {
		e.inconclusive(fmt.Sprintf("%s/%s seed %d: %s did not return (link %s, tolerant=%v)", e.sc.Class, e.sc.Link, e.sc.Seed, what, e.sc.Link, e.sc.tolerant()))
	}
}

func (e *env) isAborted() bool {
	e.mu.Lock()
	defer e.mu.Unlock()
	return e.aborted
}

// ---------------------------------------------------------------------------------------------

func (sc scenario) simConfig() simagw.Config {
	cfg := simagw.Config{Port: uint8(sc.Port), MyCall: sc.callSet().myCall, MaxFrame: uint8(sc.MaxFrame), TTLMax: sc.TTLMax, Seed: sc.Seed,
		ShortX: sc.ShortX, ShortG: sc.ShortG, ShortR: sc.ShortR, ShortYAt: sc.ShortYAt, ShortYLen: sc.ShortYLen, NoisePct: sc.NoisePct}
	if sc.RegX {
		cfg.RegisterReplyKind = 'x'
	}
	cfg.VaryPID = sc.VaryPID
	if sc.Mode == "dial" && sc.EarlyData > 0 && sc.Dial == "" {
		// the called station greets at once: data frames back to back with the TNC's 'C' reply
		cfg.DialGreeting = payloads(rand.New(rand.NewSource(sc.Seed^0x67726565)), sc.EarlyData, 1, 120)
	}
	switch sc.Dial {
	case "refuse":
		cfg.Dial = simagw.DialRefuse
	case "badtext":
		cfg.Dial = simagw.DialBadText
	}
	port := uint8(sc.Port)
	dual := sc.Dual
	cfg.Noise = func(r *rand.Rand) []simagw.Frame { return []simagw.Frame{harmlessFrame(r, port, dual, sc.callSet())} }
	if sc.Link == "tcp" {
		pct := 0
		fmt.Sscanf(sc.Seg, "cut%d", &pct)
		cfg.CutPause = 400 * time.Microsecond
		cfg.Cut = func(r *rand.Rand, n int) []int {
			if r.Intn(100) >= pct {
				return nil
			}
			var cuts []int
			if r.Intn(2) == 0 {
				cuts = append(cuts, 1+r.Intn(simagw.HeaderLen-1))
			}
			if n > simagw.HeaderLen+1 && (len(cuts) == 0 || r.Intn(2) == 0) {
				cuts = append(cuts, simagw.HeaderLen+1+r.Intn(n-simagw.HeaderLen-1))
			}
			if len(cuts) == 0 {
				cuts = append(cuts, 1+r.Intn(n-1))
			}
			return cuts
		}
	}
	return cfg
}

func otherPort(r *rand.Rand, port uint8) uint8 {
	for {
		p := uint8(vrt.Pick(r, []int{0, 1, 2, 3, 7, 255}))
		if p != port {
			return p
		}
	}
}

// harmlessFrame returns an unsolicited frame that a TNC may legitimately send on this socket (or
// that is at worst meaningless) and that must neither reach the connection's reader nor disturb
// any exchange: data for other ports or other stations, monitor frames, unknown kinds, connect
// notices that do not concern this station, stray replies addressed elsewhere.
func harmlessFrame(r *rand.Rand, port uint8, dual bool, cs callSet) simagw.Frame {
	junk := func(n int) []byte { return append([]byte("!FOREIGN!"), vrt.Bytes(r, n)...) }
	myCall, remoteCall, otherCall, thirdCall := cs.myCall, cs.remoteCall, cs.otherCall, cs.thirdCall
	if dual {
		// otherCall is a live connection of this application then: frames in its name are not noise
		otherCall = thirdCall
	}
	switch r.Intn(14) {
	case 0: // same stations, another port
		return simagw.Frame{Kind: 'D', PID: 0xF0, Port: otherPort(r, port), From: remoteCall, To: myCall, Data: junk(r.Intn(200))}
	case 1: // another remote station on the same port (a second connection of this callsign)
		return simagw.Frame{Kind: 'D', PID: 0xF0, Port: port, From: otherCall, To: myCall, Data: junk(r.Intn(200))}
	case 2: // callsign that merely shares a prefix with the remote station
		return simagw.Frame{Kind: 'D', PID: 0xF0, Port: port, From: remoteCall[:len(remoteCall)-2], To: myCall, Data: junk(r.Intn(60))}
	case 3: // monitor frames
		return simagw.Frame{Kind: vrt.Pick(r, []byte{'U', 'I', 'S', 'T'}), Port: port, From: otherCall, To: "APRS", Data: []byte(" 1:Fm SM0XYZ-2 To APRS <UI pid=F0 Len=5 >[12:00:00]\rhello\r")}
	case 4: // unknown kinds carrying the connection's own callsigns
		return simagw.Frame{Kind: vrt.Pick(r, []byte{'Q', 'Z', '#', 0x00, 0xff, 'e', 'W'}), PID: uint8(r.Intn(256)), Port: port, From: remoteCall, To: myCall, Data: vrt.Bytes(r, r.Intn(64))}
	case 5: // connect notice that was not initiated by a remote station / concerns another station
		return simagw.Frame{Kind: 'C', Port: port, From: otherCall, To: myCall, Data: []byte("*** CONNECTED With Station " + otherCall + "\r\x00")}
	case 6: // incoming connection for another callsign
		return simagw.Frame{Kind: 'C', Port: port, From: otherCall, To: "LA5NTA-9", Data: []byte("*** CONNECTED To Station " + otherCall + "\r\x00")}
	case 7: // outstanding-frames reply of another connection / port
		if r.Intn(2) == 0 {
			return simagw.Frame{Kind: 'Y', Port: port, From: myCall, To: otherCall, Data: vrt.Bytes(r, r.Intn(6))}
		}
		return simagw.Frame{Kind: 'Y', Port: otherPort(r, port), From: myCall, To: remoteCall, Data: []byte{9, 0, 0, 0}}
	case 8: // disconnect of another connection / on another port
		if r.Intn(2) == 0 {
			return simagw.Frame{Kind: 'd', Port: port, From: otherCall, To: myCall, Data: []byte("*** DISCONNECTED From Station " + otherCall + "\r\x00")}
		}
		return simagw.Frame{Kind: 'd', Port: otherPort(r, port), From: remoteCall, To: myCall, Data: []byte("*** DISCONNECTED From Station " + remoteCall + "\r\x00")}
	case 9: // stray short control replies nobody asked for
		return simagw.Frame{Kind: vrt.Pick(r, []byte{'G', 'y', 'H', 'T'}), Port: port, Data: vrt.Bytes(r, r.Intn(5))}
	case 10, 11: // a station whose callsign EXTENDS the remote station's (N0CALL-1 vs N0CALL-10 / -15): another station
		longer := remoteCall + vrt.Pick(r, []string{"0", "5"})
		switch r.Intn(4) {
		case 0:
			return simagw.Frame{Kind: 'd', Port: port, From: longer, To: myCall, Data: []byte("*** DISCONNECTED From Station " + longer + "\r\x00")}
		case 1:
			return simagw.Frame{Kind: 'Y', Port: port, From: myCall, To: longer, Data: []byte{0, 0, 0, 0}}
		default:
			return simagw.Frame{Kind: 'D', PID: 0xF0, Port: port, From: longer, To: myCall, Data: junk(r.Intn(120))}
		}
	case 12: // traffic for a local callsign that extends this application's (LA5NTA-1 vs LA5NTA-10)
		mine := myCall + "0"
		if r.Intn(2) == 0 {
			return simagw.Frame{Kind: 'C', Port: port, From: otherCall, To: mine, Data: []byte("*** CONNECTED To Station " + otherCall + "\r\x00")}
		}
		return simagw.Frame{Kind: 'D', PID: 0xF0, Port: port, From: remoteCall + "5", To: mine, Data: junk(r.Intn(120))}
	default: // empty frame of an unknown kind
		return simagw.Frame{Kind: 'z', Port: port}
	}
}

// open creates the link and the simulator and registers the port.
func (e *env) open() (ok bool) {
	sc := e.sc
	e.sim = simagw.New(sc.simConfig())
	var regErr error
	e.setPhase("register")
	switch sc.Link {
	case "pipe":
		seg := simagw.SegHostile
		switch sc.Seg {
		case "bytes":
			seg = simagw.SegBytes
		case "whole":
			seg = simagw.SegWhole
		}
		host, tncEnd := simagw.Pipe(sc.Seed, seg)
		e.host = host
		if len(sc.Writes2) > 0 {
			host.WritePause = 150 * time.Microsecond
		}
		e.sim.Attach(tncEnd, tncEnd.CloseWrite)
		if !e.call("RegisterPort", func() {
			e.tnc = agwpe.VerifNewTNC(host)
			e.port, regErr = e.tnc.RegisterPort(sc.Port, e.cs.myCall)
		}) {
			return false
		}
	case "tcp":
		ln, err := net.Listen("tcp", "127.0.0.1:0")
		if err != nil {
			e.inconclusive("cannot listen on loopback: " + err.Error())
			return false
		}
		e.ln = ln
		go func() {
			c, err := ln.Accept()
			if err != nil {
				return
			}
			tc := c.(*net.TCPConn)
			tc.SetNoDelay(true)
			e.sim.Attach(tc, tc.CloseWrite)
		}()
		if !e.call("OpenPortTCP", func() {
			e.tncPort, regErr = agwpe.OpenPortTCP(ln.Addr().String(), sc.Port, e.cs.myCall)
			if regErr == nil {
				e.tnc, e.port = &e.tncPort.TNC, &e.tncPort.Port
			}
		}) {
			return false
		}
	default:
		panic("bad link " + sc.Link)
	}
	if e.nViol() > 0 {
		return false // panicked
	}
	if sc.ShortX >= 0 {
		// a registration reply without exactly one data byte: the only demand is "no crash"
		if regErr == nil {
			e.count("malformed_X_reply_accepted", 1)
		} else {
			e.count("malformed_X_reply_rejected", 1)
		}
		return false
	}
	if regErr != nil {
		e.regFailed = true // RegisterPort closes the TNC itself in that case
		e.apiErr("api:register:error", regErr, "RegisterPort(%d,%q) failed although the TNC confirmed the registration: %v", sc.Port, e.cs.myCall, regErr)
		return false
	}
	if !e.sim.WaitState(time.Second, func(v *simagw.View) bool { return v.Registered(e.cs.myCall) }) {
		e.vio("exchange:register:no-X", "RegisterPort returned nil but the TNC never received an 'X' frame for %q", e.cs.myCall)
		return false
	}
	return true
}

func (e *env) version() {
	if !e.sc.Version {
		return
	}
	e.setPhase("version")
	var v string
	var err error
	if !e.call("Version", func() { v, err = e.tnc.Version() }) {
		return
	}
	switch {
	case e.sc.ShortR >= 0:
		e.count("malformed_R_reply_sent", 1)
	case err != nil:
		e.apiErr("api:version:error", err, "Version() failed although the TNC answered 'R' with 8 bytes: %v", err)
	case v != "2005.127":
		e.vio("api:version:value", "Version() = %q, the TNC reported major 2005 minor 127", v)
	default:
		e.count("version_ok", 1)
	}
}

func (e *env) connect() bool {
	sc := e.sc
	if sc.Mode == "dial" {
		e.setPhase("dial")
		digis := digiCalls[:sc.Digis]
		var c net.Conn
		var err error
		ctx, cancel := context.Background(), context.CancelFunc(func() {})
		if sc.CancelCtx {
			ctx, cancel = context.WithTimeout(ctx, time.Hour)
		}
		ok := e.call("DialContext", func() { c, err = e.port.DialContext(ctx, e.cs.remoteCall, digis...) })
		cancel()
		if !ok {
			return false
		}
		if sc.CancelCtx {
			e.count("dial_context_cancelled_after_return", 1)
			time.Sleep(5 * time.Millisecond) // let anything still hooked to the context run before the session proceeds
		}
		if e.nViol() > 0 {
			return false
		}
		if sc.Dial != "" {
			if err == nil {
				e.vio("api:dial:no-error", "DialContext returned a connection although the TNC answered %q", sc.Dial)
			} else {
				e.count("dial_failure_reported_"+sc.Dial, 1)
			}
			if sc.Dial == "badtext" {
				// the library tells the TNC to drop the half-open link
				if !e.sim.WaitState(2*time.Second, func(v *simagw.View) bool { c := v.Conn(e.cs.remoteCall); return c != nil && c.LateFrames > 0 }) {
					e.count("badtext_no_disconnect_sent", 1)
				}
			}
			return false
		}
		if err != nil {
			e.vio("api:dial:error", "DialContext(%q via %v) failed although the TNC reported the connection: %v", e.cs.remoteCall, digis, err)
			return false
		}
		e.conn = c
		want := e.cs.remoteCall
		if len(digis) > 0 {
			want += " via " + strings.Join(digis, " ")
		}
		if got := c.RemoteAddr().String(); got != want {
			e.vio("api:dial:remoteaddr", "RemoteAddr() = %q, want %q", got, want)
		}
		// the connect request the TNC saw
		rep := e.sim.Report()
		sc13 := rep.Conns[e.cs.remoteCall]
		switch {
		case sc13 == nil:
			e.vio("exchange:dial:no-connect-frame", "DialContext returned nil but the TNC has no connection from %q to %q on port %d", e.cs.myCall, e.cs.remoteCall, sc.Port)
			return false
		case len(digis) == 0 && sc13.ConnectKind != 'C':
			e.vio("exchange:dial:kind", "connect without digipeaters was requested with a %q frame", sc13.ConnectKind)
		case len(digis) > 0 && (sc13.ConnectKind != 'v' || strings.Join(sc13.Via, ",") != strings.Join(digis, ",")):
			e.vio("exchange:dial:via", "connect via %v was requested with a %q frame listing %v", digis, sc13.ConnectKind, sc13.Via)
		}
		return true
	}

	// accept
	e.setPhase("accept")
	var ln net.Listener
	var err error
	if !e.call("Listen", func() { ln, err = e.port.Listen() }) || err != nil || ln == nil {
		if err != nil {
			e.vio("api:listen:error", "Listen failed: %v", err)
		}
		return false
	}
	type acc struct {
		c   net.Conn
		err error
	}
	accCh := make(chan acc, 1)
	go func() {
		var a acc
		e.guard(func() { a.c, a.err = ln.Accept() })
		accCh <- a
	}()
	if sc.OddAccept {
		// none of these is an incoming connection for this station
		odd := []simagw.Frame{
			{Kind: 'C', Port: uint8(sc.Port), From: e.cs.remoteCall, To: e.cs.myCall, Data: []byte("*** CONNECTED With Station " + e.cs.remoteCall + "\r\x00")},
			{Kind: 'C', Port: uint8(sc.Port), From: e.cs.remoteCall, To: e.cs.myCall, Data: nil},
			{Kind: 'C', Port: uint8(sc.Port), From: e.cs.remoteCall, To: e.cs.myCall, Data: []byte("*** CONN")},
			{Kind: 'C', Port: uint8(sc.Port), From: e.cs.otherCall, To: "LA5NTA-9", Data: []byte("*** CONNECTED To Station " + e.cs.otherCall + "\r\x00")},
			{Kind: 'C', Port: otherPort(e.rng, uint8(sc.Port)), From: e.cs.remoteCall, To: e.cs.myCall, Data: []byte("*** CONNECTED To Station " + e.cs.remoteCall + "\r\x00")},
		}
		var items []simagw.Item
		for i := range odd {
			items = append(items, simagw.Item{Frame: &odd[i], Note: "not an incoming connection"})
		}
		e.sim.SendBatch(items)
		e.sim.Sync(5 * time.Second)
		select {
		case a := <-accCh:
			ra := ""
			if a.c != nil {
				ra = a.c.RemoteAddr().String()
			}
			e.vio("accept:spurious", "Accept returned (remote %q, err %v) although no station connected to %q on port %d", ra, a.err, e.cs.myCall, sc.Port)
			return false
		case <-time.After(30 * time.Millisecond):
		}
		e.count("odd_connect_notices_ignored", int64(len(odd)))
	}
	// The library refuses an incoming connection when no goroutine is inside Accept at that very
	// moment (documented behaviour). A refusal is visible as the 'd' frame it sends; the remote
	// station then simply calls again.
	lastProgress, lastChange, started := e.progress(), time.Now(), time.Now()
	for attempt := 0; ; attempt++ {
		time.Sleep(time.Duration(1+attempt) * 2 * time.Millisecond)
		if sc.EarlyData > 0 {
			e.sim.InboundWithData(e.cs.remoteCall, payloads(e.rng, sc.EarlyData, 1, 120))
		} else {
			e.sim.Inbound(e.cs.remoteCall)
		}
		e.progressX.Add(1)
		refused := false
		for !refused {
			select {
			case a := <-accCh:
				if a.err != nil || a.c == nil {
					if e.nViol() == 0 {
						e.vio("api:accept:error", "Accept failed: %v", a.err)
					}
					return false
				}
				e.conn = a.c
				if got := a.c.RemoteAddr().String(); got != e.cs.remoteCall {
					e.vio("api:accept:remoteaddr", "accepted connection RemoteAddr() = %q, the TNC announced %q", got, e.cs.remoteCall)
				}
				if got := a.c.LocalAddr().String(); got != e.cs.myCall {
					e.vio("api:accept:localaddr", "accepted connection LocalAddr() = %q, want %q", got, e.cs.myCall)
				}
				e.count("accept_attempts", int64(attempt+1))
				return true
			case <-time.After(3 * time.Millisecond):
				rep := e.sim.ConnFlags(e.cs.remoteCall)
				if rep.HostDisc {
					refused = true
				}
				if p := e.progress(); p != lastProgress {
					lastProgress, lastChange = p, time.Now()
				}
				if time.Since(lastChange) > stuckAfter || time.Since(started) > hardLimit {
					e.count("accept_attempts_when_stuck", int64(attempt+1))
					e.stuck("Accept")
					return false
				}
			}
		}
		e.count("accept_refused_then_retried", 1)
		if sc.EarlyData > 0 {
			// the ledger of the refused attempt is void; do not insist
			e.inconclusive("early-data accept was refused (nobody inside Accept yet)")
			return false
		}
	}
}

func payloads(r *rand.Rand, n, minSz, maxSz int) [][]byte {
	out := make([][]byte, n)
	for i := range out {
		sz := minSz
		if maxSz > minSz {
			sz += r.Intn(maxSz - minSz + 1)
		}
		out[i] = vrt.Bytes(r, sz)
	}
	return out
}

// reader is the application's read loop.
func (e *env) reader(done chan struct{}) {
	defer close(done)
	buf := make([]byte, e.sc.RBuf)
	reads := 0
	e.guard(func() {
		for {
			if ch := e.stall.Load(); ch != nil {
				e.count("reader_stall_phases", 1)
				select {
				case <-*ch:
				case <-time.After(5 * time.Second):
				}
			}
			n, err := e.conn.Read(buf)
			if n > 0 {
				e.mu.Lock()
				e.got = append(e.got, buf[:n]...)
				e.mu.Unlock()
				e.readerBytes.Add(int64(n))
			}
			if reads%256 == 255 {
				// a stream that delivers far more than the TNC ever sent never ends: stop, the judge reports the surplus
				if fl := e.sim.ConnFlags(e.cs.remoteCall); e.gotN() > fl.TxBytes+(64<<10) {
					e.count("reader_stopped_far_beyond_ledger", 1)
					e.fatalOnce.Do(func() { close(e.fatal) }) // end the scenario; the judge reports the surplus
					return
				}
			}
			if n > len(buf) || n < 0 {
				e.vio("api:read:count", "Read returned n=%d for a %d byte buffer", n, len(buf))
				return
			}
			if err != nil {
				e.mu.Lock()
				e.readErr = err
				e.mu.Unlock()
				return
			}
			reads++
			if e.sc.ReadDelayUs > 0 && reads%8 == 0 && reads < 8*400 {
				// a reader that is slower than the TNC for a while (bounded: the point is the
				// schedule, not to starve the connection's own replies for minutes on a busy machine)
				time.Sleep(time.Duration(e.sc.ReadDelayUs) * time.Microsecond)
			}
		}
	})
}

// writer is the application's write loop.
func (e *env) writer(done chan struct{}) {
	defer close(done)
	e.guard(func() {
		for i, sz := range e.sc.Writes {
			p := vrt.Bytes(e.rng2(i), sz)
			e.mu.Lock()
			e.attempted.Write(p)
			e.mu.Unlock()
			n, err := e.conn.Write(p)
			if err != nil || n != len(p) {
				e.mu.Lock()
				e.writeErr = fmt.Errorf("Write #%d of %d bytes returned (%d, %w)", i, len(p), n, err)
				e.mu.Unlock()
				return
			}
			e.mu.Lock()
			e.succeeded.Write(p)
			e.mu.Unlock()
			e.count("app_writes", 1)
			if e.sc.MidFlush && i == len(e.sc.Writes)/2 {
				e.flush("mid")
			}
			if e.sc.WritePaceMs > 0 {
				time.Sleep(time.Duration(e.sc.WritePaceMs) * time.Millisecond)
			}
		}
	})
}

func (e *env) gotN() int {
	e.mu.Lock()
	defer e.mu.Unlock()
	return len(e.got)
}

func (e *env) rng2(i int) *rand.Rand { return vrt.Rand(e.sc.Seed, "write", i) }

type flusher interface{ Flush() error }

// flush calls Flush and checks what the property says about it: when it returns nil the TNC's most
// recent answer for this connection was "0 outstanding" and no data frame arrived after it.
func (e *env) flush(when string) {
	f, ok := e.conn.(flusher)
	if !ok {
		e.vio("api:flush:missing", "the connection does not implement Flush()")
		return
	}
	err := f.Flush()
	if err != nil {
		if !e.sc.tolerant() && !e.isAborted() {
			e.apiErr("api:flush:error", err, "Flush (%s) failed although the TNC answered every 'Y' query: %v", when, err)
		}
		return
	}
	fl := e.sim.ConnFlags(e.cs.remoteCall)
	if fl.Closed {
		return
	}
	if fl.RxFrames > 0 && (fl.LastPollReply != 0 || fl.DSinceLastPoll != 0) {
		e.vio("exchange:flush:not-drained", "Flush (%s) returned nil but the TNC's last 'Y' answer was %d outstanding with %d data frame(s) after it", when, fl.LastPollReply, fl.DSinceLastPoll)
	} else {
		e.count("flush_verified_drained", 1)
	}
}

// driver plays the TNC->host side: bursts of data frames, optionally while the reader is stalled.
func (e *env) driver(done chan struct{}, stop <-chan struct{}) {
	defer close(done)
	port := uint8(e.sc.Port)
	rng := vrt.Rand(e.sc.Seed, "driver")
	for bi, b := range e.sc.Bursts {
		select {
		case <-stop:
			return
		default:
		}
		var release chan struct{}
		if b.StallMs > 0 {
			release = make(chan struct{})
			e.stall.Store(&release)
		}
		var items []simagw.Item
		for _, p := range payloads(rng, b.Frames, b.MinSz, b.MaxSz) {
			if b.ForeignPct > 0 && rng.Intn(100) < b.ForeignPct {
				f := harmlessFrame(rng, port, e.sc.Dual, e.cs)
				items = append(items, simagw.Item{Frame: &f, Note: "foreign"})
				e.count("foreign_frames_interleaved", 1)
			}
			items = append(items, simagw.Item{Remote: e.cs.remoteCall, Payload: p})
			if e.conn2 != nil && rng.Intn(100) < e.sc.DualPct {
				items = append(items, simagw.Item{Remote: e.cs.otherCall, Payload: vrt.Bytes(rng, 1+rng.Intn(150))})
			}
		}
		if bi == 0 && e.sc.Huge > 0 {
			f := simagw.Frame{Kind: vrt.Pick(rng, []byte{'K', 'U', 'q'}), Port: port, From: e.cs.remoteCall, To: e.cs.myCall, Data: vrt.Bytes(rng, e.sc.Huge)}
			at := rng.Intn(len(items) + 1)
			items = append(items[:at], append([]simagw.Item{{Frame: &f, Note: "huge"}}, items[at:]...)...)
			e.count("huge_frames_sent", 1)
		}
		if e.sc.End == "close-inflight" {
			// trickle, so that Close happens while frames are on their way
			for i := 0; i < len(items); i += 4 {
				select {
				case <-stop:
					return
				default:
				}
				e.sim.SendBatch(items[i:min(i+4, len(items))])
				time.Sleep(500 * time.Microsecond)
			}
		} else {
			e.sim.SendBatch(items)
		}
		e.count("tnc_bursts", 1)
		if release != nil {
			e.sim.Sync(time.Second)
			if e.sc.End == "link-drop" && e.sc.DropInStall && bi == len(e.sc.Bursts)-1 {
				e.mu.Lock()
				e.dropLink = true
				e.mu.Unlock()
				e.sim.DropLink(10 * time.Second)
				e.count("link_dropped_while_reader_stalled", 1)
			}
			select {
			case <-time.After(time.Duration(b.StallMs) * time.Millisecond):
			case <-stop:
			}
			e.stall.Store(nil)
			close(release)
		}
	}
}

func (e *env) run() {
	sc := e.sc
	defer e.teardown()
	if !e.open() {
		return
	}
	e.version()
	if e.isAborted() || !e.connect() {
		return
	}
	if e.conn == nil {
		return
	}
	if sc.Dual {
		e.setPhase("dial-second")
		var c2 net.Conn
		var err error
		if !e.call("DialContext", func() { c2, err = e.port.DialContext(context.Background(), e.cs.otherCall) }) || e.nViol() > 0 {
			return
		}
		if err != nil {
			e.vio("api:dial:error", "DialContext(%q) for the second connection failed although the TNC reported the connection: %v", e.cs.otherCall, err)
			return
		}
		e.conn2 = c2
		e.rd2 = make(chan struct{})
		go func() {
			defer close(e.rd2)
			buf := make([]byte, 4096)
			e.guard(func() {
				for {
					n, err := c2.Read(buf)
					e.mu.Lock()
					e.got2 = append(e.got2, buf[:n]...)
					tooMuch := len(e.got2) > 16<<20
					e.mu.Unlock()
					e.readerBytes.Add(int64(n))
					if err != nil || tooMuch {
						return
					}
				}
			})
		}()
		e.wr2 = make(chan struct{})
		go func() {
			defer close(e.wr2)
			e.guard(func() {
				for i, sz := range sc.Writes2 {
					p := vrt.Bytes(vrt.Rand(sc.Seed, "write2", i), sz)
					e.mu.Lock()
					e.attempted2.Write(p)
					e.mu.Unlock()
					n, err := c2.Write(p)
					e.mu.Lock()
					if err != nil || n != len(p) {
						e.writeErr2 = fmt.Errorf("Write #%d of %d bytes on the second connection returned (%d, %w)", i, len(p), n, err)
						e.mu.Unlock()
						return
					}
					e.succeeded2.Write(p)
					e.mu.Unlock()
					e.count("app_writes_second_conn", 1)
				}
			})
		}()
		defer e.endSecond()
	}
	if sc.UI {
		e.setPhase("sendui")
		var err error
		e.call("SendUI", func() { err = e.port.SendUI([]byte("verif beacon"), "BEACON") })
		if err != nil {
			e.vio("api:sendui:error", "SendUI failed: %v", err)
		}
	}

	e.setPhase("stream")
	rdDone, wrDone, drvDone := make(chan struct{}), make(chan struct{}), make(chan struct{})
	drvStop := make(chan struct{})
	go e.reader(rdDone)
	go e.writer(wrDone)
	go e.driver(drvDone, drvStop)
	stopDriver := sync.OnceFunc(func() { close(drvStop) })
	defer stopDriver()

	closeConn := func(when string) {
		var err error
		if !e.call("Close", func() { err = e.conn.Close() }) {
			return
		}
		e.mu.Lock()
		e.closeReturned = err == nil
		e.mu.Unlock()
		if err != nil && !sc.tolerant() && !e.isAborted() {
			e.apiErr("api:close:error", err, "Close (%s) failed although the TNC answered everything: %v", when, err)
		}
	}

	switch sc.End {
	case "remote-disc":
		if !e.await(wrDone) {
			e.stuck("Write")
			return
		}
		if !e.await(drvDone) {
			e.stuck("tnc-driver")
			return
		}
		if len(sc.Writes) > 0 && e.writeError() == nil {
			e.setPhase("flush")
			if !e.call("Flush", func() { e.flush("before remote disconnect") }) {
				return
			}
		}
		e.setPhase("remote-disconnect")
		e.sim.Disconnect(e.cs.remoteCall)
		if !e.await(rdDone) {
			e.stuck("Read-until-EOF")
			return
		}
		e.setPhase("close")
		closeConn("after remote disconnect")
	case "app-close":
		if !e.await(wrDone) {
			e.stuck("Write")
			return
		}
		if !e.await(drvDone) {
			e.stuck("tnc-driver")
			return
		}
		e.sim.Sync(10 * time.Second)
		// Flush is a round trip through the same pipeline as the data frames: when its 'Y' answer
		// is back, every data frame sent before has reached the connection's read queue.
		e.setPhase("flush")
		if !e.call("Flush", func() { e.flush("before close") }) {
			return
		}
		e.setPhase("close")
		closeConn("application")
		if !e.await(rdDone) {
			e.stuck("Read-until-EOF")
			return
		}
	case "close-inflight", "close-stalled":
		if !e.await(wrDone) {
			e.stuck("Write")
			return
		}
		if sc.End == "close-stalled" {
			// the driver has stalled the reader and filled the pipeline; Close must get through once
			// the reader resumes
			time.Sleep(5 * time.Millisecond)
		} else {
			// wait for some data, then close in the middle of the stream
			want := int64(1 + e.rng.Intn(2000))
			for e.readerBytes.Load() < want {
				select {
				case <-drvDone:
					want = 0
				case <-time.After(time.Millisecond):
				}
			}
		}
		e.setPhase("close")
		closeConn(sc.End)
		stopDriver()
		if !e.await(rdDone) {
			e.stuck("Read-until-EOF")
			return
		}
		e.await(drvDone)
	case "link-drop":
		if !e.await(wrDone) {
			e.stuck("Write")
			return
		}
		if !e.await(drvDone) {
			e.stuck("tnc-driver")
			return
		}
		e.setPhase("link-drop")
		if sc.TailLie {
			one := uint32(simagw.MaxData)
			f := simagw.Frame{Kind: 'D', PID: 0xF0, Port: uint8(sc.Port), From: e.cs.remoteCall, To: e.cs.myCall, Data: []byte("short"), DataLenOverride: &one}
			e.sim.SendBatch([]simagw.Item{{Raw: f.Encode(), Note: "header announcing 1 MiB, 5 bytes follow, then the link ends"}})
			e.count("tail_lie_sent", 1)
		}
		if !sc.DropInStall {
			e.mu.Lock()
			e.dropLink = true
			e.mu.Unlock()
			e.sim.DropLink(10 * time.Second)
		}
		if !e.await(rdDone) {
			e.stuck("Read-until-EOF")
			return
		}
		e.setPhase("close")
		closeConn("after link drop")
	case "tnc-close-stalled":
		// Port and TNC are closed by the application while the reader is stalled behind a burst that
		// fills the pipeline. The calls must return; the reader gets a prefix, then the end.
		time.Sleep(5 * time.Millisecond)
		e.setPhase("close-port-and-tnc")
		if !e.call("Port.Close+TNC.Close", e.closeAll) {
			return
		}
		stopDriver()
		if !e.await(rdDone) {
			e.stuck("Read-until-EOF")
			return
		}
		e.await(drvDone)
		e.setPhase("close")
		closeConn("after the TNC was closed")
	default:
		panic("bad end " + sc.End)
	}
}

func (e *env) writeError() error {
	e.mu.Lock()
	defer e.mu.Unlock()
	return e.writeErr
}

// closeAll closes the port (unregister) and the TNC link the way an application does.
func (e *env) closeAll() {
	e.mu.Lock()
	e.appClosedLink = true
	e.mu.Unlock()
	switch {
	case e.tncPort != nil:
		e.tncPort.Close()
	default:
		if e.port != nil {
			e.port.Close()
		}
		if e.tnc != nil {
			e.tnc.Close()
		}
	}
}

// endSecond ends the second connection (the remote station disconnects, unless the link is gone
// already) and waits for its reader.
func (e *env) endSecond() {
	if e.conn2 == nil || e.isAborted() {
		return
	}
	e.setPhase("end-second")
	if !e.await(e.wr2) {
		e.stuck("Write(second connection)")
		return
	}
	e.mu.Lock()
	dropped := e.dropLink
	e.mu.Unlock()
	if !dropped && e.sc.End != "tnc-close-stalled" {
		e.sim.Disconnect(e.cs.otherCall)
	}
	if !e.await(e.rd2) {
		e.stuck("Read-until-EOF(second connection)")
		return
	}
	var err error
	if e.call("Close", func() { err = e.conn2.Close() }) && err != nil {
		e.apiErr("api:close:error", err, "Close of the second connection failed: %v", err)
	}
}

// teardown closes port and TNC, stops the simulator and judges what was observed.
func (e *env) teardown() {
	e.setPhase("teardown")
	aborted := e.isAborted()
	e.mu.Lock()
	dropped := e.dropLink || e.appClosedLink
	e.mu.Unlock()
	if !aborted && !dropped && !e.regFailed && e.sc.ShortX < 0 && e.tnc != nil && e.sim.LinkEnded() {
		// nobody asked for the link to end: the library gave up on a TNC that did nothing wrong
		e.linkLost = true
		e.vio("tnc-link:closed-by-library", "the library closed the TNC link in the middle of the scenario although the TNC sent only well-formed frames (link=%s seg=%s)", e.sc.Link, e.sc.Seg)
	}
	if aborted {
		// unblock whatever hangs inside the library
		e.sim.Stop()
	}
	closed := make(chan struct{})
	go func() {
		defer close(closed)
		e.guard(e.closeAll)
	}()
	select {
	case <-closed:
	case <-time.After(30 * time.Second):
		if !aborted {
			e.inconclusive("Port.Close/TNC.Close did not return")
		}
	}
	if e.port != nil && !aborted {
		// the library closed the link: the simulator sees the end of its input
		e.sim.WaitState(5*time.Second, func(v *simagw.View) bool { return v.LinkEnded() })
	}
	rep := e.sim.Report()
	e.sim.Stop()
	if e.ln != nil {
		e.ln.Close()
	}
	e.judge(rep, aborted)
	e.omu.Lock()
	defer e.omu.Unlock()
	for i := range e.o.Violations {
		if e.o.Violations[i].Detail == nil {
			d := map[string]any{"exchange_log_excerpt": logExcerpt(rep.Events, 15, 40)}
			if strings.HasPrefix(e.o.Violations[i].Key, "stuck:") && e.stuckDump != "" {
				d["goroutines_in_library"] = e.stuckDump
			}
			e.o.Violations[i].Detail = d
		}
	}
}

// goroutineDump returns the stacks of the goroutines that are inside the code under test.
func goroutineDump() string {
	buf := make([]byte, 1<<20)
	buf = buf[:runtime.Stack(buf, true)]
	var keep []string
	for _, g := range strings.Split(string(buf), "\n\n") {
		if strings.Contains(g, "wl2k-go/transport/ax25/agwpe") {
			keep = append(keep, g)
		}
	}
	out := strings.Join(keep, "\n\n")
	if len(out) > 24000 {
		out = out[:24000] + "\n...[truncated]"
	}
	return out
}

// logExcerpt renders the first head and the last tail entries of the exchange log.
func logExcerpt(events []simagw.Event, head, tail int) []string {
	var log []string
	for i, ev := range events {
		if i >= head && i < len(events)-tail {
			if i == head {
				log = append(log, fmt.Sprintf("... %d more ...", len(events)-head-tail))
			}
			continue
		}
		dir := "app->tnc"
		if ev.Dir == "tx" {
			dir = "tnc->app"
		}
		l := fmt.Sprintf("%s %s port=%d from=%s to=%s len=%d", dir, ev.Kind, ev.Port, ev.From, ev.To, ev.Len)
		if ev.Note != "" {
			l += " (" + ev.Note + ")"
		}
		log = append(log, l)
	}
	return log
}

// classifyMismatch names the way got differs from sent: a foreign frame was delivered, whole
// frames are missing (gap; the indices of the lost frames are returned), or anything else.
// "Missing frames" is decided exactly: got must be the concatenation of a subsequence of the sent
// frames (all ways of matching are followed, since short payloads can match by coincidence).
func classifyMismatch(got, sent []byte, sizes []int) (kind string, lost []int) {
	if bytes.Contains(got, []byte("!FOREIGN!")) {
		return "foreign-frame-delivered", nil
	}
	type path struct {
		prev  *path
		frame int // index of the frame consumed to get here
	}
	reach := map[int]*path{0: {frame: -1}}
	off := 0
	for i, sz := range sizes {
		fr := sent[off : off+sz]
		off += sz
		var add []int
		for pos := range reach {
			if pos+sz <= len(got) && bytes.Equal(got[pos:pos+sz], fr) {
				add = append(add, pos)
			}
		}
		// a frame may extend only paths that existed before it was considered
		ext := map[int]*path{}
		for _, pos := range add {
			if _, dup := reach[pos+sz]; !dup {
				ext[pos+sz] = &path{prev: reach[pos], frame: i}
			}
		}
		for k, v := range ext {
			reach[k] = v
		}
		if len(reach) > 1<<16 {
			return "corrupt", nil
		}
	}
	end := reach[len(got)]
	if end == nil {
		return "corrupt", nil
	}
	used := map[int]bool{}
	for p := end; p != nil && p.frame >= 0; p = p.prev {
		used[p.frame] = true
	}
	for i := range sizes {
		if !used[i] {
			lost = append(lost, i)
		}
	}
	if len(lost) == 0 {
		return "corrupt", nil
	}
	return "gap", lost
}

func firstDiff(a, b []byte) int {
	n := min(len(a), len(b))
	for i := 0; i < n; i++ {
		if a[i] != b[i] {
			return i
		}
	}
	return n
}

func (e *env) judge(rep simagw.Report, aborted bool) {
	sc, o := e.sc, e.o
	e.setPhase("judge")
	for _, v := range rep.Violations {
		e.vio(v.Key, "simulated TNC: %s", v.Desc)
	}
	for k, v := range rep.Counters {
		e.count("sim_"+k, v)
	}
	e.count("sim_frames_validated", int64(rep.RxFrames))
	if e.host != nil {
		calls, n := e.host.ReadCalls()
		e.count("pipe_reads_by_library", calls)
		e.count("pipe_bytes_to_library", n)
	}
	if e.port != nil && sc.ShortX < 0 && !rep.EverReg[e.cs.myCall] {
		e.vio("exchange:register:no-X", "no 'X' frame for %q reached the TNC", e.cs.myCall)
	}
	c := rep.Conns[e.cs.remoteCall]
	if e.conn == nil || c == nil {
		return
	}
	e.mu.Lock()
	got := append([]byte(nil), e.got...)
	readErr := e.readErr
	attempted, succeeded := e.attempted.Bytes(), e.succeeded.Bytes()
	writeErr := e.writeErr
	dropped := e.dropLink
	e.mu.Unlock()

	// ---- TNC -> application stream
	sent := c.Tx.Bytes()
	e.count("bytes_tnc_to_app_sent", int64(len(sent)))
	e.count("bytes_tnc_to_app_read", int64(len(got)))
	e.count("frames_tnc_to_app", int64(c.TxFrames))
	ctx := fmt.Sprintf("link=%s seg=%s port=%d rbuf=%d end=%s", sc.Link, sc.Seg, sc.Port, sc.RBuf, sc.End)
	d := firstDiff(got, sent)
	switch {
	case d < len(got) && d < len(sent):
		kind, lost := classifyMismatch(got, sent, c.TxSizes)
		what := ""
		if kind == "gap" {
			what = fmt.Sprintf("; exactly explained by %d lost frame(s), first lost frame #%d", len(lost), lost[0])
			if sc.EarlyData > 0 && lost[len(lost)-1] < sc.EarlyData {
				kind = "lost-behind-connect-notice"
				what += " - all of them data frames that directly followed the incoming-connection notice"
			}
		}
		e.vio("rx-stream:"+kind, "bytes read by the application differ from the connection's data frames at offset %d (read %d bytes, TNC sent %d in %d frames; %s)%s: got % x..., want % x...",
			d, len(got), len(sent), c.TxFrames, ctx, what, got[d:min(len(got), d+12)], sent[d:min(len(sent), d+12)])
	case len(got) > len(sent):
		kind := "extra"
		if bytes.Contains(got, []byte("!FOREIGN!")) {
			kind = "foreign-frame-delivered"
		}
		e.vio("rx-stream:"+kind, "application read %d bytes, the TNC sent only %d for this connection (%s): surplus % x...", len(got), len(sent), ctx, got[len(sent):min(len(got), len(sent)+16)])
	case len(got) < len(sent):
		// a proper prefix: only legitimate when the application itself ended the connection early
		if sc.End == "close-inflight" || sc.End == "close-stalled" || sc.End == "tnc-close-stalled" || sc.tolerant() || aborted {
			e.count("rx_prefix_after_early_close", 1)
		} else {
			e.vio("rx-stream:truncated", "application read only the first %d of the %d bytes (%d frames) the TNC sent before the connection ended (read error %v; %s)",
				len(got), len(sent), c.TxFrames, readErr, ctx)
		}
	default:
		e.count("rx_stream_equal", 1)
	}

	// ---- second connection (Dual): its reader must see exactly its own frames
	if c2 := rep.Conns[e.cs.otherCall]; e.conn2 != nil && c2 != nil {
		e.mu.Lock()
		got2 := append([]byte(nil), e.got2...)
		e.mu.Unlock()
		sent2 := c2.Tx.Bytes()
		e.count("bytes_tnc_to_app_second_conn", int64(len(sent2)))
		switch {
		case bytes.Equal(got2, sent2):
			e.count("rx_stream_equal_second_conn", 1)
		case bytes.HasPrefix(sent2, got2) && (aborted || sc.End == "tnc-close-stalled"):
		default:
			d := firstDiff(got2, sent2)
			e.vio("rx-stream:second-connection", "the second connection (to %s) read %d bytes, the TNC sent it %d in %d frames; first difference at offset %d (%s)", e.cs.otherCall, len(got2), len(sent2), c2.TxFrames, d, ctx)
		}
	}

	if c2 := rep.Conns[e.cs.otherCall]; e.conn2 != nil && c2 != nil && len(sc.Writes2) > 0 {
		e.mu.Lock()
		att2, suc2, werr2 := e.attempted2.Bytes(), e.succeeded2.Bytes(), e.writeErr2
		e.mu.Unlock()
		recv2 := c2.Rx.Bytes()
		e.count("bytes_app_to_tnc_second_conn", int64(len(recv2)))
		linkGone := dropped || sc.End == "tnc-close-stalled"
		if werr2 != nil && !sc.tolerant() && !aborted && !linkGone {
			e.apiErr("api:write:error", werr2, "%v although the TNC answered every query (%s)", werr2, ctx)
		}
		switch {
		case !bytes.HasPrefix(att2, recv2):
			e.vio("tx-stream:corrupt", "second connection: payloads received by the TNC differ from the written bytes at offset %d (written %d, received %d; %s)", firstDiff(att2, recv2), len(att2), len(recv2), ctx)
		case len(recv2) < len(suc2):
			e.vio("tx-stream:lost", "second connection: Write reported %d bytes written, the TNC received only %d (%s)", len(suc2), len(recv2), ctx)
		default:
			e.count("tx_stream_equal_second_conn", 1)
		}
	}

	// ---- application -> TNC stream
	recv := c.Rx.Bytes()
	e.count("bytes_app_to_tnc_written", int64(len(succeeded)))
	e.count("bytes_app_to_tnc_received", int64(len(recv)))
	if writeErr != nil && !sc.tolerant() && !aborted {
		e.apiErr("api:write:error", writeErr, "%v although the TNC answered every query (%s)", writeErr, ctx)
	}
	switch {
	case !bytes.HasPrefix(attempted, recv):
		d := firstDiff(attempted, recv)
		e.vio("tx-stream:corrupt", "payloads received by the TNC differ from the written bytes at offset %d (written %d, received %d in %d frames; %s)", d, len(attempted), len(recv), c.RxFrames, ctx)
	case len(recv) < len(succeeded):
		e.vio("tx-stream:lost", "Write reported %d bytes written, the TNC received only %d in %d 'D' frames (%s)", len(succeeded), len(recv), c.RxFrames, ctx)
	default:
		e.count("tx_stream_equal", 1)
	}

	// ---- exchanges
	if c.DNeverPolled > 0 {
		e.vio("exchange:write:no-Y-poll", "%d data frame(s) were followed by the next one without any 'Y' outstanding-frames query in between", c.DNeverPolled)
	}
	if c.RxFrames > 0 {
		e.count("y_polls", int64(c.Polls))
	}
	appClosed := sc.End == "app-close" || sc.End == "close-inflight" || sc.End == "close-stalled"
	e.mu.Lock()
	closeReturned := e.closeReturned
	e.mu.Unlock()
	if appClosed && closeReturned && !aborted && !sc.tolerant() {
		switch {
		case !c.HostDisc:
			e.vio("exchange:close:no-d", "Close returned but the TNC never received a 'd' frame for the connection")
		case c.HostDiscUnflushed:
			e.vio("exchange:close:unflushed", "the 'd' frame arrived while the TNC still reported outstanding frames (last 'Y' answer %d, %d data frames after it)", c.LastPollReply, c.DSinceLastPoll)
		default:
			e.count("close_exchange_verified", 1)
		}
	}
	if !dropped && !aborted && e.port != nil {
		if !rep.Unreg[e.cs.myCall] && !rep.LinkCleanEOF {
			e.count("unregister_unobservable_link_reset", 1)
		} else if !rep.Unreg[e.cs.myCall] {
			e.vio("exchange:unregister:no-x", "Port.Close returned but the TNC never received an 'x' frame for %q", e.cs.myCall)
		} else {
			e.count("unregister_verified", 1)
		}
	}
	if sc.UI {
		switch {
		case len(rep.UI) != 1:
			e.vio("exchange:ui:missing", "SendUI returned nil but the TNC received %d 'M' frames", len(rep.UI))
		case rep.UI[0].To != "BEACON" || string(rep.UI[0].Data) != "verif beacon":
			e.vio("tncframe:M:content", "'M' frame to %q with data %q, want BEACON / \"verif beacon\"", rep.UI[0].To, rep.UI[0].Data)
		default:
			e.count("ui_frame_verified", 1)
		}
	}
	if readErr != nil && readErr != io.EOF {
		e.count("read_ended_with_non_eof_error", 1)
	}

	// the execution exercised the mechanism if bytes crossed the connection and were compared
	e.omu.Lock()
	defer e.omu.Unlock()
	if len(sent)+len(recv) > 0 {
		o.Sig("%s|%s|%s|p%d|%s%d|rb%d|%s|b%v|w%v|n%d|mf%d|ttl%d|%d", sc.Class, sc.Link, sc.Seg, sc.Port, sc.Mode, sc.Digis, sc.RBuf, sc.End, sc.Bursts, sc.Writes, sc.NoisePct, sc.MaxFrame, sc.TTLMax, sc.Seed)
	}
	if o.Sample == nil {
		log := logExcerpt(rep.Events, 12, 5)
		o.Sample = map[string]any{"scenario": sc, "bytes_tnc_to_app": len(sent), "bytes_app_to_tnc": len(recv), "tnc_frames_validated": rep.RxFrames,
			"y_polls": c.Polls, "exchange_log_excerpt": log}
	}
}
