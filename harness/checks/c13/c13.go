// Package c13: an AGWPE connection is a reliable, ordered byte stream.
//
// The real client (transport/ax25/agwpe) talks to a simulated TNC (internal/simagw) over a
// deterministic in-memory link with PRNG read segmentation (through the verif hook VerifNewTNC) or
// over real loopback TCP (OpenPortTCP). The oracle is the simulator (frame validator, byte ledger
// per connection, exchange log) plus stream equality at the application side.
package c13

import (
	"encoding/json"
	"fmt"
	"io"
	"log"
	"os"
	"strings"
	"sync"

	"verif/internal/vrt"
)

var Check = &vrt.Check{
	ID:    "C13",
	Level: "exploration",
	Rule: "one case = one scenario: register a port (0,1,2,7) with a simulated AGWPE TNC over an in-memory link with PRNG read segmentation or over loopback TCP with " +
		"sleep-separated partial writes, dial (0..2 digipeaters) or accept, application writes (1 B..8 kB) concurrent with TNC bursts (1..256 frames of 1..2048 B, reader " +
		"stalled during a burst or not, reader buffers 1/7/64/300/4096), interleaved frames for other ports/stations and unknown kinds, optionally a second live connection " +
		"on the same port (with its own concurrent writer on a slow link), then remote disconnect / Flush+Close / Close in mid-stream / Close, Port.Close+TNC.Close or link drop while the reader is stalled behind a full pipeline. Fixed regression scenarios (one per known defect shape and per malformed reply) are part of both tiers. A scenario is non-trivial " +
		"when a connection was established and at least one payload byte crossed it and was compared with the ledger; distinct = distinct scenario parameter vectors",
	Assumptions: []string{
		"the simulated TNC reports at least one outstanding frame at the first 'Y' query after a 'D' frame and lets every frame drain after at most 3 queries (Write/Flush waiting for a TNC that never does is a liveness hazard outside the statement)",
		"the application registers one callsign on one port per TNC link; frames that must not be delivered are those for other ports, for other remote stations, monitor frames and unknown kinds",
		"hostile DataLen values are bounded by 1 MiB and are followed by that many bytes, except as the very last thing before the link ends",
		"an incoming connection is announced while a goroutine is inside Accept; a refusal (documented behaviour when nobody is accepting) is answered by calling again",
		"when the application itself closes a connection in mid-stream the bytes read must be a prefix of the bytes sent; in every other ending they must be equal",
		"a reply that the TNC deliberately malforms (short X/R/Y data, connect notice without the expected text) may make the API call fail; only crashes, panics and stream corruption are violations there",
		"data races inside the agwpe package are not judged (the race detector is not used for this property)",
	},
	Plan:          plan,
	Run:           run,
	Exhaustive:    func(string) bool { return false },
	MinNontrivial: 100,
	MemLimitMB:    4096,
	Extra: func(tier string) map[string]any {
		return map[string]any{"links": []string{"in-memory pipe with PRNG read segmentation (verif hook)", "loopback TCP (OpenPortTCP) with sleep-separated partial writes"}}
	},
}

func plan(seed int64, tier string) []vrt.Case {
	var cs []vrt.Case
	add := func(id string, sc scenario) {
		if sc.Class == "" {
			sc.Class = id
		}
		if sc.Seed == 0 {
			sc.Seed = int64(vrt.Rand(seed, "fixed", id).Int63())
		}
		cs = append(cs, vrt.Case{ID: id, Params: vrt.MustParams(sc), TimeoutS: 420})
	}
	for _, f := range fixedScenarios() {
		add(f.id, f.sc)
	}
	nStream, nOdd := 240, 40
	if tier == "thorough" {
		nStream, nOdd = 11200, 700
	}
	for i := 0; i < nStream; i++ {
		add(fmt.Sprintf("stream-%04d", i), randomStream(seed, i))
	}
	for i := 0; i < nOdd; i++ {
		add(fmt.Sprintf("odd-%04d", i), randomOdd(seed, i))
	}
	return cs
}

type fixed struct {
	id string
	sc scenario
}

// fixedScenarios are part of both tiers: one per defect shape found on the unchanged tree, one per
// boundary named in the property, one per malformed reply.
func fixedScenarios() []fixed {
	var out []fixed
	mk := func(id string, f func(sc *scenario)) {
		sc := defaults()
		sc.Class = "reg"
		sc.Bursts = []burst{{Frames: 4, MinSz: 100, MaxSz: 100}}
		sc.Writes = []int{10, 200}
		f(&sc)
		out = append(out, fixed{"reg-" + id, sc})
	}
	// data field arriving in more than one read
	mk("split-data-pipe-bytes", func(sc *scenario) { sc.Seg = "bytes" })
	mk("split-data-pipe-hostile", func(sc *scenario) { sc.Seg = "hostile"; sc.Bursts = []burst{{Frames: 20, MinSz: 1, MaxSz: 2048}} })
	mk("split-data-tcp", func(sc *scenario) {
		sc.Link, sc.Seg = "tcp", "cut100"
		sc.Bursts = []burst{{Frames: 6, MinSz: 300, MaxSz: 300}}
	})
	// caller buffer smaller than a frame
	for _, rb := range []int{1, 7, 64} {
		mk(fmt.Sprintf("small-buffer-%d", rb), func(sc *scenario) { sc.Seg = "whole"; sc.RBuf = rb })
	}
	mk("small-buffer-300-frames-2048", func(sc *scenario) {
		sc.Seg = "whole"
		sc.RBuf = 300
		sc.Bursts = []burst{{Frames: 5, MinSz: 2048, MaxSz: 2048}}
	})
	// ports other than 0: connect, disconnect, unregister, UI
	for _, p := range []int{1, 2, 7} {
		mk(fmt.Sprintf("port-%d-dial", p), func(sc *scenario) { sc.Seg = "whole"; sc.Port = p; sc.End = "app-close" })
	}
	mk("port-2-dial-via", func(sc *scenario) { sc.Seg = "whole"; sc.Port = 2; sc.Digis = 2; sc.End = "app-close" })
	mk("port-1-accept", func(sc *scenario) { sc.Seg = "whole"; sc.Port = 1; sc.Mode = "accept"; sc.End = "app-close" })
	mk("port-7-ui", func(sc *scenario) { sc.Seg = "whole"; sc.Port = 7; sc.UI = true; sc.End = "remote-disc" })
	mk("port-0-ui", func(sc *scenario) { sc.Seg = "whole"; sc.UI = true })
	mk("port-2-dial-badtext", func(sc *scenario) { sc.Seg = "whole"; sc.Port = 2; sc.Dial = "badtext" })
	// bursts: more frames than the pipeline can buffer
	mk("burst-fast-reader-tcp", func(sc *scenario) {
		sc.Link, sc.Seg = "tcp", "cut0"
		sc.Bursts = []burst{{Frames: 64, MinSz: 100, MaxSz: 100}}
	})
	mk("burst-fast-reader-pipe", func(sc *scenario) { sc.Seg = "whole"; sc.Bursts = []burst{{Frames: 64, MinSz: 100, MaxSz: 100}} })
	mk("burst-stalled-reader-pipe", func(sc *scenario) {
		sc.Seg = "whole"
		sc.Bursts = []burst{{Frames: 128, MinSz: 1, MaxSz: 120, StallMs: 60}}
	})
	mk("burst-stalled-reader-tcp", func(sc *scenario) {
		sc.Link, sc.Seg = "tcp", "cut0"
		sc.Bursts = []burst{{Frames: 256, MinSz: 1, MaxSz: 120, StallMs: 60}}
		sc.End = "app-close"
	})
	mk("burst-stalled-then-link-drop", func(sc *scenario) {
		sc.Bursts = []burst{{Frames: 96, MinSz: 1, MaxSz: 300, StallMs: 40}}
		sc.End = "link-drop"
	})
	mk("bursts-with-writes-tcp", func(sc *scenario) {
		sc.Link, sc.Seg = "tcp", "cut10"
		sc.Bursts = []burst{{Frames: 64, MinSz: 1, MaxSz: 200}, {Frames: 100, MinSz: 1, MaxSz: 100, StallMs: 30}}
		sc.Writes = []int{1, 8192, 300, 77}
		sc.MidFlush = true
		sc.End = "app-close"
	})
	// frames that must not be delivered
	mk("foreign-frames", func(sc *scenario) {
		sc.Bursts = []burst{{Frames: 40, MinSz: 1, MaxSz: 200, ForeignPct: 60}}
		sc.NoisePct = 100
	})
	mk("foreign-frames-port-1-tcp", func(sc *scenario) {
		sc.Link, sc.Seg, sc.Port = "tcp", "cut10", 1
		sc.Bursts = []burst{{Frames: 40, MinSz: 1, MaxSz: 200, ForeignPct: 60}}
		sc.NoisePct = 100
		sc.End = "app-close"
	})
	// callsigns with SSIDs 10..15, ending in digits, without SSID, and stations that differ in the SSID only
	for k := 1; k < len(callSets); k++ {
		mk(fmt.Sprintf("calls-%d-dial", k), func(sc *scenario) { sc.Calls = k; sc.Seg = "whole"; sc.End = "app-close" })
		mk(fmt.Sprintf("calls-%d-accept-foreign", k), func(sc *scenario) {
			sc.Calls, sc.Mode = k, "accept"
			sc.Bursts = []burst{{Frames: 30, MinSz: 1, MaxSz: 200, ForeignPct: 50}}
			sc.NoisePct = 100
		})
		mk(fmt.Sprintf("calls-%d-dual", k), func(sc *scenario) { sc.Calls = k; sc.Dual, sc.DualPct = true, 50 })
	}
	// connection set-up variants
	mk("dial-1-digi", func(sc *scenario) { sc.Digis = 1 })
	mk("dial-early-data", func(sc *scenario) { sc.Seg = "whole"; sc.EarlyData = 3 })
	mk("dial-early-data-1-digi", func(sc *scenario) { sc.Seg = "whole"; sc.EarlyData = 1; sc.Digis = 1 })
	mk("dial-early-data-tcp", func(sc *scenario) { sc.Link, sc.Seg, sc.EarlyData = "tcp", "cut0", 4 })
	mk("dial-ctx-cancelled-after-connect", func(sc *scenario) { sc.CancelCtx = true })
	mk("dial-ctx-cancelled-after-connect-tcp", func(sc *scenario) { sc.Link, sc.Seg, sc.CancelCtx = "tcp", "cut30", true })
	mk("dial-2-digis-tcp", func(sc *scenario) { sc.Link, sc.Seg, sc.Digis = "tcp", "cut30", 2 })
	mk("accept", func(sc *scenario) { sc.Mode = "accept" })
	mk("accept-tcp", func(sc *scenario) { sc.Link, sc.Seg, sc.Mode = "tcp", "cut30", "accept"; sc.End = "app-close" })
	mk("accept-odd-notices", func(sc *scenario) { sc.Mode = "accept"; sc.OddAccept = true })
	mk("accept-reverse-to-from", func(sc *scenario) { sc.Mode = "accept"; sc.ReverseEnv = true })
	mk("accept-reverse-to-from-tcp", func(sc *scenario) {
		sc.Link, sc.Seg, sc.Mode, sc.ReverseEnv = "tcp", "cut30", "accept", true
		sc.End = "app-close"
	})
	mk("dial-reverse-to-from", func(sc *scenario) { sc.ReverseEnv = true })
	mk("accept-early-data", func(sc *scenario) { sc.Seg = "whole"; sc.Mode = "accept"; sc.EarlyData = 5 })
	mk("register-reply-lowercase-x", func(sc *scenario) { sc.RegX = true })
	mk("writes-of-whole-multiples-of-frame-and-buffer-sizes", func(sc *scenario) {
		sc.Writes = []int{2048, 4096, 6144, 8192, 4095, 4097, 256, 512, 1024, 3 * 256, 16384, 65536, 255, 257}
	})
	mk("writes-of-whole-multiples-tcp", func(sc *scenario) {
		sc.Link, sc.Seg = "tcp", "cut30"
		sc.Writes = []int{4096, 2048, 12288, 6144, 1, 8192, 10240}
	})
	mk("data-frames-with-other-pids", func(sc *scenario) { sc.VaryPID = true })
	mk("data-frames-with-other-pids-accept-tcp", func(sc *scenario) {
		sc.Link, sc.Seg, sc.Mode, sc.VaryPID = "tcp", "cut30", "accept", true
		sc.End = "app-close"
	})
	mk("version", func(sc *scenario) { sc.Version = true })
	mk("dial-refused", func(sc *scenario) { sc.Dial = "refuse" })
	// endings
	mk("close-in-flight", func(sc *scenario) {
		sc.Bursts = []burst{{Frames: 400, MinSz: 10, MaxSz: 100}}
		sc.End = "close-inflight"
	})
	mk("close-while-reader-stalled", func(sc *scenario) {
		sc.Bursts = []burst{{Frames: 96, MinSz: 10, MaxSz: 100, StallMs: 150}}
		sc.Writes = nil
		sc.End = "close-stalled"
	})
	mk("close-port-and-tnc-while-reader-stalled", func(sc *scenario) {
		sc.Bursts = []burst{{Frames: 96, MinSz: 10, MaxSz: 100, StallMs: 150}}
		sc.Writes = nil
		sc.End = "tnc-close-stalled"
	})
	mk("close-port-and-tnc-while-reader-stalled-tcp", func(sc *scenario) {
		sc.Link, sc.Seg = "tcp", "cut0"
		sc.Bursts = []burst{{Frames: 200, MinSz: 10, MaxSz: 100, StallMs: 150}}
		sc.Writes = nil
		sc.End = "tnc-close-stalled"
	})
	mk("link-drop-while-reader-stalled", func(sc *scenario) {
		sc.Bursts = []burst{{Frames: 5, MinSz: 1, MaxSz: 50}, {Frames: 128, MinSz: 1, MaxSz: 120, StallMs: 80}}
		sc.End, sc.DropInStall = "link-drop", true
		sc.Writes = nil // the application's writer is not racing the end of the link
	})
	mk("link-drop-while-reader-stalled-tcp", func(sc *scenario) {
		sc.Link, sc.Seg = "tcp", "cut10"
		sc.Bursts = []burst{{Frames: 128, MinSz: 1, MaxSz: 120, StallMs: 80}}
		sc.End, sc.DropInStall = "link-drop", true
		sc.Writes = nil // the application's writer is not racing the end of the link
	})
	// the end of the link right behind the last frames: everything sent before must still be delivered
	for i, seg := range []string{"whole", "hostile", "bytes", "whole", "hostile", "cut0", "cut10", "cut0"} {
		mk(fmt.Sprintf("link-drop-behind-burst-%d", i), func(sc *scenario) {
			if seg[0] == 'c' {
				sc.Link = "tcp"
			}
			sc.Seg = seg
			sc.RBuf = []int{4096, 64, 300, 7, 4096, 4096, 64, 300}[i]
			sc.Bursts = []burst{{Frames: 64 + 16*i, MinSz: 1, MaxSz: 60, StallMs: 20 + 10*(i%3)}}
			sc.End, sc.DropInStall = "link-drop", true
			sc.Writes = nil
		})
	}
	mk("two-connections", func(sc *scenario) {
		sc.Dual, sc.DualPct = true, 50
		sc.Bursts = []burst{{Frames: 40, MinSz: 1, MaxSz: 200, ForeignPct: 30}, {Frames: 100, MinSz: 1, MaxSz: 100, StallMs: 40}}
		sc.NoisePct = 50
	})
	mk("two-connections-concurrent-writers", func(sc *scenario) {
		sc.Seg = "whole"
		sc.Dual, sc.DualPct = true, 50
		sc.Bursts = []burst{{Frames: 20, MinSz: 1, MaxSz: 100}}
		sc.Writes = []int{100, 2000, 1, 300, 50, 700, 8000, 20}
		sc.Writes2 = []int{64, 1500, 3, 900, 10, 4000, 7, 250}
		sc.End = "app-close"
	})
	mk("two-connections-concurrent-writers-port-1", func(sc *scenario) {
		sc.Seg, sc.Port = "hostile", 1
		sc.Dual, sc.DualPct = true, 20
		sc.Bursts = []burst{{Frames: 5, MinSz: 1, MaxSz: 100}}
		sc.Writes = []int{5, 5, 5, 5, 5, 5, 5, 5, 5, 5, 5, 5}
		sc.Writes2 = []int{700, 700, 700, 700, 700, 700, 700, 700, 700, 700}
		sc.MaxFrame, sc.TTLMax = 7, 1
	})
	mk("two-connections-concurrent-writers-accept", func(sc *scenario) {
		sc.Seg, sc.Mode = "whole", "accept"
		sc.Dual, sc.DualPct = true, 20
		sc.Bursts = []burst{{Frames: 5, MinSz: 1, MaxSz: 100}}
		sc.Writes = []int{3000, 1, 3000, 1, 3000, 1, 3000, 1, 3000, 1}
		sc.Writes2 = []int{1, 2000, 1, 2000, 1, 2000, 1, 2000, 1, 2000}
		sc.MaxFrame, sc.TTLMax = 7, 1
		sc.End = "app-close"
	})
	mk("two-connections-concurrent-writers-tcp", func(sc *scenario) {
		sc.Link, sc.Seg = "tcp", "cut0"
		sc.Dual, sc.DualPct = true, 50
		sc.Bursts = []burst{{Frames: 20, MinSz: 1, MaxSz: 100}}
		sc.Writes = []int{100, 2000, 1, 300, 50, 700, 8000, 20}
		sc.Writes2 = []int{64, 1500, 3, 900, 10, 4000, 7, 250}
	})
	mk("two-connections-port-2-tcp-app-close", func(sc *scenario) {
		sc.Link, sc.Seg, sc.Port = "tcp", "cut10", 2
		sc.Dual, sc.DualPct = true, 100
		sc.Bursts = []burst{{Frames: 80, MinSz: 1, MaxSz: 200}}
		sc.End = "app-close"
	})
	mk("link-drop-pipe", func(sc *scenario) { sc.End = "link-drop"; sc.Bursts = []burst{{Frames: 30, MinSz: 1, MaxSz: 500}} })
	mk("link-drop-tcp", func(sc *scenario) {
		sc.Link, sc.Seg, sc.End = "tcp", "cut10", "link-drop"
		sc.Bursts = []burst{{Frames: 30, MinSz: 1, MaxSz: 500}}
	})
	for _, mf := range []int{0, 255, 128, 8} {
		mk(fmt.Sprintf("maxframe-%d", mf), func(sc *scenario) {
			sc.MaxFrame, sc.TTLMax = mf, 2
			sc.Writes = []int{5, 300, 5, 2000}
			sc.End = "app-close"
		})
	}
	mk("maxframe-0-tcp-accept", func(sc *scenario) {
		sc.Link, sc.Seg, sc.Mode = "tcp", "cut10", "accept"
		sc.MaxFrame, sc.TTLMax = 0, 3
		sc.Writes = []int{700, 1, 90}
	})
	mk("maxframe-1-ttl-3", func(sc *scenario) { sc.MaxFrame, sc.TTLMax = 1, 3; sc.Writes = []int{5, 5, 5, 5}; sc.End = "app-close" })
	// misbehaving TNC: must never crash the process
	mk("malformed-short-X-0", func(sc *scenario) { sc.ShortX = 0 })
	mk("malformed-short-X-3", func(sc *scenario) { sc.ShortX = 3 })
	// every length of the truncated replies (an off-by-one in a length guard hits exactly one of them)
	for n := 0; n <= 11; n++ { // the full reply has 12 bytes
		n := n
		mk(fmt.Sprintf("malformed-short-g-%d", n), func(sc *scenario) { sc.ShortG = n })
	}
	for n := 0; n <= 9; n++ {
		n := n
		mk(fmt.Sprintf("malformed-short-R-%d", n), func(sc *scenario) { sc.ShortR = n; sc.Version = true })
	}
	for n := 1; n <= 2; n++ {
		n := n
		mk(fmt.Sprintf("malformed-short-X-%d", n), func(sc *scenario) { sc.ShortX = n })
	}

	mk("malformed-short-Y-first", func(sc *scenario) { sc.ShortYAt, sc.ShortYLen = 0, 0 })
	mk("malformed-short-Y-third", func(sc *scenario) { sc.ShortYAt, sc.ShortYLen = 2, 3 })
	mk("malformed-dial-badtext", func(sc *scenario) { sc.Dial = "badtext" })
	mk("malformed-huge-1MiB", func(sc *scenario) { sc.Huge = 1 << 20 })
	mk("malformed-huge-70k-tcp", func(sc *scenario) { sc.Link, sc.Seg, sc.Huge = "tcp", "cut10", 70000 })
	mk("malformed-tail-lie", func(sc *scenario) { sc.End = "link-drop"; sc.TailLie = true })
	mk("malformed-noise-everywhere", func(sc *scenario) {
		sc.NoisePct = 100
		sc.Version = true
		sc.Mode = "accept"
		sc.OddAccept = true
		sc.Bursts = []burst{{Frames: 30, MinSz: 1, MaxSz: 100, ForeignPct: 100}}
		sc.End = "app-close"
	})
	return out
}

func randomStream(seed int64, i int) scenario {
	r := vrt.Rand(seed, "stream", i)
	sc := defaults()
	sc.Class = "stream"
	sc.Seed = r.Int63()
	if r.Intn(100) < 35 {
		sc.Link = "tcp"
		sc.Seg = vrt.Pick(r, []string{"cut0", "cut10", "cut30"})
	} else {
		sc.Seg = vrt.Pick(r, []string{"hostile", "hostile", "hostile", "hostile", "hostile", "hostile", "hostile", "bytes", "whole", "whole"})
	}
	sc.Port = vrt.Pick(r, []int{0, 1, 2, 7})
	sc.Calls = i % (2 * len(callSets)) // every other scenario uses the textbook callsigns, the others rotate through the sets
	if sc.Calls >= len(callSets) {
		sc.Calls = 0
	}
	if r.Intn(100) < 35 {
		sc.Mode = "accept"
		sc.OddAccept = r.Intn(100) < 30
	} else {
		sc.Digis = r.Intn(3)
	}
	sc.ReverseEnv = sc.Seed%4 == 1
	sc.CancelCtx = sc.Mode != "accept" && sc.Seed%2 == 0
	if sc.Mode != "accept" && sc.Seed%3 == 0 {
		sc.EarlyData = 1 + int(sc.Seed/3)%5
	}
	sc.MaxFrame = vrt.Pick(r, []int{1, 2, 4, 7, 1, 2, 4, 7, 0, 255, 3, 127}) // the TNC reports one byte: any value can come back
	sc.TTLMax = vrt.Pick(r, []int{1, 1, 1, 2, 2, 3})
	sc.RegX = r.Intn(10) == 0
	sc.VaryPID = sc.Seed%5 == 2
	sc.RBuf = vrt.Pick(r, []int{1, 7, 64, 300, 4096})
	sc.ReadDelayUs = vrt.Pick(r, []int{0, 0, 0, 50, 300})
	sc.NoisePct = vrt.Pick(r, []int{0, 20, 60})
	sc.Version = r.Intn(5) == 0
	sc.UI = r.Intn(7) == 0
	sc.MidFlush = r.Intn(3) == 0
	sc.WritePaceMs = vrt.Pick(r, []int{0, 0, 1, 5})
	if r.Intn(20) == 0 {
		sc.Huge = vrt.Pick(r, []int{70000, 1 << 20})
	}
	sc.Bursts = nil
	for n := 1 + r.Intn(3); n > 0; n-- {
		var b burst
		if r.Intn(2) == 0 {
			b = burst{Frames: 1 + r.Intn(8), MinSz: 1, MaxSz: 2048}
		} else {
			b = burst{Frames: 64 + r.Intn(193), MinSz: 1, MaxSz: vrt.Pick(r, []int{20, 120, 300}), StallMs: vrt.Pick(r, []int{0, 0, 20, 60, 120})}
		}
		b.ForeignPct = vrt.Pick(r, []int{0, 0, 10, 40})
		sc.Bursts = append(sc.Bursts, b)
	}
	sc.Writes = nil
	for n := r.Intn(6); n > 0; n-- {
		switch r.Intn(4) {
		case 0:
			sc.Writes = append(sc.Writes, 1)
		case 1:
			sc.Writes = append(sc.Writes, 2+r.Intn(63))
		case 2:
			sc.Writes = append(sc.Writes, 65+r.Intn(936))
		default:
			sc.Writes = append(sc.Writes, 1001+r.Intn(7192))
		}
	}
	if r.Intn(100) < 15 {
		sc.Dual, sc.DualPct = true, vrt.Pick(r, []int{10, 50, 100})
		if r.Intn(2) == 0 {
			// a second session writing at the same time on the shared TNC link
			for n := 1 + r.Intn(6); n > 0; n-- {
				sc.Writes2 = append(sc.Writes2, vrt.Pick(r, []int{1, 30, 300, 2000, 8000})+r.Intn(20))
			}
		}
	}
	switch x := r.Intn(100); {
	case x < 38:
		sc.End = "remote-disc"
	case x < 66:
		sc.End = "app-close"
	case x < 78:
		sc.End = "link-drop"
		if last := &sc.Bursts[len(sc.Bursts)-1]; last.StallMs > 0 && r.Intn(2) == 0 {
			sc.DropInStall = true
			sc.Writes = nil
		}
	case x < 83:
		sc.End = "tnc-close-stalled"
		sc.Bursts = []burst{{Frames: 64 + r.Intn(128), MinSz: 1, MaxSz: 120, StallMs: 100 + r.Intn(100)}}
		sc.Writes = nil
	case x < 91:
		sc.End = "close-inflight"
		sc.Bursts = []burst{{Frames: 200 + r.Intn(300), MinSz: 1, MaxSz: 120, ForeignPct: sc.Bursts[0].ForeignPct}}
	default:
		sc.End = "close-stalled"
		sc.Bursts = []burst{{Frames: 64 + r.Intn(128), MinSz: 1, MaxSz: 120, StallMs: 100 + r.Intn(100)}}
		sc.Writes = nil
	}
	return sc
}

// randomOdd draws scenarios with a misbehaving TNC.
func randomOdd(seed int64, i int) scenario {
	r := vrt.Rand(seed, "odd", i)
	sc := randomStream(seed+7919, i)
	sc.Class = "odd"
	sc.Seed = r.Int63()
	switch r.Intn(8) {
	case 0:
		sc.ShortX = vrt.Pick(r, []int{0, 2, 5, 300})
	case 1:
		sc.ShortG = r.Intn(12)
	case 2:
		sc.ShortR, sc.Version = r.Intn(8), true
	case 3:
		sc.ShortYAt, sc.ShortYLen = r.Intn(6), vrt.Pick(r, []int{0, 1, 2, 3, 5, 8})
	case 4:
		if sc.Mode == "dial" {
			sc.Dial = vrt.Pick(r, []string{"badtext", "refuse"})
		} else {
			sc.OddAccept = true
		}
	case 5:
		sc.Huge = vrt.Pick(r, []int{65536, 70000, 1 << 20})
	case 6:
		sc.End, sc.TailLie = "link-drop", true
		if len(sc.Bursts) == 1 && sc.Bursts[0].StallMs >= 100 {
			sc.Bursts[0].StallMs = 20
		}
	default:
		sc.NoisePct = 100
		for i := range sc.Bursts {
			sc.Bursts[i].ForeignPct = 100
		}
	}
	return sc
}

var discardLog sync.Once

func run(c vrt.Case) vrt.Obs {
	var sc scenario
	vrt.Params(c, &sc)
	var o vrt.Obs
	o.Evals = 1
	e := &env{sc: sc, cs: sc.callSet(), o: &o, rng: vrt.Rand(sc.Seed, "scenario"), fatal: make(chan struct{})}
	o.Count(fmt.Sprintf("scenarios_callsigns_%s_%s", e.cs.myCall, e.cs.remoteCall), 1)
	if sc.ReverseEnv {
		// the package's documented option for TNCs that want the connection initiator's order in 'Y' queries;
		// process-wide, set for this scenario only (a worker runs one scenario at a time)
		os.Setenv("AGWPE_REVERSE_TO_FROM", "1")
		defer os.Unsetenv("AGWPE_REVERSE_TO_FROM")
		o.Count("scenarios_with_AGWPE_REVERSE_TO_FROM", 1)
	}
	if sc.Seed%4 == 2 {
		// the package's debug log (what a user switches on to look into a problem): looking must not change what happens.
		// The log text itself is discarded.
		// (not io.Discard itself: the log package then skips the formatting, which is the part that looks at the frames)
		discardLog.Do(func() { log.SetOutput(struct{ io.Writer }{io.Discard}) })
		os.Setenv("AGWPE_DEBUG", "1")
		defer os.Unsetenv("AGWPE_DEBUG")
		o.Count("scenarios_with_AGWPE_DEBUG", 1)
	}
	e.guard(e.run)
	e.rootCause()
	// goroutines abandoned inside a hanging library call may still touch the observation later:
	// hand a deep copy to the framework
	e.omu.Lock()
	defer e.omu.Unlock()
	b, err := json.Marshal(o)
	if err != nil {
		return vrt.Obs{Evals: 1, Inconclusive: []string{"observation not serialisable: " + err.Error()}}
	}
	var cp vrt.Obs
	if err := json.Unmarshal(b, &cp); err != nil {
		return vrt.Obs{Evals: 1, Inconclusive: []string{"observation not serialisable: " + err.Error()}}
	}
	return cp
}

// rootCause removes symptoms that are mere consequences of a recorded root cause in the same
// scenario (a panic inside the library, or the library dropping the TNC link): API calls failing,
// exchanges not happening and calls hanging afterwards say nothing new. Stream verdicts, frame
// verdicts and panics are always kept.
func (e *env) rootCause() {
	e.omu.Lock()
	defer e.omu.Unlock()
	root := false
	for _, v := range e.o.Violations {
		if strings.HasPrefix(v.Key, "panic:") || v.Key == "tnc-link:closed-by-library" {
			root = true
		}
	}
	if !root {
		return
	}
	kept := e.o.Violations[:0]
	for _, v := range e.o.Violations {
		if strings.HasPrefix(v.Key, "api:") || strings.HasPrefix(v.Key, "exchange:") || strings.HasPrefix(v.Key, "stuck:") || v.Key == "accept:spurious" {
			e.o.Count("consequential_symptoms_not_reported", 1)
			continue
		}
		kept = append(kept, v)
	}
	e.o.Violations = kept
}
