// Package c15: telnet login hands over a clean stream and honours the dial deadline.
//
// Legs (all over real loopback TCP):
//
//	pair      package listener ⇄ tcpx re-segmenting proxy ⇄ package dialer. Oracle: RemoteCall() of the
//	          accepted connection == the dialler's callsign; the bytes each application reads until EOF
//	          == the bytes the other one wrote after Dial/Accept returned.
//	eager     the package dialer against a small reference server of this harness that sends the same
//	          two prompts as the package's listener but does not wait for the password reply before
//	          it starts sending (the listener discards the password, so nothing forces a server to
//	          wait). This is the only way payload can share a segment with the dialler's last login
//	          line; with the package's own listener that is causally impossible. Same stream oracle,
//	          plus: the callsign and password lines the server received are the given strings.
//	idle      pair leg with a short dial timeout T, the last part of both payloads is written after
//	          T has passed: a deadline left on the connection would cut the stream.
//	deadline  the package dialer against hostile servers with a dial deadline D: the dial call must
//	          have returned by D + 10 s (in each of three attempts), and must not return a connection.
package c15

import (
	"bufio"
	"bytes"
	"context"
	"errors"
	"fmt"
	"io"
	"math/rand"
	"net"
	neturl "net/url"
	"os"
	"reflect"
	"strings"
	"sync"
	"sync/atomic"
	"syscall"
	"time"

	"github.com/la5nta/wl2k-go/transport"
	"github.com/la5nta/wl2k-go/transport/telnet"

	"verif/internal/tcpx"
	"verif/internal/vrt"
)

type params struct {
	Leg       string `json:"leg"` // pair | eager | idle | deadline
	API       string `json:"api"` // ctx | bg | timeout | url | urlparse | dialer | urlctx | regctx
	Call      []byte `json:"call,omitempty"`
	PW        []byte `json:"pw,omitempty"`
	CallClass string `json:"call_class,omitempty"`
	PWClass   string `json:"pw_class,omitempty"`
	NC2S      int    `json:"n_c2s"` // payload bytes dialler → listener
	NS2C      int    `json:"n_s2c"` // payload bytes listener → dialler
	Seed      int64  `json:"seed"`
	PlanC2S   string `json:"plan_c2s,omitempty"` // pass | byte | split | hold
	PlanS2C   string `json:"plan_s2c,omitempty"`
	HoldK     int    `json:"hold_k,omitempty"` // payload bytes that ride with the last login line
	Order     string `json:"order,omitempty"`  // both | dialer-first | listener-first
	Kind      string `json:"kind,omitempty"`   // deadline leg: hostile server kind
	DMs       int    `json:"d_ms,omitempty"`   // deadline leg: the dial deadline; idle leg: the dial timeout
	// Head, when set, replaces the first bytes of both payloads: line-ending and white-space bytes
	// right behind the login lines are where a "tolerant" login reader would eat payload.
	Head []byte `json:"head,omitempty"`
	// IdleMS (idle leg): the second half of both payloads is written this long after the dial began
	// (default: dial timeout + 1.5 s). Long values find deadlines that either end left armed on the
	// connection after login (they only show once their time has passed).
	IdleMS int `json:"idle_ms,omitempty"`
	// CallMiB (deadline leg): the callsign is this many MiB long - more than the socket buffers of the link hold, so
	// that against a server that does not read the dialler is inside a write, not a read, when its time is up
	CallMiB int `json:"call_mib,omitempty"`
}

const (
	loginTimeout  = 90 * time.Second // dial timeout of the pair/eager legs: far beyond any loopback login
	deadlineSlack = 10 * time.Second // the slack the property's clock clause is judged with
)

var Check = &vrt.Check{
	ID:    "C15",
	Level: "exploration",
	Rule: "a case is one login over loopback TCP (legs pair/eager/idle: PRNG callsign/password classes x dial API x proxy plan per direction " +
		"{pass, byte-at-a-time, PRNG splits incl. inside prompts, hold-until-n-bytes coalescing the last login line with the first payload bytes} x payload sizes 0..64 kB x who writes first) " +
		"or one dial against a hostile server (leg deadline: 12 server behaviours x dial APIs x deadline); a login is non-trivial when it completed and at least one " +
		"post-login byte was compared, a deadline case when the hostile server was really reached and the dial call returned; distinct = distinct (leg, api, classes, plans, order, size buckets) tuples",
	Assumptions: []string{
		"callsigns and passwords contain no CR (the login is CR-delimited); LF and other control bytes are allowed",
		"callsigns have no leading/trailing white space in the sense of strings.TrimSpace (the listener trims the callsign line, so such a callsign is not representable)",
		"stream equality is decided after TCP half-close on content and byte counts only; the proxy's pauses and idle flush only choose which segmentation is realised",
		"dialler-side coalescing (payload in the same segment as the password prompt) needs a server that does not wait for the password reply; the package's own listener always waits, so this is outside the property ('dialling a listener of this package'): the eager-server leg only judges that the login lines arrive unmodified and counts what happens to early server bytes (the dialler currently loses them - noted in DESIGN.md, neither a finding nor fixed)",
		"deadline clause: 'returned in time' means returned within deadline + 10 s in at least one of three attempts (a hung dial never returns; the slack only absorbs machine load); cancellation without a deadline is not demanded; a second, sharper verdict needs no slack: a dial that returns more than 500 ms after its deadline in three attempts out of three, each time while a control timer set for the same instant fired less than 100 ms late, waits beyond its deadline by itself",
		"real kernel segmentation is influenced (TCP_NODELAY, one write per planned segment, pauses), not controlled",
	},
	SelfTest:        tcpx.SelfTest,
	Plan:            plan,
	Run:             run,
	Exhaustive:      func(string) bool { return false },
	HangIsViolation: true,
	HangKey: func(c vrt.Case) string {
		var p params
		vrt.Params(c, &p)
		if p.Leg == "deadline" {
			return "deadline:" + p.Kind
		}
		return p.Leg
	},
	MinNontrivial: 60,
	Extra: func(tier string) map[string]any {
		return map[string]any{
			"fixed_regression_cases": "hold plans with k in {1,100,4000} on both legs and all dial APIs; every hostile server kind x 4 dial APIs at D=300ms; boundary callsigns (empty, 200 chars, Latin-1, UTF-8, inner blanks); payload sizes 0/1/4095/4096/4097/65536; idle leg per API",
			"hostile_server_kinds":   hostileKinds,
		}
	},
}

var (
	loginAPIs    = []string{"ctx", "bg", "timeout", "url", "urlparse", "dialer", "urlctx", "regctx"}
	deadlineAPIs = []string{"ctx", "timeout", "url", "dialer", "urlctx", "urlparse", "dialer-reused", "regctx"}
	// entry points that are given two limits, the earlier of which is the deadline under test
	mixedLimitAPIs = []string{"dialer-laterctx", "param-laterctx", "dialer-earlierctx", "param-earlierctx"}
)

func plan(seed int64, tier string) []vrt.Case {
	var cs []vrt.Case
	add := func(p params) {
		id := fmt.Sprintf("%s-%03d", p.Leg, len(cs))
		to := 180
		if p.Leg == "deadline" {
			to = 120
		}
		cs = append(cs, vrt.Case{ID: id, Params: vrt.MustParams(p), TimeoutS: to})
	}
	fr := vrt.Rand(0, "c15-fixed") // fixed cases do not depend on the seed

	// ---- fixed regression cases (both tiers) ----
	// listener side: password line coalesced with the first k payload bytes
	for i, api := range []string{"timeout", "ctx", "url", "bg"} {
		for _, k := range []int{1, 100, 4000} {
			add(params{Leg: "pair", API: api, Call: []byte("LA5NTA"), PW: []byte("secret"), CallClass: "realistic", PWClass: "realistic",
				NC2S: 5000 + i, NS2C: 300, Seed: int64(100 + i), PlanC2S: "hold", PlanS2C: "pass", HoldK: k, Order: "both"})
		}
	}
	// dialler side: password prompt coalesced with the first k payload bytes (eager server)
	for i, api := range []string{"timeout", "ctx", "url", "bg"} {
		for _, k := range []int{1, 100, 4000} {
			add(params{Leg: "eager", API: api, Call: []byte("N0CALL-7"), PW: []byte("CMSTelnet"), CallClass: "realistic", PWClass: "realistic",
				NC2S: 300, NS2C: 5000 + i, Seed: int64(200 + i), PlanC2S: "pass", PlanS2C: "hold", HoldK: k, Order: "both"})
		}
	}
	// payload beginning with line-ending / white-space / control bytes, coalesced with the password line
	// (and, in a second variant, arriving in a segment of its own): it is payload and must arrive
	for i, head := range [][]byte{{'\n'}, {'\r'}, {'\r', '\n'}, {'\n', '\n', '\r'}, {0}, {' '}, {'\t', ' '}, {0xff, 0xfd, 0x03}, {'\n', 'P', 'a', 's', 's'}} {
		for j, pl := range []string{"hold", "pass", "byte"} {
			add(params{Leg: "pair", API: loginAPIs[(i+j)%len(loginAPIs)], Call: []byte("LA5NTA"), PW: []byte("secret"), CallClass: "realistic", PWClass: "realistic",
				NC2S: 600 + i, NS2C: 500 + i, Seed: int64(250 + 3*i + j), PlanC2S: pl, PlanS2C: []string{"pass", "hold", "split"}[j], HoldK: 1 + i%3, Order: "both", Head: head})
		}
	}
	// boundary callsigns / passwords, every plan kind
	for i, cl := range callClasses {
		for j, pl := range []string{"pass", "byte", "split", "hold"} {
			pcl := callClasses[(i+j+1)%len(callClasses)]
			add(params{Leg: "pair", API: loginAPIs[(i+j)%len(loginAPIs)], Call: []byte(genCall(fr, cl)), PW: []byte(genString(fr, pcl)), CallClass: cl, PWClass: pcl,
				NC2S: 700, NS2C: 900, Seed: int64(300 + 10*i + j), PlanC2S: pl, PlanS2C: []string{"byte", "split", "pass", "split"}[j], HoldK: 64, Order: "both"})
		}
	}
	// login lines around and beyond the 4096-byte buffer of a bufio.Reader (a line that does not fit
	// must still be read whole: "for any callsign and password")
	for i, n := range []int{4094, 4095, 4096, 4097, 5000, 10000, 70000} {
		long := strings.Repeat("pw3456789-", n/10+1)[:n]
		add(params{Leg: "pair", API: loginAPIs[i%len(loginAPIs)], Call: []byte("LA5NTA"), PW: []byte(long), CallClass: "realistic", PWClass: fmt.Sprintf("long%d", n),
			NC2S: 57, NS2C: 300, Seed: int64(700 + i), PlanC2S: []string{"pass", "split", "hold"}[i%3], PlanS2C: "pass", HoldK: 1 + i, Order: "both"})
		if n <= 10000 {
			add(params{Leg: "pair", API: loginAPIs[(i+2)%len(loginAPIs)], Call: []byte(strings.Repeat("N0CALL-15/", n/10+1)[:n]), PW: []byte("secret"), CallClass: fmt.Sprintf("long%d", n), PWClass: "realistic",
				NC2S: 300, NS2C: 57, Seed: int64(720 + i), PlanC2S: []string{"split", "pass", "hold"}[i%3], PlanS2C: "split", HoldK: 3, Order: "both"})
		}
	}
	// payload size boundaries (bufio's 4096-byte buffer, 64 kB, nothing at all), both legs
	for i, n := range []int{0, 1, 4095, 4096, 4097, 65536} {
		add(params{Leg: "pair", API: loginAPIs[i%len(loginAPIs)], Call: []byte("W1AW"), PW: []byte("pw"), CallClass: "realistic", PWClass: "realistic",
			NC2S: n, NS2C: 65536 - n, Seed: int64(400 + i), PlanC2S: "hold", PlanS2C: "split", HoldK: n, Order: []string{"both", "dialer-first"}[i%2]})
		add(params{Leg: "eager", API: loginAPIs[(i+3)%len(loginAPIs)], Call: []byte("W1AW"), PW: []byte(""), CallClass: "realistic", PWClass: "empty",
			NC2S: 65536 - n, NS2C: n, Seed: int64(450 + i), PlanC2S: "split", PlanS2C: "hold", HoldK: n, Order: "both"})
	}
	// deadline left on the connection after login
	for i, api := range []string{"timeout", "ctx", "url", "dialer", "urlctx"} {
		add(params{Leg: "idle", API: api, Call: []byte("LA1B"), PW: []byte("x"), CallClass: "realistic", PWClass: "realistic",
			NC2S: 2000, NS2C: 2000, Seed: int64(500 + i), PlanC2S: "pass", PlanS2C: "pass", Order: "both", DMs: 3000})
	}
	// a session that is still used long after login: 33 s (thorough also 63 s and 125 s) of silence, then
	// both sides send again - common timeout values of a login that forgets to disarm its deadline
	idles := []int{33000}
	if tier == "thorough" {
		idles = []int{33000, 63000, 125000}
	}
	for i, ms := range idles {
		add(params{Leg: "idle", API: []string{"ctx", "timeout", "url"}[i%3], Call: []byte("LA1B"), PW: []byte("x"), CallClass: "realistic", PWClass: "realistic",
			NC2S: 600, NS2C: 600, Seed: int64(520 + i), PlanC2S: "pass", PlanS2C: "pass", Order: "both", DMs: 3000, IdleMS: ms})
	}
	// several stations logged in on one listener before any session is read
	for i := 0; i < 12; i++ {
		add(params{Leg: "overlap", Seed: int64(900 + i), NC2S: []int{0, 57, 4000}[i%3]})
	}
	// hostile servers
	for i, kind := range hostileKinds {
		apis := []string{"ctx", deadlineAPIs[1+i%(len(deadlineAPIs)-1)]}
		if tier == "thorough" {
			apis = deadlineAPIs
		}
		for _, api := range apis {
			add(params{Leg: "deadline", API: api, Kind: kind, DMs: 300, Call: []byte("LA5NTA"), PW: []byte("secret")})
		}
	}

	for i, api := range deadlineAPIs {
		if tier != "thorough" && i%2 == 1 {
			continue
		}
		add(params{Leg: "deadline", API: api, Kind: "prompt-never-reads", DMs: 300, CallMiB: 24, PW: []byte("secret")})
	}
	// the connect phase is plumbing of its own in every entry point: a host that does not answer the connect, through each of them
	for _, api := range deadlineAPIs {
		add(params{Leg: "deadline", API: api, Kind: "syn-unanswered", DMs: 200, Call: []byte("LA5NTA"), PW: []byte("secret")})
	}
	add(params{Leg: "deadline", API: "ctx", Kind: "callsign-forever", DMs: 300, CallMiB: 24, PW: []byte("secret")})
	for _, kind := range []string{"silent", "prompt-then-silence", "garbage-lines", "callsign-forever"} {
		add(params{Leg: "deadline", API: "regctx", Kind: kind, DMs: 300, Call: []byte("LA5NTA"), PW: []byte("secret")})
	}
	for _, kind := range []string{"silent", "prompt-then-silence", "partial-prompt"} {
		add(params{Leg: "deadline", API: "dialer-reused", Kind: kind, DMs: 300, Call: []byte("LA5NTA"), PW: []byte("secret")})
	}

	// two limits at once - the Dialer's Timeout or the dial_timeout parameter AND the caller's context: the dial has to return
	// by the EARLIER one, whichever of the two that is (the other one lies 3 s later)
	for _, api := range mixedLimitAPIs {
		for _, kind := range []string{"silent", "prompt-then-silence", "partial-prompt", "syn-unanswered"} {
			add(params{Leg: "deadline", API: api, Kind: kind, DMs: 300, Call: []byte("LA5NTA"), PW: []byte("secret")})
		}
	}

	// ---- PRNG volume ----
	nLogin, nDeadline := 1200, 6
	if tier == "thorough" {
		nLogin, nDeadline = 20000, 120
	}
	sizes := []int{0, 1, 2, 17, 100, 1000, 4095, 4096, 4097, 9000, 20000, 65536}
	for i := 0; i < nLogin; i++ {
		r := vrt.Rand(seed, "c15-login", i)
		p := params{Seed: r.Int63(), API: vrt.Pick(r, loginAPIs)}
		p.CallClass, p.PWClass = vrt.Pick(r, callClasses), vrt.Pick(r, callClasses)
		if r.Intn(3) == 0 {
			p.CallClass = "realistic"
		}
		p.Call, p.PW = []byte(genCall(r, p.CallClass)), []byte(genString(r, p.PWClass))
		pick := func() int {
			if r.Intn(3) == 0 {
				return r.Intn(65537)
			}
			if r.Intn(4) == 0 {
				return r.Intn(200)
			}
			return vrt.Pick(r, sizes)
		}
		p.NC2S, p.NS2C = pick(), pick()
		p.Order = vrt.Pick(r, []string{"both", "both", "dialer-first", "listener-first"})
		if r.Intn(4) == 0 {
			p.Leg = "eager"
			p.PlanC2S = vrt.Pick(r, []string{"pass", "byte", "split"})
			p.PlanS2C = vrt.Pick(r, []string{"hold", "hold", "pass", "byte", "split"})
			if p.PlanS2C == "hold" {
				if p.NS2C == 0 {
					p.NS2C = 1 + r.Intn(9000)
				}
				p.Order = vrt.Pick(r, []string{"both", "listener-first"})
			}
			if p.NS2C > 0 { // the eager server always sends its first bytes with the password prompt
				p.HoldK = holdK(r, p.NS2C)
			}
		} else {
			p.Leg = "pair"
			p.PlanC2S = vrt.Pick(r, []string{"hold", "hold", "pass", "byte", "split"})
			p.PlanS2C = vrt.Pick(r, []string{"pass", "byte", "split", "split"})
			if p.PlanC2S == "hold" {
				if p.NC2S == 0 {
					p.NC2S = 1 + r.Intn(9000)
				}
				p.HoldK = holdK(r, p.NC2S)
				p.Order = vrt.Pick(r, []string{"both", "dialer-first"})
			}
		}
		add(p)
	}
	for i := 0; i < nDeadline; i++ {
		r := vrt.Rand(seed, "c15-deadline", i)
		add(params{Leg: "deadline", API: vrt.Pick(r, deadlineAPIs), Kind: vrt.Pick(r, hostileKinds), DMs: vrt.Pick(r, []int{50, 100, 300, 700, 1500}),
			Call: []byte(genCall(r, vrt.Pick(r, callClasses))), PW: []byte(genString(r, vrt.Pick(r, callClasses)))})
	}
	return cs
}

// holdK draws how many payload bytes ride with the last login line (1..n).
func holdK(r *rand.Rand, n int) int {
	k := vrt.Pick(r, []int{1, 2, 7, 64, 500, 3000, 4000, 4096, 6000, n})
	if r.Intn(3) == 0 {
		k = 1 + r.Intn(n)
	}
	return max(1, min(k, n))
}

func run(c vrt.Case) vrt.Obs {
	var p params
	vrt.Params(c, &p)
	var o vrt.Obs
	switch p.Leg {
	case "overlap":
		runOverlap(&o, p)
	case "deadline":
		runDeadline(&o, p)
	default:
		runLogin(&o, p)
	}
	return o
}

// ---------------------------------------------------------------------------------------------
// dialling through the public API

func mkURL(api, addr, call, pw string, timeout time.Duration, withParam bool) (*transport.URL, error) {
	q := neturl.Values{}
	if withParam {
		q.Set("dial_timeout", timeout.String())
	}
	if api == "urlparse" {
		raw := "telnet://" + neturl.UserPassword(call, pw).String() + "@" + addr + "/wl2k"
		if withParam {
			raw += "?" + q.Encode()
		}
		u, err := transport.ParseURL(raw)
		if err == nil && u.User != nil {
			gotPW, _ := u.User.Password()
			if u.User.Username() == call && gotPW == pw && u.Host == addr {
				return u, nil
			}
		}
		// how connect URLs are parsed is C19's subject: compose the URL value directly instead
		return nil, errors.New("urlparse-fallback")
	}
	return &transport.URL{Scheme: "telnet", Host: addr, User: neturl.UserPassword(call, pw), Target: "wl2k", Params: q}, nil
}

// prepDial resolves the package's dial API selected by api; the returned function performs the call
// (contexts are created at call time, as a caller would). fallback reports that the parsed connect
// URL did not reproduce the credentials and a composed URL value is used instead.
func prepDial(api, addr, call, pw string, timeout time.Duration) (do func() (net.Conn, error), fallback bool) {
	switch api {
	case "ctx":
		return func() (net.Conn, error) {
			ctx, cancel := context.WithTimeout(context.Background(), timeout)
			defer cancel() // as every caller does; DialTimeout does the same internally
			return telnet.DialContext(ctx, addr, call, pw)
		}, false
	case "bg":
		return func() (net.Conn, error) { return telnet.DialContext(context.Background(), addr, call, pw) }, false
	case "timeout":
		return func() (net.Conn, error) { return telnet.DialTimeout(addr, call, pw, timeout) }, false
	case "url", "urlparse":
		u, err := mkURL(api, addr, call, pw, timeout, true)
		if err != nil {
			fallback = true
			u, _ = mkURL("url", addr, call, pw, timeout, true)
		}
		return func() (net.Conn, error) { return transport.DialURL(u) }, fallback // through the registry → telnet.DefaultDialer
	case "dialer":
		u, _ := mkURL("url", addr, call, pw, timeout, false)
		return func() (net.Conn, error) { d := telnet.Dialer{Timeout: timeout}; return d.DialURL(u) }, false
	case "dialer-reused":
		// one Dialer value used for several dials (as telnet.DefaultDialer is): an earlier dial with a
		// dial_timeout parameter (to a server that hangs up at once) and one with an unparsable
		// parameter must not change what a later dial without the parameter does
		u, _ := mkURL("url", addr, call, pw, timeout, false)
		return func() (net.Conn, error) {
			d := telnet.Dialer{Timeout: timeout}
			if h2, err := startHostile("immediate-close"); err == nil {
				u1, _ := mkURL("url", h2.ln.Addr().String(), call, pw, time.Minute, true)
				if c, err := d.DialURL(u1); err == nil {
					c.Close()
				}
				u2, _ := mkURL("url", h2.ln.Addr().String(), call, pw, time.Minute, true)
				u2.Params.Set("dial_timeout", "soon")
				if c, err := d.DialURL(u2); err == nil {
					c.Close()
				}
				h2.close()
			}
			return d.DialURL(u)
		}, false
	case "regctx":
		// the way applications dial: through the transport package's registry, with a context and no dial_timeout parameter
		u, _ := mkURL("url", addr, call, pw, timeout, false)
		return func() (net.Conn, error) {
			ctx, cancel := context.WithTimeout(context.Background(), timeout)
			defer cancel()
			return transport.DialURLContext(ctx, u)
		}, false
	case "dialer-laterctx", "param-laterctx", "dialer-earlierctx", "param-earlierctx":
		const later = 3 * time.Second
		dialerT, paramT, ctxT := timeout, time.Duration(0), timeout+later
		switch api {
		case "param-laterctx":
			dialerT, paramT = time.Minute, timeout
		case "dialer-earlierctx":
			dialerT, ctxT = timeout+later, timeout
		case "param-earlierctx":
			dialerT, paramT, ctxT = time.Minute, timeout+later, timeout
		}
		u, _ := mkURL("url", addr, call, pw, paramT, paramT > 0)
		return func() (net.Conn, error) {
			ctx, cancel := context.WithTimeout(context.Background(), ctxT)
			defer cancel()
			d := telnet.Dialer{Timeout: dialerT}
			return d.DialURLContext(ctx, u)
		}, false
	case "urlctx":
		u, _ := mkURL("url", addr, call, pw, timeout, false)
		return func() (net.Conn, error) {
			ctx, cancel := context.WithDeadline(context.Background(), time.Now().Add(timeout))
			defer cancel()
			var d telnet.Dialer
			return d.DialURLContext(ctx, u)
		}, false
	}
	panic("unknown api " + api)
}

func isTimeout(err error) bool {
	var ne net.Error
	return errors.Is(err, context.DeadlineExceeded) || errors.Is(err, os.ErrDeadlineExceeded) || (errors.As(err, &ne) && ne.Timeout())
}

// closeWrite half-closes the TCP connection underneath whatever the package returned.
func closeWrite(c net.Conn) error {
	for i := 0; i < 4; i++ {
		if cw, ok := c.(interface{ CloseWrite() error }); ok {
			return cw.CloseWrite()
		}
		// unwrap the package's connection type (value or pointer, whichever the package hands out):
		// a struct with an embedded net.Conn called Conn
		v := reflect.ValueOf(c)
		if v.Kind() == reflect.Ptr {
			v = v.Elem()
		}
		if v.Kind() != reflect.Struct {
			return fmt.Errorf("no CloseWrite on %T", c)
		}
		f := v.FieldByName("Conn")
		inner, ok := net.Conn(nil), false
		if f.IsValid() && f.CanInterface() {
			inner, ok = f.Interface().(net.Conn)
		}
		if !ok || inner == nil {
			return fmt.Errorf("no CloseWrite on %T", c)
		}
		c = inner
	}
	return errors.New("no CloseWrite")
}

// ---------------------------------------------------------------------------------------------
// post-login traffic of one application

type sideResult struct {
	got   []byte
	rerr  error // read error other than EOF
	werr  error // write or half-close error
	reads int
	// copied: (the rest of) the stream was taken with io.Copy
	copied bool
}

type pauseSpec struct {
	at    int       // pause before writing byte offset at
	until time.Time // … until this instant has passed
}

// transfer writes send (first write immediately unless waitPeer) and half-closes, and reads until
// EOF, concurrently. Write and read sizes are PRNG-drawn.
func transfer(conn net.Conn, send []byte, r *rand.Rand, waitPeer bool, pause *pauseSpec) sideResult {
	var res sideResult
	wseed, rseed := r.Int63(), r.Int63()
	readDone := make(chan struct{})
	var wg sync.WaitGroup
	wg.Add(2)
	go func() { // reader
		defer wg.Done()
		defer close(readDone)
		rr := rand.New(rand.NewSource(rseed))
		var buf []byte
		// one side in four takes (the rest of) the stream the way a relay does: io.Copy, directly from the first byte or
		// after a few Read calls (io.Copy uses the connection's WriteTo when it has one)
		style := rr.Intn(8)
		for {
			if style < 2 && res.reads >= []int{0, 3}[style] {
				var rest bytes.Buffer
				_, err := io.Copy(&rest, conn)
				res.reads++
				res.copied = true
				res.got = append(res.got, rest.Bytes()...)
				if err != nil {
					res.rerr = err
					conn.Close()
				}
				return
			}
			var n int
			switch {
			case res.reads < 6:
				n = vrt.Pick(rr, []int{1, 1, 2, 5, 64, 4096})
			default:
				n = vrt.Pick(rr, []int{64, 512, 4096, 4096, 16384, 70000})
			}
			if cap(buf) < n {
				buf = make([]byte, n)
			}
			m, err := conn.Read(buf[:n])
			res.reads++
			res.got = append(res.got, buf[:m]...)
			if err != nil {
				if err != io.EOF {
					res.rerr = err
					conn.Close() // failed connection: release the writer and the peer
				}
				return
			}
		}
	}()
	go func() { // writer
		defer wg.Done()
		if waitPeer {
			<-readDone
		}
		wr := rand.New(rand.NewSource(wseed))
		for off := 0; off < len(send); {
			n := len(send) - off
			switch wr.Intn(5) {
			case 0:
				n = 1
			case 1:
				n = 1 + wr.Intn(100)
			case 2:
				n = 1 + wr.Intn(8192)
			}
			n = min(n, len(send)-off)
			if pause != nil && off < pause.at && off+n > pause.at {
				n = pause.at - off
			}
			if pause != nil && off == pause.at {
				if d := time.Until(pause.until); d > 0 {
					time.Sleep(d)
				}
			}
			m, err := conn.Write(send[off : off+n])
			off += m
			if err != nil {
				res.werr = err
				conn.Close() // no half-close possible any more: release the reader and the peer
				return
			}
		}
		if err := closeWrite(conn); err != nil {
			res.werr = err
			conn.Close()
		}
	}()
	wg.Wait()
	return res
}

func addPlanCounters(o *vrt.Obs, dir string, st tcpx.Stats) {
	o.Count("proxy_"+dir+"_bytes", st.BytesOut)
	o.Count("proxy_"+dir+"_segments", st.Writes)
	o.Count("proxy_"+dir+"_planned_segments", st.Planned)
	o.Count("proxy_"+dir+"_idle_flushes", st.IdleFlushes)
}

// judgeStream compares what one application read with what the other one wrote.
func judgeStream(o *vrt.Obs, leg, dir, reader string, want []byte, res sideResult, p params) {
	if res.copied {
		o.Count("streams_taken_with_io.Copy_"+dir, 1)
		reader += " (io.Copy)"
	}
	if cl := classify(want, res.got); cl != "" {
		if leg == "eager" && dir == "s2c" {
			// Outside the property: C15's stream clause speaks of "dialling a listener of this
			// package", and that listener never sends before it has read the password, so bytes can
			// never share a segment with the password prompt. The harness's eager server does send
			// early; what the dialler does with those bytes is recorded, not judged.
			o.Count("observed_outside_property_eager_server_bytes_"+cl, 1)
			return
		}
		v := o.Violate(fmt.Sprintf("%s:%s:%s", leg, dir, cl),
			"%s application read %d bytes until EOF, the peer wrote %d after login (%s; api=%s call=%q plan c2s=%s s2c=%s hold_k=%d order=%s)",
			reader, len(res.got), len(want), cl, p.API, p.Call, p.PlanC2S, p.PlanS2C, p.HoldK, p.Order)
		v.Detail = map[string]any{"want_head_hex": fmt.Sprintf("%x", head(want, 48)), "got_head_hex": fmt.Sprintf("%x", head(res.got, 48)),
			"missing_bytes": len(want) - len(res.got)}
	}
}

func head(b []byte, n int) []byte {
	if len(b) > n {
		return b[:n]
	}
	return b
}

// ---------------------------------------------------------------------------------------------
// legs pair / eager / idle

// teardown collects what has to be closed to release every goroutine of a login attempt, and a few
// progress marks for the description of a stalled attempt.
type teardown struct {
	mu      sync.Mutex
	closers []func()
	marks   []string
}

func (t *teardown) add(f func()) {
	t.mu.Lock()
	t.closers = append(t.closers, f)
	t.mu.Unlock()
}

func (t *teardown) mark(s string) {
	t.mu.Lock()
	t.marks = append(t.marks, s)
	t.mu.Unlock()
}

func (t *teardown) closeAll() string {
	t.mu.Lock()
	cs, marks := t.closers, fmt.Sprint(t.marks)
	t.closers = nil
	t.mu.Unlock()
	for _, f := range cs {
		f()
	}
	return marks
}

// stallBound is the bounded-progress restatement of "arrives complete": a loopback login plus at
// most 2 x 64 kB of traffic normally takes well under a second; if an attempt has not finished after
// this long it is torn down and repeated, and only three stalled attempts in a row are reported.
const stallBound = 30 * time.Second

// confirmedStalls counts stall violations of this worker process. After two, further login cases
// are skipped (inconclusive) so that a tree that stalls on every login is reported in bounded time.
var confirmedStalls atomic.Int64

func mergeObs(o *vrt.Obs, a vrt.Obs) {
	o.Sigs = append(o.Sigs, a.Sigs...)
	o.Violations = append(o.Violations, a.Violations...)
	o.Inconclusive = append(o.Inconclusive, a.Inconclusive...)
	for k, v := range a.Counters {
		o.Count(k, v)
	}
	if a.Sample != nil {
		o.Sample = a.Sample
	}
}

func runLogin(o *vrt.Obs, p params) {
	o.Evals = 1
	if confirmedStalls.Load() >= 2 {
		o.Inconclusive = append(o.Inconclusive, "skipped: this worker already confirmed two stalled logins")
		return
	}
	const attempts = 3
	var where []string
	for a := 0; a < attempts; a++ {
		td := &teardown{}
		ch := make(chan vrt.Obs, 1)
		go func() {
			var ao vrt.Obs
			vrt.Guard(&ao, func() { loginAttempt(&ao, p, td) })
			ch <- ao
		}()
		select {
		case ao := <-ch:
			mergeObs(o, ao)
			if a > 0 {
				o.Count("logins_completed_only_on_retry", 1)
			}
			return
		case <-time.After(stallBound + time.Duration(p.DMs+p.IdleMS)*time.Millisecond):
		}
		where = append(where, td.closeAll())
		o.Count("login_attempts_stalled", 1)
		select { // everything the attempt can block on has been closed
		case <-ch:
		case <-time.After(10 * time.Second):
			o.Count("stalled_attempts_abandoned", 1) // blocked on something that is not I/O: leave the goroutines behind
		}
	}
	confirmedStalls.Add(1)
	o.Violate(p.Leg+":stalled", "login + transfer did not complete within %v in %d of %d attempts (api=%s call=%q plan c2s=%s s2c=%s order=%s n_c2s=%d n_s2c=%d); progress marks per attempt: %v",
		stallBound, attempts, attempts, p.API, p.Call, p.PlanC2S, p.PlanS2C, p.Order, p.NC2S, p.NS2C, where)
}

func loginAttempt(o *vrt.Obs, p params, td *teardown) {
	call, pw := string(p.Call), string(p.PW)
	r := vrt.Rand(p.Seed, "c15-run")
	payC2S := genPayload(r, p.NC2S)
	payS2C := genPayload(r, p.NS2C)
	copy(payC2S, p.Head)
	copy(payS2C, p.Head)
	n1, n2 := len(call)+1, len(pw)+1
	loginC2S, loginS2C := n1+n2, len(promptCall)+len(promptPass)
	eager := p.Leg == "eager"

	// proxy plans
	var c2s, s2c tcpx.Plan
	holdK := min(p.HoldK, p.NC2S)
	if eager {
		holdK = min(p.HoldK, p.NS2C)
		// the dialler answers each prompt only after it arrived: n1 is a barrier; the eager server
		// waits for the callsign line only: the first prompt is a barrier
		bs := []int{len(promptCall)}
		if p.Order == "dialer-first" { // the server's remaining payload comes only after the dialler's EOF
			bs = append(bs, loginS2C+holdK)
		}
		c2s = mkPlan(p.PlanC2S, p.Seed, loginC2S, p.NC2S, []int{n1}, n1, 0)
		s2c = mkPlan(p.PlanS2C, p.Seed+1, loginS2C, p.NS2C, bs, len(promptCall), holdK)
	} else {
		// the listener sends nothing past a prompt before the reply arrived: both prompts are barriers
		bc := []int{n1}
		if p.Order == "listener-first" { // the dialler's payload comes only after the listener's EOF
			bc = append(bc, loginC2S)
		}
		c2s = mkPlan(p.PlanC2S, p.Seed, loginC2S, p.NC2S, bc, n1, holdK)
		s2c = mkPlan(p.PlanS2C, p.Seed+1, loginS2C, p.NS2C, []int{len(promptCall), loginS2C}, 0, 0)
	}

	// server side
	var (
		srvAddr  string
		srvClose func()
	)
	type srvOut struct {
		res        sideResult
		remoteCall string
		gotCall    []byte // eager: the callsign / password lines as received (without CR)
		gotPW      []byte
		err        error
		stage      string
	}
	srvCh := make(chan srvOut, 1)
	srvRng := vrt.Rand(p.Seed, "c15-srv")
	waitSrv := p.Order == "dialer-first"
	waitCli := p.Order == "listener-first"
	var pauseC, pauseS *pauseSpec
	dialTimeout := loginTimeout
	t0 := time.Now()
	if p.Leg == "idle" {
		dialTimeout = time.Duration(p.DMs) * time.Millisecond
		until := t0.Add(dialTimeout + 1500*time.Millisecond)
		if p.IdleMS > 0 {
			until = t0.Add(time.Duration(p.IdleMS) * time.Millisecond)
		}
		pauseC = &pauseSpec{at: p.NC2S / 2, until: until}
		pauseS = &pauseSpec{at: p.NS2C / 2, until: until}
	}

	if eager {
		ln, err := net.Listen("tcp", "127.0.0.1:0")
		if err != nil {
			o.Inconclusive = append(o.Inconclusive, "listen: "+err.Error())
			return
		}
		srvAddr, srvClose = ln.Addr().String(), func() { ln.Close() }
		go func() {
			var out srvOut
			defer func() { srvCh <- out }()
			c, err := ln.Accept()
			if err != nil {
				out.err, out.stage = err, "accept"
				return
			}
			defer c.Close()
			td.add(func() { c.Close() })
			td.mark("server-accepted")
			rd := bufio.NewReader(c)
			if _, err := c.Write([]byte(promptCall)); err != nil {
				out.err, out.stage = err, "write callsign prompt"
				return
			}
			line, err := rd.ReadBytes('\r')
			if err != nil {
				out.err, out.stage = err, "read callsign line"
				return
			}
			out.gotCall = bytes.TrimSuffix(line, []byte{'\r'})
			// the password prompt and the first payload bytes leave in ONE write; the password
			// reply is consumed from the stream afterwards
			first := append([]byte(promptPass), payS2C[:holdK]...)
			if _, err := c.Write(first); err != nil {
				out.err, out.stage = err, "write password prompt"
				return
			}
			pwDone := make(chan struct{})
			var pwErr error
			go func() {
				defer close(pwDone)
				line, err := rd.ReadBytes('\r')
				out.gotPW, pwErr = bytes.TrimSuffix(line, []byte{'\r'}), err
			}()
			// the rest is ordinary duplex traffic; reads go through rd (this server's own reader)
			sc := &bufConn{Conn: c, rd: rd, after: pwDone}
			out.res = transfer(sc, payS2C[holdK:], srvRng, waitSrv, pauseS)
			<-pwDone
			if pwErr != nil && out.res.rerr == nil {
				out.err, out.stage = pwErr, "read password line"
			}
		}()
	} else {
		ln, err := telnet.Listen("127.0.0.1:0")
		if err != nil {
			o.Inconclusive = append(o.Inconclusive, "listen: "+err.Error())
			return
		}
		srvAddr, srvClose = ln.Addr().String(), func() { ln.Close() }
		go func() {
			var out srvOut
			defer func() { srvCh <- out }()
			c, err := ln.Accept()
			if err != nil {
				out.err, out.stage = err, "accept"
				if c != nil {
					c.Close()
				}
				return
			}
			defer c.Close()
			td.add(func() { c.Close() })
			td.mark("accept-returned")
			if rc, ok := c.(interface{ RemoteCall() string }); ok {
				out.remoteCall = rc.RemoteCall()
			} else {
				out.err, out.stage = fmt.Errorf("accepted connection %T has no RemoteCall()", c), "remote-call"
			}
			out.res = transfer(c, payS2C, srvRng, waitSrv, pauseS)
			td.mark("server-transfer-done")
		}()
	}
	defer srvClose()
	td.add(srvClose)

	px, err := tcpx.New(srvAddr, c2s, s2c)
	if err != nil {
		o.Inconclusive = append(o.Inconclusive, "proxy: "+err.Error())
		return
	}
	defer px.Close()
	td.add(px.Close)

	// dialler side
	doDial, fb := prepDial(p.API, px.Addr(), call, pw, dialTimeout)
	if fb {
		o.Count("urlparse_fallback_to_composed_url", 1)
	}
	conn, derr := doDial()
	if derr != nil || conn == nil {
		srvClose()
		px.Close()
		<-srvCh
		if p.Leg == "idle" && isTimeout(derr) {
			// the short timeout of this leg expired during login (machine load): nothing to judge
			o.Inconclusive = append(o.Inconclusive, fmt.Sprintf("idle leg: login did not finish within %v (%v)", dialTimeout, derr))
			return
		}
		if stC, _, _ := px.Stats(); strings.HasPrefix(stC.Err, "dial target:") {
			o.Inconclusive = append(o.Inconclusive, "proxy could not reach the server: "+stC.Err)
			return
		}
		if errors.Is(derr, syscall.EADDRNOTAVAIL) || errors.Is(derr, syscall.EADDRINUSE) || errors.Is(derr, syscall.EMFILE) {
			o.Inconclusive = append(o.Inconclusive, "out of local ports / descriptors: "+derr.Error())
			return
		}
		o.Violate(p.Leg+":dial-failed", "dialling a well-behaved server failed: %v (api=%s call=%q plan c2s=%s s2c=%s)", derr, p.API, call, p.PlanC2S, p.PlanS2C)
		return
	}
	td.add(func() { conn.Close() })
	td.mark("dial-returned")
	cliRes := transfer(conn, payC2S, vrt.Rand(p.Seed, "c15-cli"), waitCli, pauseC)
	td.mark("dialler-transfer-done")
	if cliRes.rerr != nil || cliRes.werr != nil {
		conn.Close() // no half-close was sent: let the server side see the end of the connection
	}
	srv := <-srvCh
	conn.Close()
	px.Close()
	stC, stS, links := px.Stats()

	o.Count("logins_completed", 1)
	o.Count("logins_"+p.Leg, 1)
	o.Count("api_"+p.API, 1)
	addPlanCounters(o, "c2s", stC)
	addPlanCounters(o, "s2c", stS)
	if links != 1 {
		o.Inconclusive = append(o.Inconclusive, fmt.Sprintf("proxy saw %d links", links))
	}
	// was the planned coalescing offered to the kernel? (first write after the barrier carries the
	// last login line plus hold_k payload bytes)
	if holdK > 0 {
		st, wantSeg := stC, n2+holdK
		if eager {
			st, wantSeg = stS, len(promptPass)+holdK
		}
		realised := false
		for _, sz := range st.FirstSizes {
			if sz == wantSeg {
				realised = true
			}
		}
		if realised && ((eager && p.PlanS2C == "hold") || (!eager && p.PlanC2S == "hold")) {
			o.Count("hold_segments_realised", 1)
		} else if (eager && p.PlanS2C == "hold") || (!eager && p.PlanC2S == "hold") {
			o.Count("hold_segments_not_realised", 1)
		}
	}

	// ---- oracle ----
	if srv.err != nil {
		o.Violate(p.Leg+":server-side:"+keyWord(srv.stage), "server side failed at %q: %v (api=%s call=%q)", srv.stage, srv.err, p.API, call)
		return
	}
	if eager {
		o.Count("login_lines_checked", 2)
		if string(srv.gotCall) != call {
			o.Violate("eager:callsign-line-altered", "server received callsign line %q, the dialler was given %q", srv.gotCall, call)
		}
		if string(srv.gotPW) != pw {
			o.Violate("eager:password-line-altered", "server received password line %q, the dialler was given %q", srv.gotPW, pw)
		}
		// the server's view of what it sent after login is the whole payload (first part rode with the prompt)
	} else {
		o.Count("remote_call_checked", 1)
		if srv.remoteCall != call {
			o.Violate("pair:remote-call", "RemoteCall() = %q, the dialler's callsign is %q (class %s)", srv.remoteCall, call, p.CallClass)
		}
	}
	// I/O errors after login come first: once a side failed, the byte counts of the other side are
	// a consequence of the teardown, not an observation of their own
	ioErr := false
	for _, e := range []struct {
		who, op string
		err     error
		n       int
	}{{"dialler", "write", cliRes.werr, 0}, {"server", "write", srv.res.werr, 0}, {"dialler", "read", cliRes.rerr, len(cliRes.got)}, {"server", "read", srv.res.rerr, len(srv.res.got)}} {
		if e.err == nil {
			continue
		}
		// a reset seen by one side after the other side already failed is part of the same failure
		if ioErr && !isTimeout(e.err) {
			continue
		}
		ioErr = true
		key := fmt.Sprintf("%s:%s-error:%s", p.Leg, e.op, e.who)
		if isTimeout(e.err) {
			key += ":timeout"
		}
		o.Violate(key, "%s application got a %s error after login: %v (after %d bytes read; api=%s plan c2s=%s s2c=%s)", e.who, e.op, e.err, e.n, p.API, p.PlanC2S, p.PlanS2C)
	}
	o.Count("bytes_compared_c2s", int64(len(srv.res.got)))
	o.Count("bytes_compared_s2c", int64(len(cliRes.got)))
	if !ioErr {
		judgeStream(o, p.Leg, "c2s", "server", payC2S, srv.res, p)
		judgeStream(o, p.Leg, "s2c", "dialler", payS2C, cliRes, p)
	}

	if p.NC2S+p.NS2C > 0 {
		o.Sig("%s|%s|%s|%s|%s|%s|%s|%s|%s|k%s", p.Leg, p.API, p.CallClass, p.PWClass, p.PlanC2S, p.PlanS2C, p.Order, sizeBucket(p.NC2S), sizeBucket(p.NS2C), sizeBucket(holdK))
	}
	if len(o.Violations) == 0 && ((p.HoldK == 100 && p.API == "timeout") || (p.Leg == "idle" && p.API == "timeout")) {
		o.Sample = map[string]any{"leg": p.Leg, "api": p.API, "call": call, "password": pw, "plan_c2s": c2s.Cuts, "plan_s2c": s2c.Cuts,
			"c2s_first_segments": head2(stC.FirstSizes, 12), "s2c_first_segments": head2(stS.FirstSizes, 12),
			"payload_c2s": p.NC2S, "payload_s2c": p.NS2C, "server_read": len(srv.res.got), "dialler_read": len(cliRes.got), "remote_call": srv.remoteCall}
	}
}

func head2(xs []int, n int) []int {
	if len(xs) > n {
		return xs[:n]
	}
	return xs
}

func keyWord(s string) string {
	b := []byte(s)
	for i := range b {
		if b[i] == ' ' {
			b[i] = '-'
		}
	}
	return string(b)
}

// bufConn is the eager server's view of its connection: reads come from its own buffered reader
// and start only after the password line has been consumed from it.
type bufConn struct {
	net.Conn
	rd    *bufio.Reader
	after chan struct{}
}

func (b *bufConn) Read(p []byte) (int, error) {
	<-b.after
	return b.rd.Read(p)
}

func (b *bufConn) CloseWrite() error { return b.Conn.(*net.TCPConn).CloseWrite() }

// ---------------------------------------------------------------------------------------------
// leg deadline

func runDeadline(o *vrt.Obs, p params) {
	o.Evals = 1
	d := time.Duration(p.DMs) * time.Millisecond
	type dialOut struct {
		conn net.Conn
		err  error
		took time.Duration
	}
	const attempts = 3
	late, overruns := 0, 0
	for a := 0; a < attempts; a++ {
		h, err := startHostile(p.Kind)
		if err == errNoFullQueue {
			o.Count("syn_unanswered_servers_not_available_on_this_system", 1)
			return
		}
		if err != nil {
			o.Inconclusive = append(o.Inconclusive, "hostile server: "+err.Error())
			return
		}
		done := make(chan dialOut, 1)
		call := string(p.Call)
		if p.CallMiB > 0 {
			call = strings.Repeat("N0CALL-1", p.CallMiB<<17)
			o.Count("deadline_dials_with_a_callsign_larger_than_the_socket_buffers", 1)
		}
		doDial, _ := prepDial(p.API, h.addr(), call, string(p.PW), d)
		t0 := time.Now()
		// a control timer set for the same deadline at the same moment: how late IT fires is how late the machine is
		ctrl := make(chan time.Duration, 1)
		go func() {
			time.Sleep(d)
			ctrl <- time.Since(t0) - d
		}()
		go func() {
			c, err := doDial()
			done <- dialOut{c, err, time.Since(t0)}
		}()
		var out dialOut
		returned := false
		select {
		case out = <-done:
			returned = true
		case <-time.After(d + deadlineSlack):
		}
		reached := h.accepted.Load() > 0 || p.Kind == "backlog" || p.Kind == "syn-unanswered"
		h.close() // also releases a dial that is still blocked
		if !returned {
			late++
			o.Count("dial_not_returned_by_deadline_plus_10s", 1)
			select {
			case out = <-done:
				if out.conn != nil {
					out.conn.Close()
				}
			case <-time.After(5 * time.Second):
				// not even the torn-down server brought it back: the dial goroutine is lost (and may be burning a processor);
				// nothing else is judged in this process after this case
				o.Count("dial_not_returned_5s_after_the_server_was_torn_down", 1)
				o.Poisoned = true
			}
			continue
		}
		// returned within the slack - but clearly after the deadline while the control timer was on time? The slack is there
		// for a loaded machine; a dial that is more than half a second late while a timer set for the same instant fired
		// within 100 ms was not held up by the machine. Only three such attempts in a row are a verdict.
		if over := out.took - d; over > 500*time.Millisecond {
			var ctrlLate time.Duration
			select {
			case ctrlLate = <-ctrl:
			case <-time.After(deadlineSlack):
				ctrlLate = deadlineSlack
			}
			if ctrlLate < 100*time.Millisecond {
				overruns++
				o.Count("dial_returned_over_500ms_late_while_the_control_timer_was_on_time", 1)
				if out.conn != nil {
					out.conn.Close()
				}
				if overruns == attempts {
					o.Violate("deadline-overrun:"+p.Kind, "%s against a %q server with a deadline of %v returned %v after the deadline in %d of %d attempts, each time while a timer set for the same deadline fired on time (< 100 ms late): the dial itself waits beyond its deadline (last error: %v)",
						p.API, p.Kind, d, over.Round(time.Millisecond), overruns, attempts, out.err)
					return
				}
				continue
			}
		}
		// the dial call returned in time
		o.Count("deadline_dials_returned", 1)
		o.Count("deadline_api_"+p.API, 1)
		o.Count("deadline_kind_"+p.Kind, 1)
		if out.took > d+time.Second {
			o.Count("returned_more_than_1s_past_deadline", 1)
		}
		if out.took < d {
			o.Count("returned_before_deadline", 1)
		}
		if out.conn != nil && out.err == nil {
			out.conn.Close()
			o.Violate("deadline:"+p.Kind+":returned-connection", "%s against a %q server (deadline %v) returned a connection although the server never completed the login", p.API, p.Kind, d)
		} else if out.conn != nil {
			out.conn.Close()
		}
		if reached {
			o.Sig("deadline|%s|%s|%d", p.Kind, p.API, p.DMs)
		} else {
			o.Inconclusive = append(o.Inconclusive, "hostile server was never reached: "+fmt.Sprint(out.err))
		}
		if a > 0 {
			o.Count("deadline_met_only_on_retry", 1)
		}
		if p.API == "ctx" && p.DMs == 300 && (p.Kind == "silent" || p.Kind == "garbage-no-cr") {
			o.Sample = map[string]any{"leg": "deadline", "server": p.Kind, "api": p.API, "deadline_ms": p.DMs, "returned_after_ms": out.took.Milliseconds(),
				"error": fmt.Sprint(out.err), "bytes_server_received": h.gotBytes.Load()}
		}
		return
	}
	o.Violate("deadline-ignored:"+p.Kind, "%s against a %q server with a deadline of %v had not returned %v after the deadline in %d of %d attempts (it returned only when the server was torn down; %d further attempt(s) returned more than 500 ms late while a control timer was on time)",
		p.API, p.Kind, d, deadlineSlack, late, attempts, overruns)
}
