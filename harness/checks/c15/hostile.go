package c15

import (
	"bufio"
	"errors"
	"fmt"
	"net"
	"strings"
	"sync"
	"sync/atomic"
	"syscall"
	"time"
)

// Hostile servers for the deadline clause. None of them ever sends a complete password prompt, so
// a dial against them can only end in an error; the question is whether it ends at all.
var hostileKinds = []string{
	"silent",               // accepts, never sends a byte
	"backlog",              // listening socket whose owner never calls accept
	"syn-unanswered",       // listening socket whose accept queue is full: the connect itself gets no answer (an overloaded or black-holed host)
	"partial-prompt",       // "Callsi" and then nothing
	"prompt-no-cr",         // "Callsign :" without the CR, then nothing
	"garbage-no-cr",        // endless stream of bytes without any CR (keeps the read busy)
	"garbage-lines",        // endless stream of CR-terminated lines that are no prompts
	"flood-lines",          // the same at full speed in minimal lines: thousands of lines per read, the dialler is hardly ever inside a read
	"flood-prompts",        // callsign prompts at full speed, answers never read
	"prompt-never-reads",   // callsign prompts now and then, not one byte of the answers is ever read (the dialler's writes can block)
	"prompt-then-silence",  // proper callsign prompt, reads the answer, never continues
	"callsign-forever",     // answers every callsign with another callsign prompt
	"password-no-cr-drip",  // callsign prompt, then "Password :" dripped byte-wise, never a CR
	"immediate-close",      // accepts and closes
	"reset",                // accepts and resets the connection
	"close-after-callsign", // callsign prompt, reads the answer, closes
}

type hostile struct {
	ln       net.Listener
	kind     string
	stop     chan struct{}
	wg       sync.WaitGroup
	mu       sync.Mutex
	conns    []net.Conn
	accepted atomic.Int64 // connections the server saw
	gotBytes atomic.Int64 // bytes the dialler sent
	// syn-unanswered: a raw listening socket (backlog 0) and its address
	fd      int
	rawAddr string
}

var errNoFullQueue = errors.New("the accept queue of a loopback socket could not be filled on this system")

// startUnanswered opens a loopback socket that listens with a backlog of zero, never accepts, and fills its accept
// queue: the kernel then drops further SYNs, a connect to it gets no answer at all.
func startUnanswered() (*hostile, error) {
	fd, err := syscall.Socket(syscall.AF_INET, syscall.SOCK_STREAM|syscall.SOCK_CLOEXEC, 0)
	if err != nil {
		return nil, err
	}
	h := &hostile{kind: "syn-unanswered", stop: make(chan struct{}), fd: fd}
	if err = syscall.Bind(fd, &syscall.SockaddrInet4{Addr: [4]byte{127, 0, 0, 1}}); err == nil {
		err = syscall.Listen(fd, 0)
	}
	var sa syscall.Sockaddr
	if err == nil {
		sa, err = syscall.Getsockname(fd)
	}
	if err != nil {
		syscall.Close(fd)
		return nil, err
	}
	h.rawAddr = fmt.Sprintf("127.0.0.1:%d", sa.(*syscall.SockaddrInet4).Port)
	for i := 0; i < 16; i++ {
		c, err := net.DialTimeout("tcp", h.rawAddr, 400*time.Millisecond)
		if err != nil {
			var ne net.Error
			if errors.As(err, &ne) && ne.Timeout() {
				return h, nil // from now on connects get no answer
			}
			h.close()
			return nil, err
		}
		h.conns = append(h.conns, c)
	}
	h.close()
	return nil, errNoFullQueue
}

func startHostile(kind string) (*hostile, error) {
	ln, err := net.Listen("tcp", "127.0.0.1:0")
	if err != nil {
		return nil, err
	}
	if kind == "syn-unanswered" {
		ln.Close()
		return startUnanswered()
	}
	h := &hostile{ln: ln, kind: kind, stop: make(chan struct{})}
	if kind == "backlog" {
		return h, nil // the kernel completes the handshake; nobody ever accepts
	}
	h.wg.Add(1)
	go func() {
		defer h.wg.Done()
		for {
			c, err := ln.Accept()
			if err != nil {
				return
			}
			h.accepted.Add(1)
			h.mu.Lock()
			h.conns = append(h.conns, c)
			h.mu.Unlock()
			h.wg.Add(1)
			go func() { defer h.wg.Done(); h.serve(c) }()
		}
	}()
	return h, nil
}

func (h *hostile) addr() string {
	if h.ln == nil {
		return h.rawAddr
	}
	return h.ln.Addr().String()
}

// close ends the server; every connection is closed, which also releases a dial that hangs.
func (h *hostile) close() {
	close(h.stop)
	if h.ln == nil {
		syscall.Close(h.fd)
	} else {
		h.ln.Close()
	}
	h.mu.Lock()
	for _, c := range h.conns {
		c.Close()
	}
	h.mu.Unlock()
	h.wg.Wait()
}

func (h *hostile) sleep(d time.Duration) bool {
	select {
	case <-h.stop:
		return false
	case <-time.After(d):
		return true
	}
}

// drain counts and discards whatever the dialler sends until the connection ends.
func (h *hostile) drain(c net.Conn) {
	buf := make([]byte, 4096)
	for {
		n, err := c.Read(buf)
		h.gotBytes.Add(int64(n))
		if err != nil {
			return
		}
	}
}

func (h *hostile) readLine(rd *bufio.Reader) bool {
	line, err := rd.ReadBytes('\r')
	h.gotBytes.Add(int64(len(line)))
	return err == nil
}

func (h *hostile) serve(c net.Conn) {
	rd := bufio.NewReader(c)
	switch h.kind {
	case "silent":
		h.drain(c)
	case "partial-prompt":
		c.Write([]byte("Callsi"))
		h.drain(c)
	case "prompt-no-cr":
		c.Write([]byte("Callsign :"))
		h.drain(c)
	case "garbage-no-cr":
		go h.drain(c)
		chunk := make([]byte, 512)
		for i := range chunk {
			b := byte(i*131 + 7)
			if b == '\r' {
				b = '.'
			}
			chunk[i] = b
		}
		for {
			if _, err := c.Write(chunk); err != nil {
				return
			}
			if !h.sleep(5 * time.Millisecond) {
				return
			}
		}
	case "garbage-lines":
		go h.drain(c)
		for i := 0; ; i++ {
			lines := "Welcome to nowhere\r\n*** please wait\rcall sign?\rpass word?\r\r \r"
			if _, err := c.Write([]byte(lines)); err != nil {
				return
			}
			if !h.sleep(5 * time.Millisecond) {
				return
			}
		}
	case "flood-lines", "flood-prompts":
		go h.drain(c)
		unit := "x\r"
		if h.kind == "flood-prompts" {
			unit = promptCall
		}
		chunk := []byte(strings.Repeat(unit, 32768/len(unit)))
		for {
			select {
			case <-h.stop:
				return
			default:
			}
			c.SetWriteDeadline(time.Now().Add(200 * time.Millisecond)) // so that stop is noticed while the dialler does not read
			if _, err := c.Write(chunk); err != nil {
				if ne, ok := err.(net.Error); ok && ne.Timeout() {
					continue
				}
				return
			}
		}
	case "prompt-never-reads":
		if tc, ok := c.(*net.TCPConn); ok {
			tc.SetReadBuffer(4096)
		}
		for {
			if _, err := c.Write([]byte(promptCall)); err != nil {
				return
			}
			if !h.sleep(20 * time.Millisecond) {
				return
			}
		}
	case "prompt-then-silence":
		c.Write([]byte(promptCall))
		h.readLine(rd)
		h.drain(c)
	case "callsign-forever":
		for {
			if _, err := c.Write([]byte(promptCall)); err != nil {
				return
			}
			if !h.readLine(rd) {
				return
			}
			if !h.sleep(2 * time.Millisecond) {
				return
			}
		}
	case "password-no-cr-drip":
		c.Write([]byte(promptCall))
		h.readLine(rd)
		go h.drain(c)
		for i := 0; ; i++ {
			s := "Password :"
			if _, err := c.Write([]byte{s[i%len(s)]}); err != nil {
				return
			}
			if !h.sleep(20 * time.Millisecond) {
				return
			}
		}
	case "immediate-close":
		c.Close()
	case "reset":
		if tc, ok := c.(*net.TCPConn); ok {
			tc.SetLinger(0)
		}
		c.Close()
	case "close-after-callsign":
		c.Write([]byte(promptCall))
		h.readLine(rd)
		c.Close()
	}
}
