package c15

import (
	"bufio"
	"bytes"
	"fmt"
	"io"
	"net"
	"time"

	"github.com/la5nta/wl2k-go/transport/telnet"

	"verif/internal/vrt"
)

// The "overlap" leg: several stations are logged in on ONE listener before any of the sessions is
// read. Every client sends its password line and its first payload bytes in one write (so the
// listener's login reader has read past the password line), the application accepts the next
// client before it reads the previous session, and only then are all sessions read, in varying
// order. Each session must yield exactly its own client's bytes and call sign: what one login read
// ahead must not depend on the logins that follow.
func runOverlap(o *vrt.Obs, p params) {
	o.Evals++
	r := vrt.Rand(p.Seed, "c15overlap", p.NC2S)
	ln, err := telnet.Listen("127.0.0.1:0")
	if err != nil {
		o.Inconclusive = append(o.Inconclusive, "overlap: listen: "+err.Error())
		return
	}
	defer ln.Close()
	n := 2 + r.Intn(3)
	type client struct {
		call    string
		payload []byte
		conn    net.Conn
		err     chan error
	}
	cs := make([]*client, n)
	servers := make([]net.Conn, n)
	defer func() {
		for i := range cs {
			if cs[i] != nil && cs[i].conn != nil {
				cs[i].conn.Close()
			}
			if servers[i] != nil {
				servers[i].Close()
			}
		}
	}()
	for i := range cs {
		c := &client{call: fmt.Sprintf("N%dCALL-%d", i, 1+r.Intn(15)), err: make(chan error, 1)}
		size := []int{1, 57, 300, 1000, 3000, 3900}[r.Intn(6)]
		if p.NC2S > 0 {
			size = min(size, p.NC2S)
		}
		c.payload = bytes.Repeat([]byte(fmt.Sprintf("[payload of station %d]", i)), size/20+1)[:size]
		cs[i] = c
		conn, err := net.DialTimeout("tcp", ln.Addr().String(), 10*time.Second)
		if err != nil {
			o.Inconclusive = append(o.Inconclusive, "overlap: dial: "+err.Error())
			return
		}
		c.conn = conn
		go func() {
			rd := bufio.NewReader(conn)
			conn.SetDeadline(time.Now().Add(30 * time.Second))
			if _, err := rd.ReadString('\r'); err != nil {
				c.err <- err
				return
			}
			if _, err := io.WriteString(conn, c.call+"\r"); err != nil {
				c.err <- err
				return
			}
			if _, err := rd.ReadString('\r'); err != nil {
				c.err <- err
				return
			}
			// password line and first payload bytes in one write
			_, err := conn.Write(append([]byte("secret\r"), c.payload...))
			c.err <- err
		}()
		srv, err := ln.Accept()
		if err != nil {
			o.Violate("overlap:accept", "Accept for station %d of %d on one listener failed: %v", i, n, err)
			return
		}
		servers[i] = srv
		if cerr := <-c.err; cerr != nil {
			o.Inconclusive = append(o.Inconclusive, "overlap: client login: "+cerr.Error())
			return
		}
		time.Sleep(time.Duration(r.Intn(3)) * time.Millisecond) // let the payload arrive before the next login starts
	}
	order := r.Perm(n)
	for _, i := range order {
		srv, c := servers[i], cs[i]
		if rc, ok := srv.(interface{ RemoteCall() string }); !ok || rc.RemoteCall() != c.call {
			o.Violate("overlap:remote-call", "session %d of %d: RemoteCall() does not give %q", i, n, c.call)
		}
		got := make([]byte, len(c.payload))
		srv.SetReadDeadline(time.Now().Add(30 * time.Second))
		m, err := io.ReadFull(srv, got)
		o.Count("overlap_sessions_read", 1)
		o.Count("overlap_bytes_compared", int64(m))
		if err != nil {
			if isTimeout(err) {
				o.Violate("overlap:stream-short", "session %d of %d stations logged in on one listener: only %d of the %d bytes its client sent with the password line arrived within 30 s", i, n, m, len(c.payload))
			} else {
				o.Violate("overlap:read-error", "session %d of %d stations logged in on one listener: Read failed after %d of %d bytes: %v", i, n, m, len(c.payload), err)
			}
			continue
		}
		if !bytes.Equal(got, c.payload) {
			d := 0
			for d < len(got) && got[d] == c.payload[d] {
				d++
			}
			o.Violate("overlap:stream-differs", "session %d of %d stations logged in on one listener (read order %v): the bytes read differ from what its own client sent at byte %d: got %q, sent %q", i, n, order, d, head(got[d:], 40), head(c.payload[d:], 40))
		}
	}
	o.Sig("overlap|n%d|%v", n, order)
	o.Sample = map[string]any{"leg": "overlap", "stations": n, "read_order": order}
}
