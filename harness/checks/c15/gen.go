package c15

import (
	"bytes"
	"math/rand"
	"sort"
	"strings"

	"verif/internal/tcpx"
	"verif/internal/vrt"
)

// The two prompts the package's listener sends (transport/telnet/listen.go); the eager reference
// server of this check sends the same bytes.
const (
	promptCall = "Callsign :\r"
	promptPass = "Password :\r"
)

var callClasses = []string{"realistic", "empty", "long200", "latin1", "utf8", "spaces", "binary"}

const alnum = "ABCDEFGHIJKLMNOPQRSTUVWXYZ0123456789"

func randAlnum(r *rand.Rand, n int) string {
	b := make([]byte, n)
	for i := range b {
		b[i] = alnum[r.Intn(len(alnum))]
	}
	return string(b)
}

// genString draws a callsign or password of the given class: any bytes except CR.
func genString(r *rand.Rand, class string) string {
	switch class {
	case "empty":
		return ""
	case "long200":
		return randAlnum(r, 200)
	case "latin1":
		n := 1 + r.Intn(24)
		b := make([]byte, n)
		for i := range b {
			if r.Intn(3) == 0 {
				b[i] = alnum[r.Intn(len(alnum))]
			} else {
				b[i] = byte(0xA1 + r.Intn(0xFF-0xA1+1)) // printable Latin-1, high half
			}
		}
		return string(b)
	case "utf8":
		pool := []string{"Å", "ø", "Æ", "ñ", "ü", "é", "ß", "Ж", "д", "λ", "日", "本", "語", "한", "🙂", "📡", "A", "5", "-", "Z"}
		n := 1 + r.Intn(16)
		var sb strings.Builder
		for i := 0; i < n; i++ {
			sb.WriteString(pool[r.Intn(len(pool))])
		}
		return sb.String()
	case "spaces":
		// inner blanks of several kinds (space, tab, LF: the login only splits on CR)
		seps := []string{" ", " ", "  ", "\t", "\n", " \n "}
		n := 2 + r.Intn(4)
		var parts []string
		for i := 0; i < n; i++ {
			parts = append(parts, randAlnum(r, 1+r.Intn(5)))
		}
		s := parts[0]
		for _, p := range parts[1:] {
			s += seps[r.Intn(len(seps))] + p
		}
		return s
	case "binary":
		n := 1 + r.Intn(40)
		b := vrt.Bytes(r, n)
		for i := range b {
			if b[i] == '\r' {
				b[i] = 'x'
			}
		}
		return string(b)
	default: // realistic
		s := randAlnum(r, 3+r.Intn(4))
		if r.Intn(2) == 0 {
			s += "-" + string("0123456789"[r.Intn(10)])
			if r.Intn(3) == 0 {
				s += string("012345"[r.Intn(6)])
			}
		}
		if r.Intn(4) == 0 {
			s = strings.ToLower(s)
		}
		return s
	}
}

// genCall is genString restricted to the stated domain of callsigns: no leading/trailing white
// space (the listener trims it, so such a callsign is not representable).
func genCall(r *rand.Rand, class string) string {
	s := strings.TrimSpace(genString(r, class))
	if s == "" && class != "empty" {
		s = "N0CALL"
	}
	return s
}

// genPayload returns n bytes of post-login traffic. The content is deliberately hostile to a login
// parser that keeps looking at the stream: CRs, prompt look-alikes, any byte value.
func genPayload(r *rand.Rand, n int) []byte {
	if n == 0 {
		return nil
	}
	var b []byte
	switch r.Intn(4) {
	case 0: // B2F-like text
		for len(b) < n {
			b = append(b, "[WL2K-5.0-B2FWIHJM$]\r;PQ: 23753528\rCMS via telnet >\r  lower Case and Spaces  \r"...)
		}
	case 1: // prompt look-alikes
		for len(b) < n {
			b = append(b, "Password :\rCallsign :\rcallsign\rPASSWORD\r\n \t"...)
		}
	default:
		b = vrt.Bytes(r, n)
	}
	return b[:n]
}

func uniqSorted(xs []int) []int {
	sort.Ints(xs)
	out := xs[:0]
	for i, x := range xs {
		if x > 0 && (i == 0 || x != xs[i-1]) {
			out = append(out, x)
		}
	}
	return out
}

func seq(from, to int) []int { // from..to inclusive
	var xs []int
	for i := from; i <= to; i++ {
		xs = append(xs, i)
	}
	return xs
}

// mkPlan builds the proxy plan of one direction.
//
//	kind     pass | byte | split | hold
//	login    number of login bytes this direction carries before the first payload byte
//	barriers offsets that must be cuts of a split plan because the sender cannot produce a byte
//	         beyond them before the bytes up to them were delivered (end of a line the peer waits for)
//	holdFrom hold plan: offset where the last login line starts; holdK payload bytes ride with it
func mkPlan(kind string, seed int64, login, payload int, barriers []int, holdFrom, holdK int) tcpx.Plan {
	r := vrt.Rand(seed, "plan", kind, login)
	total := login + payload
	tail := "pass"
	if r.Intn(2) == 0 {
		tail = "rand"
	}
	p := tcpx.Plan{Seed: seed, Tail: tail, TailMax: 1 + r.Intn(16384)}
	switch kind {
	case "byte":
		p.Cuts = seq(1, min(login+16, total))
		p.GapUs = 200
	case "split":
		span := login + min(payload, 64)
		var cuts []int
		for i, n := 0, 1+r.Intn(7); i < n && span > 0; i++ {
			cuts = append(cuts, 1+r.Intn(span))
		}
		cuts = append(cuts, barriers...)
		p.Cuts = uniqSorted(cuts)
		p.GapUs = 700
	case "hold":
		cuts := append([]int{}, barriers...)
		cuts = append(cuts, holdFrom, login+holdK)
		p.Cuts = uniqSorted(cuts)
		p.GapUs = 1500
	}
	return p
}

func sizeBucket(n int) string {
	switch {
	case n == 0:
		return "0"
	case n == 1:
		return "1"
	case n < 100:
		return "<100"
	case n < 4096:
		return "<4k"
	case n == 4096:
		return "4k"
	case n < 65536:
		return "<64k"
	default:
		return "64k"
	}
}

// classify names how got differs from want ("" = identical).
func classify(want, got []byte) string {
	switch {
	case bytes.Equal(want, got):
		return ""
	case len(got) < len(want) && bytes.HasSuffix(want, got):
		return "lost-head" // the first bytes never arrived, the rest is intact
	case len(got) < len(want) && bytes.HasPrefix(want, got):
		return "truncated"
	case len(got) == len(want):
		return "altered"
	case len(got) > len(want):
		return "extra-bytes"
	default:
		return "lost-and-altered"
	}
}
