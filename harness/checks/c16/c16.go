// Package c16: secure-login answers follow the Winlink algorithm, never exposing the password.
// The reference peer (master) issues ;PQ challenges to a real slave Session; the oracle is the
// independent implementation of the response algorithm plus a scan of every byte the Session wrote.
package c16

import (
	"bytes"
	"errors"
	"fmt"
	"math/rand"
	"strings"
	"sync"

	"github.com/la5nta/wl2k-go/fbb"

	"verif/internal/b2fx"
	"verif/internal/ref/secref"
	"verif/internal/vpipe"
	"verif/internal/vrt"
)

type params struct {
	Seed  int64 `json:"seed"`
	Index int   `json:"index"`
	Count int   `json:"count"`
	Fixed bool  `json:"fixed,omitempty"`
}

var Check = &vrt.Check{
	ID:    "C16",
	Level: "exploration",
	Rule: "each execution is one handshake of a real slave Session against the reference master issuing ';PQ: <challenge>': PRNG challenges (8 digits, or 1..64 printable/Latin-1 characters with inner " +
		"spaces; fixed challenges of 65..70000 characters around the 4096-byte and 64 KiB line lengths), passwords of any bytes without CR, 0..4 auxiliary addresses x {password known, none, callback error}, callback absent / failing for the primary address; " +
		"non-trivial = a ;PR line was produced and compared; distinct = distinct (challenge, password, aux configuration) tuples",
	Assumptions: []string{
		"challenges are non-empty, contain no CR/LF/NUL and no leading or trailing blanks (the session's line reader trims them)",
		"passwords used for the leak scan are >= 6 bytes and drawn so that they are not a substring of any other field; they contain no CR",
		"the 64-byte Winlink salt in the reference is a trusted copy; the reference is checked against the two public vectors at every start",
	},
	SelfTest:      secref.SelfTest,
	Plan:          plan,
	Run:           run,
	MinNontrivial: 1000,
}

func plan(seed int64, tier string) []vrt.Case {
	n, per := 20000, 400
	if tier == "thorough" {
		n, per = 1000000, 8000
	}
	cs := []vrt.Case{{ID: "fixed", Params: vrt.MustParams(params{Seed: seed, Fixed: true}), TimeoutS: 300}}
	for i := 0; i < n; i += per {
		cs = append(cs, vrt.Case{ID: fmt.Sprintf("rand-%d", i), Params: vrt.MustParams(params{Seed: seed, Index: i, Count: per}), TimeoutS: 900})
	}
	return cs
}

type auxSpec struct {
	addr string // as it must appear on the wire (the address itself, no protocol tag)
	mode int    // 0 password known, 1 no password (""), 2 callback error
	pw   string
	in   string // how the application names it (default: addr): "call@winlink.org", an e-mail address ...
}

func (a auxSpec) input() string {
	if a.in != "" {
		return a.in
	}
	return a.addr
}

type scen struct {
	challenge string
	primary   string // password of the primary address
	primMode  int    // 0 ok, 1 callback returns an error, 2 no callback registered
	aux       []auxSpec
}

func genChallenge(r *rand.Rand) string {
	switch r.Intn(4) {
	case 0, 1:
		return fmt.Sprintf("%08d", r.Intn(100000000))
	}
	n := 1 + r.Intn(64)
	b := make([]byte, n)
	for i := range b {
		switch r.Intn(10) {
		case 0:
			b[i] = ' '
		case 1:
			b[i] = byte(0xA1 + r.Intn(0x5e)) // Latin-1 printable
		default:
			b[i] = byte(0x21 + r.Intn(0x5e))
		}
	}
	for b[0] == ' ' {
		b[0] = 'c'
	}
	for b[n-1] == ' ' {
		b[n-1] = 'c'
	}
	return string(b)
}

func genPassword(r *rand.Rand, tag string) string {
	n := 4 + r.Intn(20)
	b := make([]byte, n)
	for i := range b {
		switch r.Intn(8) {
		case 0:
			b[i] = byte(r.Intn(256))
		case 1:
			b[i] = byte('A' + r.Intn(26))
		default:
			b[i] = byte('a' + r.Intn(26))
		}
		if b[i] == '\r' {
			b[i] = 'x'
		}
	}
	// unique marker so that the password is not a substring of another field by accident
	return "pW" + tag + string(b)
}

func genScen(r *rand.Rand) scen {
	s := scen{challenge: genChallenge(r), primary: genPassword(r, "0")}
	switch r.Intn(12) {
	case 0:
		s.primMode = 1
	case 1:
		s.primMode = 2
	case 2:
		s.primary = "" // an empty password is still a password
	}
	for i, n := 0, r.Intn(5); i < n; i++ {
		a := auxSpec{addr: fmt.Sprintf("AUX%d", i), mode: r.Intn(3)}
		if a.mode == 0 {
			a.pw = genPassword(r, fmt.Sprint(i+1))
		}
		s.aux = append(s.aux, a)
	}
	// auxiliary entries of other kinds: an internet address (it has a protocol tag inside the library, never on the
	// ;FW line) and the station's own address listed once more (as call@winlink.org): entries like any other
	switch r.Intn(6) {
	case 0:
		s.aux = append(s.aux, auxSpec{addr: "ops@example.org", mode: 0, pw: genPassword(r, "smtp")})
	case 1:
		s.aux = append(s.aux, auxSpec{addr: "nopass@example.org", mode: 1})
	case 2:
		if s.primMode == 0 && s.primary != "" { // (an empty password means "none known" for an auxiliary entry)
			s.aux = append(s.aux, auxSpec{addr: "N0LIB", in: "n0lib@winlink.org", mode: 0, pw: s.primary})
		}
	}
	return s
}

var errNoPassword = errors.New("password store unavailable")

func exec(o *vrt.Obs, s scen, tag string) {
	o.Evals++
	w := b2fx.BaseWorld(tag, false)
	w.Plan.Challenge = s.challenge
	// one handshake in four: the remote issues its challenge before its SID line (nothing ties ;PQ to a place
	// among the remote's handshake lines; a challenge that was issued must be answered)
	if (len(s.challenge)+len(s.primary)+len(s.aux))%4 == 0 {
		w.Plan.PQFirst = true
		o.Count("challenges_issued_before_the_sid_line", 1)
	}
	w.Plan.ExpectLocator = "JO29PJ"
	for _, a := range s.aux {
		w.Aux = append(w.Aux, a.input())
	}
	calls := 0
	if s.primMode != 2 {
		w.Secure = func(addr fbb.Address) (string, error) {
			calls++
			if strings.EqualFold(addr.Addr, w.LibCall) {
				if s.primMode == 1 {
					return "", errNoPassword
				}
				return s.primary, nil
			}
			for _, a := range s.aux {
				if strings.EqualFold(a.addr, addr.Addr) {
					switch a.mode {
					case 0:
						return a.pw, nil
					case 1:
						return "", nil
					default:
						return "", errNoPassword
					}
				}
			}
			return "", errNoPassword
		}
	}
	run := w.Run(true, [2][]vpipe.Edit{})
	res := run.Res
	detail := map[string]any{"challenge": s.challenge, "primary_mode": s.primMode, "aux": fmt.Sprintf("%+v", s.aux), "handshake_lines": res.HandshakeLines, "exchange_error": fmt.Sprint(run.Lib.Err)}
	viol := func(key, format string, a ...any) {
		v := o.Violate(key, format, a...)
		v.Detail = detail
	}
	if run.Lib.Panic != nil {
		o.Violations = append(o.Violations, vrt.PanicViolation(run.Lib.Panic, []byte(run.Lib.Stack)))
		return
	}
	wire := run.LibWire
	// the password never appears on the wire
	for _, pw := range append([]string{s.primary}, auxPasswords(s)...) {
		if len(pw) >= 6 && bytes.Contains(wire, []byte(pw)) {
			viol("password-on-wire", "the password appears in the bytes the session wrote")
		}
	}
	o.Count("wire_bytes_scanned", int64(len(wire)))
	if s.primMode != 0 {
		// no callback / callback error for the primary address: the handshake must fail, no ;PR
		if run.Lib.Err == nil {
			viol("handshake-succeeded-without-password", "Exchange returned nil although the password callback is %s", []string{"", "failing", "absent"}[s.primMode])
		}
		if bytes.Contains(wire, []byte(";PR")) {
			viol("pr-without-password", "a ;PR line was sent although the password callback is %s", []string{"", "failing", "absent"}[s.primMode])
		}
		o.Count("failing_callback_cases", 1)
		o.Sig("fail %q %d %d", s.challenge, s.primMode, len(s.aux))
		return
	}
	for _, c := range res.Complaints {
		viol("judge:"+c.Rule, "reference peer: %s", c.Detail)
	}
	if run.Lib.Err != nil || res.Err != nil {
		viol("handshake-failed:"+b2fx.ErrClass(run.Lib.Err), "session with a valid password callback did not complete: Exchange=%v peer=%v", run.Lib.Err, res.Err)
		return
	}
	want := ";PR: " + secref.Response(s.challenge, s.primary)
	if res.LibPR != want {
		viol("pr-value", "challenge %q: station answered %q, the Winlink algorithm gives %q", s.challenge, res.LibPR, want)
	}
	wantFW := ";FW: " + strings.ToUpper(w.LibCall)
	for _, a := range s.aux {
		wantFW += " " + a.addr
		if a.mode == 0 {
			wantFW += "|" + secref.Response(s.challenge, a.pw)
		}
	}
	if res.LibFW != wantFW {
		viol("fw-value", "challenge %q: station sent %q, expected %q", s.challenge, res.LibFW, wantFW)
	}
	o.Count("pr_lines_compared", 1)
	o.Count("aux_entries_compared", int64(len(s.aux)))
	o.Count("callback_calls", int64(calls))
	o.Sig("%q %q %v", s.challenge, s.primary, s.aux)
	if o.Sample == nil && len(s.aux) > 1 {
		o.Sample = map[string]any{"challenge": s.challenge, "aux": fmt.Sprintf("%+v", s.aux), "fw_line": res.LibFW, "pr_line": res.LibPR}
	}
}

// execRelogin: a refused login followed by another attempt ON THE SAME Session VALUE, with another challenge and with
// a password store that answers differently by then (the user corrected the password; an auxiliary password became
// known or unknown): the second answer must be computed from what the callback returns during the second handshake.
func execRelogin(o *vrt.Obs, s1, s2 scen, tag string) {
	o.Evals++
	cur := &s1
	var libCall string
	secure := func(addr fbb.Address) (string, error) {
		s := *cur
		if strings.EqualFold(addr.Addr, libCall) {
			return s.primary, nil
		}
		for _, a := range s.aux {
			if strings.EqualFold(a.addr, addr.Addr) {
				switch a.mode {
				case 0:
					return a.pw, nil
				case 1:
					return "", nil
				default:
					return "", errNoPassword
				}
			}
		}
		return "", errNoPassword
	}
	w1 := b2fx.BaseWorld(tag+"-first", false)
	libCall = w1.LibCall
	w1.Plan.Challenge, w1.Plan.ExpectLocator, w1.Plan.RejectLogin = s1.challenge, "JO29PJ", true
	for _, a := range s1.aux {
		w1.Aux = append(w1.Aux, a.addr)
	}
	w1.Secure = secure
	run1 := w1.Run(true, [2][]vpipe.Edit{})
	if run1.Lib.Panic != nil {
		o.Violations = append(o.Violations, vrt.PanicViolation(run1.Lib.Panic, []byte(run1.Lib.Stack)))
		return
	}
	if run1.Lib.Err == nil || run1.Session == nil || run1.Session.Done() {
		o.Inconclusive = append(o.Inconclusive, fmt.Sprintf("%s: the refused login did not leave a Session that can be used again (err=%v)", tag, run1.Lib.Err))
		return
	}
	cur = &s2
	w2 := b2fx.BaseWorld(tag+"-second", false)
	w2.Plan.Challenge, w2.Plan.ExpectLocator = s2.challenge, "JO29PJ"
	w2.Session = run1.Session
	run2 := w2.Run(true, [2][]vpipe.Edit{})
	res := run2.Res
	viol := func(key, format string, a ...any) {
		v := o.Violate(key, format, a...)
		v.Detail = map[string]any{"first_attempt": fmt.Sprintf("%+v", s1), "second_attempt": fmt.Sprintf("%+v", s2), "handshake_lines_second": res.HandshakeLines, "exchange_error_second": fmt.Sprint(run2.Lib.Err)}
	}
	if run2.Lib.Panic != nil {
		o.Violations = append(o.Violations, vrt.PanicViolation(run2.Lib.Panic, []byte(run2.Lib.Stack)))
		return
	}
	for _, pw := range append([]string{s1.primary, s2.primary}, append(auxPasswords(s1), auxPasswords(s2)...)...) {
		if len(pw) >= 6 && (bytes.Contains(run1.LibWire, []byte(pw)) || bytes.Contains(run2.LibWire, []byte(pw))) {
			viol("password-on-wire", "a password appears in the bytes the session wrote")
		}
	}
	if run2.Lib.Err != nil || res.Err != nil {
		viol("relogin:handshake-failed:"+b2fx.ErrClass(run2.Lib.Err), "second attempt on the same Session did not complete: Exchange=%v peer=%v", run2.Lib.Err, res.Err)
		return
	}
	for _, c := range res.Complaints {
		viol("judge:"+c.Rule, "reference peer (second attempt): %s", c.Detail)
	}
	if want := ";PR: " + secref.Response(s2.challenge, s2.primary); res.LibPR != want {
		viol("relogin:pr-value", "second attempt, challenge %q: station answered %q, the algorithm gives %q for the password the callback returns NOW (%q for the one it returned at the first attempt)", s2.challenge, res.LibPR, want, ";PR: "+secref.Response(s2.challenge, s1.primary))
	}
	wantFW := ";FW: " + strings.ToUpper(w2.LibCall)
	for _, a := range s2.aux {
		wantFW += " " + a.addr
		if a.mode == 0 {
			wantFW += "|" + secref.Response(s2.challenge, a.pw)
		}
	}
	if res.LibFW != wantFW {
		viol("relogin:fw-value", "second attempt: station sent %q, expected %q", res.LibFW, wantFW)
	}
	o.Count("relogins_on_the_same_session_compared", 1)
	o.Sig("relogin %q %q", s1.challenge, s2.challenge)
}

func auxPasswords(s scen) []string {
	var out []string
	for _, a := range s.aux {
		if a.mode == 0 {
			out = append(out, a.pw)
		}
	}
	return out
}

func run(c vrt.Case) vrt.Obs {
	var p params
	vrt.Params(c, &p)
	var o vrt.Obs
	if p.Fixed {
		fixed := []scen{
			{challenge: "23753528", primary: "FOOBAR"},
			{challenge: "23753528", primary: "FooBar"},
			{challenge: "00000000", primary: "password"},
			{challenge: "1", primary: "pWshort1"},
			{challenge: strings.Repeat("9", 64), primary: "pWlongchallenge"},
			{challenge: "with inner spaces", primary: "pWspaces"},
			{challenge: "12345678", primary: "pWaux", aux: []auxSpec{{addr: "AUX0", pw: "pWauxone"}, {addr: "AUX1", mode: 1}, {addr: "AUX2", mode: 2}, {addr: "AUX3", pw: "pWauxfour"}}},
			{challenge: "12345678", primary: "pWnocallback", primMode: 2},
			{challenge: "12345678", primary: "pWcallbackerr", primMode: 1, aux: []auxSpec{{addr: "AUX0", pw: "pWauxone"}}},
			{challenge: "12345678", primary: ""},
		}
		// long challenges: nothing bounds the length of the remote's line; the boundaries are those of a 4096-byte line buffer
		// (";PQ: " + 4091 characters) and of the 64 KiB mark
		for _, n := range []int{65, 200, 1000, 4090, 4091, 4092, 4093, 4200, 9000, 65531, 70000} {
			b := make([]byte, n)
			for i := range b {
				b[i] = byte('0' + (i*7+i/10+n)%10)
			}
			sc := scen{challenge: string(b), primary: "pWlongline"}
			if n%2 == 0 {
				sc.aux = []auxSpec{{addr: "AUX0", pw: "pWauxlong"}}
			}
			fixed = append(fixed, sc)
		}
		// responses with leading zeros / small values are rare: search a few challenges that produce them
		for i, found := 0, 0; i < 2000000 && found < 6; i++ {
			ch := fmt.Sprintf("%08d", i)
			if r := secref.Response(ch, "pWleadingzero"); strings.HasPrefix(r, "00") {
				fixed = append(fixed, scen{challenge: ch, primary: "pWleadingzero"})
				found++
			}
		}
		for i, s := range fixed {
			exec(&o, s, fmt.Sprintf("fixed-%d", i))
		}
		// refused login, then another attempt on the same Session value
		r := vrt.Rand(p.Seed, "c16-relogin")
		for i := 0; i < 120; i++ {
			s1, s2 := genScen(r), genScen(r)
			s1.primMode, s2.primMode = 0, 0
			s2.aux = nil
			for _, a := range s1.aux { // same addresses, what is known about them differs
				b := auxSpec{addr: a.addr, in: a.in, mode: r.Intn(3)}
				if b.mode == 0 {
					b.pw = genPassword(r, "z"+a.addr)
				}
				if a.addr == "N0LIB" { // the station's own address listed again: its password is the primary one
					b.mode, b.pw = 0, s2.primary
					if s2.primary == "" {
						b.mode = 1
					}
				}
				s2.aux = append(s2.aux, b)
			}
			execRelogin(&o, s1, s2, fmt.Sprintf("relogin-%d", i))
		}
		return o
	}
	if p.Count > 0 && (p.Index/p.Count)%2 == 1 {
		// every other batch runs its handshakes from 8 goroutines at once (several sessions of one
		// program answering challenges at the same moment): each handshake must still get the answer the
		// algorithm defines for ITS challenge and password
		const workers = 8
		parts := make([]vrt.Obs, workers)
		var wg sync.WaitGroup
		for g := 0; g < workers; g++ {
			wg.Add(1)
			go func() {
				defer wg.Done()
				for i := p.Index + g; i < p.Index+p.Count; i += workers {
					r := vrt.Rand(p.Seed, "c16", i)
					exec(&parts[g], genScen(r), fmt.Sprintf("s%d", i))
				}
			}()
		}
		wg.Wait()
		for _, a := range parts {
			o.Evals += a.Evals
			o.Sigs = append(o.Sigs, a.Sigs...)
			o.Violations = append(o.Violations, a.Violations...)
			o.Inconclusive = append(o.Inconclusive, a.Inconclusive...)
			for k, v := range a.Counters {
				o.Count(k, v)
			}
			if a.Sample != nil {
				o.Sample = a.Sample
			}
		}
		o.Count("handshakes_run_concurrently", int64(p.Count))
		return o
	}
	for i := p.Index; i < p.Index+p.Count; i++ {
		r := vrt.Rand(p.Seed, "c16", i)
		exec(&o, genScen(r), fmt.Sprintf("s%d", i))
	}
	return o
}
