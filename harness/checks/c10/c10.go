// Package c10: the directory mailbox behaves like a simple mailbox model over any history.
//
// A small sequential model (folders as maps, a per-session deferred set, the send-only flag and the
// routing rule) is stepped in lock-step with the real mailbox.DirHandler working on a tmpfs
// directory. Every observable the package offers is compared with the model: return values of the
// operations, the four folder listings (MIDs, bytes modulo the headers the mailbox adds itself,
// unread flag), the four *Count methods, GetOutbound for fifteen forwarder lists ({}, {A}, {A,B}, duplicates, other spellings, strangers, SMTP) and
// GetInboundAnswer for every MID of the universe.
package c10

import (
	"bytes"
	"fmt"
	"os"
	"path/filepath"
	"sort"
	"strings"

	"github.com/la5nta/wl2k-go/fbb"
	"github.com/la5nta/wl2k-go/mailbox"

	"verif/internal/mboxkit"
	"verif/internal/vrt"
)

var Check = &vrt.Check{
	ID:    "C10",
	Level: "exploration",
	Rule: "a case is a batch of operation histories over {AddOut, Prepare, SetSent, SetDeferred, ProcessInbound (one and two messages), SetUnread(true/false), restart} " +
		"x 3 MIDs, for 4 casts of (recipient set incl. Cc-only and To+Cc, P2P-only) per MID, in normal and send-only mode; all histories up to length 3 (thorough: 4) that respect " +
		"the documented preconditions are enumerated, plus PRNG histories of length 10-60 with per-operation message variants; after the last operation of every exhaustive history " +
		"(all prefixes are themselves enumerated) and after every operation of a PRNG history ALL observables are compared with the model. A history is non-trivial when at least one stored " +
		"message was compared with the model (listing or GetOutbound result), i.e. the mailbox was not empty all along; distinct = distinct (mode, cast, operation sequence)",
	Assumptions: []string{
		"preconditions documented by the interface are respected: Prepare is called first on every new DirHandler; SetSent and SetDeferred only for MIDs currently in the outbox (SetSent log.Fatalf's otherwise, by design); SetUnread only for messages listed from the inbox",
		"a MID that has been moved to sent/ may be queued again (a corrected copy, a re-send): until that copy is marked sent the model holds the earlier copy in sent/ and the new one in out/ " +
			"(two copies, each in one place); once it is marked sent the MID is in sent/ only, with the new content",
		"listing contents are compared modulo the headers the mailbox itself adds (X-FilePath, X-Unread); GetOutbound results are compared with the stored message minus all three private headers",
		"GetOutbound is compared as a set (the interface promises no order)",
		"archive/ has no writer in the package; it is only observed to stay empty and loadable",
	},
	Plan:          plan,
	Run:           run,
	Exhaustive:    func(string) bool { return false },
	MinNontrivial: 500,
	Extra: func(tier string) map[string]any {
		l := 3
		if tier == "thorough" {
			l = 4
		}
		return map[string]any{"exhaustive_subspaces": []string{fmt.Sprintf("all precondition-respecting histories of length <= %d over the 22-operation alphabet, 4 casts, 2 modes", l)}}
	},
}

// ---------------------------------------------------------------------------------------------
// universe

// the second and third identifier differ in letter case only: two messages, wherever file names are case-sensitive
var mids = []string{"AAAAAAAAAAA1", "B2", "b2"}

const (
	addrA    = "N0AAA"
	addrB    = "N0BBB"
	addrSMTP = "user@example.com"
)

type variant struct {
	Rcpt string // A | B | AB | S
	P2P  bool
}

var rcptSets = map[string][]string{"A": {addrA}, "B": {addrB}, "AB": {addrA, addrB}, "S": {addrSMTP}, "AcB": {addrA}, "AcS": {addrA}, "cA": {}}

// carbon-copy recipients: a recipient is a recipient whether it is in To or in Cc (the sole-recipient
// rule of the P2P filter counts both).
var ccSets = map[string][]string{"AcB": {addrB}, "AcS": {addrSMTP}, "cA": {addrA}}

// model-side normal form of the recipients (what Address.String() yields, upper-cased Winlink
// callsigns, SMTP: prefix for internet addresses) - written out by hand, not computed by the library.
var rcptNorm = map[string][]string{"A": {"N0AAA"}, "B": {"N0BBB"}, "AB": {"N0AAA", "N0BBB"}, "S": {"SMTP:user@example.com"},
	"AcB": {"N0AAA", "N0BBB"}, "AcS": {"N0AAA", "SMTP:user@example.com"}, "cA": {"N0AAA"}}

var casts = [][3]variant{
	{{"A", false}, {"B", true}, {"AB", false}},
	{{"S", false}, {"A", true}, {"B", false}},
	{{"AB", true}, {"S", true}, {"A", false}},
	{{"AcB", false}, {"cA", false}, {"AcS", true}},
}

// forwarder lists as a remote may announce them (;FW is copied as received: duplicates, other
// spellings of one address and addresses nobody writes to are all legal)
var fwLists = [][]string{{}, {addrA}, {addrA, addrB}, {addrA, addrB, addrA}, {"n0aaa", addrA}, {"N0CCC"}, {"N0CCC", addrB}, {"N0BBB@winlink.org"}, {addrSMTP, addrSMTP}, {""}, {"", ""}, {"", addrB},
	{"USER@Example.COM"}, {"smtp:user@example.com", addrB}, {"SMTP:User@example.com"}}
var fwNames = []string{"cms", "p2p-A", "p2p-AB", "p2p-ABA", "p2p-aA", "p2p-C", "p2p-CB", "p2p-B@winlink", "p2p-SS", "p2p-empty", "p2p-empty-empty", "p2p-empty-B",
	"p2p-S-other-case", "p2p-S-lower-proto-B", "p2p-S-with-proto"}

// model-side normal form of the announced forwarder addresses, written out by hand
var fwNorm = map[string]string{addrA: "N0AAA", addrB: "N0BBB", "n0aaa": "N0AAA", "N0CCC": "N0CCC", "N0BBB@winlink.org": "N0BBB", addrSMTP: "SMTP:user@example.com", "": "",
	"USER@Example.COM": "SMTP:USER@Example.COM", "smtp:user@example.com": "smtp:user@example.com", "SMTP:User@example.com": "SMTP:User@example.com"}

// operation kinds
const (
	opAdd      = "add"
	opPrepare  = "prepare"
	opSent     = "sent"
	opDefer    = "defer"
	opInbound  = "inbound"
	opInbound2 = "inbound2" // ProcessInbound(m[i], m[(i+1)%3]) in one call
	// ProcessInbound(m[i], X) in one call, where X cannot be stored (its Date header is in no layout the
	// serialiser accepts): m[i] is stored, X is not, and the call must say so (a non-nil error)
	opInboundBad = "inboundbad"
	opUnread     = "unread"
	opRead       = "read"
	opRestart    = "restart"
	// the user (or an archiving tool) moves a stored inbox message to another place and leaves a symbolic link under its
	// name: the message is still in the inbox for every purpose (listing, count, duplicate answers)
	opLinkOut = "linkout"
)

type op struct {
	K   string  `json:"k"`
	M   int     `json:"m"`
	V   variant `json:"v,omitempty"`    // add: message variant
	L   int     `json:"len,omitempty"`  // add/inbound: body length (0 = default)
	T   string  `json:"tag,omitempty"`  // add/inbound: content tag
	F   int     `json:"file,omitempty"` // add/inbound: attachment length
	Rej bool    `json:"rej,omitempty"`  // sent: the 'rejected' argument (no observable effect expected)
}

func (o op) String() string {
	s := o.K
	switch o.K {
	case opPrepare, opRestart:
		return s
	}
	s += fmt.Sprint(o.M)
	if o.K == opAdd {
		s += "(" + o.V.Rcpt
		if o.V.P2P {
			s += ",p2p"
		}
		s += ")"
	}
	return s
}

func histString(h []op) string {
	parts := make([]string, len(h))
	for i, o := range h {
		parts[i] = o.String()
	}
	return strings.Join(parts, " ")
}

var altDates = []string{"20240517134500", "2024.05.17 13:45", "2024-05-17 13:45", "Fri, 17 May 2024 15:45:07 +0200", "2024/05/17 13:45"}

// alphabet returns the 22 operations of the exhaustive part for a cast.
func alphabet(cast [3]variant) []op {
	var a []op
	for i := 0; i < 3; i++ {
		a = append(a, op{K: opAdd, M: i, V: cast[i]})
	}
	a = append(a, op{K: opPrepare})
	for _, k := range []string{opSent, opDefer, opInbound} {
		for i := 0; i < 3; i++ {
			a = append(a, op{K: k, M: i, Rej: k == opSent && i == 1})
		}
	}
	a = append(a, op{K: opInbound2, M: 0}, op{K: opInboundBad, M: 1})
	for _, k := range []string{opUnread, opRead} {
		for i := 0; i < 3; i++ {
			a = append(a, op{K: k, M: i})
		}
	}
	a = append(a, op{K: opRestart})
	return a
}

func outSpec(o op) mboxkit.MsgSpec {
	return mboxkit.MsgSpec{MID: mids[o.M], From: "N0SRC", To: rcptSets[o.V.Rcpt], Cc: ccSets[o.V.Rcpt], P2POnly: o.V.P2P, BodyLen: o.L, FileLen: o.F, Tag: "out" + o.T}
}

func inSpec(m int, o op) mboxkit.MsgSpec {
	sp := mboxkit.MsgSpec{MID: mids[m], From: "N0RMT", To: []string{"N0DST"}, BodyLen: o.L, FileLen: o.F, Tag: "in" + o.T}
	// the second and third identifiers arrive as group messages: repeated To / Cc (and File) header fields
	switch m {
	case 1:
		sp.To, sp.Cc, sp.Files = []string{"N0DST", "N0DS2", "user@example.com"}, []string{"N0CC1", "N0CC2"}, 2
		if sp.FileLen == 0 {
			sp.FileLen = 33
		}
	case 2:
		sp.Cc, sp.Files = []string{"N0CC1", "N0CC2", "N0CC3"}, 3
	}
	return sp
}

// ---------------------------------------------------------------------------------------------
// the model

type stored struct {
	bytes  []byte // the message as handed to the mailbox
	rcpts  []string
	p2p    bool
	unread bool
}

type model struct {
	out, sent, in map[string]*stored
	deferred      map[string]bool
	sendOnly      bool
}

func newModel(sendOnly bool) *model {
	return &model{out: map[string]*stored{}, sent: map[string]*stored{}, in: map[string]*stored{}, deferred: map[string]bool{}, sendOnly: sendOnly}
}

// allowed implements the documented preconditions (see Check.Assumptions).
func (m *model) allowed(o op) bool {
	mid := mids[o.M]
	switch o.K {
	case opSent, opDefer:
		return m.out[mid] != nil
	case opUnread, opRead, opLinkOut:
		return m.in[mid] != nil
	}
	return true
}

func (m *model) apply(o op, msgs [][]byte) {
	mid := mids[o.M]
	switch o.K {
	case opAdd:
		m.out[mid] = &stored{bytes: msgs[0], rcpts: rcptNorm[o.V.Rcpt], p2p: o.V.P2P, unread: mboxkit.HasHeader(msgs[0], "x-unread")} // flagged iff it was handed in flagged
	case opPrepare, opRestart:
		m.deferred = map[string]bool{} // a deferral lasts for one session
	case opSent:
		m.sent[mid] = m.out[mid]
		delete(m.out, mid)
	case opDefer:
		m.deferred[mid] = true
	case opInbound, opInboundBad:
		m.in[mid] = &stored{bytes: msgs[0], unread: true}
	case opInbound2:
		m.in[mid] = &stored{bytes: msgs[0], unread: true}
		m.in[mids[(o.M+1)%3]] = &stored{bytes: msgs[1], unread: true}
	case opUnread:
		m.in[mid].unread = true
	case opRead:
		m.in[mid].unread = false
	}
}

// outbound is the routing rule: a CMS (no forwarders) gets everything that is not P2P-only; a P2P
// peer gets only the messages whose sole recipient is one of the forwarders it announced.
func (m *model) outbound(fw []string) []string {
	var res []string
	for mid, s := range m.out {
		if m.deferred[mid] {
			continue
		}
		ok := false
		if len(fw) == 0 {
			ok = !s.p2p
		} else if len(s.rcpts) == 1 {
			for _, f := range fw {
				if strings.EqualFold(fwNorm[f], s.rcpts[0]) {
					ok = true
				}
			}
		}
		if ok {
			res = append(res, mid)
		}
	}
	sort.Strings(res)
	return res
}

func (m *model) answer(mid string) fbb.ProposalAnswer {
	switch {
	case m.sendOnly:
		return fbb.Defer
	case m.in[mid] != nil:
		return fbb.Reject
	}
	return fbb.Accept
}

// ---------------------------------------------------------------------------------------------
// lock-step execution

type runner struct {
	o        *vrt.Obs
	dir      string
	h        *mailbox.DirHandler
	m        *model
	sendOnly bool
	hist     []op
	label    string
	failed   bool
	compared int // stored messages compared with the model (listings + GetOutbound results)
	// loaded: message values listed from the inbox earlier, kept the way a user interface keeps the
	// message it shows: every other read/unread marking is made on such a kept value instead of a
	// freshly listed one (dropped whenever the inbox content may have changed)
	loaded  map[string]*fbb.Message
	marks   int
	rawDate map[string]string // MID -> the Date field text the inbound message was received with
}

func (r *runner) violate(key, format string, a ...any) {
	r.failed = true
	if len(r.o.Violations) >= 8 {
		r.o.Count("violations_not_listed", 1)
		return
	}
	v := r.o.Violate(key, "%s | history [%s] %s", fmt.Sprintf(format, a...), r.label, histString(r.hist))
	v.Detail = map[string]any{"history": r.hist, "label": r.label, "send_only": r.sendOnly}
}

func (r *runner) open() {
	r.h = mailbox.NewDirHandler(r.dir, r.sendOnly)
	if err := r.h.Prepare(); err != nil {
		r.violate("return:Prepare", "Prepare() = %v, model: nil", err)
	}
}

// step applies one operation to the real handler and the model and compares the return value.
func (r *runner) step(o op) {
	r.hist = append(r.hist, o)
	mid := mids[o.M]
	var msgBytes [][]byte
	switch o.K {
	case opAdd:
		msg := outSpec(o).Build()
		if o.T == "2" || o.T == "again" {
			// a message that comes with the mailbox's own unread flag (a received message queued again, a draft that was
			// flagged): the flag is the mailbox's private business wherever the file is, it does not go out
			msg.Header.Set("X-Unread", "true")
			r.o.Count("outbound_messages_added_with_an_unread_flag", 1)
		}
		msgBytes = [][]byte{mboxkit.MustBytes(msg)}
		if err := r.h.AddOut(msg); err != nil {
			r.violate("return:AddOut", "AddOut(%s) = %v, model: nil", mid, err)
		}
	case opPrepare:
		if err := r.h.Prepare(); err != nil {
			r.violate("return:Prepare", "Prepare() = %v, model: nil", err)
		}
	case opRestart:
		r.open()
	case opSent:
		r.h.SetSent(mid, o.Rej)
	case opDefer:
		r.h.SetDeferred(mid)
	case opInbound, opInbound2:
		r.loaded = nil // the inbox content may change: a kept value would be stale
		idx := []int{o.M}
		if o.K == opInbound2 {
			idx = append(idx, (o.M+1)%3)
		}
		var msgs []*fbb.Message
		for _, i := range idx {
			msg := inSpec(i, o).Build()
			if i == 2 {
				// the third identifier arrives with its Date in one of the other layouts the library reads (BPQ, dots,
				// dashes, RFC 5322 with a zone): the field is the sender's, storing the message does not rewrite it
				alt := altDates[(o.L+len(o.T)+o.F)%len(altDates)]
				msg.Header.Set("Date", alt)
				if r.rawDate == nil {
					r.rawDate = map[string]string{}
				}
				r.rawDate[mids[i]] = alt
			}
			msgBytes = append(msgBytes, mboxkit.MustBytes(msg))
			msgs = append(msgs, msg)
		}
		if err := r.h.ProcessInbound(msgs...); err != nil {
			r.violate("return:ProcessInbound", "ProcessInbound(%v) = %v, model: nil", idx, err)
		}
	case opLinkOut:
		r.loaded = nil
		src := filepath.Join(r.dir, "in", mid+mailbox.Ext)
		if st, err := os.Lstat(src); err == nil && st.Mode().IsRegular() {
			dstDir := filepath.Join(r.dir, "kept-elsewhere")
			os.MkdirAll(dstDir, 0o755)
			dst := filepath.Join(dstDir, mid+mailbox.Ext)
			if os.Rename(src, dst) == nil && os.Symlink(dst, src) == nil {
				r.o.Count("inbox_messages_replaced_by_links", 1)
			}
		}
	case opInboundBad:
		r.loaded = nil
		good := inSpec(o.M, o).Build()
		delete(r.rawDate, mid) // this copy carries the usual layout
		msgBytes = [][]byte{mboxkit.MustBytes(good)}
		bad := mboxkit.MsgSpec{MID: "UNSTORABLE01", From: "N0SRC", To: []string{"N0DST"}, BodyLen: 20}.Build()
		bad.Header.Set("Date", "no date at all")
		if err := r.h.ProcessInbound(good, bad); err == nil {
			r.violate("return:ProcessInbound:nil-for-unstored", "ProcessInbound(%s, <message that cannot be serialised>) = nil although the second message was not stored", mid)
		}
	case opUnread, opRead:
		// the package function needs a message that carries X-FilePath, i.e. one listed from the folder
		r.marks++
		target := r.loaded[mid]
		if target != nil && r.marks%2 == 0 {
			r.o.Count("setunread_on_kept_message_value", 1)
		} else {
			list, err := r.h.Inbox()
			if err != nil {
				r.violate("listing:inbox:error", "Inbox() = %v", err)
				break
			}
			target = nil
			for _, m := range list {
				if m.MID() == mid {
					target = m
				}
			}
			if target == nil {
				r.violate("listing:inbox:set", "Inbox() does not list %s which the model holds", mid)
				break
			}
			if r.loaded == nil {
				r.loaded = map[string]*fbb.Message{}
			}
			r.loaded[mid] = target
		}
		if err := mailbox.SetUnread(target, o.K == opUnread); err != nil {
			r.violate("return:SetUnread", "SetUnread(%s,%v) = %v, model: nil", mid, o.K == opUnread, err)
		}
	}
	r.m.apply(o, msgBytes)
	r.o.Count("op_"+o.K, 1)
}

func keysOf(m map[string]*stored) []string {
	var k []string
	for mid := range m {
		k = append(k, mid)
	}
	sort.Strings(k)
	return k
}

// observe compares every observable of the real mailbox with the model.
func (r *runner) observe() {
	h, m := r.h, r.m
	r.o.Count("full_observations", 1)
	folders := []struct {
		name  string
		list  func() ([]*fbb.Message, error)
		count func() int
		want  map[string]*stored
	}{
		{"inbox", h.Inbox, h.InboxCount, m.in},
		{"outbox", h.Outbox, h.OutboxCount, m.out},
		{"sent", h.Sent, h.SentCount, m.sent},
		{"archive", h.Archive, h.ArchiveCount, map[string]*stored{}},
	}
	for _, f := range folders {
		list, err := f.list()
		if err != nil {
			r.violate("listing:"+f.name+":error", "%s listing failed: %v", f.name, err)
			continue
		}
		got := map[string]*fbb.Message{}
		var gotMids []string
		for _, msg := range list {
			got[msg.MID()] = msg
			gotMids = append(gotMids, msg.MID())
		}
		sort.Strings(gotMids)
		if want := keysOf(f.want); strings.Join(gotMids, ",") != strings.Join(want, ",") {
			r.violate("listing:"+f.name+":set", "%s lists %v, model: %v", f.name, gotMids, want)
			continue
		}
		for mid, s := range f.want {
			b, err := got[mid].Bytes()
			if err != nil {
				r.violate("listing:"+f.name+":bytes", "%s/%s does not serialise: %v", f.name, mid, err)
				continue
			}
			r.o.Count("listed_messages_compared", 1)
			r.compared++
			r.o.Count("bytes_compared", int64(len(b)))
			if !bytes.Equal(mboxkit.Canon(b), mboxkit.Canon(s.bytes)) {
				r.violate("listing:"+f.name+":bytes", "%s/%s differs from the stored message (modulo X-FilePath/X-Unread): got %q want %q", f.name, mid, mboxkit.Canon(b), mboxkit.Canon(s.bytes))
			}
			if want, ok := r.rawDate[mid]; ok && f.name == "inbox" {
				r.o.Count("inbound_date_fields_compared_as_text", 1)
				if gotDate := got[mid].Header.Get("Date"); gotDate != want {
					r.violate("listing:inbox:date", "inbox/%s was received with the field 'Date: %s' and is stored with 'Date: %s'", mid, want, gotDate)
				}
			}
			if u := mailbox.IsUnread(got[mid]); u != s.unread {
				r.violate("listing:"+f.name+":unread", "IsUnread(%s/%s) = %v, model: %v", f.name, mid, u, s.unread)
			}
			// the other way to the same message: OpenMessage on the path the listing reports
			if p := got[mid].Header.Get("X-FilePath"); p != "" {
				om, err := mailbox.OpenMessage(p)
				if err != nil {
					r.violate("openmessage:"+f.name+":error", "OpenMessage(%q), the path the %s listing reports for %s, failed: %v", p, f.name, mid, err)
					continue
				}
				ob, err := om.Bytes()
				if err != nil || !bytes.Equal(mboxkit.Canon(ob), mboxkit.Canon(s.bytes)) || mailbox.IsUnread(om) != s.unread {
					r.violate("openmessage:"+f.name+":bytes", "OpenMessage(%q) does not give the stored message %s/%s (err %v, unread %v, model unread %v)", p, f.name, mid, err, mailbox.IsUnread(om), s.unread)
				}
				r.o.Count("messages_opened_by_path", 1)
			} else {
				r.o.Count("listed_messages_without_a_path_header", 1)
			}
		}
		if c := f.count(); c != len(f.want) {
			r.violate("count:"+f.name, "%s count = %d, model: %d", f.name, c, len(f.want))
		}
	}
	for i, fw := range fwLists {
		var addrs []fbb.Address
		for _, a := range fw {
			addrs = append(addrs, fbb.AddressFromString(a))
		}
		kind := "cms"
		if len(fw) > 0 {
			kind = "p2p"
		}
		res := h.GetOutbound(addrs...)
		var gotMids []string
		for _, msg := range res {
			gotMids = append(gotMids, msg.MID())
		}
		sort.Strings(gotMids)
		want := m.outbound(fw)
		r.o.Count("getoutbound_calls", 1)
		r.o.Count("getoutbound_messages", int64(len(res)))
		if strings.Join(gotMids, ",") != strings.Join(want, ",") {
			r.violate("getoutbound-set:"+kind, "GetOutbound(%s) = %v, model: %v", fwNames[i], gotMids, want)
			continue
		}
		for _, msg := range res {
			mid := msg.MID()
			b, err := msg.Bytes()
			if err != nil {
				r.violate("getoutbound-bytes:"+kind, "GetOutbound(%s): %s does not serialise: %v", fwNames[i], mid, err)
				continue
			}
			leaked := false
			for _, hdr := range []string{"X-P2POnly", "X-FilePath", "X-Unread"} {
				if v := msg.Header.Get(hdr); v != "" || mboxkit.HasHeader(b, strings.ToLower(hdr)) {
					leaked = true
					r.violate("outbound-private-header:"+hdr+":"+kind, "GetOutbound(%s) returned %s carrying the private header %s: %q", fwNames[i], mid, hdr, v)
				}
			}
			if leaked {
				continue
			}
			r.compared++
			if wantB := mboxkit.StripHeaders(m.out[mid].bytes, mboxkit.PrivateAll); !bytes.Equal(b, wantB) {
				r.violate("getoutbound-bytes:"+kind, "GetOutbound(%s): %s differs from the stored message minus private headers: got %q want %q", fwNames[i], mid, b, wantB)
			}
		}
	}
	for _, mid := range mids {
		p := fbb.NewProposal(mid, "title", fbb.BasicProposal, []byte("x"))
		got, want := h.GetInboundAnswer(*p), m.answer(mid)
		r.o.Count("answers_compared", 1)
		if got != want {
			mode := "normal"
			if r.sendOnly {
				mode = "send-only"
			}
			r.violate("answer:"+mode, "GetInboundAnswer(%s) = %q, model: %q", mid, byte(got), byte(want))
		}
	}
}

// runHistory executes one history on a fresh directory. everyStep: full observation after every
// operation (otherwise only after the last one).
func runHistory(o *vrt.Obs, label string, sendOnly bool, hist []op, everyStep bool) {
	dir := mboxkit.MkTemp("c10")
	defer os.RemoveAll(dir)
	r := &runner{o: o, dir: dir, m: newModel(sendOnly), sendOnly: sendOnly, label: label}
	o.Evals++
	vrt.Guard(o, func() {
		r.open()
		for i, op := range hist {
			if !r.m.allowed(op) {
				panic("harness bug: history violates a precondition: " + histString(hist))
			}
			r.step(op)
			if r.failed {
				return
			}
			if everyStep || i == len(hist)-1 {
				r.observe()
				if r.failed {
					return
				}
			}
		}
	})
	if r.compared > 0 {
		o.Sig("%s|%s", label, histString(hist))
	} else {
		o.Count("histories_on_an_empty_mailbox_trivial", 1)
	}
}
