package c10

import (
	"fmt"

	"verif/internal/mboxkit"
	"verif/internal/vrt"
)

type params struct {
	Kind     string `json:"kind"` // exhaustive | random | regression
	SendOnly bool   `json:"send_only"`
	Cast     int    `json:"cast,omitempty"`
	Prefix   []int  `json:"prefix,omitempty"` // exhaustive: indices into the alphabet
	MaxLen   int    `json:"max_len,omitempty"`
	Seed     int64  `json:"seed,omitempty"`
	Lo       int    `json:"lo,omitempty"`
	Hi       int    `json:"hi,omitempty"`
	Hist     []op   `json:"hist,omitempty"` // regression: explicit history
}

func modeName(sendOnly bool) string {
	if sendOnly {
		return "sendonly"
	}
	return "normal"
}

// regressions are fixed histories, one per defect shape / boundary named in the property. They are
// part of both tiers.
func regressions() [][]op {
	a := func(m int, r string, p bool) op { return op{K: opAdd, M: m, V: variant{r, p}} }
	return [][]op{
		// P2P routing with every recipient shape in the outbox (private headers must be stripped for P2P peers too)
		{a(0, "A", false), a(1, "B", true), a(2, "AB", false)},
		{a(0, "A", true), a(1, "S", false), a(2, "B", false)},
		// deferral lasts for one session
		{a(0, "A", false), {K: opDefer, M: 0}, {K: opPrepare}},
		{a(0, "A", false), {K: opDefer, M: 0}, {K: opRestart}},
		{a(0, "A", false), a(1, "S", false), {K: opDefer, M: 1}, {K: opSent, M: 0}, {K: opPrepare}},
		// dedup by MID, unread flag life cycle, re-receipt
		{{K: opInbound, M: 0}, {K: opRead, M: 0}, {K: opInbound, M: 0}},
		{{K: opInbound2, M: 2}, {K: opRead, M: 0}, {K: opUnread, M: 0}, {K: opRead, M: 2}, {K: opRestart}},
		// folder transitions with messages of several sizes and an attachment
		{{K: opAdd, M: 0, V: variant{"A", false}, L: 3000, F: 700}, {K: opInbound, M: 0, L: 5000, F: 1200}, {K: opSent, M: 0, Rej: true}, {K: opRead, M: 0}, {K: opRestart}},
		// a MID that was sent is queued again (corrected copy) and sent again: it ends up in sent/ only, with the new content
		{a(0, "A", false), {K: opSent, M: 0}, {K: opAdd, M: 0, V: variant{"A", false}, L: 900, T: "corrected"}, {K: opSent, M: 0}},
		{a(0, "A", false), {K: opSent, M: 0}, {K: opRestart}, {K: opAdd, M: 0, V: variant{"B", false}, L: 40, T: "again"}, {K: opPrepare}, {K: opSent, M: 0}, {K: opRestart}},
		// a stored inbox message moved elsewhere with a link left under its name
		{{K: opInbound, M: 0}, {K: opLinkOut, M: 0}, {K: opRestart}, {K: opRead, M: 0}},
		{{K: opInbound2, M: 1}, {K: opLinkOut, M: 2}, {K: opLinkOut, M: 1}, {K: opPrepare}},
		// overwrite in the outbox with another variant of the same MID
		{a(1, "AB", true), a(1, "A", false), {K: opSent, M: 1}},
	}
}

func plan(seed int64, tier string) []vrt.Case {
	var cs []vrt.Case
	maxLen, prefixLen := 3, 1
	nRandom, perBatch := 1600, 20
	if tier == "thorough" {
		maxLen, prefixLen = 4, 2
		nRandom, perBatch = 20000, 50
	}
	for i, h := range regressions() {
		for _, so := range []bool{false, true} {
			cs = append(cs, vrt.Case{ID: fmt.Sprintf("reg-%s-%d", modeName(so), i), TimeoutS: 300,
				Params: vrt.MustParams(params{Kind: "regression", SendOnly: so, Hist: h})})
		}
	}
	n := len(alphabet(casts[0]))
	for _, so := range []bool{false, true} {
		for c := range casts {
			var rec func(prefix []int)
			rec = func(prefix []int) {
				if len(prefix) == prefixLen {
					id := fmt.Sprintf("ex-%s-c%d", modeName(so), c)
					for _, p := range prefix {
						id += fmt.Sprintf("-%d", p)
					}
					cs = append(cs, vrt.Case{ID: id, TimeoutS: 900,
						Params: vrt.MustParams(params{Kind: "exhaustive", SendOnly: so, Cast: c, Prefix: append([]int(nil), prefix...), MaxLen: maxLen})})
					return
				}
				for i := 0; i < n; i++ {
					rec(append(prefix, i))
				}
			}
			rec(nil)
		}
	}
	for lo := 0; lo < nRandom; lo += perBatch {
		so := (lo/perBatch)%3 == 2 // one third of the PRNG histories in send-only mode
		cs = append(cs, vrt.Case{ID: fmt.Sprintf("rnd-%s-%d", modeName(so), lo), TimeoutS: 900,
			Params: vrt.MustParams(params{Kind: "random", SendOnly: so, Seed: seed, Lo: lo, Hi: lo + perBatch})})
	}
	return cs
}

func run(c vrt.Case) vrt.Obs {
	var o vrt.Obs
	var p params
	vrt.Params(c, &p)
	mboxkit.Janitor()
	switch p.Kind {
	case "regression":
		// the regression histories may contain a precondition-violating step for one of the modes; skip those
		m := newModel(p.SendOnly)
		for _, op := range p.Hist {
			if !m.allowed(op) {
				panic("harness bug: regression history violates a precondition")
			}
			m.apply(op, [][]byte{nil, nil})
		}
		runHistory(&o, modeName(p.SendOnly)+"/reg", p.SendOnly, p.Hist, true)
		o.Sample = map[string]any{"kind": "regression", "send_only": p.SendOnly, "history": histString(p.Hist)}
	case "exhaustive":
		runExhaustive(&o, p)
	case "random":
		runRandom(&o, p)
	}
	return o
}

// runExhaustive enumerates every precondition-respecting history that starts with the case's prefix
// and has length <= MaxLen (pruning is driven by the model only).
func runExhaustive(o *vrt.Obs, p params) {
	alpha := alphabet(casts[p.Cast])
	label := fmt.Sprintf("%s/cast%d", modeName(p.SendOnly), p.Cast)
	var hist []op
	var sample string
	var rec func(m *model)
	clone := func(m *model) *model {
		c := newModel(m.sendOnly)
		for k, v := range m.out {
			c.out[k] = v
		}
		for k, v := range m.sent {
			c.sent[k] = v
		}
		for k, v := range m.in {
			cp := *v
			c.in[k] = &cp
		}
		for k := range m.deferred {
			c.deferred[k] = true
		}
		return c
	}
	rec = func(m *model) {
		if len(hist) >= len(p.Prefix) && len(hist) > 0 {
			// at the prefix itself observe after every operation, so that histories shorter than the
			// prefix are covered too; below it every prefix is enumerated as a history of its own
			runHistory(o, label, p.SendOnly, hist, len(hist) == len(p.Prefix))
			sample = histString(hist)
		}
		if len(hist) == p.MaxLen || len(o.Violations) > 0 {
			return
		}
		for i, op := range alpha {
			if len(hist) < len(p.Prefix) && p.Prefix[len(hist)] != i {
				continue
			}
			if !m.allowed(op) {
				o.Count("histories_pruned_by_precondition", 1)
				continue
			}
			next := clone(m)
			next.apply(op, [][]byte{nil, nil})
			hist = append(hist, op)
			rec(next)
			hist = hist[:len(hist)-1]
		}
	}
	// the empty prefix itself is not a history; start below it
	rec(newModel(p.SendOnly))
	o.Sample = map[string]any{"kind": "exhaustive", "label": label, "prefix": p.Prefix, "max_len": p.MaxLen, "last_history": sample}
}

// runRandom runs PRNG histories of length 10..60 with per-operation message variants, observing
// everything after every operation.
func runRandom(o *vrt.Obs, p params) {
	rcpts := []string{"A", "B", "AB", "S", "AcB", "AcS", "cA"}
	lens := []int{0, 1, 40, 200, 1000, 3000}
	files := []int{0, 0, 0, 1, 300, 2000}
	var last string
	one := func(o *vrt.Obs, i int) {
		r := vrt.Rand(p.Seed, "c10-random", i)
		n := 10 + r.Intn(51)
		m := newModel(p.SendOnly)
		var hist []op
		for len(hist) < n {
			var cand op
			switch w := r.Intn(100); {
			case w < 22:
				cand = op{K: opAdd, M: r.Intn(3), V: variant{vrt.Pick(r, rcpts), r.Intn(3) == 0}, L: vrt.Pick(r, lens), F: vrt.Pick(r, files), T: fmt.Sprint(r.Intn(3))}
			case w < 30:
				cand = op{K: opPrepare}
			case w < 42:
				cand = op{K: opSent, M: r.Intn(3), Rej: r.Intn(2) == 0}
			case w < 54:
				cand = op{K: opDefer, M: r.Intn(3)}
			case w < 68:
				cand = op{K: opInbound, M: r.Intn(3), L: vrt.Pick(r, lens), F: vrt.Pick(r, files), T: fmt.Sprint(r.Intn(3))}
			case w < 73:
				cand = op{K: opInbound2, M: r.Intn(3), L: vrt.Pick(r, lens), T: fmt.Sprint(r.Intn(3))}
			case w < 82:
				cand = op{K: opUnread, M: r.Intn(3)}
			case w < 92:
				cand = op{K: opRead, M: r.Intn(3)}
			case w < 95:
				cand = op{K: opInboundBad, M: r.Intn(3), L: vrt.Pick(r, lens), T: fmt.Sprint(r.Intn(3))}
			case w < 97:
				cand = op{K: opLinkOut, M: r.Intn(3)}
			default:
				cand = op{K: opRestart}
			}
			if !m.allowed(cand) {
				continue
			}
			m.apply(cand, [][]byte{nil, nil})
			hist = append(hist, cand)
		}
		runHistory(o, fmt.Sprintf("%s/rnd%d", modeName(p.SendOnly), i), p.SendOnly, hist, true)
		if i == p.Hi-1 {
			last = histString(hist)
		}
	}
	if span := p.Hi - p.Lo; span > 0 && (p.Lo/span)%4 == 3 {
		// every fourth batch: three mailboxes (directories of their own) are worked on by three goroutines at the same
		// time, as a gateway with several users does: each history must compare with its model as if it ran alone
		vrt.Parallel(o, 3, func(g int, po *vrt.Obs) {
			for i := p.Lo + g; i < p.Hi && len(po.Violations) == 0; i += 3 {
				one(po, i)
				po.Count("histories_run_while_other_mailboxes_were_in_use", 1)
			}
		})
	} else {
		for i := p.Lo; i < p.Hi && len(o.Violations) == 0; i++ {
			one(o, i)
		}
	}
	o.Sample = map[string]any{"kind": "random", "send_only": p.SendOnly, "range": []int{p.Lo, p.Hi}, "last_history": last}
}
