package c14

import (
	"bytes"
	"fmt"
	"log"
	"os"
	"sort"
	"strings"
	"sync"
	"sync/atomic"
	"time"

	"verif/internal/vrt"
)

// evictions counts "Receiver timeout!" lines of the library's debug log: its broadcaster drops a
// receiver that was not scheduled for 500 ms (a wall-clock hack of its own). A scenario during
// which that happened proves nothing either way.
var evictions atomic.Int64

type logFilter struct{}

func (logFilter) Write(p []byte) (int, error) {
	if bytes.Contains(p, []byte("Receiver timeout!")) {
		evictions.Add(1)
	}
	return len(p), nil
}

var setupOnce sync.Once

func setup() {
	setupOnce.Do(func() {
		if os.Getenv("C14_NODEBUG") == "" {
			os.Setenv("ARDOP_DEBUG", "1")
		} // makes the library log evictions (and everything else, which is discarded)
		log.SetOutput(logFilter{})
	})
}

// violatingScenarios counts scenarios with violations in this worker process.
var violatingScenarios int

// confirmedStalls: stall classes already confirmed by three attempts in this worker process.
var confirmedStalls = map[string]bool{}

func run(c vrt.Case) vrt.Obs {
	setup()
	var p params
	vrt.Params(c, &p)
	var o vrt.Obs
	var scs []scenario
	if p.Kind == "regress" {
		scs = regression(p.Class, p.Seed)
	} else {
		for i := p.Lo; i < p.Hi; i++ {
			scs = append(scs, genScenario(p.Seed, i))
		}
	}
	for _, sc := range scs {
		if p.Kind == "prng" && violatingScenarios >= 3 {
			// this worker has already refuted the property three times over: the remaining PRNG
			// scenarios could only repeat that (on a tree without violations nothing is ever skipped)
			o.Count("prng_scenarios_skipped_after_3_violating_ones", 1)
			continue
		}
		t0 := time.Now()
		c0 := o.Counters["attempts_stalled"]
		evalScenario(&o, sc)
		if f := os.Getenv("C14_TIMING"); f != "" {
			if fh, err := os.OpenFile(f, os.O_APPEND|os.O_CREATE|os.O_WRONLY, 0o644); err == nil {
				fmt.Fprintf(fh, "%8.3f %s stalls=%d %s\n", time.Since(t0).Seconds(), sc.Name, o.Counters["attempts_stalled"]-c0, signature(sc))
				fh.Close()
			}
		}
	}
	return o
}

func sizeClass(n int) string {
	switch {
	case n == 0:
		return "0"
	case n <= 16:
		return "s"
	case n <= 4096:
		return "m"
	case n < 65531:
		return "l"
	case n <= 65535:
		return fmt.Sprint(n)
	default:
		return "xl"
	}
}

func signature(sc scenario) string {
	fs, ws, ks := map[string]bool{}, map[string]bool{}, map[string]bool{}
	for _, it := range append(append([]item{}, sc.A...), sc.B...) {
		if it.K == "arq" {
			fs[sizeClass(it.N)] = true
		} else {
			ks[it.K] = true
		}
	}
	for _, w := range sc.Writes {
		ws[fmt.Sprintf("%s/%d", sizeClass(w.N), w.Faults)] = true
	}
	keys := func(m map[string]bool) string {
		var k []string
		for s := range m {
			k = append(k, s)
		}
		sort.Strings(k)
		return strings.Join(k, ",")
	}
	return fmt.Sprintf("%s dial=%v buf=%d seg=%d stall=%v arq[%s] other[%s] wr[%s] end=%s", sc.Mode, sc.Dial, sc.ReadBuf, sc.SegMode, sc.Stall, keys(fs), keys(ks), keys(ws), sc.End)
}

func evalScenario(o *vrt.Obs, sc scenario) {
	o.Evals++
	var last outcome
	stalls := map[string]int{}
	for attempt := 1; attempt <= 3; attempt++ {
		last = runScenario(sc)
		for k, v := range last.counters {
			o.Count(k, v)
		}
		if last.evicted {
			o.Count("attempts_with_receiver_eviction", 1)
			continue
		}
		if last.stalled == "" || len(last.viol) > 0 {
			break
		}
		key := "stall:" + last.stalled + ":" + sc.Mode
		stalls[key]++
		o.Count("attempts_stalled", 1)
		if confirmedStalls[key] || last.stalled == "accept-race" || last.stalled == "no-port" {
			break
		}
	}
	switch {
	case last.evicted:
		o.Inconclusive = append(o.Inconclusive, fmt.Sprintf("%s: the library's broadcaster evicted a receiver (500 ms timeout) in 3 attempts", sc.Name))
		return
	case len(last.viol) > 0:
		violatingScenarios++
		for _, v := range last.viol {
			if v.Detail == nil {
				v.Detail = map[string]any{"scenario": sc, "sim_events_tail": last.eventsTail}
			}
			o.Violations = append(o.Violations, v)
		}
	case last.stalled != "":
		key := "stall:" + last.stalled + ":" + sc.Mode
		switch {
		case last.stalled == "accept-race" || last.stalled == "no-port":
			o.Inconclusive = append(o.Inconclusive, fmt.Sprintf("%s: %s", sc.Name, last.stalled))
		case stalls[key] >= 3:
			violatingScenarios++
			confirmedStalls[key] = true
			v := o.Violate(key, "[%s %s] no progress at phase %q in three attempts (nothing moved for 10 s; 3 s with the serial line drained): rx %d of the bytes delivered, tx %d bytes accepted",
				sc.Name, sc.Mode, last.stalled, last.rxBytes, last.txBytes)
			v.Detail = map[string]any{"scenario": sc, "sim_events_tail": last.eventsTail}
		default:
			o.Inconclusive = append(o.Inconclusive, fmt.Sprintf("%s: stalled at %s (%d attempt(s); class confirmed earlier in this worker: %v)", sc.Name, last.stalled, stalls[key], confirmedStalls[key]))
		}
		return
	}
	if last.connected && last.rxBytes+last.txBytes > 0 {
		o.Sig("%s", signature(sc))
		o.Count("scenarios_nontrivial", 1)
	}
	o.Count("scenarios_"+sc.Mode, 1)
	o.Count("rx_bytes_delivered_to_reader", int64(last.rxBytes))
	o.Count("tx_bytes_accepted", int64(last.txBytes))
	if o.Sample == nil {
		s := sc
		if len(s.A) > 12 {
			s.A = s.A[:12]
		}
		o.Sample = map[string]any{"scenario": s, "rx_bytes": last.rxBytes, "tx_bytes": last.txBytes}
	}
}

// onCrash: the library died on one of its own goroutines (the caller cannot recover that). The
// key names the library frame; fixed regression cases add their class so that distinct defects
// reaching the same frame stay distinct.
func onCrash(c vrt.Case, cr vrt.Crash) vrt.Obs {
	o := vrt.DefaultCrash(c, cr)
	var p params
	vrt.Params(c, &p)
	for i := range o.Violations {
		if p.Kind == "regress" {
			o.Violations[i].Key += ":" + crashClass(p.Class)
		}
		o.Violations[i].Desc = "case " + c.ID + ": " + o.Violations[i].Desc
	}
	return o
}

func crashClass(class string) string {
	switch {
	case strings.HasPrefix(class, "bare-"):
		return "parameterless-line"
	case strings.HasPrefix(class, "len6553"):
		return "length-field-overflow"
	case strings.HasPrefix(class, "short-dframe"):
		return "short-dframe"
	}
	return class
}
