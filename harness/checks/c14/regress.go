package c14

import "fmt"

// regression returns the fixed scenarios of one class: one per defect shape / boundary named in
// the property. They are part of both tiers.
func regression(class string, seed int64) []scenario {
	base := func(mode string, dial bool, buf int) scenario {
		return scenario{Seed: 1000 + seed, Mode: mode, Dial: dial, ReadBuf: buf, End: "close", EchoNow: dial}
	}
	arq := func(n int) item { return item{K: "arq", N: n} }
	line := func(t string) item { return item{K: "line", T: t} }
	var scs []scenario
	add := func(sc scenario) {
		sc.Name = fmt.Sprintf("%s#%d", class, len(scs))
		scs = append(scs, sc)
	}
	switch class {
	case "read-small-buffer-serial", "read-small-buffer-tcp":
		mode := class[len("read-small-buffer-"):]
		sc := base(mode, true, 16)
		sc.A = []item{arq(100), arq(17), arq(1), arq(16), arq(4097)}
		add(sc)
	case "read-buffer-1":
		sc := base("serial", false, 1)
		sc.A = []item{arq(2), arq(300), arq(5000)}
		add(sc)
		sc = base("tcp", true, 1)
		sc.A = []item{arq(2), arq(300), arq(5000)}
		sc.End = "remote"
		add(sc)
	case "bare-ptt-serial", "bare-ptt-tcp":
		sc := base(class[len("bare-ptt-"):], true, 4096)
		sc.A = []item{arq(10)}
		sc.B = []item{line("PTT TRUE"), line("PTT"), line("PTT FALSE"), arq(10), line("PTT TRUE"), line("PTT FALSE")}
		add(sc)
	case "bare-buffer", "bare-newstate", "bare-state":
		word := map[string]string{"bare-buffer": "BUFFER", "bare-newstate": "NEWSTATE", "bare-state": "STATE"}[class]
		for _, mode := range []string{"serial", "tcp"} {
			sc := base(mode, mode == "serial", 4096)
			sc.Writes = []write{{N: 50, Flush: true}}
			sc.B = []item{arq(3), line(word), arq(4), line(word + " "), arq(5)}
			add(sc)
		}
	case "bare-misc":
		sc := base("serial", false, 4096)
		sc.A = []item{arq(10)}
		for _, l := range malformedLines {
			if l == "TARGET" {
				continue
			}
			sc.B = append(sc.B, line(l), arq(3))
		}
		add(sc)
	case "len65534-serial", "len65535-serial", "len65534-tcp", "len65535-tcp":
		n := 65531
		if class[3:8] == "65535" {
			n = 65532
		}
		sc := base(class[9:], true, 70000)
		sc.A = []item{arq(5), {K: "arq", N: n, T: "zero"}, arq(7), arq(9)}
		sc.End = "remote"
		add(sc)
		sc.ReadBuf = 4096
		sc.A = []item{arq(5), arq(n), arq(65530), arq(n)}
		sc.End = "close"
		add(sc)
	case "short-dframe-serial", "short-dframe-tcp":
		sc := base(class[len("short-dframe-"):], true, 4096)
		sc.A = []item{arq(10), {K: "short-d", N: 2}, arq(11), {K: "short-d", N: 0}, {K: "short-d", N: 1}, arq(12)}
		sc.End = "remote"
		add(sc)
	case "crc-split-data":
		sc := base("serial", true, 4096)
		sc.A = []item{arq(9), {K: "arq", N: 10, Cut: 1}, arq(12), arq(13), {K: "arq", N: 300, Cut: 1}, arq(14), arq(15)}
		sc.End = "remote"
		add(sc)
	case "crc-split-line":
		sc := base("serial", true, 4096)
		sc.A = []item{arq(9), {K: "line", T: "PTT TRUE", Cut: 1}, arq(12), {K: "line", T: "PTT FALSE", Cut: 1}, arq(13), arq(14)}
		add(sc)
	case "crc-split-every-frame":
		for _, dial := range []bool{true, false} {
			sc := base("serial", dial, 16)
			sc.SegMode = 2
			sc.A = []item{arq(9), line("PTT TRUE"), arq(120), line("PTT FALSE"), arq(4090)}
			sc.Writes = []write{{N: 100, Flush: true}}
			add(sc)
		}
	case "write-sizes-serial", "write-sizes-tcp":
		sc := base(class[len("write-sizes-"):], true, 4096)
		sc.Writes = []write{{N: 1, Flush: true}, {N: 65535}, {N: 65536, Flush: true, Hold: 5}, {N: 70000}, {N: 65534, Flush: true}}
		sc.A = []item{arq(100)}
		add(sc)
	case "crcfault-1", "crcfault-2", "crcfault-3":
		k := int(class[len(class)-1] - '0')
		sc := base("serial", true, 4096)
		sc.Writes = []write{{N: 100, Faults: k, Flush: true, Hold: 5}, {N: 7, Flush: true}}
		add(sc)
	case "buffer-before-crcfault":
		sc := base("serial", true, 4096)
		sc.Writes = []write{{N: 100, Faults: 1, Async: true, Flush: true}}
		add(sc)
	case "slow-state-follower":
		sc := base("serial", true, 4096)
		sc.Writes = []write{{N: 100, Faults: 1, Follower: true, Flush: true, Hold: 5}, {N: 7, Flush: true}}
		add(sc)
		sc = base("serial", false, 4096)
		sc.Writes = []write{{N: 50, Follower: true, Flush: true}, {N: 2000, Faults: 2, Follower: true, Flush: true}}
		add(sc)
		sc = base("tcp", true, 4096)
		sc.Writes = []write{{N: 50, Follower: true, Flush: true}, {N: 9, Follower: true, Flush: true}}
		add(sc)
	case "crcfault-each":
		sc := base("serial", false, 4096)
		sc.SegMode = 1
		sc.Writes = []write{{N: 10, Faults: 1}, {N: 2000, Faults: 2, Flush: true}, {N: 30, Faults: 3}, {N: 65535, Faults: 2}, {N: 40, Flush: true, Hold: 3}}
		sc.A = []item{arq(100), line("PTT TRUE"), arq(200), line("PTT FALSE")}
		add(sc)
	case "flush-order-serial", "flush-order-tcp":
		sc := base(class[len("flush-order-"):], true, 4096)
		sc.Writes = []write{{N: 1000, Flush: true, Hold: 50}, {N: 5}, {N: 6, Flush: true, Hold: 50}, {N: 65535, Flush: true, Hold: 20}}
		sc.Poll = true
		add(sc)
	case "ptt-order":
		for _, mode := range []string{"serial", "tcp"} {
			sc := base(mode, mode == "tcp", 4096)
			for i := 0; i < 40; i++ {
				sc.A = append(sc.A, line([]string{"PTT TRUE", "PTT FALSE", "PTT True", "PTT FALSE", "PTT TRUE", "PTT TRUE", "PTT false"}[i%7]))
				if i%5 == 0 {
					sc.A = append(sc.A, arq(i))
				}
			}
			sc.Writes = []write{{N: 100, Flush: true}}
			add(sc)
		}
	case "close-disconnect-serial", "close-disconnect-tcp":
		for _, dial := range []bool{true, false} {
			sc := base(class[len("close-disconnect-"):], dial, 4096)
			sc.A = []item{arq(10)}
			sc.Writes = []write{{N: 10, Flush: true}}
			add(sc)
		}
	case "close-undrained-serial", "close-undrained-tcp":
		{
			sc := base(class[len("close-undrained-"):], true, 4096)
			sc.A = []item{arq(10)}
			sc.Writes = []write{{N: 10}}
			sc.End = "close"
			sc.Undrained = true
			add(sc)
		}
	case "dial-apis":
		for _, mode := range []string{"serial", "tcp"} {
			for _, api := range []string{"url", "urlctx", "urlctx-timeout"} {
				sc := base(mode, true, 4096)
				sc.DialAPI = api
				sc.A = []item{arq(10), arq(300), arq(5)}
				sc.Writes = []write{{N: 10, Flush: true}, {N: 700, Flush: true, Hold: 200}, {N: 3, Flush: true}}
				add(sc)
			}
		}
	case "remote-disconnect":
		for _, mode := range []string{"serial", "tcp"} {
			sc := base(mode, true, 16)
			sc.A = []item{arq(1000), arq(1), arq(4096)}
			sc.Writes = []write{{N: 10, Flush: true}}
			sc.End = "remote"
			add(sc)
		}
	case "cut-mid-frame-serial", "cut-mid-frame-tcp":
		sc := base(class[len("cut-mid-frame-"):], true, 4096)
		sc.A = []item{arq(100), arq(200)}
		sc.End, sc.CutN = "cut", 50
		add(sc)
		sc.CutN = 5000
		add(sc)
	case "garbage-serial", "garbage-tcp":
		sc := base(class[len("garbage-"):], true, 4096)
		sc.A = []item{arq(100), {K: "pairs", N: 40}, arq(200), {K: "badcrc-data", N: 20}, {K: "badcrc-line", T: "DISCONNECTED"}, arq(5),
			{K: "tagged", T: "FEC", N: 20}, {K: "tagged", T: "IDF", N: -1}, {K: "tagged", T: "ERR", N: 0}, arq(6)}
		sc.End, sc.CutN = "garbage", 3000
		add(sc)
	case "burst-stalled-reader":
		sc := base("serial", true, 16)
		sc.Stall = true
		for i := 0; i < 800; i++ {
			sc.A = append(sc.A, arq(1+i%100))
		}
		add(sc)
		sc.Mode, sc.ReadBuf = "tcp", 4096
		add(sc)
	case "backlog-serial", "backlog-tcp":
		sc := base(class[len("backlog-"):], true, 512)
		sc.LateReaderMS = 400
		for i := 0; i < 4300; i++ {
			sc.A = append(sc.A, arq(2))
		}
		add(sc)
	case "listen-serial", "listen-tcp":
		sc := base(class[len("listen-"):], false, 16)
		sc.A = []item{arq(100), line("PTT TRUE"), arq(5)}
		sc.Writes = []write{{N: 300, Flush: true, Hold: 5}}
		sc.Trailing = true
		add(sc)
	case "listen-twice":
		for i, mode := range []string{"serial", "tcp", "serial", "tcp"} {
			sc := base(mode, false, 64)
			sc.A = []item{arq(100), arq(5)}
			sc.Writes = []write{{N: 30, Flush: true}}
			sc.End = []string{"remote", "remote", "close", "close"}[i]
			sc.Again = true
			add(sc)
		}
	case "offline-start":
		for _, mode := range []string{"serial", "tcp"} {
			sc := base(mode, true, 4096)
			sc.Offline = true
			sc.A = []item{arq(100)}
			sc.Writes = []write{{N: 30, Flush: true}}
			add(sc)
		}
	case "dial-greeting":
		for _, dial := range []bool{true, false} {
			sc := base("serial", dial, 4096)
			sc.Greet = 2
			sc.A = []item{arq(40)}
			sc.Writes = []write{{N: 30, Flush: true}}
			add(sc)
			sc.Greet, sc.ReadBuf, sc.End = 5, 16, "remote"
			add(sc)
		}
	case "empty-frames":
		sc := base("serial", true, 16)
		sc.A = []item{arq(0), arq(0), arq(5), arq(0), arq(17), arq(0)}
		add(sc)
		sc.Mode = "tcp"
		add(sc)
	default:
		panic("unknown regression class " + class)
	}
	return scs
}
