package c14

import (
	"bytes"
	"context"
	"fmt"
	"github.com/la5nta/wl2k-go/transport"
	"io"
	"math/rand"
	"net"
	"runtime/debug"
	"sync"
	"sync/atomic"
	"time"

	"github.com/la5nta/wl2k-go/transport/ardop"

	"verif/internal/simardop"
	"verif/internal/vrt"
)

const (
	myCall = "N0CALL"
	myGrid = "JP20QE"
	remote = "LA1B-7"
)

// pttRec is the transport.PTTController handed to the library.
type pttRec struct {
	mu    sync.Mutex
	calls []bool
}

func (p *pttRec) SetPTT(on bool) error {
	p.mu.Lock()
	p.calls = append(p.calls, on)
	p.mu.Unlock()
	return nil
}

// outcome is what one attempt at a scenario produced.
type outcome struct {
	stalled    string // phase at which no progress was observed any more ("" = ran to its end)
	evicted    bool
	viol       []vrt.Violation
	counters   map[string]int64
	connected  bool
	rxBytes    int
	txBytes    int
	sig        string
	eventsTail []simardop.Event
}

type driver struct {
	sc       scenario
	serial   bool
	seq      atomic.Int64
	activity atomic.Int64
	sim      *simardop.Sim
	tnc      *ardop.TNC
	conn     net.Conn
	ptt      pttRec
	abort    chan struct{}
	rnd      *rand.Rand // segmentation of the frames this driver sends (one goroutine at a time)

	mu       sync.Mutex
	out      outcome
	expected []byte // concatenated ARQ payloads sent in well-formed frames
	got      []byte
	gotLen   atomic.Int64
	readErr  error
	accepted []byte // bytes the Writes reported as accepted, concatenated
	judged   bool
	// followers: deliberately slow state followers registered in this attempt (each is evicted once, by design)
	followers int64
}

func (d *driver) violate(key, format string, a ...any) {
	d.mu.Lock()
	defer d.mu.Unlock()
	if len(d.out.viol) < 12 {
		d.out.viol = append(d.out.viol, vrt.Violation{Key: key, Desc: fmt.Sprintf("[%s %s] ", d.sc.Name, d.sc.Mode) + fmt.Sprintf(format, a...)})
	}
}

func (d *driver) count(name string, n int64) {
	d.mu.Lock()
	d.out.counters[name] += n
	d.mu.Unlock()
}

// goSafe runs f on its own goroutine; a panic (library code runs on it) becomes a violation.
func (d *driver) goSafe(f func()) <-chan struct{} {
	done := make(chan struct{})
	go func() {
		defer close(done)
		defer func() {
			if r := recover(); r != nil {
				v := vrt.PanicViolation(r, debug.Stack())
				v.Desc = fmt.Sprintf("[%s %s] ", d.sc.Name, d.sc.Mode) + v.Desc
				d.mu.Lock()
				d.out.viol = append(d.out.viol, v)
				d.mu.Unlock()
			}
		}()
		f()
	}()
	return done
}

// await waits for ch with a progress-based watchdog: it gives up only when nothing at all was
// observed to move (line transfers, simulator events, reader/writer progress) for a long while.
func (d *driver) await(ch <-chan struct{}, phase string) bool {
	last := d.activity.Load()
	idle := time.Now()
	tick := time.NewTicker(50 * time.Millisecond)
	defer tick.Stop()
	for {
		select {
		case <-ch:
			return true
		case <-tick.C:
		}
		if cur := d.activity.Load(); cur != last {
			last, idle = cur, time.Now()
			continue
		}
		limit := 10 * time.Second
		if d.serial && d.sim.Link().HostIdle() {
			limit = 3 * time.Second
		}
		if d.sc.Undrained && phase == "close" {
			limit = 50 * time.Second
		}
		if time.Since(idle) > limit {
			d.mu.Lock()
			if d.out.stalled == "" {
				d.out.stalled = phase
			}
			d.mu.Unlock()
			return false
		}
	}
}

func (d *driver) awaitCond(cond func() bool, phase string) bool {
	ch := make(chan struct{})
	stop := make(chan struct{})
	go func() {
		for !cond() {
			select {
			case <-stop:
				return
			case <-time.After(2 * time.Millisecond):
			}
		}
		close(ch)
	}()
	ok := d.await(ch, phase)
	close(stop)
	return ok
}

func payload(seed int64, what string, idx, n int, zero bool) []byte {
	b := make([]byte, n)
	if !zero {
		vrt.Rand(seed, what, idx).Read(b)
	}
	return b
}

// splitter cuts a frame according to the scenario's segmentation mode plus a forced cut.
func (d *driver) splitter(cutFromEnd int) simardop.Splitter {
	return func(frame []byte, crcOff int) [][]byte {
		cuts := map[int]bool{}
		if cutFromEnd > 0 && cutFromEnd < len(frame) {
			cuts[len(frame)-cutFromEnd] = true
		}
		switch d.sc.SegMode {
		case 1:
			for i := d.rnd.Intn(5); i > 0 && len(frame) > 1; i-- {
				cuts[1+d.rnd.Intn(len(frame)-1)] = true
			}
			if crcOff > 0 && d.rnd.Intn(3) == 0 {
				cuts[crcOff+d.rnd.Intn(2)] = true
			}
		case 2:
			for i := 1; i < len(frame) && i <= 8; i++ {
				cuts[i] = true
			}
			for i := len(frame) - 4; i < len(frame); i++ {
				if i > 0 {
					cuts[i] = true
				}
			}
		}
		var segs [][]byte
		prev := 0
		for i := 1; i < len(frame); i++ {
			if cuts[i] {
				segs = append(segs, frame[prev:i])
				prev = i
			}
		}
		return append(segs, frame[prev:])
	}
}

// sendItem plays one script item towards the host and extends the expected stream.
func (d *driver) sendItem(phase string, idx int, it item) {
	s := d.sim
	sp := d.splitter(it.Cut)
	switch it.K {
	case "arq":
		p := payload(d.sc.Seed, phase+"arq", idx, it.N, it.T == "zero")
		d.mu.Lock()
		d.expected = append(d.expected, p...)
		d.mu.Unlock()
		s.SendData("ARQ", p, sp)
		d.count("arq_frames_sent", 1)
	case "tagged":
		var p []byte
		if it.N < 0 {
			p = []byte(" " + remote + ":[JP20QE] ")
		} else {
			p = payload(d.sc.Seed, phase+"tag", idx, it.N, false)
		}
		s.SendData(it.T, p, sp)
		d.count("other_type_frames_sent", 1)
	case "line":
		s.SendLine(it.T, sp)
		d.count("ctrl_lines_sent", 1)
	case "badcrc-line":
		if !d.serial {
			return
		}
		f, off := s.EncodeLine(it.T)
		f[off+d.rnd.Intn(2)] ^= byte(1 + d.rnd.Intn(255))
		s.SendEncoded(simardop.Ctrl, f, off, sp)
		d.count("bad_crc_frames_sent", 1)
	case "badcrc-data":
		if !d.serial {
			return
		}
		f, off := s.EncodeData(append([]byte("ARQ"), payload(d.sc.Seed, phase+"bad", idx, it.N, false)...))
		f[off+d.rnd.Intn(2)] ^= byte(1 + d.rnd.Intn(255))
		s.SendEncoded(simardop.Data, f, off, sp)
		d.count("bad_crc_frames_sent", 1)
	case "short-d": // a data frame too short to carry a type tag (valid length field and CRC)
		f, off := s.EncodeData([]byte("ARQ")[:it.N])
		s.SendEncoded(simardop.Data, f, off, sp)
		d.count("short_dframes_sent", 1)
	case "pairs": // garbage that a frame-by-frame reader skips without losing its place
		if d.serial {
			g := make([]byte, it.N)
			for i := range g {
				g[i] = byte(d.rnd.Intn(256))
				if i%2 == 0 && (g[i] == 'c' || g[i] == 'd') {
					g[i] = 'x'
				}
			}
			s.SendEncoded(simardop.Ctrl, g, -1, sp)
		} else {
			g := make([]byte, it.N+1)
			for i := range g {
				g[i] = byte(d.rnd.Intn(256))
				if g[i] == '\r' {
					g[i] = '\n'
				}
			}
			g[0] = '#' // never a known command word
			g[len(g)-1] = '\r'
			s.SendEncoded(simardop.Ctrl, g, -1, sp)
		}
		d.count("garbage_runs_sent", 1)
	}
}

func (d *driver) startReader() <-chan struct{} {
	return d.goSafe(func() {
		if d.sc.LateReaderMS > 0 {
			time.Sleep(time.Duration(d.sc.LateReaderMS) * time.Millisecond)
			d.count("late_reader_scenarios", 1)
		}
		buf := make([]byte, d.sc.ReadBuf)
		zero := 0
		for {
			n, err := d.conn.Read(buf)
			if n > 0 {
				zero = 0
				d.mu.Lock()
				d.got = append(d.got, buf[:n]...)
				d.mu.Unlock()
				d.gotLen.Add(int64(n))
				d.activity.Add(1)
			}
			if err != nil {
				d.mu.Lock()
				d.readErr = err
				d.mu.Unlock()
				return
			}
			if n == 0 {
				if zero++; zero > 100000 {
					d.violate("read-spins", "Read returned (0, nil) 100000 times in a row")
					return
				}
			}
		}
	})
}

// writer performs the scenario's writes; returns false when it stalled or had to give up.
func (d *driver) writer() bool {
	sinceDrain := 0
	for wi, w := range d.sc.Writes {
		data := payload(d.sc.Seed, "write", wi, w.N, false)
		first := true
		for len(data) > 0 {
			faults := 0
			if first && d.serial {
				faults = w.Faults
			}
			first = false
			if faults > 0 {
				// everything the TNC sent so far must have been handed out by the library's control
				// loop before this Write starts listening (see the assumptions: stale BUFFER lines)
				fd := d.goSafe(func() { d.tnc.AutoBreak() })
				if !d.await(fd, "ctrl-fence") {
					return false
				}
			}
			if w.Follower && len(data) == w.N {
				d.startFollower()
			}
			if w.Async {
				d.sim.InjectFaultsAsync(faults)
			} else {
				d.sim.InjectFaults(faults)
			}
			var n int
			var err error
			done := d.goSafe(func() { n, err = d.conn.Write(data) })
			if !d.await(done, "write") {
				return false
			}
			d.activity.Add(1)
			d.count("writes", 1)
			want := min(len(data), 65535)
			if err != nil {
				d.count("write_errors", 1)
				if faults < 3 {
					d.violate("write-error", "Write(%d bytes) failed with %v although the TNC answered CRCFAULT only %d time(s)", len(data), err, faults)
				} else {
					d.count("writes_given_up_after_3_crcfaults", 1)
				}
				d.sim.AbandonFaulted()
			} else if n != want {
				d.violate("write-count", "Write(%d bytes) returned n=%d, nil (expected %d)", len(data), n, want)
			}
			if n < 0 || n > len(data) {
				return false
			}
			d.mu.Lock()
			d.accepted = append(d.accepted, data[:n]...)
			total := int64(len(d.accepted))
			d.mu.Unlock()
			sinceDrain += n
			if faults > 0 {
				// Fence: a command written after Write returned travels behind the data on the one
				// serial line, so once the TNC has it, it has every data frame sent before.
				vd := d.goSafe(func() { d.tnc.Version() })
				if !d.await(vd, "fence") {
					return false
				}
				ch := make(chan struct{})
				go func() {
					if d.sim.WaitCommand("VERSION", d.abort) {
						close(ch)
					}
				}()
				if !d.await(ch, "fence") {
					return false
				}
				if got := d.sim.LedgerLen(); got != total {
					key := "no-retransmit-after-crcfault"
					if w.Async {
						key = "crcfault-missed-after-unrelated-buffer"
					}
					d.violate(key, "Write(%d bytes) returned n=%d err=%v after %d CRCFAULT answer(s), but the TNC holds %d accepted bytes instead of %d "+
						"(awaiting retransmission: %v)", len(data), n, err, faults, got, total, d.sim.AwaitingRetransmission())
					return false
				}
				d.count("crcfault_writes_verified", 1)
			}
			if err != nil {
				break
			}
			data = data[n:]
		}
		if w.Flush {
			if !d.flush(sinceDrain > 0, w.Hold) {
				return false
			}
			sinceDrain = 0
		}
	}
	return true
}

// startFollower: see write.Follower.
func (d *driver) startFollower() {
	fr := d.tnc.ListenEnabled()
	d.mu.Lock()
	d.followers++
	d.mu.Unlock()
	go func() {
		for range fr.States() {
			select {
			case <-time.After(3 * time.Second):
			case <-d.abort:
			}
		}
	}()
	whole := func(f []byte, _ int) [][]byte { return [][]byte{f} } // (the driver's PRNG belongs to the script goroutine)
	d.sim.SendLine("NEWSTATE IRS", whole)
	d.sim.SendLine("NEWSTATE ISS", whole)
	d.count("slow_state_followers_registered_before_a_write", 1)
}

// flush checks "Flush returns only after the TNC reported an empty buffer".
func (d *driver) flush(outstanding bool, holdMS int) bool {
	d.mu.Lock()
	total := int64(len(d.accepted))
	d.mu.Unlock()
	var ferr error
	var ret int64
	done := d.goSafe(func() { ferr = d.conn.(interface{ Flush() error }).Flush(); ret = d.seq.Add(1) })
	early := false
	if outstanding && holdMS > 0 {
		select {
		case <-done:
			early = true
		case <-time.After(time.Duration(holdMS) * time.Millisecond):
		}
	}
	wl := make(chan struct{})
	go func() {
		if d.sim.WaitLedger(total, d.abort) {
			close(wl)
		}
	}()
	if !d.await(wl, "ledger") {
		return false
	}
	b0 := d.sim.ReportEmpty(nil)
	if !early && !d.await(done, "flush") {
		return false
	}
	d.count("flush_calls", 1)
	if outstanding {
		d.count("flush_order_checked", 1)
		if early || ret < b0 {
			d.violate("flush-before-buffer0", "Flush returned (sequence %d) before the TNC reported BUFFER 0 (sequence %d) although %d accepted bytes were outstanding", ret, b0, total)
		}
	}
	if ferr != nil {
		d.violate("flush-error", "Flush returned %v on a live connection", ferr)
	}
	return true
}

func (d *driver) allRead() bool {
	d.mu.Lock()
	n := len(d.expected)
	d.mu.Unlock()
	return d.gotLen.Load() >= int64(n)
}

func runScenario(sc scenario) (out outcome) {
	d := &driver{sc: sc, serial: sc.Mode == "serial", abort: make(chan struct{}), rnd: vrt.Rand(sc.Seed, "seg")}
	d.out.counters = map[string]int64{}
	ev0 := evictions.Load()
	simRnd := vrt.Rand(sc.Seed, "simseg")
	opt := simardop.Options{Seq: &d.seq, Activity: &d.activity, MyCall: "", EchoNow: sc.EchoNow, FaultSendID: sc.Poll, TrailingSpace: sc.Trailing,
		PiecePause: time.Duration(sc.PauseUS) * time.Microsecond, ProbeAfter: 3 * time.Second}
	if sc.Offline {
		opt.InitialState = "OFFLINE"
	}
	{
		for i := 0; i < sc.Greet; i++ {
			p := payload(sc.Seed, "greeting", i, 1+(i*37+int(sc.Seed))%90, false)
			opt.DialGreeting = append(opt.DialGreeting, p)
			d.expected = append(d.expected, p...)
		}
	}
	if sc.SegMode != 0 {
		opt.Split = func(f []byte, crcOff int) [][]byte {
			if len(f) < 2 || simRnd.Intn(2) == 0 {
				return [][]byte{f}
			}
			c := 1 + simRnd.Intn(len(f)-1)
			if crcOff > 0 && simRnd.Intn(2) == 0 {
				c = crcOff + simRnd.Intn(2)
			}
			return [][]byte{f[:c], f[c:]}
		}
	}
	var addr string
	if d.serial {
		d.sim = simardop.NewSerial(opt)
	} else {
		var err error
		d.sim, addr, err = simardop.NewTCP(opt)
		if err != nil {
			d.out.stalled = "no-port"
			return d.out
		}
	}
	defer func() {
		close(d.abort)
		d.sim.Shutdown()
		d.mu.Lock()
		defer d.mu.Unlock()
		for k, v := range d.sim.Counters() {
			d.out.counters["sim_"+k] += v
		}
		if d.sim.Link() != nil {
			d.out.counters["line_host_reads"] += d.sim.Link().HostReads
		}
		ev := d.sim.Events()
		if len(ev) > 25 {
			ev = ev[len(ev)-25:]
		}
		d.out.eventsTail = ev
		if !d.judged {
			for _, v := range d.sim.Violations() {
				d.out.viol = append(d.out.viol, vrt.Violation{Key: v.Key, Desc: fmt.Sprintf("[%s %s] simulated TNC: %s", d.sc.Name, d.sc.Mode, v.Desc)})
			}
		}
		d.out.evicted = evictions.Load()-ev0 > d.followers
		d.out.rxBytes, d.out.txBytes = len(d.got), len(d.accepted)
		out = d.out
	}()

	// --- open
	var err error
	done := d.goSafe(func() {
		if d.serial {
			d.tnc, err = ardop.Open(d.sim.Link().Host(), myCall, myGrid)
		} else {
			d.tnc, err = ardop.OpenTCP(addr, myCall, myGrid)
		}
	})
	if !d.await(done, "open") {
		return
	}
	if err != nil || d.tnc == nil {
		d.violate("open-failed", "opening the TNC failed against a conforming simulator: %v", err)
		return
	}
	d.tnc.SetPTT(&d.ptt)

	// --- connect
	var ln net.Listener
	if sc.Dial {
		done = d.goSafe(func() {
			switch sc.DialAPI {
			case "":
				d.conn, err = d.tnc.Dial(remote)
			default:
				var u *transport.URL
				if u, err = transport.ParseURL("ardop:///" + remote); err != nil {
					return
				}
				switch sc.DialAPI {
				case "url":
					d.conn, err = d.tnc.DialURL(u)
				case "urlctx":
					ctx, cancel := context.WithCancel(context.Background())
					d.conn, err = d.tnc.DialURLContext(ctx, u)
					cancel() // the dial is over: ending its context must not touch the connection it returned
				default:
					ctx, cancel := context.WithCancel(context.Background())
					d.conn, err = d.tnc.DialURLContext(ctx, u)
					time.AfterFunc(150*time.Millisecond, cancel)
				}
				d.count("dials_through_"+sc.DialAPI, 1)
			}
		})
		if !d.await(done, "dial") {
			return
		}
	} else {
		done = d.goSafe(func() { ln, err = d.tnc.Listen() })
		if !d.await(done, "listen") {
			return
		}
		if err != nil || ln == nil {
			d.violate("listen-failed", "Listen failed: %v", err)
			return
		}
		time.Sleep(30 * time.Millisecond) // the library registers its listener goroutine asynchronously
		d.sim.Inbound(remote, myCall)
		done = d.goSafe(func() { d.conn, err = ln.Accept() })
		if !d.await(done, "accept") {
			if d.out.stalled == "accept" && len(d.out.viol) == 0 {
				d.out.stalled = "accept-race" // outside the statement: reported as inconclusive
			}
			return
		}
	}
	if err != nil || d.conn == nil {
		d.violate("connect-failed", "Dial/Accept failed against a conforming simulator: %v", err)
		return
	}
	d.out.connected = true

	// --- phase A (TNC -> host script) concurrently with the writes
	var readerDone <-chan struct{}
	if !sc.Stall {
		readerDone = d.startReader()
	}
	wok := true
	var writerDone <-chan struct{}
	if len(sc.Writes) > 0 {
		writerDone = d.goSafe(func() { wok = d.writer() })
		if d.sc.Poll {
			stopPoll := writerDone
			polls := 0
			d.goSafe(func() {
				for {
					select {
					case <-stopPoll:
						return
					case <-d.abort:
						return
					default:
					}
					if polls%3 == 2 {
						// a command the TNC refuses in this state (FAULT): the refusal concerns this caller, not the data
						// frame another goroutine is writing
						d.tnc.SendID()
						d.count("refused_commands_during_writes", 1)
					} else {
						d.tnc.Version()
						d.count("version_polls_during_writes", 1)
					}
					if polls++; polls >= 150 {
						return // enough interleavings; keeps the simulator's event log small
					}
					time.Sleep(time.Duration(200+polls*37%900) * time.Microsecond)
				}
			})
		}
	}
	for i, it := range sc.A {
		d.sendItem("A", i, it)
	}
	if sc.Stall {
		readerDone = d.startReader()
	}
	if writerDone != nil {
		<-writerDone // every wait inside has its own watchdog
		if !wok || d.out.stalled != "" {
			return
		}
	}
	// --- phase B
	for i, it := range sc.B {
		d.sendItem("B", i, it)
	}

	// --- ending
	if !d.serial || sc.End == "garbage" {
		// TCP: the two sockets are not ordered relative to each other; end only after the reader has everything
		if !d.awaitCond(d.allRead, "read-all") {
			return
		}
	}
	if !d.serial {
		// ... and after the library processed every control line sent so far: a query/answer round
		// trip on the control socket (AUTOBREAK is never part of the scripts).
		done = d.goSafe(func() { d.tnc.AutoBreak() })
		if !d.await(done, "ctrl-fence") {
			return
		}
	}
	var partial []byte
	switch sc.End {
	case "close":
		var cerr error
		var ret int64
		done = d.goSafe(func() { cerr = d.conn.Close(); ret = d.seq.Add(1) })
		if !d.await(done, "close") {
			return
		}
		if cerr != nil {
			d.violate("close-error", "Close returned %v", cerr)
		}
		discSeq := int64(-1)
		for _, e := range d.sim.Events() {
			if e.Kind == "cmd" && e.Text == "DISCONNECT" {
				discSeq = e.Seq
			}
		}
		if discSeq < 0 || discSeq > ret {
			d.violate("close-without-disconnect", "Close returned (sequence %d) but the TNC had not received DISCONNECT (sequence %d)", ret, discSeq)
		}
		d.count("close_disconnect_checked", 1)
		if sc.Undrained {
			d.count("close_with_undrained_tnc_buffer_checked", 1)
		}
	case "remote":
		d.sim.RemoteDisconnect()
	case "cut":
		partial = payload(sc.Seed, "partial", 0, sc.CutN+1+d.rnd.Intn(500), false)
		for i := range partial {
			partial[i] |= 1 // never zero: padding would be visible
		}
		f, _ := d.sim.EncodeData(append([]byte("ARQ"), partial...))
		hdr := len(f) - len(partial)
		if d.serial {
			hdr -= 2
		}
		d.sim.SendEncoded(simardop.Data, f[:hdr+sc.CutN], -1, d.splitter(0))
		partial = partial[:sc.CutN]
		d.sim.HangUp(simardop.Data)
	case "garbage":
		g := payload(sc.Seed, "garbage", 0, sc.CutN, false)
		if d.serial {
			d.sim.SendEncoded(simardop.Ctrl, g, -1, d.splitter(0))
			d.sim.HangUp(simardop.Ctrl)
		} else {
			d.sim.SendEncoded(simardop.Data, g, -1, d.splitter(0))
			d.sim.SendEncoded(simardop.Ctrl, g, -1, d.splitter(0))
			d.sim.HangUp(simardop.Data)
		}
		d.count("garbage_endings", 1)
	}
	if !d.await(readerDone, "read-eof") {
		return
	}
	if sc.Again && ln != nil && (sc.End == "close" || sc.End == "remote") {
		if !d.secondSession(ln) {
			return
		}
	}
	if sc.End == "close" || sc.End == "remote" {
		// (after a hang-up the library shuts the TNC down by itself, concurrently: not re-closed here)
		done = d.goSafe(func() { d.tnc.Close() })
		if !d.await(done, "tnc-close") {
			return
		}
	}
	if ln != nil {
		go func() { defer func() { recover() }(); ln.Accept() }() // releases the library's listener goroutine
	}
	d.judge(partial)
	return
}

// secondSession: see scenario.Again.
func (d *driver) secondSession(ln net.Listener) bool {
	time.Sleep(30 * time.Millisecond)
	d.sim.Inbound(remote, myCall)
	var c2 net.Conn
	var err error
	done := d.goSafe(func() { c2, err = ln.Accept() })
	if !d.await(done, "accept-2") {
		if d.out.stalled == "accept-2" && len(d.out.viol) == 0 {
			d.out.stalled = "accept-race" // as for the first Accept: reported as inconclusive
		}
		return false
	}
	if err != nil || c2 == nil {
		d.violate("second-accept-failed", "a second station connected after the first session had ended: Accept on the same listener returned %v", err)
		return false
	}
	p2 := payload(d.sc.Seed, "second", 0, 200, false)
	d.sim.SendData("ARQ", p2, nil)
	var got []byte
	var rerr error
	done = d.goSafe(func() {
		buf := make([]byte, 64)
		for len(got) < len(p2) {
			n, e := c2.Read(buf)
			got = append(got, buf[:n]...)
			if n > 0 {
				d.activity.Add(1)
			}
			if e != nil {
				rerr = e
				return
			}
		}
	})
	if !d.await(done, "read-2") {
		return false
	}
	if !bytes.Equal(got, p2) {
		d.violate("second-session-stream", "second connection accepted on the same listener: one ARQ frame of %d bytes was delivered, Read yielded %d bytes (equal prefix %d) and ended with %v",
			len(p2), len(got), commonPrefix(got, p2), rerr)
		return false
	}
	d.sim.RemoteDisconnect()
	done = d.goSafe(func() {
		buf := make([]byte, 64)
		for {
			if _, e := c2.Read(buf); e != nil {
				return
			}
		}
	})
	if !d.await(done, "read-eof-2") {
		return false
	}
	d.count("second_sessions_on_the_same_listener", 1)
	return true
}

func commonPrefix(a, b []byte) int {
	n := 0
	for n < len(a) && n < len(b) && a[n] == b[n] {
		n++
	}
	return n
}

// judge applies the end-of-scenario oracles.
func (d *driver) judge(partial []byte) {
	sc := d.sc
	d.mu.Lock()
	d.judged = true
	for _, v := range d.out.viol {
		if len(v.Key) > 6 && v.Key[:6] == "panic:" { // a driver goroutine died in library code: nothing below would add information
			d.judged = false
			d.mu.Unlock()
			return
		}
	}
	got, expected, accepted, rerr := d.got, d.expected, d.accepted, d.readErr
	d.mu.Unlock()
	if rerr != io.EOF {
		d.violate("read-error", "Read ended with %v instead of io.EOF after the connection was closed", rerr)
	}
	switch {
	case sc.End == "garbage":
		if !bytes.HasPrefix(got, expected) {
			d.streamViolation(got, expected)
		}
	case bytes.Equal(got, expected):
	case sc.End == "cut" && bytes.HasPrefix(got, expected) && bytes.HasPrefix(partial, got[len(expected):]):
		d.count("partial_frame_prefix_delivered", 1)
	default:
		d.streamViolation(got, expected)
	}
	d.count("stream_bytes_compared", int64(len(expected)))
	for _, v := range d.sim.Violations() {
		d.violate(v.Key, "simulated TNC: %s", v.Desc)
	}
	if led := d.sim.Ledger(); !bytes.Equal(led, accepted) {
		at := 0
		for at < len(led) && at < len(accepted) && led[at] == accepted[at] {
			at++
		}
		d.violate("ledger-mismatch", "the TNC received %d payload bytes, the Writes reported %d accepted; first difference at offset %d", len(led), len(accepted), at)
	}
	d.count("ledger_bytes_compared", int64(len(accepted)))
	d.ptt.mu.Lock()
	calls := append([]bool(nil), d.ptt.calls...)
	d.ptt.mu.Unlock()
	if sc.End != "garbage" {
		if !pttMatches(d.sim.PTTSent(), calls) {
			d.violate("ptt-sequence", "PTT controller calls %v do not match the PTT lines sent %v", calls, d.sim.PTTSent())
		}
		d.count("ptt_calls_compared", int64(len(calls)))
	}
}

func (d *driver) streamViolation(got, expected []byte) {
	at := 0
	for at < len(got) && at < len(expected) && got[at] == expected[at] {
		at++
	}
	kind := "corrupt"
	switch {
	case at == len(got) && len(got) < len(expected):
		kind = "short"
	case at == len(expected) && len(got) > len(expected):
		kind = "extra"
	}
	d.violate("stream-"+kind, "reader got %d bytes, the TNC delivered %d bytes of ARQ payload; first difference at offset %d (reader buffer %d, ending %q)",
		len(got), len(expected), at, d.sc.ReadBuf, d.sc.End)
}

// pttMatches: the calls must be the well-formed requests in order; a malformed PTT line may
// contribute one SetPTT(false) at its position or nothing.
func pttMatches(sent []simardop.PTTItem, calls []bool) bool {
	// reach[j] = the first i items can be matched with the first j calls
	reach := map[int]bool{0: true}
	for _, it := range sent {
		next := map[int]bool{}
		for j := range reach {
			if it.WellFormed {
				if j < len(calls) && calls[j] == it.On {
					next[j+1] = true
				}
			} else {
				next[j] = true
				if j < len(calls) && !calls[j] {
					next[j+1] = true
				}
			}
		}
		reach = next
	}
	return reach[len(calls)]
}
