package c14

import (
	"os"
	"testing"
	"time"

	"verif/internal/vrt"
)

func TestProf(t *testing.T) {
	if os.Getenv("C14_NODEBUG") == "" {
		setup()
	}
	var o vrt.Obs
	for i := 0; i < 200; i++ {
		sc := genScenario(1, i)
		t0 := time.Now()
		evalScenario(&o, sc)
		if d := time.Since(t0); d > 300*time.Millisecond {
			t.Logf("%v %s", d, signature(sc))
		}
	}
	t.Logf("viol=%d incon=%v", len(o.Violations), o.Inconclusive)
}
