// Package c14: an ARDOP connection is a reliable ordered byte stream with correct host framing.
//
// The real transport/ardop client is run against a simulated TNC (internal/simardop) in serial
// (CRC framed, in-memory line with deterministic segmentation) and TCP (loopback, two sockets)
// mode. Oracles: the simulator's frame validator and payload ledger, stream equality at the
// application side, a shared sequence for Flush / BUFFER 0 and Close / DISCONNECT ordering, the
// PTT controller log, and "the process survives malformed TNC input".
package c14

import (
	"fmt"
	"math/rand"
	"strings"

	"verif/internal/simardop"
	"verif/internal/vrt"
)

type params struct {
	Kind  string `json:"kind"`            // regress | prng
	Class string `json:"class,omitempty"` // regress: which fixed scenario
	Seed  int64  `json:"seed,omitempty"`
	Lo    int    `json:"lo,omitempty"` // prng: scenario indices [Lo,Hi)
	Hi    int    `json:"hi,omitempty"`
}

// item is one thing the simulated TNC sends to the host.
type item struct {
	K string `json:"k"`           // arq | tagged | line | badcrc-line | badcrc-data | short-d | pairs | raw
	N int    `json:"n,omitempty"` // payload / garbage size
	T string `json:"t,omitempty"` // line text, frame tag
	// Cut forces a split at this offset from the end of the encoded frame (1 = between the two CRC
	// bytes in serial mode); 0 = PRNG segmentation only.
	Cut int `json:"cut,omitempty"`
}

type write struct {
	N      int  `json:"n"`
	Faults int  `json:"faults,omitempty"` // CRCFAULT answers to this write's data frame (serial)
	Async  bool `json:"async,omitempty"`  // an asynchronous BUFFER report precedes the CRCFAULT answer (known finding)
	Flush  bool `json:"flush,omitempty"`  // check Flush / BUFFER 0 ordering after this write
	Hold   int  `json:"hold_ms,omitempty"`
	// Follower: before this write the application registers a follower of the TNC state through the public
	// ListenEnabled().States() API that needs 3 s per update, and the TNC reports two state changes. The second one stays
	// in the follower's hands, so the library gives up on that follower (its 500 ms rule) exactly while it hands out the
	// NEXT control message - the BUFFER or CRCFAULT answer this write is waiting for. A slow third party costs that
	// half second; it must not cost anybody else a message.
	Follower bool `json:"follower,omitempty"`
}

type scenario struct {
	Name     string  `json:"name"`
	Seed     int64   `json:"seed"`
	Mode     string  `json:"mode"` // serial | tcp
	Dial     bool    `json:"dial"`
	Offline  bool    `json:"offline,omitempty"`
	EchoNow  bool    `json:"echo_now,omitempty"`
	Trailing bool    `json:"trailing_space,omitempty"`
	ReadBuf  int     `json:"read_buf"`
	Stall    bool    `json:"stall_reader,omitempty"` // reader starts only after phase A was sent
	SegMode  int     `json:"seg_mode"`               // 0 whole frames, 1 PRNG pieces, 2 single bytes around boundaries
	PauseUS  int     `json:"pause_us,omitempty"`     // tcp: pause between pieces
	A        []item  `json:"a,omitempty"`            // phase A: concurrent with the writes
	Writes   []write `json:"writes,omitempty"`
	B        []item  `json:"b,omitempty"` // phase B: after the writes were flushed (malformed lines live here)
	End      string  `json:"end"`         // close | remote | cut | garbage
	// Poll: while the application writes, another goroutine keeps issuing VERSION commands (a status
	// poller / keep-alive). On the serial interface commands and data share one line: every frame
	// must still arrive whole. Only in scenarios without CRCFAULT fences (which use VERSION themselves).
	Poll bool `json:"poll,omitempty"`
	// Greet (serial line): this many ARQ frames follow the CONNECTED report directly (dial: the called station
	// greets at once; listen: the caller's first frames), before the host's next query is answered.
	Greet int `json:"greet,omitempty"`
	// Undrained: the TNC never reports an empty buffer for what was written (a link that has stopped moving data);
	// Close must still disconnect. The library waits for its own 30 s flush time-out first, so the driver's stall
	// watchdog is given 50 s for that one call.
	Undrained bool `json:"undrained,omitempty"`
	// DialAPI (dial scenarios): "" = Dial, "url" = DialURL("ardop:///<call>"), "urlctx" = DialURLContext with a context
	// that is cancelled right after the dial returned (the usual `defer cancel()`), "urlctx-timeout" = a context whose
	// deadline (150 ms after the dial returned) passes while the connection is in use.
	DialAPI string `json:"dial_api,omitempty"`
	// LateReaderMS: the application's first Read comes this many ms after the connection was made (a busy moment),
	// whatever the TNC has delivered by then - in particular more frames than the library's queue of 4096 holds: the
	// library then makes the TNC wait (for up to a minute), it does not drop what was delivered.
	LateReaderMS int `json:"late_reader_ms,omitempty"`
	CutN         int `json:"cut_n,omitempty"`
	// Again (listen scenarios that end with Close or a remote disconnect): afterwards another station connects and is
	// accepted on the SAME listener; one frame is delivered and must be read, the station disconnects, Read must end.
	Again bool `json:"again,omitempty"`
}

var Check = &vrt.Check{
	ID:    "C14",
	Level: "exploration",
	Rule: "a scenario = (serial|tcp) x (dial|listen) x echo style x reader buffer {1,16,4096,70000} x TNC->host script (ARQ frames 0..65532 B incl. 65531/65532, " +
		"other frame types, BUFFER/NEWSTATE/PTT/BUSY/INPUTPEAKS/unknown lines, bad-CRC frames, short d-frames, parameter-less lines, garbage) x PRNG segmentation " +
		"(incl. cuts inside the CRC) x host writes 1..70000 B with 0-3 CRCFAULT answers x ending (Close | remote disconnect | hang-up mid-frame | garbage); fixed regression " +
		"scenarios for every boundary named in the property are in both tiers. A scenario is non-trivial when a connection was established and at least one byte crossed it " +
		"in either direction; distinct = distinct (mode, dial, reader buffer, frame-size classes, write-size classes, fault counts, ending) signatures",
	Assumptions: []string{
		"CRCFAULT is injected only as the answer to data frames (the property's retransmission clause is about data; the library never repeats commands)",
		"the simulated TNC reports BUFFER 0 only when asked to by the scenario, after every accepted Write returned, and reports a non-zero BUFFER after every data frame: " +
			"a BUFFER 0 overtaking the Write that waits for it makes Flush wait forever (liveness hazard outside the statement)",
		"outside the regression case buffer-before-crcfault (a recorded finding) no BUFFER line can reach a Write whose data frame is answered with CRCFAULT: scenarios that inject " +
			"CRCFAULT send no unsolicited BUFFER lines and such a Write starts only after a control round trip (the library takes any BUFFER line, even the BUFFER 0 that has just " +
			"released Flush, as the acknowledgement of its data frame and then never sees the CRCFAULT)",
		"BUFFER lines without a valid number are sent only while nothing is outstanding (the library reads them as 0)",
		"in TCP mode ARQ data is sent only after Dial/Accept returned (on the serial line a third of the scenarios deliver 1-4 frames directly behind the CONNECTED report) and, in TCP mode, the connection is ended only after the reader received everything (the two sockets are not ordered " +
			"relative to each other)",
		"at most 1000 ARQ frames are outstanding while the reader is stalled for the duration of a script (the library's queue holds 4096 frames and disconnects after a minute when it is full); the backlog scenarios deliver 4300 frames to a reader that starts 400 ms late - well inside that minute",
		"Write of more than 65535 bytes is shortened by design: the returned n is the contract, the remainder is written again by the scenario",
		"malformed PTT lines (no / non-boolean parameter) may cause SetPTT(false) calls; well-formed PTT TRUE/FALSE lines must reach the controller exactly, in order",
		"a stall (no observable progress for 10 s, 3 s once the in-memory line is drained) is a violation only when the same scenario stalls at the same point in three attempts; otherwise inconclusive",
		"a receiver eviction by the library's 500 ms broadcaster timeout (logged as 'Receiver timeout!') makes the scenario inconclusive - except the one eviction per deliberately slow state follower (slow-state-follower scenarios), which is the scenario",
	},
	MaxWorkers:    8,
	SelfTest:      simardop.SelfTest,
	Plan:          plan,
	Run:           run,
	OnCrash:       onCrash,
	Exhaustive:    func(string) bool { return false },
	MinNontrivial: 40,
}

// ---------------------------------------------------------------------------- plan

var regressClasses = []string{
	"read-small-buffer-serial", "read-small-buffer-tcp", "read-buffer-1",
	"bare-ptt-serial", "bare-ptt-tcp", "bare-buffer", "bare-newstate", "bare-state", "bare-misc",
	"len65534-serial", "len65535-serial", "len65534-tcp", "len65535-tcp",
	"short-dframe-serial", "short-dframe-tcp",
	"crc-split-data", "crc-split-line", "crc-split-every-frame",
	"write-sizes-serial", "write-sizes-tcp", "crcfault-1", "crcfault-2", "crcfault-3", "crcfault-each", "buffer-before-crcfault",
	"flush-order-serial", "flush-order-tcp", "ptt-order", "close-disconnect-serial", "close-disconnect-tcp",
	"remote-disconnect", "cut-mid-frame-serial", "cut-mid-frame-tcp", "garbage-serial", "garbage-tcp",
	"burst-stalled-reader", "listen-serial", "listen-tcp", "offline-start", "empty-frames", "dial-greeting", "close-undrained-serial", "close-undrained-tcp", "dial-apis", "backlog-serial", "backlog-tcp", "slow-state-follower", "listen-twice",
}

func plan(seed int64, tier string) []vrt.Case {
	var cs []vrt.Case
	for _, cl := range regressClasses {
		cs = append(cs, vrt.Case{ID: "regress-" + cl, Params: vrt.MustParams(params{Kind: "regress", Class: cl, Seed: seed}), TimeoutS: 300})
	}
	n, per := 1600, 16
	if tier == "thorough" {
		n, per = 24000, 60
	}
	for lo := 0; lo < n; lo += per {
		cs = append(cs, vrt.Case{ID: fmt.Sprintf("prng-%d-%d", lo, lo+per), Params: vrt.MustParams(params{Kind: "prng", Seed: seed, Lo: lo, Hi: lo + per}), TimeoutS: 600})
	}
	return cs
}

// ---------------------------------------------------------------------------- scenario generation

var noiseLines = []string{
	"NEWSTATE ISS", "NEWSTATE IRS", "NEWSTATE IDLE", "BUSY TRUE", "BUSY FALSE", "INPUTPEAKS 1234 -987", "INPUTPEAKS", "PENDING", "CANCELPENDING",
	"STATUS QUEUE HALF FULL", "FREQUENCY 14096400", "FOO", "foo bar baz", "PINGACK 10 50", "REJECTEDBW LA1B", "busy true", "newstate iss", "",
	"VERSION ardopsim_1.0", "ARQBW 500MAX", "ARQTIMEOUT 90", "RDY",
}

// lines that are malformed for their command (parameter missing or of the wrong type)
var malformedLines = []string{
	"PTT", "BUFFER", "NEWSTATE", "STATE", "BUSY", "FAULT", "CODEC", "LISTEN", "MYCALL", "GRIDSQUARE", "ARQTIMEOUT", "FREQUENCY", "DRIVELEVEL", "VERSION",
	"ARQBW", "MYAUX", "CAPTURE", "PLAYBACK", "STATUS", "CWID", "FSKONLY", "TWOTONETEST", "CATPUREDEVICES", "PLAYBACKDEVICES", "TARGET",
	"PTT ", "BUFFER  ", "BUFFER x", "BUFFER 1 2 3 4 5", "BUFFER -1", "BUFFER 99999999999999999999", "PTT MAYBE", "PTT now", "BUSY now", "NEWSTATE BOGUS",
	"NEWSTATE now", "STATE now ", "ARQTIMEOUT now", "now", " ", "\x00\x01\x02", "PTT\tTRUE", strings.Repeat("A", 5000),
}

var frameSizes = []int{0, 1, 2, 3, 4, 5, 15, 16, 17, 127, 128, 255, 256, 1000, 4085, 4086, 4087, 4088, 4089, 4090, 4096, 4097, 8192, 32767, 32768, 65530, 65531, 65532}
var writeSizes = []int{1, 2, 3, 100, 255, 256, 1000, 4096, 32768, 65534, 65535, 65536, 65537, 70000}

func pickSize(r *rand.Rand, table []int, maxv int) int {
	switch r.Intn(4) {
	case 0:
		return table[r.Intn(len(table))]
	case 1:
		return r.Intn(40)
	case 2:
		return r.Intn(2000)
	default:
		if r.Intn(4) == 0 {
			return r.Intn(maxv + 1)
		}
		return r.Intn(300)
	}
}

func genItems(r *rand.Rand, sc *scenario, n int, phaseB bool, budget *int, allowBuffer bool) []item {
	var out []item
	for i := 0; i < n; i++ {
		switch k := r.Intn(100); {
		case k < 45:
			sz := pickSize(r, frameSizes, 65532)
			if sz > *budget {
				sz = r.Intn(200)
			}
			*budget -= sz
			it := item{K: "arq", N: sz}
			if sc.Mode == "serial" && r.Intn(3) == 0 {
				it.Cut = 1 + r.Intn(2) // between / just before the CRC bytes
			}
			out = append(out, it)
		case k < 55:
			out = append(out, item{K: "line", T: vrt.Pick(r, []string{"PTT TRUE", "PTT FALSE", "PTT True", "PTT false", "ptt trUE"})})
		case k < 65:
			l := vrt.Pick(r, noiseLines)
			it := item{K: "line", T: l}
			if sc.Mode == "serial" && r.Intn(3) == 0 {
				it.Cut = 1
			}
			out = append(out, it)
		case k < 70:
			if allowBuffer {
				out = append(out, item{K: "line", T: fmt.Sprintf("BUFFER %d", 1+r.Intn(70000))})
			}
		case k < 76:
			out = append(out, item{K: "tagged", T: vrt.Pick(r, []string{"FEC", "ERR", "IDF", "xyz", "arq", "\x00\x00\x00"}), N: r.Intn(300)})
		case k < 80:
			out = append(out, item{K: "tagged", T: "IDF", N: -1}) // a real ID frame text
		case k < 84:
			out = append(out, item{K: "badcrc-data", N: r.Intn(300)})
		case k < 87:
			out = append(out, item{K: "badcrc-line", T: vrt.Pick(r, []string{"PTT TRUE", "DISCONNECTED", "NEWSTATE DISC", "BUFFER 0"})})
		case k < 92:
			out = append(out, item{K: "short-d", N: r.Intn(3)})
		case k < 95:
			out = append(out, item{K: "pairs", N: 2 * (1 + r.Intn(40))})
		default:
			if phaseB {
				l := vrt.Pick(r, malformedLines)
				if l == "TARGET" && !sc.Dial {
					l = "PTT"
				}
				out = append(out, item{K: "line", T: l})
			}
		}
	}
	return out
}

func genScenario(seed int64, idx int) scenario {
	r := vrt.Rand(seed, "c14", idx)
	sc := scenario{Name: fmt.Sprintf("prng-%d", idx), Seed: int64(r.Uint32())}
	sc.Mode = "serial"
	if r.Intn(5) < 2 {
		sc.Mode = "tcp"
	}
	sc.Dial = r.Intn(2) == 0
	if sc.Dial {
		sc.DialAPI = []string{"", "", "url", "urlctx", "urlctx-timeout", ""}[idx%6]
	}
	sc.Offline = r.Intn(6) == 0
	sc.EchoNow = r.Intn(2) == 0
	sc.Trailing = r.Intn(3) == 0
	sc.ReadBuf = vrt.Pick(r, []int{1, 16, 16, 4096, 4096, 70000})
	sc.SegMode = r.Intn(3)
	if sc.Mode == "tcp" && r.Intn(4) == 0 {
		sc.PauseUS = 200 + r.Intn(1500)
	}
	budget := 200 << 10
	faulty := false
	if r.Intn(10) < 8 {
		nw := 1 + r.Intn(4)
		for i := 0; i < nw; i++ {
			w := write{N: max(1, pickSize(r, writeSizes, 70000))}
			if w.N > budget {
				w.N = 1 + r.Intn(500)
			}
			budget -= w.N
			if sc.Mode == "serial" && r.Intn(3) == 0 {
				w.Faults = 1 + r.Intn(3)
				faulty = true
			}
			w.Flush = r.Intn(2) == 0
			w.Hold = vrt.Pick(r, []int{0, 1, 3, 10})
			sc.Writes = append(sc.Writes, w)
		}
		sc.Writes[len(sc.Writes)-1].Flush = true
		sc.Poll = !faulty && r.Intn(2) == 0
	}
	if sc.Seed%3 == 0 && sc.Mode == "serial" {
		// only on the serial line: over TCP the report and the data travel on two sockets that are not
		// ordered relative to each other, so "directly behind" does not exist there
		sc.Greet = 1 + int(sc.Seed/3)%4
	}
	if r.Intn(10) < 9 {
		sc.A = genItems(r, &sc, r.Intn(14), false, &budget, !faulty)
	}
	if r.Intn(12) == 0 { // burst against a stalled reader
		sc.Stall = true
		n := 64 + r.Intn(500)
		for i := 0; i < n; i++ {
			sc.A = append(sc.A, item{K: "arq", N: r.Intn(120)})
		}
	}
	if r.Intn(10) < 7 {
		sc.B = genItems(r, &sc, 1+r.Intn(10), true, &budget, false)
	}
	switch k := r.Intn(20); {
	case k < 11:
		sc.End = "close"
	case k < 16:
		sc.End = "remote"
	case k < 18:
		sc.End = "cut"
		sc.CutN = 1 + r.Intn(3000)
	default:
		sc.End = "garbage"
		sc.CutN = 1 + r.Intn(5000)
	}
	return sc
}
