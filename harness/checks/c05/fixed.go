package c05

import (
	"bytes"
	"fmt"
	"strings"

	"github.com/la5nta/wl2k-go/fbb"

	"verif/internal/b2fx"
	"verif/internal/vrt"
)

// Fixed regression worlds: one per conforming variation named in the property / defect shape of
// DESIGN.md section 7. Part of both tiers.
var fixedNames = []string{"two-offset-accepts", "offset-then-letters", "all-accept-forms", "all-reject-forms", "all-defer-forms", "title-from-long-subject", "latin1-subject", "early-fq", "dup-mid", "dup-mid-second", "dup-mid-second-batched", "dup-mid-third-batched", "six-messages-order", "precedence-in-encoded-subjects", "peer-traffic-after-its-ff", "peer-traffic-after-its-ff-lib-master", "twenty-mixed-precedence", "sixteen-one-flash", "lib-master-motd", "gzip"}

func fixedWorld(name string) (*b2fx.PeerWorld, error) {
	w := b2fx.BaseWorld("fixed-"+name, false)
	var err error
	add := func(e error) {
		if err == nil {
			err = e
		}
	}
	body := func(n int, c byte) []byte { return bytes.Repeat([]byte{c, c + 1, '\r', '\n'}, n) }
	switch name {
	case "two-offset-accepts": // FS !0!0
		add(w.AddLib("OFFA", "first", body(40, 'a'), "!0"))
		add(w.AddLib("OFFB", "second", body(90, 'b'), "!0"))
	case "offset-then-letters": // FS A0+a0Y-
		add(w.AddLib("MIXA", "m", body(10, 'a'), "A0"))
		add(w.AddLib("MIXB", "m", body(20, 'b'), "+"))
		add(w.AddLib("MIXC", "m", body(30, 'c'), "a0"))
		add(w.AddLib("MIXD", "m", body(40, 'd'), "Y"))
		add(w.AddLib("MIXE", "m", body(50, 'e'), "-"))
	case "all-accept-forms":
		for i, t := range []string{"+", "Y", "y", "!0", "A0", "a0"} {
			add(w.AddLib(fmt.Sprintf("ACC%d", i), "accept forms", body(10+i*7, 'a'), t))
		}
	case "all-reject-forms":
		for i, t := range []string{"-", "N", "n", "R", "r"} {
			add(w.AddLib(fmt.Sprintf("REJ%d", i), "reject forms", body(10+i*7, 'a'), t))
		}
	case "all-defer-forms":
		for i, t := range []string{"=", "L", "l", "H", "h"} {
			add(w.AddLib(fmt.Sprintf("DEF%d", i), "defer forms", body(10+i*7, 'a'), t))
		}
	case "title-from-long-subject":
		add(w.AddLib("LONGSUBJ", strings.Repeat("s", 128), body(10, 'a'), "+"))
		add(w.AddLib("SUBJ81", strings.Repeat("t", 81), body(11, 'a'), "+"))
		add(w.AddLib("SUBJ80", strings.Repeat("u", 80), body(12, 'a'), "+"))
	case "latin1-subject":
		add(w.AddLib("LATIN1", "=?ISO-8859-1?q?"+strings.Repeat("=E6", 37)+"?=", body(10, 'a'), "+"))
		add(w.AddLib("LATIN2", "=?ISO-8859-1?q?Bl=E5b=E6rsyltet=F8y?=", body(11, 'a'), "+"))
	case "early-fq":
		w.Plan.EarlyFQ = true
		add(w.AddLib("EFQ1", "early fq", body(10, 'a'), "+"))
	case "dup-mid":
		w.Plan.DupInBlock = true
		add(w.AddPeer("DUP1", "dup", body(10, 'a'), fbb.Accept))
		add(w.AddPeer("DUP2", "dup", body(20, 'a'), fbb.Accept))
	case "dup-mid-second", "dup-mid-second-batched", "dup-mid-third-batched":
		// the duplicate is followed by proposals the handler still has to answer (each differently)
		w.Plan.DupInBlock, w.Plan.DupPos = true, 1
		if name == "dup-mid-third-batched" {
			w.Plan.DupPos = 2
		}
		w.Batched = name != "dup-mid-second"
		add(w.AddPeer("DUPA", "dup a", body(10, 'a'), fbb.Accept))
		add(w.AddPeer("DUPB", "dup b", body(20, 'b'), fbb.Reject))
		add(w.AddPeer("DUPC", "dup c", body(30, 'c'), fbb.Accept))
		add(w.AddPeer("DUPD", "dup d", body(40, 'd'), fbb.Defer))
	case "peer-traffic-after-its-ff", "peer-traffic-after-its-ff-lib-master":
		// the peer says FF first, receives the station's messages, then has traffic of its own (more than one
		// block): the station, with nothing left to send, must keep answering FF until the peer is done
		// (the peer holds only while the station has messages it has not offered yet: the station is master
		// with two messages, or slave with seven = two blocks)
		n := 7
		if name == "peer-traffic-after-its-ff-lib-master" {
			w = b2fx.BaseWorld("fixed-"+name, true)
			n = 2
		}
		w.Plan.HoldFirst = true
		for i := 0; i < n; i++ {
			add(w.AddLib(fmt.Sprintf("HOLDL%d", i), "station traffic", body(20+i, 'a'), "+"))
		}
		for i := 0; i < 7; i++ {
			add(w.AddPeer(fmt.Sprintf("HOLDP%d", i), "late traffic", body(30+i, 'p'), fbb.Accept))
		}
	case "precedence-in-encoded-subjects":
		// precedence markers in subjects that are word-encoded on the wire (non-ASCII characters), next to smaller routine traffic
		add(w.AddLib("PENC1", "routine small", body(3, 'a'), "+"))
		add(w.AddLib("PENC2", "=?ISO-8859-1?q?//WL2K_Z/_fl=E5sh?=", body(700, 'b'), "+"))
		add(w.AddLib("PENC3", "=?ISO-8859-1?q?//WL2K_P/_pr=F8ve?=", body(400, 'c'), "+"))
		add(w.AddLib("PENC4", "=?ISO-8859-1?q?//WL2K_O/_=F8yeblikkelig?=", body(500, 'd'), "+"))
		add(w.AddLib("PENC5", "routine medium", body(100, 'e'), "+"))
		add(w.AddLib("PENC6", "//WL2K P/ ascii priority", body(900, 'f'), "+"))
	case "six-messages-order":
		add(w.AddLib("ORD1", "routine big", body(400, 'a'), "+"))
		add(w.AddLib("ORD2", "routine small", body(3, 'b'), "+"))
		add(w.AddLib("ORD3", "//WL2K P/ priority", body(200, 'c'), "+"))
		add(w.AddLib("ORD4", "//WL2K Z/ flash", body(300, 'd'), "+"))
		add(w.AddLib("ORD5", "//WL2K O/ immediate", body(100, 'e'), "+"))
		add(w.AddLib("ORD6", "routine mid", body(50, 'f'), "+"))
		add(w.AddLib("ORD7", "//WL2K Z/ flash small", body(1, 'g'), "+"))
	case "twenty-mixed-precedence", "sixteen-one-flash":
		// more pending messages than fit small-slice code paths of sort implementations, mixed
		// precedence, sizes not monotone in queue order
		n := 20
		if name == "sixteen-one-flash" {
			n = 16
		}
		marks := []string{"//WL2K Z/ ", "//WL2K O/ ", "//WL2K P/ ", "", "", ""}
		for i := 0; i < n; i++ {
			mark := marks[(i*7+3)%len(marks)]
			if name == "sixteen-one-flash" {
				mark = ""
				if i == 11 {
					mark = "//WL2K Z/ "
				}
			}
			add(w.AddLib(fmt.Sprintf("ORD%02d", i), mark+fmt.Sprintf("message %d", i), body(5+(i*37)%190, byte('a'+i%20)), "+"))
		}
	case "lib-master-motd":
		w = b2fx.BaseWorld("fixed-"+name, true)
		w.MOTD = []string{"Welcome", "second line"}
		add(w.AddLib("LM1", "from master", body(10, 'a'), "Y"))
		add(w.AddPeer("PM1", "to master", body(10, 'b'), fbb.Accept))
	case "gzip":
		w.Gzip = true
		w.Plan.Gzip = true
		w.Plan.SID = "[WL2K-5.0-B2FWIHJMG$]"
		add(w.AddLib("GZ1", "gzip", body(100, 'a'), "+"))
		add(w.AddPeer("GZ2", "gzip", body(100, 'b'), fbb.Accept))
	default:
		return nil, fmt.Errorf("unknown fixed world %q", name)
	}
	return w, err
}

func run(c vrt.Case) vrt.Obs {
	var p params
	vrt.Params(c, &p)
	var o vrt.Obs
	switch {
	case p.Fixed == "blocksizes":
		// every legal data-block size, with payloads that are not a multiple of the size and one that is
		for k := p.Lo; k < p.Hi && k <= 256; k++ {
			w := b2fx.BaseWorld(fmt.Sprintf("blocksize-%d", k), k%2 == 0)
			w.Plan.BlockSize = k
			r := vrt.Rand(p.Seed, "c05bs", k)
			var err error
			for i := 0; i < 2 && err == nil; i++ {
				err = w.AddPeer(fmt.Sprintf("BS%dX%d", k, i), "block size sweep", vrt.Bytes(r, 300+r.Intn(600)), fbb.Accept)
			}
			if err != nil {
				o.Inconclusive = append(o.Inconclusive, err.Error())
				continue
			}
			exec(&o, w)
			o.Count("fixed_block_sizes_swept", 1)
		}
	case p.Fixed != "":
		w, err := fixedWorld(p.Fixed)
		if err != nil {
			o.Inconclusive = append(o.Inconclusive, "fixed world "+p.Fixed+": "+err.Error())
			return o
		}
		exec(&o, w)
	default:
		for i := p.Index; i < p.Index+p.Count; i++ {
			r := vrt.Rand(p.Seed, "c05", i)
			w, err := b2fx.GenPeerWorld(r, fmt.Sprintf("w%d", i))
			if err != nil {
				o.Inconclusive = append(o.Inconclusive, fmt.Sprintf("world %d: generator: %v", i, err))
				continue
			}
			exec(&o, w)
		}
	}
	return o
}
