// Package c05: wire behaviour conforms to B2F as judged by an independently written peer.
// A real Session talks to internal/ref/b2fref over a deterministic in-memory link; the peer
// validates every byte the Session writes and uses PRNG-chosen *conforming* encodings itself.
package c05

import (
	"bytes"
	"fmt"
	"sort"
	"strings"

	"github.com/la5nta/wl2k-go/fbb"

	"verif/internal/b2fx"
	"verif/internal/mem"
	"verif/internal/ref/b2fref"
	"verif/internal/ref/lzref"
	"verif/internal/vpipe"
	"verif/internal/vrt"
)

type params struct {
	Seed  int64  `json:"seed"`
	Index int    `json:"index"`
	Count int    `json:"count"`
	Fixed string `json:"fixed,omitempty"`
	Lo    int    `json:"lo,omitempty"`
	Hi    int    `json:"hi,omitempty"`
}

var Check = &vrt.Check{
	ID:    "C05",
	Level: "exploration",
	Rule: "a case runs sessions between a real Session (PRNG role, user agent, callsigns with SSID, locator, 0-3 auxiliary addresses, 0-12 messages each way) and the reference peer " +
		"(PRNG conforming encodings: data-block sizes 1..256 incl. a fixed sweep of every size, the whole answer alphabet in both cases, zero-offset accepts, comment and ;PM lines, MOTD, " +
		";FW with hashes, SID variants containing B2, early FQ, duplicate MIDs in a block, gzip when negotiated); non-trivial = at least one frame crossed the link in either direction; " +
		"distinct = distinct (case, received MIDs, delivered MIDs, FS lines) signatures",
	Assumptions: []string{
		"H/h answers are treated as a deferral (the repository's TestParseProposalAnswer pins that reading; the FBB page words it as 'accepted but held')",
		"offset-form accepts are exercised with offset 0 only (the property names zero-offset accepts); resuming from non-zero offsets is out of scope",
		"user agent fields contain no dash, as the API documents",
		"the reference peer and reference LZHUF codec are trusted (self-tested against the golden files at every start)",
	},
	SelfTest:        lzref.SelfTest,
	Plan:            plan,
	Run:             run,
	HangIsViolation: true,
	HangKey:         func(vrt.Case) string { return "session" },
	MinNontrivial:   50,
}

func plan(seed int64, tier string) []vrt.Case {
	n, per := 2000, 40
	if tier == "thorough" {
		n, per = 80000, 400
	}
	var cs []vrt.Case
	for _, f := range fixedNames {
		cs = append(cs, vrt.Case{ID: "fixed-" + f, Params: vrt.MustParams(params{Seed: seed, Fixed: f}), TimeoutS: 300})
	}
	for lo := 1; lo <= 256; lo += 32 {
		cs = append(cs, vrt.Case{ID: fmt.Sprintf("blocksizes-%d", lo), Params: vrt.MustParams(params{Seed: seed, Fixed: "blocksizes", Lo: lo, Hi: lo + 32}), TimeoutS: 300})
	}
	for i := 0; i < n; i += per {
		cs = append(cs, vrt.Case{ID: fmt.Sprintf("rand-%d", i), Params: vrt.MustParams(params{Seed: seed, Index: i, Count: per}), TimeoutS: 600})
	}
	return cs
}

func exec(o *vrt.Obs, w *b2fx.PeerWorld) {
	o.Evals++
	run := w.Run(false, [2][]vpipe.Edit{})
	res := run.Res
	b2fx.EventCounts(o, run.Events)
	before := len(o.Violations)
	judge(o, w, run)
	for i := before; i < len(o.Violations); i++ {
		if o.Violations[i].Detail == nil {
			o.Violations[i].Detail = map[string]any{"world": w.Describe(), "handshake_lines": res.HandshakeLines, "fs_received": res.FSReceived, "fs_sent": res.AnswersSent, "lib_error": res.LibError, "peer_err": fmt.Sprint(res.Err)}
		}
	}
	o.Count("sessions", 1)
	o.Count("lib_bytes_judged", int64(res.LibBytes))
	o.Count("proposal_blocks_judged", int64(len(res.Blocks)))
	o.Count("frames_from_lib_judged", int64(len(res.Received)))
	o.Count("peer_turns_holding_traffic_back", int64(res.HeldTurns))
	o.Count("frames_to_lib_delivered", int64(len(res.Delivered)))
	o.Count("deferred_duplicate_copies_offered_again", int64(res.DupReoffered))
	if res.HungUpBehindFQ {
		o.Count("sessions_ended_by_FQ_and_hang-up_right_behind_the_last_frame", 1)
	}
	for _, n := range res.DataBlocks {
		o.Count("data_blocks_from_lib", int64(n))
	}
	for _, fs := range res.AnswersSent {
		for _, c := range fs[3:] {
			o.Count("answer_char_"+string(c), 1)
		}
	}
	if len(res.Received)+len(res.Delivered) > 0 {
		o.Sig("%s %v %v %v", w.Tag, res.ReceivedSeq, res.Delivered, res.AnswersSent)
	}
	if o.Sample == nil && len(res.Received) > 0 && len(res.Delivered) > 0 {
		o.Sample = w.Describe()
	}
}

func judge(o *vrt.Obs, w *b2fx.PeerWorld, run *b2fx.PeerRun) {
	res, stats, lerr, lst, st, ev, truth := run.Res, run.Lib.Stats, run.Lib.Err, run.Link, run.Station, run.Events, run.Truth
	if run.Lib.Panic != nil {
		o.Violations = append(o.Violations, vrt.PanicViolation(run.Lib.Panic, []byte(run.Lib.Stack)))
		return
	}
	for _, c := range append(res.Complaints, res.CheckOrder(truth)...) {
		o.Violate("judge:"+c.Rule, "reference peer: %s", c.Detail)
	}
	// content, independent of the library's own message parser (see b2fx.CheckContent)
	b2fx.CheckContent(o, w.LibMsgs, res.Received, "peer")
	b2fx.CheckContent(o, w.PeerMsgs, st.Inbox(), "station under test")
	if lst.Deadlock {
		o.Violate("deadlock", "session and reference peer both blocked in Read with nothing in flight (peer err=%v, Exchange err=%v)", res.Err, lerr)
	}
	if len(o.Violations) > 0 {
		return
	}
	// the peer only used conforming encodings: the session must complete
	if lerr != nil || res.Err != nil || res.LibError != "" {
		o.Violate("lib-refused:"+b2fx.ErrClass(lerr), "session did not complete against a conforming peer: Exchange returned %v; peer stopped with %v; station sent %q", lerr, res.Err, res.LibError)
		return
	}
	if !lst.Closed[0] {
		o.Violate("conn-not-closed", "Exchange returned without closing the connection")
	}
	cnt := map[string][]mem.Event{}
	for _, e := range ev {
		if e.MID != "" {
			cnt[e.Kind+"|"+e.MID] = append(cnt[e.Kind+"|"+e.MID], e)
		}
	}
	pending := map[string]bool{}
	for _, m := range st.Pending() {
		pending[m] = true
	}
	var wantSent, wantRecv []string
	for _, m := range w.LibMsgs {
		a, _ := b2fref.ParseAnswers(w.Plan.Answers[m.MID])
		ss, sd := cnt[mem.EvSetSent+"|"+m.MID], cnt[mem.EvSetDeferred+"|"+m.MID]
		desc := fmt.Sprintf("library message %s answered %q", m.MID, w.Plan.Answers[m.MID])
		switch a[0].Kind {
		case '+':
			wantSent = append(wantSent, m.MID)
			got, ok := res.Received[m.MID]
			if a[0].Offset > 0 {
				// taken from an offset: the peer judged framing, offset field, checksum and length of the part it asked for
				o.Count("lib_messages_taken_from_an_offset", 1)
			} else if !ok || !bytes.Equal(got, w.Truth[m.MID]) {
				o.Violate("outcome-not-received", "%s: the peer did not receive the queued message", desc)
			}
			if len(ss) != 1 || ss[0].Flag || len(sd) != 0 || pending[m.MID] {
				o.Violate("outcome-accept-bookkeeping", "%s: SetSent=%v SetDeferred=%d pending=%v", desc, ss, len(sd), pending[m.MID])
			}
		case '-':
			if _, ok := res.Received[m.MID]; ok || len(ss) != 1 || !ss[0].Flag || len(sd) != 0 {
				o.Violate("outcome-reject-bookkeeping", "%s: transferred=%v SetSent=%v SetDeferred=%d", desc, ok, ss, len(sd))
			}
		case '=':
			if _, ok := res.Received[m.MID]; ok || len(ss) != 0 || len(sd) != 1 || !pending[m.MID] {
				o.Violate("outcome-defer-bookkeeping", "%s: transferred=%v SetSent=%v SetDeferred=%d pending=%v", desc, ok, ss, len(sd), pending[m.MID])
			}
		}
		o.Count("lib_messages_outcome_checked", 1)
	}
	delivered := map[string]int{}
	for _, m := range res.Delivered {
		delivered[m]++
	}
	for _, m := range w.PeerMsgs {
		pi := cnt[mem.EvProcessInbound+"|"+m.MID]
		desc := fmt.Sprintf("peer message %s (handler policy %c)", m.MID, rune(w.LibPolicy[m.MID]))
		switch w.LibPolicy[m.MID] {
		case fbb.Accept:
			wantRecv = append(wantRecv, m.MID)
			if len(pi) != 1 || pi[0].Hash != mem.Hash(w.Truth[m.MID]) || delivered[m.MID] != 1 {
				o.Violate("outcome-inbound-accept", "%s: ProcessInbound=%d (hash ok=%v) confirmed deliveries=%d", desc, len(pi), len(pi) == 1 && pi[0].Hash == mem.Hash(w.Truth[m.MID]), delivered[m.MID])
			}
		default:
			if len(pi) != 0 || delivered[m.MID] != 0 {
				o.Violate("outcome-inbound-not-accepted", "%s: ProcessInbound=%d deliveries=%d", desc, len(pi), delivered[m.MID])
			}
		}
		o.Count("peer_messages_outcome_checked", 1)
	}
	sort.Strings(wantSent)
	sort.Strings(wantRecv)
	if got := b2fx.SortedCopy(stats.Sent); fmt.Sprint(got) != fmt.Sprint(wantSent) {
		o.Violate("stats-sent", "TrafficStats.Sent=%v, transferred=%v", got, wantSent)
	}
	if got := b2fx.SortedCopy(stats.Received); fmt.Sprint(got) != fmt.Sprint(wantRecv) {
		o.Violate("stats-received", "TrafficStats.Received=%v, transferred=%v", got, wantRecv)
	}
	// forwarder list handed to GetOutbound == the peer's ;FW entries (hashes stripped)
	var wantFW []string
	for _, f := range w.Plan.FW {
		wantFW = append(wantFW, strings.ToUpper(strings.Split(f, "|")[0]))
	}
	for _, e := range ev {
		if e.Kind == mem.EvGetOutbound {
			var got []string
			for _, f := range e.FW {
				got = append(got, strings.ToUpper(f))
			}
			if fmt.Sprint(got) != fmt.Sprint(wantFW) {
				o.Violate("forwarders", "GetOutbound called with forwarders %v, the peer announced %v", got, wantFW)
				break
			}
			o.Count("getoutbound_fw_checked", 1)
		}
	}
	// ;FW of the station: own call + auxiliary addresses in registration order
	wantLine := ";FW: " + strings.Join(append([]string{strings.ToUpper(w.LibCall)}, w.Aux...), " ")
	gotLine := res.LibFW
	if w.Plan.Challenge != "" {
		// hashes of auxiliary addresses are C16's business
		var f []string
		for _, x := range strings.Fields(strings.TrimPrefix(gotLine, ";FW:")) {
			f = append(f, strings.Split(x, "|")[0])
		}
		gotLine = ";FW: " + strings.Join(f, " ")
	}
	if gotLine != wantLine {
		o.Violate("fw-line", "station sent %q, expected %q", res.LibFW, wantLine)
	}
}
