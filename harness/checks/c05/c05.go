// Package c05: wire behaviour conforms to B2F as judged by an independently written peer.
// A real Session talks to internal/ref/b2fref over a deterministic in-memory link; the peer
// validates every byte the Session writes and uses PRNG-chosen *conforming* encodings itself.
package c05

import (
	"bytes"
	"fmt"
	"math/rand"
	"sort"
	"strings"

	"github.com/la5nta/wl2k-go/fbb"

	"verif/internal/b2fx"
	"verif/internal/mem"
	"verif/internal/ref/b2fref"
	"verif/internal/ref/lzref"
	"verif/internal/vpipe"
	"verif/internal/vrt"
)

type params struct {
	Seed  int64  `json:"seed"`
	Index int    `json:"index"`
	Count int    `json:"count"`
	Fixed string `json:"fixed,omitempty"`
	Lo    int    `json:"lo,omitempty"`
	Hi    int    `json:"hi,omitempty"`
}

var Check = &vrt.Check{
	ID:    "C05",
	Level: "exploration",
	Rule: "a case runs sessions between a real Session (PRNG role, user agent, callsigns with SSID, locator, 0-3 auxiliary addresses, 0-12 messages each way) and the reference peer " +
		"(PRNG conforming encodings: data-block sizes 1..256 incl. a fixed sweep of every size, the whole answer alphabet in both cases, zero-offset accepts, comment and ;PM lines, MOTD, " +
		";FW with hashes, SID variants containing B2, early FQ, duplicate MIDs in a block, gzip when negotiated); non-trivial = at least one frame crossed the link in either direction; " +
		"distinct = distinct (case, received MIDs, delivered MIDs, FS lines) signatures",
	Assumptions: []string{
		"H/h answers are treated as a deferral (the repository's TestParseProposalAnswer pins that reading; the FBB page words it as 'accepted but held')",
		"offset-form accepts are exercised with offset 0 only (the property names zero-offset accepts); resuming from non-zero offsets is out of scope",
		"user agent fields contain no dash, as the API documents",
		"the reference peer and reference LZHUF codec are trusted (self-tested against the golden files at every start)",
	},
	SelfTest:        lzref.SelfTest,
	Plan:            plan,
	Run:             run,
	HangIsViolation: true,
	HangKey:         func(vrt.Case) string { return "session" },
	MinNontrivial:   50,
}

func plan(seed int64, tier string) []vrt.Case {
	n, per := 2000, 40
	if tier == "thorough" {
		n, per = 80000, 400
	}
	var cs []vrt.Case
	for _, f := range fixedNames {
		cs = append(cs, vrt.Case{ID: "fixed-" + f, Params: vrt.MustParams(params{Seed: seed, Fixed: f}), TimeoutS: 300})
	}
	for lo := 1; lo <= 256; lo += 32 {
		cs = append(cs, vrt.Case{ID: fmt.Sprintf("blocksizes-%d", lo), Params: vrt.MustParams(params{Seed: seed, Fixed: "blocksizes", Lo: lo, Hi: lo + 32}), TimeoutS: 300})
	}
	for i := 0; i < n; i += per {
		cs = append(cs, vrt.Case{ID: fmt.Sprintf("rand-%d", i), Params: vrt.MustParams(params{Seed: seed, Index: i, Count: per}), TimeoutS: 600})
	}
	return cs
}

// world is one library-vs-peer session setup.
type world struct {
	libCall, peerCall string
	locator           string
	ua                fbb.UserAgent
	aux               []string
	libMaster         bool
	motd              []string
	gzip              bool
	seg               int
	libMsgs           []b2fx.MsgSpec                // queued at the library
	peerMsgs          []b2fx.MsgSpec                // queued at the peer
	truth             map[string][]byte             // canonical bytes of every message
	libPolicy         map[string]fbb.ProposalAnswer // library handler's answers to peer proposals
	batched           bool
	plan              b2fref.PeerPlan
	challengePw       string
	tag               string
}

var answerTokens = map[byte][]string{
	'+': {"+", "Y", "y", "!0", "A0", "a0"},
	'-': {"-", "N", "n", "R", "r"},
	'=': {"=", "L", "l", "H", "h"},
}

var peerSIDs = []string{"[WL2K-5.0-B2FWIHJM$]", "[RMS Express-1.5.9.0-B2FHM$]", "[wl2kgo-0.1a-B2FHM$]", "[FBB-7.00-AB1B2FHMX$]", "[paclink-unix-0.5-B2FIHM$]", "[WL2K-B2FHM$]", "[BPQ-6.0.24.1-B2FWIHJM$]"}

func precedence(subject string) int {
	m := new(fbb.Message)
	m.Header = fbb.Header{}
	m.Header.Set("Subject", subject)
	s := m.Subject()
	switch {
	case strings.Contains(s, "//WL2K Z/"):
		return 0
	case strings.Contains(s, "//WL2K O/"):
		return 1
	case strings.Contains(s, "//WL2K P/"):
		return 2
	}
	return 3
}

func asciiTitle(r *rand.Rand, i int) string {
	switch r.Intn(4) {
	case 0:
		return "t"
	case 1:
		return strings.Repeat("T", 80)
	default:
		return fmt.Sprintf("peer message %d //WL2K R/", i)
	}
}

func genWorld(r *rand.Rand, tag string) (*world, error) {
	w := &world{truth: map[string][]byte{}, libPolicy: map[string]fbb.ProposalAnswer{}, tag: tag}
	calls := []string{"N0LIB", "LA5NTA-1", "W1AW-15", "N0LIB-T"}
	w.libCall = calls[r.Intn(len(calls))]
	w.peerCall = []string{"N0PEER", "LA1B-10", "WL2K"}[r.Intn(3)]
	w.locator = []string{"JO29PJ", "JP20qe", "", "FN31"}[r.Intn(4)]
	w.ua = []fbb.UserAgent{{Name: "wl2kgo", Version: "0.1a"}, {Name: "Pat", Version: "0.16.0"}, {Name: "x", Version: "1"}}[r.Intn(3)]
	for i, n := 0, r.Intn(4); i < n; i++ {
		w.aux = append(w.aux, fmt.Sprintf("AUX%d", i))
	}
	w.libMaster = r.Intn(2) == 0
	w.gzip = r.Intn(6) == 0
	w.seg = r.Intn(4)
	w.batched = r.Intn(2) == 0
	if w.libMaster && r.Intn(2) == 0 {
		w.motd = []string{"Welcome", "This node runs an exercise"}[:1+r.Intn(2)]
	}
	count := func() int {
		switch r.Intn(5) {
		case 0:
			return 0
		case 1:
			return 1
		case 2:
			return 5 + r.Intn(3)
		default:
			return r.Intn(13)
		}
	}
	nl, np := count(), count()
	pl := &w.plan
	pl.Seed = r.Int63()
	pl.Master = !w.libMaster
	pl.MyCall, pl.TheirCall = w.peerCall, w.libCall
	pl.SID = peerSIDs[r.Intn(len(peerSIDs))]
	pl.Gzip = w.gzip
	if w.gzip {
		pl.SID = strings.Replace(pl.SID, "$]", "G$]", 1)
	}
	if pl.Master {
		if r.Intn(2) == 0 {
			pl.MOTD = []string{"Welcome to the reference node", "Stats Total connects = 2580 Total messages = 3900", "*** MTD Stats Total connects = 2580 Total messages = 3900"}[:1+r.Intn(3)]
		}
		pl.Prompt = []string{w.peerCall + " DE " + w.libCall + ">", "CMS via exercise >", ">"}[r.Intn(3)]
		if r.Intn(5) == 0 {
			pl.Challenge = fmt.Sprintf("%08d", r.Intn(100000000))
			w.challengePw = "S3cretPw"
		}
	} else {
		pl.Comment = fmt.Sprintf("; %s DE %s (JO59)", w.libCall, w.peerCall)
	}
	switch r.Intn(3) {
	case 0:
		pl.FW = nil
	case 1:
		pl.FW = []string{w.peerCall}
	case 2:
		pl.FW = []string{w.peerCall, "AUXP1|12345678", "AUXP2"}
	}
	pl.Answers = map[string]string{}
	pl.Comments = r.Intn(3)
	pl.EarlyFQ = r.Intn(4) == 0
	pl.DupInBlock = r.Intn(6) == 0
	pl.MaxPerBlock = []int{5, 5, 5, 1, 3}[r.Intn(5)]
	if r.Intn(4) == 0 {
		pl.BlockSize = []int{1, 125, 250, 255, 256}[r.Intn(5)]
	}
	pl.ExpectUAName, pl.ExpectUAVersion, pl.ExpectLocator = w.ua.Name, w.ua.Version, w.locator
	if w.locator == "" {
		pl.ExpectLocator = ""
	}
	for i := 0; i < nl; i++ {
		m := b2fx.GenMsg(r, b2fx.GenMID(r, "L", i), w.libCall, w.peerCall)
		if len(m.Body) > 12000 {
			m.Body = m.Body[:12000]
		}
		c, err := m.Canonical()
		if err != nil {
			return nil, err
		}
		w.truth[m.MID] = c
		w.libMsgs = append(w.libMsgs, m)
		kind := []byte{'+', '+', '+', '+', '-', '='}[r.Intn(6)]
		toks := answerTokens[kind]
		pl.Answers[m.MID] = toks[r.Intn(len(toks))]
	}
	for i := 0; i < np; i++ {
		m := b2fx.GenMsg(r, b2fx.GenMID(r, "P", i), w.peerCall, w.libCall)
		m.Subject = asciiTitle(r, i)
		if len(m.Body) > 12000 {
			m.Body = m.Body[:12000]
		}
		c, err := m.Canonical()
		if err != nil {
			return nil, err
		}
		w.truth[m.MID] = c
		w.peerMsgs = append(w.peerMsgs, m)
		w.libPolicy[m.MID] = []fbb.ProposalAnswer{fbb.Accept, fbb.Accept, fbb.Accept, fbb.Reject, fbb.Defer}[r.Intn(5)]
		pl.Outbound = append(pl.Outbound, b2fref.OutMsg{MID: m.MID, Type: []string{"EM", "EM", "CM"}[r.Intn(3)], Title: m.Subject, Data: c})
	}
	return w, nil
}

func (w *world) describe() map[string]any {
	lib := []string{}
	for _, m := range w.libMsgs {
		lib = append(lib, fmt.Sprintf("%s answer %q %s", m.MID, w.plan.Answers[m.MID], m.Shape))
	}
	peer := []string{}
	for _, m := range w.peerMsgs {
		peer = append(peer, fmt.Sprintf("%s policy %c %s", m.MID, rune(w.libPolicy[m.MID]), m.Shape))
	}
	return map[string]any{"lib_call": w.libCall, "peer_call": w.peerCall, "lib_master": w.libMaster, "ua": w.ua, "aux": w.aux, "locator": w.locator,
		"gzip": w.gzip, "seg": w.seg, "motd": w.motd, "lib_msgs": lib, "peer_msgs": peer, "peer_plan": w.plan}
}

func exec(o *vrt.Obs, w *world) {
	o.Evals++
	b2fx.SetGzip(w.gzip)
	defer b2fx.SetGzip(false)
	lg := &mem.Log{}
	st := mem.NewStation("L", lg)
	st.Batched = w.batched
	truth := map[string]b2fref.LibMsg{}
	for _, m := range w.libMsgs {
		st.Queue(m.MID, w.truth[m.MID])
		truth[m.MID] = b2fref.LibMsg{Data: w.truth[m.MID], Precedence: precedence(m.Subject)}
	}
	for mid, a := range w.libPolicy {
		st.Policy[mid] = a
	}
	side := &b2fx.Side{Call: w.libCall, Station: st, Master: w.libMaster, MOTD: w.motd}
	side.Setup = func(s *fbb.Session) {
		s.SetUserAgent(w.ua)
		for _, a := range w.aux {
			s.AddAuxiliaryAddress(fbb.AddressFromString(a))
		}
		if w.challengePw != "" {
			s.SetSecureLoginHandleFunc(func(fbb.Address) (string, error) { return w.challengePw, nil })
		}
	}
	sess := b2fx.NewSession(side, &b2fx.Side{Call: w.peerCall})
	// locator is a NewSession argument in b2fx (fixed); rebuild with the scenario's locator
	sess = fbb.NewSession(w.libCall, w.peerCall, w.locator, st.AsHandler())
	sess.IsMaster(w.libMaster)
	sess.SetLogger(b2fx.Discard)
	if len(w.motd) > 0 {
		sess.SetMOTD(w.motd...)
	}
	side.Setup(sess)

	ea, eb, link := vpipe.New(vpipe.Plan{Seed: w.plan.Seed, Seg: w.seg, CutDir: vpipe.NoCut, DetectDeadlock: true}, false)
	type libOut struct {
		stats fbb.TrafficStats
		err   error
		pan   any
		stack string
	}
	done := make(chan libOut, 1)
	go func() {
		var lo libOut
		defer func() {
			if r := recover(); r != nil {
				lo.pan, lo.stack = r, string(debugStack())
			}
			done <- lo
		}()
		lo.stats, lo.err = sess.Exchange(ea)
	}()
	res := b2fref.Run(eb, w.plan, truth)
	lo := <-done
	lst := link.State()
	ev := lg.Events()
	b2fx.EventCounts(o, ev)
	before := len(o.Violations)
	judge(o, w, res, lo.stats, lo.err, lo.pan, lo.stack, lst, st, ev, truth)
	for i := before; i < len(o.Violations); i++ {
		if o.Violations[i].Detail == nil {
			o.Violations[i].Detail = map[string]any{"world": w.describe(), "handshake_lines": res.HandshakeLines, "fs_received": res.FSReceived, "fs_sent": res.AnswersSent, "lib_error": res.LibError, "peer_err": fmt.Sprint(res.Err)}
		}
	}
	o.Count("sessions", 1)
	o.Count("lib_bytes_judged", int64(res.LibBytes))
	o.Count("proposal_blocks_judged", int64(len(res.Blocks)))
	o.Count("frames_from_lib_judged", int64(len(res.Received)))
	o.Count("frames_to_lib_delivered", int64(len(res.Delivered)))
	for sz, n := range res.DataBlocks {
		_ = sz
		o.Count("data_blocks_from_lib", int64(n))
	}
	for _, fs := range res.AnswersSent {
		for _, c := range fs[3:] {
			o.Count("answer_char_"+string(c), 1)
		}
	}
	if len(res.Received)+len(res.Delivered) > 0 {
		o.Sig("%s %v %v %v", w.tag, res.ReceivedSeq, res.Delivered, res.AnswersSent)
	}
	if o.Sample == nil && len(res.Received) > 0 && len(res.Delivered) > 0 {
		o.Sample = w.describe()
	}
}

func judge(o *vrt.Obs, w *world, res *b2fref.Result, stats fbb.TrafficStats, lerr error, pan any, stack string, lst vpipe.State, st *mem.Station, ev []mem.Event, truth map[string]b2fref.LibMsg) {
	if pan != nil {
		o.Violations = append(o.Violations, vrt.PanicViolation(pan, []byte(stack)))
		return
	}
	for _, c := range append(res.Complaints, res.CheckOrder(truth)...) {
		o.Violate("judge:"+c.Rule, "reference peer: %s", c.Detail)
	}
	if lst.Deadlock {
		o.Violate("deadlock", "session and reference peer both blocked in Read with nothing in flight (peer err=%v, Exchange err=%v)", res.Err, lerr)
	}
	if len(o.Violations) > 0 {
		return
	}
	// the peer only used conforming encodings: the session must complete
	if lerr != nil || res.Err != nil || res.LibError != "" {
		o.Violate("lib-refused:"+b2fx.ErrClass(lerr), "session did not complete against a conforming peer: Exchange returned %v; peer stopped with %v; station sent %q", lerr, res.Err, res.LibError)
		return
	}
	if !lst.Closed[0] {
		o.Violate("conn-not-closed", "Exchange returned without closing the connection")
	}
	cnt := map[string][]mem.Event{}
	for _, e := range ev {
		if e.MID != "" {
			cnt[e.Kind+"|"+e.MID] = append(cnt[e.Kind+"|"+e.MID], e)
		}
	}
	pending := map[string]bool{}
	for _, m := range st.Pending() {
		pending[m] = true
	}
	var wantSent, wantRecv []string
	for _, m := range w.libMsgs {
		a, _ := b2fref.ParseAnswers(w.plan.Answers[m.MID])
		ss, sd := cnt[mem.EvSetSent+"|"+m.MID], cnt[mem.EvSetDeferred+"|"+m.MID]
		desc := fmt.Sprintf("library message %s answered %q", m.MID, w.plan.Answers[m.MID])
		switch a[0].Kind {
		case '+':
			wantSent = append(wantSent, m.MID)
			got, ok := res.Received[m.MID]
			if !ok || !bytes.Equal(got, w.truth[m.MID]) {
				o.Violate("outcome-not-received", "%s: the peer did not receive the queued message", desc)
			}
			if len(ss) != 1 || ss[0].Flag || len(sd) != 0 || pending[m.MID] {
				o.Violate("outcome-accept-bookkeeping", "%s: SetSent=%v SetDeferred=%d pending=%v", desc, ss, len(sd), pending[m.MID])
			}
		case '-':
			if _, ok := res.Received[m.MID]; ok || len(ss) != 1 || !ss[0].Flag || len(sd) != 0 {
				o.Violate("outcome-reject-bookkeeping", "%s: transferred=%v SetSent=%v SetDeferred=%d", desc, ok, ss, len(sd))
			}
		case '=':
			if _, ok := res.Received[m.MID]; ok || len(ss) != 0 || len(sd) != 1 || !pending[m.MID] {
				o.Violate("outcome-defer-bookkeeping", "%s: transferred=%v SetSent=%v SetDeferred=%d pending=%v", desc, ok, ss, len(sd), pending[m.MID])
			}
		}
		o.Count("lib_messages_outcome_checked", 1)
	}
	delivered := map[string]int{}
	for _, m := range res.Delivered {
		delivered[m]++
	}
	for _, m := range w.peerMsgs {
		pi := cnt[mem.EvProcessInbound+"|"+m.MID]
		desc := fmt.Sprintf("peer message %s (handler policy %c)", m.MID, rune(w.libPolicy[m.MID]))
		switch w.libPolicy[m.MID] {
		case fbb.Accept:
			wantRecv = append(wantRecv, m.MID)
			if len(pi) != 1 || pi[0].Hash != mem.Hash(w.truth[m.MID]) || delivered[m.MID] != 1 {
				o.Violate("outcome-inbound-accept", "%s: ProcessInbound=%d (hash ok=%v) confirmed deliveries=%d", desc, len(pi), len(pi) == 1 && pi[0].Hash == mem.Hash(w.truth[m.MID]), delivered[m.MID])
			}
		default:
			if len(pi) != 0 || delivered[m.MID] != 0 {
				o.Violate("outcome-inbound-not-accepted", "%s: ProcessInbound=%d deliveries=%d", desc, len(pi), delivered[m.MID])
			}
		}
		o.Count("peer_messages_outcome_checked", 1)
	}
	sort.Strings(wantSent)
	sort.Strings(wantRecv)
	if got := b2fx.SortedCopy(stats.Sent); fmt.Sprint(got) != fmt.Sprint(wantSent) {
		o.Violate("stats-sent", "TrafficStats.Sent=%v, transferred=%v", got, wantSent)
	}
	if got := b2fx.SortedCopy(stats.Received); fmt.Sprint(got) != fmt.Sprint(wantRecv) {
		o.Violate("stats-received", "TrafficStats.Received=%v, transferred=%v", got, wantRecv)
	}
	// forwarder list handed to GetOutbound == the peer's ;FW entries (hashes stripped)
	var wantFW []string
	for _, f := range w.plan.FW {
		wantFW = append(wantFW, strings.ToUpper(strings.Split(f, "|")[0]))
	}
	for _, e := range ev {
		if e.Kind == mem.EvGetOutbound {
			var got []string
			for _, f := range e.FW {
				got = append(got, strings.ToUpper(f))
			}
			if fmt.Sprint(got) != fmt.Sprint(wantFW) {
				o.Violate("forwarders", "GetOutbound called with forwarders %v, the peer announced %v", got, wantFW)
				break
			}
			o.Count("getoutbound_fw_checked", 1)
		}
	}
	// ;FW of the station: own call + auxiliary addresses in registration order
	wantLine := ";FW: " + strings.Join(append([]string{strings.ToUpper(w.libCall)}, w.aux...), " ")
	gotLine := res.LibFW
	if w.plan.Challenge != "" {
		// hashes of auxiliary addresses are C16's business
		var f []string
		for _, x := range strings.Fields(strings.TrimPrefix(gotLine, ";FW:")) {
			f = append(f, strings.Split(x, "|")[0])
		}
		gotLine = ";FW: " + strings.Join(f, " ")
	}
	if gotLine != wantLine {
		o.Violate("fw-line", "station sent %q, expected %q", res.LibFW, wantLine)
	}
}
