package c05

import "runtime/debug"

func debugStack() []byte { return debug.Stack() }
