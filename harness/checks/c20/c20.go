// Package c20: position reports state the given position in valid Winlink format.
// Oracle: parse-back of the body text of PosReport.Message().
package c20

import (
	"fmt"
	"math"
	"regexp"
	"strconv"
	"strings"
	"time"

	"github.com/la5nta/wl2k-go/catalog"

	"verif/internal/vrt"
)

type params struct {
	Kind string `json:"kind"` // grid | edges | random | course | optional
	Lo   int    `json:"lo"`
	Hi   int    `json:"hi"`
	Step int    `json:"step,omitempty"` // grid: units per degree (1000 = 0.001 deg)
	Seed int64  `json:"seed,omitempty"`
}

var Check = &vrt.Check{
	ID:    "C20",
	Level: "exploration",
	Rule: "cases are batches of (lat,lon) pairs: a dense grid over [-90,90]x[-180,180], for every whole degree and whole minute the values at " +
		"+-{0,1e-9,4e-7,8.3e-7,8.4e-7,1e-6,1e-5} degrees around it, PRNG doubles, all 361x2 courses and all 16 optional-field combinations; " +
		"a case is non-trivial when a LATITUDE/LONGITUDE (or COURSE/optional) line was produced and parsed back; distinct = distinct printed line pairs " +
		"(capped at 4096 signatures per batch, so the number is an under-count)",
	Assumptions: []string{
		"an input of exactly 0.0 may print any hemisphere letter or a blank (the repository's TestDecToDM pins the blank)",
		"non-zero inputs whose magnitude rounds to 00.0000 minutes of degree 0 may print either hemisphere letter, but must print one",
		"latitude and longitude are set both-or-neither (a position needs both)",
	},
	Plan:          plan,
	Run:           run,
	Exhaustive:    func(string) bool { return false },
	MinNontrivial: 1000,
	Extra: func(tier string) map[string]any {
		return map[string]any{"exhaustive_subspaces": []string{"all 361 x 2 courses", "all 16 optional-field combinations", "every whole degree and whole minute with 13 offsets"}}
	},
}

var deltas = []float64{0, 1e-9, 4e-7, 8.3e-7, 8.4e-7, 1e-6, 1e-5}

func plan(seed int64, tier string) []vrt.Case {
	var cs []vrt.Case
	add := func(p params) {
		cs = append(cs, vrt.Case{ID: fmt.Sprintf("%s-%d-%d-%d", p.Kind, p.Step, p.Lo, p.Hi), Params: vrt.MustParams(p), TimeoutS: 600})
	}
	step := 1000
	if tier == "thorough" {
		step = 10000
	}
	// grid: index i runs over longitude grid points [-180*step, 180*step]
	n := 360*step + 1
	chunk := 4000
	if tier == "thorough" {
		chunk = 40000
	}
	for lo := 0; lo < n; lo += chunk {
		add(params{Kind: "grid", Lo: lo, Hi: min(lo+chunk, n), Step: step})
	}
	// edges: one unit per whole minute of longitude (361*60), each with 13 signed offsets
	nm := 360*60 + 1
	for lo := 0; lo < nm; lo += 300 {
		add(params{Kind: "edges", Lo: lo, Hi: min(lo+300, nm)})
	}
	nr := 40
	if tier == "thorough" {
		nr = 400
	}
	for i := 0; i < nr; i++ {
		add(params{Kind: "random", Lo: i, Hi: i + 1, Seed: seed})
	}
	add(params{Kind: "course"})
	add(params{Kind: "optional", Seed: seed})
	// several goroutines composing reports at the same time (a tracker that reports for several stations)
	for i := 0; i < 4; i++ {
		add(params{Kind: "concurrent", Lo: i, Hi: i + 1, Seed: seed})
	}
	return cs
}

var (
	latRe    = regexp.MustCompile(`^(\d{2})-(\d{2}\.\d{4})(.)$`)
	lonRe    = regexp.MustCompile(`^(\d{3})-(\d{2}\.\d{4})(.)$`)
	courseRe = regexp.MustCompile(`^(\d{3})([TM])$`)
	date     = time.Date(2024, 5, 17, 13, 45, 0, 0, time.UTC)
)

// bodyLines returns the key → value map of the position report body and the raw body.
func bodyLines(o *vrt.Obs, rep catalog.PosReport) (map[string][]string, string, bool) {
	msg := rep.Message("N0CALL")
	if err := msg.Validate(); err != nil {
		o.Violate("validate", "position report message is not valid for sending: %v (report %+v)", err, describe(rep))
		return nil, "", false
	}
	body, err := msg.Body()
	if err != nil {
		o.Violate("body-error", "Body() error %v", err)
		return nil, "", false
	}
	m := map[string][]string{}
	for _, l := range strings.Split(body, "\r\n") {
		if l == "" {
			continue
		}
		k, v, ok := strings.Cut(l, ": ")
		if !ok {
			o.Violate("body-line", "body line without 'KEY: value' form: %q", l)
			return nil, body, false
		}
		m[k] = append(m[k], v)
	}
	return m, body, true
}

func describe(rep catalog.PosReport) string {
	s := ""
	if rep.Lat != nil {
		s += fmt.Sprintf("lat=%.12g ", *rep.Lat)
	}
	if rep.Lon != nil {
		s += fmt.Sprintf("lon=%.12g ", *rep.Lon)
	}
	if rep.Speed != nil {
		s += fmt.Sprintf("speed=%g ", *rep.Speed)
	}
	if rep.Course != nil {
		s += fmt.Sprintf("course=%q ", rep.Course.String())
	}
	if rep.Comment != "" {
		s += fmt.Sprintf("comment=%q", rep.Comment)
	}
	return s
}

// checkCoord validates one printed coordinate against the input value.
func checkCoord(o *vrt.Obs, which string, in float64, printed string) {
	re, pos, neg, maxDeg := latRe, byte('N'), byte('S'), 90
	if which == "lon" {
		re, pos, neg, maxDeg = lonRe, 'E', 'W', 180
	}
	m := re.FindStringSubmatch(printed)
	if m == nil {
		o.Violate("format:"+which, "%s %.12g printed as %q: not DD-MM.MMMMH / DDD-MM.MMMMH", which, in, printed)
		return
	}
	deg, _ := strconv.Atoi(m[1])
	minutes, _ := strconv.ParseFloat(m[2], 64)
	h := m[3][0]
	if minutes >= 60 {
		o.Violate("minutes60:"+which, "%s %.12g printed as %q: minutes >= 60", which, in, printed)
		return
	}
	if deg > maxDeg || (deg == maxDeg && minutes != 0) {
		o.Violate("range:"+which, "%s %.12g printed as %q: out of range", which, in, printed)
		return
	}
	totalMin := float64(deg)*60 + minutes
	if math.Abs(totalMin-math.Abs(in)*60) > 0.00005+1e-7 {
		o.Violate("value:"+which, "%s %.12g printed as %q: differs by %.6f minutes (> 0.00005)", which, in, printed, math.Abs(totalMin-math.Abs(in)*60))
		return
	}
	roundsToZero := totalMin == 0
	switch {
	case in == 0:
		if h != pos && h != neg && h != ' ' {
			o.Violate("hemisphere:"+which, "%s %.12g printed as %q: bad hemisphere character", which, in, printed)
		}
	case roundsToZero:
		// a non-zero input whose digits round to zero: either letter names the same place, but the line
		// must carry a hemisphere letter (the blank is tolerated for an input of exactly 0.0 only)
		if h != pos && h != neg {
			o.Violate("hemisphere:"+which, "%s %.12g printed as %q: no hemisphere letter for a non-zero input", which, in, printed)
		}
	case in > 0 && h != pos, in < 0 && h != neg:
		o.Violate("hemisphere:"+which, "%s %.12g printed as %q: wrong hemisphere letter", which, in, printed)
	}
}

func evalPair(o *vrt.Obs, lat, lon float64) {
	o.Evals++
	rep := catalog.PosReport{Date: date, Lat: &lat, Lon: &lon}
	var lines map[string][]string
	var ok bool
	if vrt.Guard(o, func() { lines, _, ok = bodyLines(o, rep) }) || !ok {
		return
	}
	la, lo := lines["LATITUDE"], lines["LONGITUDE"]
	if len(la) != 1 || len(lo) != 1 {
		o.Violate("missing-line", "lat=%.12g lon=%.12g: LATITUDE/LONGITUDE lines %v %v", lat, lon, la, lo)
		return
	}
	o.Count("coordinate_lines_parsed", 2)
	checkCoord(o, "lat", lat, la[0])
	checkCoord(o, "lon", lon, lo[0])
	o.Sig("%s|%s", la[0], lo[0])
}

func clamp(v, lim float64) float64 {
	if v > lim {
		return lim
	}
	if v < -lim {
		return -lim
	}
	return v
}

func run(c vrt.Case) vrt.Obs {
	var p params
	vrt.Params(c, &p)
	var o vrt.Obs
	switch p.Kind {
	case "grid":
		for i := p.Lo; i < p.Hi; i++ {
			lon := float64(i-180*p.Step) / float64(p.Step)
			// latitude sweeps its own grid twice over the longitude range
			li := i % (180*p.Step + 1)
			lat := float64(li-90*p.Step) / float64(p.Step)
			evalPair(&o, lat, lon)
		}
		o.Sample = map[string]any{"kind": "grid", "first_lon": float64(p.Lo-180*p.Step) / float64(p.Step), "step_deg": 1 / float64(p.Step), "n": p.Hi - p.Lo}
	case "edges":
		for i := p.Lo; i < p.Hi; i++ {
			base := float64(i-180*60) / 60 // a whole minute of longitude
			latBase := float64((i%(180*60+1))-90*60) / 60
			for _, d := range deltas {
				for _, s := range []float64{-1, 1} {
					if d == 0 && s > 0 {
						continue
					}
					evalPair(&o, clamp(latBase+s*d, 90), clamp(base+s*d, 180))
				}
			}
		}
		o.Sample = map[string]any{"kind": "edges", "first_whole_minute_deg": float64(p.Lo-180*60) / 60, "offsets_deg": deltas, "n_minutes": p.Hi - p.Lo}
	case "random":
		r := vrt.Rand(p.Seed, "c20", p.Lo)
		var first [2]float64
		for k := 0; k < 3000; k++ {
			lat := (r.Float64()*2 - 1) * 90
			lon := (r.Float64()*2 - 1) * 180
			switch r.Intn(6) {
			case 0: // just below a whole degree
				lat = clamp(math.Trunc(lat)-r.Float64()*1e-6, 90)
				lon = clamp(math.Trunc(lon)-r.Float64()*1e-6, 180)
			case 1: // just below a whole minute
				lat = clamp(math.Trunc(lat*60)/60-r.Float64()*1e-6, 90)
				lon = clamp(math.Trunc(lon*60)/60-r.Float64()*1e-6, 180)
			case 2:
				lat = math.Float64frombits(math.Float64bits(lat) &^ 0xffff)
			}
			if k == 0 {
				first = [2]float64{lat, lon}
			}
			evalPair(&o, lat, lon)
		}
		for _, v := range [][2]float64{{90, 180}, {-90, -180}, {0, 0}, {math.Copysign(0, -1), math.Copysign(0, -1)}, {89.99999999, 179.99999999}, {-89.99999999, -179.99999999}} {
			evalPair(&o, v[0], v[1])
		}
		o.Sample = map[string]any{"kind": "random", "first_pair": first}
	case "concurrent":
		// four goroutines format positions, courses and full reports of their own at the same time; nothing is shared
		// between them, so each must get what it would get alone
		vrt.Parallel(&o, 4, func(g int, po *vrt.Obs) {
			r := vrt.Rand(p.Seed, "c20-concurrent", p.Lo, g)
			for k := 0; k < 4000; k++ {
				lat := (r.Float64()*2 - 1) * 90
				lon := (r.Float64()*2 - 1) * 180
				if k%5 == 0 { // around whole minutes, where rounding carries
					lat = clamp(math.Trunc(lat*60)/60-r.Float64()*1e-6, 90)
					lon = clamp(math.Trunc(lon*60)/60+r.Float64()*1e-6, 180)
				}
				evalPair(po, lat, lon)
				if k%4 == 0 {
					d, mag := r.Intn(361), r.Intn(2) == 0
					po.Evals++
					vrt.Guard(po, func() {
						cr, err := catalog.NewCourse(d, mag)
						if err != nil || cr == nil {
							po.Violate("course-error", "NewCourse(%d,%v) failed: %v", d, mag, err)
							return
						}
						speed := float64(r.Intn(400)) / 8
						cmt := fmt.Sprintf("station %d report %d", g, k)
						lines, body, ok := bodyLines(po, catalog.PosReport{Date: date, Lat: &lat, Lon: &lon, Course: cr, Speed: &speed, Comment: cmt})
						if !ok {
							return
						}
						want := fmt.Sprintf("%03d%s", d%360, map[bool]string{true: "M", false: "T"}[mag])
						if got := lines["COURSE"]; len(got) != 1 || got[0] != want {
							po.Violate("course-value", "concurrent composers: NewCourse(%d,%v) prints %v, want %s; body %q", d, mag, got, want, body)
						}
						if got := lines["COMMENT"]; len(got) != 1 || got[0] != cmt {
							po.Violate("comment-line", "concurrent composers: COMMENT %v for %q", got, cmt)
						}
						if got := lines["SPEED"]; len(got) != 1 {
							po.Violate("optional-line", "concurrent composers: SPEED lines %v", got)
						} else if f, err := strconv.ParseFloat(got[0], 64); err != nil || math.Abs(f-speed) > 1e-6 {
							po.Violate("speed-line", "concurrent composers: SPEED %q for %v", got[0], speed)
						}
						po.Count("reports_composed_while_other_goroutines_were_composing", 1)
					})
				}
			}
		})
		o.Sample = map[string]any{"kind": "concurrent", "goroutines": 4, "positions_each": 4000}
	case "course":
		// the sweep runs twice; after a course value has been checked the caller scribbles on it (its fields are
		// exported and the value is the caller's own): what one caller does to its value must not show in the
		// course any later call hands out
		for pass := 0; pass < 2; pass++ {
			for d := 0; d <= 360; d++ {
				for _, mag := range []bool{false, true} {
					o.Evals++
					vrt.Guard(&o, func() {
						cr, err := catalog.NewCourse(d, mag)
						defer func() {
							if cr != nil {
								cr.Magnetic = !cr.Magnetic
								cr.Digits = [3]byte{'7', '7', '7'}
								o.Count("course_values_edited_by_their_owner_afterwards", 1)
							}
						}()
						if err != nil || cr == nil {
							o.Violate("course-error", "NewCourse(%d,%v) failed: %v", d, mag, err)
							return
						}
						lines, _, ok := bodyLines(&o, catalog.PosReport{Date: date, Course: cr})
						if !ok {
							return
						}
						got := lines["COURSE"]
						if len(got) != 1 {
							o.Violate("course-line", "course %d: COURSE lines %v", d, got)
							return
						}
						o.Count("course_lines_parsed", 1)
						m := courseRe.FindStringSubmatch(got[0])
						if m == nil || got[0] != cr.String() {
							o.Violate("course-format", "NewCourse(%d,%v) prints %q (String()=%q): not three digits plus T/M", d, mag, got[0], cr.String())
							return
						}
						n, _ := strconv.Atoi(m[1])
						if n != d%360 || (m[2] == "M") != mag {
							o.Violate("course-value", "NewCourse(%d,%v) prints %q", d, mag, got[0])
						}
						o.Sig("course %s", got[0])
					})
				}
			}
		}
		for _, d := range []int{-1, 361, 1000, math.MinInt32} {
			o.Evals++
			vrt.Guard(&o, func() {
				if cr, err := catalog.NewCourse(d, false); err == nil {
					o.Violate("course-bounds", "NewCourse(%d) accepted: %v", d, cr)
				}
			})
		}
		o.Sample = map[string]any{"kind": "course", "degrees": "0..360", "magnetic": []bool{false, true}}
	case "optional":
		r := vrt.Rand(p.Seed, "c20opt")
		for rep := 0; rep < 50; rep++ {
			for mask := 0; mask < 48; mask++ {
				// bits 4,5 (with bit 0 clear): only the latitude / only the longitude is given
				if mask >= 16 && mask&1 != 0 {
					continue
				}
				o.Evals++
				var pr catalog.PosReport
				pr.Date = date.Add(time.Duration(r.Intn(1e6)) * time.Minute)
				lat, lon, speed := (r.Float64()*2-1)*90, (r.Float64()*2-1)*180, float64(r.Intn(400))/8
				// boundary values of the optional fields: "set" means the pointer is non-nil, whatever the value
				if fixedSpeeds := []float64{0, math.Copysign(0, -1), 1e-9, 0.5, 999.999}; rep < len(fixedSpeeds) {
					speed = fixedSpeeds[rep]
				}
				if rep < 3 {
					lat, lon = []float64{0, -0.5, 90}[rep], []float64{0, 0.5, -180}[rep]
				}
				if mask&1 != 0 {
					pr.Lat, pr.Lon = &lat, &lon
				}
				if mask&16 != 0 {
					pr.Lat = &lat
				}
				if mask&32 != 0 {
					pr.Lon = &lon
				}
				if mask&2 != 0 {
					pr.Speed = &speed
				}
				if mask&4 != 0 {
					deg := r.Intn(361)
					if rep < 3 {
						deg = []int{0, 360, 5}[rep]
					}
					pr.Course, _ = catalog.NewCourse(deg, r.Intn(2) == 0)
				}
				if mask&8 != 0 {
					pr.Comment = fmt.Sprintf("comment %d /.-", r.Intn(1000))
				}
				vrt.Guard(&o, func() {
					lines, body, ok := bodyLines(&o, pr)
					if !ok {
						return
					}
					both := mask&1 != 0 || mask&48 == 48
					want := map[string]bool{"DATE": true, "LATITUDE": both, "LONGITUDE": both, "SPEED": mask&2 != 0, "COURSE": mask&4 != 0, "COMMENT": mask&8 != 0}
					if !both && mask&48 != 0 {
						// half a position: a coordinate that was not given must not be stated (whether the one that
						// was given is printed alone is left open: a position needs both)
						o.Count("half_set_positions_checked", 1)
						if pr.Lat == nil && len(lines["LATITUDE"]) != 0 || pr.Lon == nil && len(lines["LONGITUDE"]) != 0 {
							o.Violate("optional-line", "fields mask %06b: a coordinate that was not set is stated; body %q", mask, body)
						}
						for _, k := range []string{"LATITUDE", "LONGITUDE"} {
							if len(lines[k]) > 1 {
								o.Violate("optional-line", "fields mask %06b: line %s present %d times; body %q", mask, k, len(lines[k]), body)
							}
						}
						delete(want, "LATITUDE")
						delete(want, "LONGITUDE")
					}
					for k, w := range want {
						if (len(lines[k]) == 1) != w || len(lines[k]) > 1 {
							o.Violate("optional-line", "fields mask %04b: line %s present %d times; body %q", mask, k, len(lines[k]), body)
						}
					}
					for k := range lines {
						if _, known := want[k]; !known && k != "LATITUDE" && k != "LONGITUDE" {
							o.Violate("unknown-line", "unexpected line %q in body %q", k, body)
						}
					}
					if d := lines["DATE"]; len(d) == 1 && d[0] != pr.Date.UTC().Format("2006/01/02 15:04") {
						o.Violate("date-line", "DATE %q for %v", d[0], pr.Date)
					}
					if s := lines["SPEED"]; len(s) == 1 {
						if f, err := strconv.ParseFloat(s[0], 64); err != nil || math.Abs(f-speed) > 1e-6 {
							o.Violate("speed-line", "SPEED %q for %v", s[0], speed)
						}
					}
					if cm := lines["COMMENT"]; len(cm) == 1 && cm[0] != pr.Comment {
						o.Violate("comment-line", "COMMENT %q for %q", cm[0], pr.Comment)
					}
					o.Count("optional_combinations_checked", 1)
					o.Sig("opt %06b %s", mask, body)
				})
			}
		}
		// comment sweep: every length 1..100 in ASCII, in two-byte (Latin-1 representable) characters and mixed,
		// with and without a position: the COMMENT line is the comment, whatever its length in bytes or runes
		for k := 1; k <= 100; k++ {
			for ui, unit := range []string{"a", "\u00e5", "a\u00f8", "\u00e6\u00f8\u00e5 ", "x/-:. "} {
				for _, withPos := range []bool{false, true} {
					o.Evals++
					var pr catalog.PosReport
					pr.Date = date
					lat, lon := -33.5+float64(k)/100, 70.25
					if withPos {
						pr.Lat, pr.Lon = &lat, &lon
					}
					pr.Comment = strings.TrimSpace(string([]rune(strings.Repeat(unit, k))[:k]))
					if pr.Comment == "" {
						continue
					}
					vrt.Guard(&o, func() {
						lines, body, ok := bodyLines(&o, pr)
						if !ok {
							return
						}
						if cm := lines["COMMENT"]; len(cm) != 1 || cm[0] != pr.Comment {
							o.Violate("comment-line", "COMMENT line %q for a comment of %d characters / %d bytes (%q...); body %q", cm, k, len(pr.Comment), pr.Comment[:min(len(pr.Comment), 12)], body)
						}
						if (len(lines["LATITUDE"]) == 1) != withPos || (len(lines["LONGITUDE"]) == 1) != withPos {
							o.Violate("optional-line", "comment sweep: position lines do not match position set=%v; body %q", withPos, body)
						}
						o.Count("comment_sweep_checked", 1)
						o.Sig("cmt %d %d %v", k, ui, withPos)
					})
				}
			}
		}
		o.Sample = map[string]any{"kind": "optional", "masks": "0..15 (bit0 position, bit1 speed, bit2 course, bit3 comment)", "repetitions": 50, "comment_sweep": "lengths 1..100 x 5 alphabets x with/without position"}
	}
	return o
}
