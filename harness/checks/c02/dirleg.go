package c02

import (
	"bytes"
	"fmt"
	"os"
	"sync"

	"github.com/la5nta/wl2k-go/fbb"
	"github.com/la5nta/wl2k-go/mailbox"

	"verif/internal/b2fx"
	"verif/internal/mboxkit"
	"verif/internal/mem"
	"verif/internal/vpipe"
	"verif/internal/vrt"
)

// logged wraps the real directory mailbox so that the same offline checkers can be used: every
// callback is recorded in the shared event log (content hash taken before the handler touches the
// message, because DirHandler adds its private X-Unread header).
type logged struct {
	fbb.MBoxHandler
	name string
	lg   *mem.Log
	mu   sync.Mutex
	// failAt: the j-th ProcessInbound call runs under a genuine file-size limit of failBytes
	// (partial write, then EFBIG).
	failAt, calls int
	failBytes     uint64
	// noFDAt: the j-th GetInboundAnswer call (noFDAnswer) or ProcessInbound call (failAt with
	// failBytes == noFD) runs while the process cannot obtain a file descriptor (EMFILE).
	noFDAnswerAt, answers int
	// deferAll: answer every proposal with Defer during this session (a station that is busy now and
	// wants the traffic later).
	deferAll bool
}

func (l *logged) ProcessInbound(msgs ...*fbb.Message) error {
	for _, m := range msgs {
		b, _ := m.Bytes()
		h := mem.Hash(b)
		l.mu.Lock()
		l.calls++
		inject := l.failAt > 0 && l.calls == l.failAt
		l.mu.Unlock()
		var err error
		if inject && l.failBytes == noFD {
			if lerr := mboxkit.WithNoFileDescriptors(func() { err = l.MBoxHandler.ProcessInbound(m) }); lerr != nil && err == nil {
				err = lerr
			}
		} else if inject {
			if lerr := mboxkit.WithFileSizeLimit(l.failBytes, func() { err = l.MBoxHandler.ProcessInbound(m) }); lerr != nil && err == nil {
				err = lerr
			}
		} else {
			err = l.MBoxHandler.ProcessInbound(m)
		}
		if err != nil {
			l.lg.Add(mem.Event{Station: l.name, Kind: mem.EvProcessInFailed, MID: m.MID()})
			return err
		}
		l.lg.Add(mem.Event{Station: l.name, Kind: mem.EvProcessInbound, MID: m.MID(), Hash: h, Size: len(b)})
	}
	return nil
}

func (l *logged) SetSent(mid string, rejected bool) {
	l.MBoxHandler.SetSent(mid, rejected)
	l.lg.Add(mem.Event{Station: l.name, Kind: mem.EvSetSent, MID: mid, Flag: rejected})
}

func (l *logged) SetDeferred(mid string) {
	l.MBoxHandler.SetDeferred(mid)
	l.lg.Add(mem.Event{Station: l.name, Kind: mem.EvSetDeferred, MID: mid})
}

// noFD as failBytes selects descriptor exhaustion instead of a file-size limit.
const noFD = ^uint64(0)

func (l *logged) GetInboundAnswer(p fbb.Proposal) fbb.ProposalAnswer {
	l.mu.Lock()
	l.answers++
	inject := l.noFDAnswerAt > 0 && l.answers == l.noFDAnswerAt
	l.mu.Unlock()
	var a fbb.ProposalAnswer
	if inject {
		if err := mboxkit.WithNoFileDescriptors(func() { a = l.MBoxHandler.GetInboundAnswer(p) }); err != nil {
			a = l.MBoxHandler.GetInboundAnswer(p)
		}
	} else {
		a = l.MBoxHandler.GetInboundAnswer(p)
	}
	if l.deferAll && a == fbb.Accept {
		a = fbb.Defer
	}
	l.lg.Add(mem.Event{Station: l.name, Kind: mem.EvGetInboundAns, MID: p.MID(), Answer: string(rune(a))})
	return a
}

// dirWorld is a scenario on two real directory mailboxes.
type dirWorld struct {
	sc         *b2fx.Scenario
	lg         *mem.Log
	dirA, dirB string
	// reuse: the two DirHandler values live as long as the world (a long-running station keeps its
	// handler across sessions) instead of being created afresh for every session.
	reuse    bool
	hA, hB   fbb.MBoxHandler
	deferAll bool // this session: station B defers everything
}

func newDirWorld(sc *b2fx.Scenario) (*dirWorld, error) {
	w := &dirWorld{sc: sc, lg: &mem.Log{}, dirA: mboxkit.MkTemp("c02a"), dirB: mboxkit.MkTemp("c02b")}
	for _, q := range []struct {
		dir  string
		msgs []b2fx.MsgSpec
	}{{w.dirA, sc.MsgsA}, {w.dirB, sc.MsgsB}} {
		h := mailbox.NewDirHandler(q.dir, false)
		if err := h.Prepare(); err != nil {
			return nil, err
		}
		for _, m := range q.msgs {
			msg := new(fbb.Message)
			if err := msg.ReadFrom(bytes.NewReader(sc.Truth[m.MID])); err != nil {
				return nil, err
			}
			if err := h.AddOut(msg); err != nil {
				return nil, err
			}
		}
	}
	return w, nil
}

func (w *dirWorld) close() { os.RemoveAll(w.dirA); os.RemoveAll(w.dirB) }

// session runs one session on fresh DirHandler instances (a restart between sessions, as a real
// program would do). failSide/failAt/failBytes select a genuine storage error.
func (w *dirWorld) session(plan vpipe.Plan, failSide string, failAt int, failBytes uint64) b2fx.Result {
	return w.sessionX(plan, failSide, failAt, failBytes, 0)
}

// sessionX: noFDAnswerAt > 0 makes the j-th proposal answer of station failSide run without file descriptors.
func (w *dirWorld) sessionX(plan vpipe.Plan, failSide string, failAt int, failBytes uint64, noFDAnswerAt int) b2fx.Result {
	if w.hA == nil || !w.reuse {
		w.hA, w.hB = mailbox.NewDirHandler(w.dirA, false), mailbox.NewDirHandler(w.dirB, false)
	}
	la := &logged{MBoxHandler: w.hA, name: "A", lg: w.lg}
	lb := &logged{MBoxHandler: w.hB, name: "B", lg: w.lg, deferAll: w.deferAll}
	if failSide == "A" {
		la.failAt, la.failBytes, la.noFDAnswerAt = failAt, failBytes, noFDAnswerAt
	} else if failSide == "B" {
		lb.failAt, lb.failBytes, lb.noFDAnswerAt = failAt, failBytes, noFDAnswerAt
	}
	sa := &b2fx.Side{Call: b2fx.CallA, Handler: la, Master: w.sc.MasterIsA}
	sb := &b2fx.Side{Call: b2fx.CallB, Handler: lb, Master: !w.sc.MasterIsA}
	plan.Seg = w.sc.Seg
	res, _ := b2fx.RunPair(sa, sb, plan, false)
	w.lg.NextSession()
	return res
}

// checkFolders compares the directories with the ground truth after convergence.
func (w *dirWorld) checkFolders(o *vrt.Obs, what string) {
	for _, q := range []struct {
		name, dir, peerDir string
		sent               []b2fx.MsgSpec
	}{{"A", w.dirA, w.dirB, w.sc.MsgsA}, {"B", w.dirB, w.dirA, w.sc.MsgsB}} {
		h := mailbox.NewDirHandler(q.dir, false)
		peer := mailbox.NewDirHandler(q.peerDir, false)
		out, err1 := h.Outbox()
		sent, err2 := h.Sent()
		inbox, err3 := peer.Inbox()
		if err1 != nil || err2 != nil || err3 != nil {
			o.Violate("dir-folder-unreadable", "%s: a mailbox folder no longer loads: %v %v %v", what, err1, err2, err3)
			return
		}
		idx := func(ms []*fbb.Message) map[string][]byte {
			m := map[string][]byte{}
			for _, x := range ms {
				m[x.MID()] = mboxkit.Canon(mboxkit.MustBytes(x))
			}
			return m
		}
		om, sm, im := idx(out), idx(sent), idx(inbox)
		for _, m := range q.sent {
			want := mboxkit.Canon(w.sc.Truth[m.MID])
			if w.sc.Policy[m.MID] == fbb.Defer {
				continue
			}
			if _, still := om[m.MID]; still {
				o.Violate("dir-still-in-outbox", "%s: message %s is still in station %s's outbox after the completing session", what, m.MID, q.name)
			}
			if _, ok := sm[m.MID]; !ok {
				o.Violate("dir-not-in-sent", "%s: message %s is not in station %s's sent folder", what, m.MID, q.name)
			}
			got, ok := im[m.MID]
			if !ok {
				o.Violate("dir-not-in-inbox", "%s: message %s is not in the peer's inbox", what, m.MID)
			} else if !bytes.Equal(got, want) {
				o.Violate("dir-inbox-content", "%s: message %s in the peer's inbox differs from the queued message", what, m.MID)
			}
			o.Count("dir_messages_compared_on_disk", 1)
		}
	}
}

func (w *dirWorld) converge(o *vrt.Obs, what string) {
	bound := 2 + len(w.sc.MsgsA) + len(w.sc.MsgsB)
	for i := 0; i < bound; i++ {
		res := w.session(vpipe.Plan{Seed: int64(i), CutDir: vpipe.NoCut}, "", 0, 0)
		b2fx.CheckReturned(o, res, what+" / clean session")
		b2fx.CheckSafety(o, w.sc, w.lg.Events())
		o.Count("dir_clean_sessions", 1)
		if res.A.Err == nil && res.B.Err == nil {
			w.checkFolders(o, what)
			return
		}
		if len(o.Violations) > 0 {
			return
		}
		o.Violate("clean-session-failed:"+b2fx.ErrClass(res.A.Err)+"/"+b2fx.ErrClass(res.B.Err), "%s: a fault-free session on the same directory mailboxes failed: A=%v B=%v", what, res.A.Err, res.B.Err)
		return
	}
}

// runDir: cuts (strided) and genuine storage errors with the real directory mailbox on both sides.
func runDir(o *vrt.Obs, p params) {
	mboxkit.Janitor()
	r := vrt.Rand(p.Seed, "c02dir", p.Scenario)
	sc, err := b2fx.GenSmallScenario(r, 4, true)
	if err != nil {
		o.Inconclusive = append(o.Inconclusive, "generator: "+err.Error())
		return
	}
	w0, err := newDirWorld(sc)
	if err != nil {
		o.Inconclusive = append(o.Inconclusive, "mailbox setup: "+err.Error())
		return
	}
	ref := w0.session(vpipe.Plan{CutDir: vpipe.NoCut}, "", 0, 0)
	w0.close()
	if ref.A.Err != nil || ref.B.Err != nil {
		o.Evals++
		o.Violate("fault-free-session-failed", "directory mailboxes, scenario %d: the fault-free session failed: A=%v B=%v", p.Scenario, ref.A.Err, ref.B.Err)
		return
	}
	n := ref.Link.Written
	one := func(what string, f func(w *dirWorld) b2fx.Result) {
		o.Evals++
		w, err := newDirWorld(sc)
		if err != nil {
			o.Inconclusive = append(o.Inconclusive, "mailbox setup: "+err.Error())
			return
		}
		defer w.close()
		before := len(o.Violations)
		res := f(w)
		b2fx.CheckReturned(o, res, what)
		b2fx.CheckSafety(o, sc, w.lg.Events())
		if len(o.Violations) == before {
			w.converge(o, what)
		}
		for i := before; i < len(o.Violations); i++ {
			if o.Violations[i].Detail == nil {
				o.Violations[i].Detail = map[string]any{"scenario": sc.Describe(), "fault": what}
			}
		}
	}
	for dm := 0; dm < 4; dm++ {
		d, silent := dm%2, dm >= 2
		for k := int64(p.Shard); k <= n[d]; k += int64(p.Shards) {
			what := fmt.Sprintf("directory mailboxes, scenario %d, cut after %d of %d bytes in direction %d (buffered link: %v)", p.Scenario, k, n[d], d, silent)
			one(what, func(w *dirWorld) b2fx.Result {
				return w.session(vpipe.Plan{CutDir: d, CutAt: k, CutSilent: silent}, "", 0, 0)
			})
			o.Count("dir_cut_positions", 1)
			o.Sig("dir s%d d%d k%d %v", p.Scenario, d, k, silent)
		}
	}
	if p.Shard == 1 {
		// long-running stations (the same DirHandler values for every session of the history): a
		// first session in which station B defers everything, optionally cut, then clean sessions
		for _, cutFrac := range []int64{-1, 2, 1} {
			what := fmt.Sprintf("directory mailboxes, scenario %d, handlers reused across sessions, first session: B defers everything (cut fraction 1/%d)", p.Scenario, cutFrac)
			one(what, func(w *dirWorld) b2fx.Result {
				w.reuse, w.deferAll = true, true
				pl := vpipe.Plan{CutDir: vpipe.NoCut}
				if cutFrac > 0 {
					pl = vpipe.Plan{CutDir: 0, CutAt: n[0] / cutFrac, CutSilent: true}
				}
				res := w.session(pl, "", 0, 0)
				w.deferAll = false
				return res
			})
			o.Count("dir_reused_handler_histories", 1)
			o.Sig("dir s%d reuse %d", p.Scenario, cutFrac)
		}
	}
	if p.Shard == 0 {
		for _, side := range []string{"A", "B"} {
			nin := len(sc.MsgsB)
			if side == "B" {
				nin = len(sc.MsgsA)
			}
			for j := 1; j <= nin; j++ {
				for _, fb := range []uint64{0, 1, 40, 200} {
					what := fmt.Sprintf("directory mailboxes, scenario %d, ProcessInbound #%d at station %s hits a file-size limit of %d bytes", p.Scenario, j, side, fb)
					one(what, func(w *dirWorld) b2fx.Result {
						return w.session(vpipe.Plan{CutDir: vpipe.NoCut, Capacity: []int{0, 1, 64}[(j+int(fb))%3]}, side, j, fb)
					})
					o.Count("dir_storage_errors_injected", 1)
					o.Sig("dir s%d fail %s j%d b%d", p.Scenario, side, j, fb)
				}
				// the same two calls while the station cannot obtain a file descriptor (EMFILE): the store
				// fails, and the look into the inbox that answers the proposal cannot be made
				what := fmt.Sprintf("directory mailboxes, scenario %d, ProcessInbound #%d at station %s runs out of file descriptors", p.Scenario, j, side)
				one(what, func(w *dirWorld) b2fx.Result {
					return w.session(vpipe.Plan{CutDir: vpipe.NoCut, Capacity: []int{0, 64}[j%2]}, side, j, noFD)
				})
				what = fmt.Sprintf("directory mailboxes, scenario %d, proposal answer #%d at station %s is given while no file descriptor can be obtained", p.Scenario, j, side)
				one(what, func(w *dirWorld) b2fx.Result {
					return w.sessionX(vpipe.Plan{CutDir: vpipe.NoCut}, side, 0, 0, j)
				})
				o.Count("dir_descriptor_exhaustion_injected", 2)
				o.Sig("dir s%d nofd %s j%d", p.Scenario, side, j)
			}
		}
	}
	o.Sample = map[string]any{"kind": "dir", "scenario": sc.Describe(), "bytes_per_direction": n, "shard": fmt.Sprintf("%d/%d", p.Shard, p.Shards)}
}
