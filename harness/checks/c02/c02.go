// Package c02: link failure never marks an undelivered message sent, nor loses/duplicates one.
// Fault enumeration: every cut position of the fault-free transcript in each direction, every
// position of a storage error, and histories of several faulty sessions followed by clean ones.
package c02

import (
	"fmt"

	"verif/internal/b2fx"
	"verif/internal/mem"
	"verif/internal/vpipe"
	"verif/internal/vrt"
)

type params struct {
	Seed     int64  `json:"seed"`
	Kind     string `json:"kind"` // cuts | fail | hist
	Scenario int    `json:"scenario"`
	Shard    int    `json:"shard"`
	Shards   int    `json:"shards"`
	Lo, Hi   int    `json:"-"`
	Count    int    `json:"count,omitempty"`
}

var Check = &vrt.Check{
	ID:    "C02",
	Level: "fault_enumeration",
	Rule: "for each scenario the fault-free session is run once to learn the bytes per direction; then one session per cut position k in [0,N] of each direction " +
		"(exhaustive), each followed by a clean session on the same mailboxes; one session per index j of a failing ProcessInbound on either side; PRNG histories of 1-3 faulty " +
		"sessions followed by clean sessions until one completes. Non-trivial = the fault hit after the handshake started and at least one handler event was recorded; " +
		"distinct = (scenario, direction, cut offset) / (scenario, side, j) / history index",
	Assumptions: []string{
		"a cut delivers exactly k bytes to the reader, then both ends see EOF/closed; bytes of the opposite direction still in flight are lost; two writer views are enumerated for every cut: the crossing write fails, or (buffered link) all later writes report success and the failure shows only at the next Read",
		"storage errors and histories also run on links with flow control (1 or 64 bytes in flight); deadlines the library sets are honoured logically (a blocked call returns its timeout as soon as neither end can progress); a state in which neither end can progress and no deadline is armed is a hang",
		"receiving policies are accept/defer only, so a reject always means the receiver already holds the message (dedup by MID)",
		"both the in-memory reference handler and the real directory mailbox (on /dev/shm, fresh DirHandler instances per session) are exercised; the directory leg's storage error is a genuine RLIMIT_FSIZE partial write + EFBIG",
	},
	Plan:            plan,
	Run:             run,
	HangIsViolation: true,
	HangKey:         func(c vrt.Case) string { return "session" },
	MinNontrivial:   100,
	Exhaustive:      func(string) bool { return true },
	Extra: func(tier string) map[string]any {
		return map[string]any{"exhaustive_over": "all cut offsets 0..N of both directions of every explored scenario's transcript; all j for the failing ProcessInbound"}
	},
}

const shards = 16

// session structures that the PRNG scenarios of a quick run need not contain: a station that sends AFTER the other has
// said FF (sender is master and the slave has nothing; or a second block), several blocks one way, traffic one way only
const shapedBase = 1000

var shapes = []struct {
	masterIsA bool
	na, nb    int
}{{true, 2, 0}, {false, 7, 0}, {true, 6, 1}, {false, 0, 3}}

func plan(seed int64, tier string) []vrt.Case {
	nsc, nhist := 4, 200
	if tier == "thorough" {
		nsc, nhist = 40, 5000
	}
	var cs []vrt.Case
	for s := 0; s < nsc; s++ {
		for sh := 0; sh < shards; sh++ {
			cs = append(cs, vrt.Case{ID: fmt.Sprintf("cuts-s%d-%d", s, sh), Params: vrt.MustParams(params{Seed: seed, Kind: "cuts", Scenario: s, Shard: sh, Shards: shards}), TimeoutS: 900})
		}
		cs = append(cs, vrt.Case{ID: fmt.Sprintf("fail-s%d", s), Params: vrt.MustParams(params{Seed: seed, Kind: "fail", Scenario: s}), TimeoutS: 600})
	}
	for k := range shapes {
		s := shapedBase + k
		for sh := 0; sh < shards; sh++ {
			cs = append(cs, vrt.Case{ID: fmt.Sprintf("cuts-shape%d-%d", k, sh), Params: vrt.MustParams(params{Seed: seed, Kind: "cuts", Scenario: s, Shard: sh, Shards: shards}), TimeoutS: 900})
		}
	}
	ndir := 2
	if tier == "thorough" {
		ndir = 12
	}
	for s := 0; s < ndir; s++ {
		for sh := 0; sh < shards; sh++ {
			cs = append(cs, vrt.Case{ID: fmt.Sprintf("dir-s%d-%d", s, sh), Params: vrt.MustParams(params{Seed: seed, Kind: "dir", Scenario: s, Shard: sh, Shards: shards}), TimeoutS: 900})
		}
	}
	per := 25
	for i := 0; i < nhist; i += per {
		cs = append(cs, vrt.Case{ID: fmt.Sprintf("hist-%d", i), Params: vrt.MustParams(params{Seed: seed, Kind: "hist", Scenario: i, Count: per}), TimeoutS: 900})
	}
	return cs
}

type world struct {
	sc   *b2fx.Scenario
	lg   *mem.Log
	a, b *mem.Station
	// modem: both stations talk through modem-like connections (Flush blocks until the link has taken
	// everything; TxBufferLen): what a station reports must not depend on the transport kind
	modem bool
}

func newWorld(sc *b2fx.Scenario) *world {
	w := &world{sc: sc, lg: &mem.Log{}}
	w.a, w.b = sc.Stations(w.lg)
	return w
}

func (w *world) session(plan vpipe.Plan) b2fx.Result {
	sa, sb := w.sc.Sides(w.a, w.b)
	sa.Modem, sb.Modem = w.modem, w.modem
	plan.Seg = w.sc.Seg
	res, _ := b2fx.RunPair(sa, sb, plan, false)
	w.lg.NextSession()
	return res
}

// converge runs clean sessions until one completes (bounded) and checks the end state.
func (w *world) converge(o *vrt.Obs, what string) {
	bound := 2 + len(w.sc.MsgsA) + len(w.sc.MsgsB)
	for i := 0; i < bound; i++ {
		res := w.session(vpipe.Plan{Seed: int64(i), CutDir: vpipe.NoCut})
		b2fx.CheckReturned(o, res, what+" / clean session")
		b2fx.CheckSafety(o, w.sc, w.lg.Events())
		o.Count("clean_sessions", 1)
		if res.A.Err == nil && res.B.Err == nil {
			b2fx.CheckConverged(o, w.sc, w.a, w.b, w.lg.Events())
			b2fx.CheckContent(o, w.sc.MsgsA, w.b.Inbox(), "B")
			b2fx.CheckContent(o, w.sc.MsgsB, w.a.Inbox(), "A")
			return
		}
		if len(o.Violations) > 0 {
			return
		}
		// a clean session on an intact link must complete
		o.Violate("clean-session-failed:"+b2fx.ErrClass(res.A.Err)+"/"+b2fx.ErrClass(res.B.Err), "%s: a fault-free session on the same mailboxes failed: A=%v B=%v", what, res.A.Err, res.B.Err)
		return
	}
}

func run(c vrt.Case) vrt.Obs {
	var p params
	vrt.Params(c, &p)
	var o vrt.Obs
	detail := func(from int, extra map[string]any) {
		for i := from; i < len(o.Violations); i++ {
			if o.Violations[i].Detail == nil {
				o.Violations[i].Detail = extra
			}
		}
	}
	switch p.Kind {
	case "dir":
		runDir(&o, p)
	case "cuts", "fail":
		r := vrt.Rand(p.Seed, "c02", p.Scenario)
		sc, err := b2fx.GenSmallScenario(r, 7, true)
		if p.Scenario >= shapedBase {
			sh := shapes[(p.Scenario-shapedBase)%len(shapes)]
			sc, err = b2fx.GenShapedScenario(r, sh.masterIsA, sh.na, sh.nb, false)
		}
		if err != nil {
			o.Inconclusive = append(o.Inconclusive, "generator: "+err.Error())
			return o
		}
		// fault-free reference run
		w0 := newWorld(sc)
		ref := w0.session(vpipe.Plan{CutDir: vpipe.NoCut})
		if ref.A.Err != nil || ref.B.Err != nil || ref.A.Panic != nil || ref.B.Panic != nil {
			o.Evals++
			o.Violate("fault-free-session-failed", "the fault-free reference session of scenario %d failed: A=%v B=%v", p.Scenario, ref.A.Err, ref.B.Err)
			return o
		}
		n := ref.Link.Written
		if p.Kind == "cuts" {
			for dm := 0; dm < 4; dm++ {
				d, silent := dm%2, dm >= 2
				for k := int64(p.Shard); k <= n[d]; k += int64(p.Shards) {
					o.Evals++
					w := newWorld(sc)
					before := len(o.Violations)
					res := w.session(vpipe.Plan{CutDir: d, CutAt: k, CutSilent: silent})
					what := fmt.Sprintf("scenario %d, cut after %d of %d bytes in direction %d (writer %s)", p.Scenario, k, n[d], d, map[bool]string{false: "sees the failure", true: "does not notice: buffered link"}[silent])
					b2fx.CheckReturned(&o, res, what)
					if o.Poisoned {
						return o // a spinning goroutine is left behind: the worker is retired
					}
					ev := w.lg.Events()
					b2fx.CheckSafety(&o, sc, ev)
					b2fx.CheckNilMeansDone(&o, res, w.a, w.b, ev, what)
					if res.A.Err == nil && res.B.Err == nil {
						o.Count("cut_sessions_that_still_completed", 1)
					} else {
						o.Count("cut_sessions_failed", 1)
					}
					if len(o.Violations) == before {
						w.converge(&o, what)
					}
					detail(before, map[string]any{"scenario": sc.Describe(), "cut_dir": d, "cut_at": k, "cut_silent": silent, "bytes_in_direction": n[d]})
					if len(ev) > 2 {
						o.Sig("s%d d%d k%d %v", p.Scenario, d, k, silent)
					}
					o.Count("cut_positions", 1)
				}
			}
			o.Sample = map[string]any{"kind": "cuts", "scenario": sc.Describe(), "bytes_per_direction": n, "shard": fmt.Sprintf("%d/%d", p.Shard, p.Shards)}
			return o
		}
		// storage error at the j-th inbound message, on either side
		for side := 0; side < 2; side++ {
			nin := len(sc.MsgsB)
			if side == 1 {
				nin = len(sc.MsgsA)
			}
			for jc := 0; jc < 3*nin; jc++ {
				// every j on an unbounded link and on links with flow control (1 and 64 bytes in flight):
				// there the error report to the peer meets the peer's own writes
				j, capacity := 1+jc/3, []int{0, 1, 64}[jc%3]
				o.Evals++
				w := newWorld(sc)
				w.modem = (jc/3+side)%2 == 1 // every other storage-error case on modem-like connections
				st := w.a
				if side == 1 {
					st = w.b
				}
				st.FailAt = j
				before := len(o.Violations)
				res := w.session(vpipe.Plan{CutDir: vpipe.NoCut, Capacity: capacity})
				o.Count("logical_deadline_timeouts", int64(res.Link.Timeouts[0]+res.Link.Timeouts[1]))
				what := fmt.Sprintf("scenario %d, ProcessInbound #%d fails at station %s (link capacity %d)", p.Scenario, j, st.Name, capacity)
				b2fx.CheckReturned(&o, res, what)
				if o.Poisoned {
					return o // a spinning goroutine is left behind: the worker is retired
				}
				b2fx.CheckSafety(&o, sc, w.lg.Events())
				failed := 0
				for _, e := range w.lg.Events() {
					if e.Kind == mem.EvProcessInFailed {
						failed++
					}
				}
				if failed > 0 {
					o.Count("storage_errors_injected", 1)
					o.Sig("s%d fail %s j%d c%d", p.Scenario, st.Name, j, capacity)
					// the station whose handler failed must not report success
					failing := res.A
					if side == 1 {
						failing = res.B
					}
					if failing.Err == nil {
						o.Violate("storage-error-swallowed", "%s: Exchange returned nil although the handler reported a storage error", what)
					}
				}
				if len(o.Violations) == before {
					w.converge(&o, what)
				}
				detail(before, map[string]any{"scenario": sc.Describe(), "fail_side": st.Name, "fail_at": j})
			}
		}
		o.Sample = map[string]any{"kind": "fail", "scenario": sc.Describe()}
	case "hist":
		for h := p.Scenario; h < p.Scenario+p.Count; h++ {
			r := vrt.Rand(p.Seed, "c02hist", h)
			sc, err := b2fx.GenSmallScenario(r, 7, true)
			if err != nil {
				o.Inconclusive = append(o.Inconclusive, "generator: "+err.Error())
				continue
			}
			o.Evals++
			w0 := newWorld(sc)
			ref := w0.session(vpipe.Plan{CutDir: vpipe.NoCut})
			if ref.A.Err != nil || ref.B.Err != nil {
				o.Violate("fault-free-session-failed", "the fault-free reference session of history %d failed: A=%v B=%v", h, ref.A.Err, ref.B.Err)
				continue
			}
			w := newWorld(sc)
			nf := 1 + r.Intn(3)
			var faults []string
			before := len(o.Violations)
			for f := 0; f < nf && len(o.Violations) == before; f++ {
				var res b2fx.Result
				var what string
				if r.Intn(4) == 0 {
					st := []*mem.Station{w.a, w.b}[r.Intn(2)]
					st.FailAt = 1 + r.Intn(4) // counted over the station's lifetime: may or may not be reached
					what = fmt.Sprintf("history %d fault %d: storage error at %s call #%d", h, f, st.Name, st.FailAt)
					res = w.session(vpipe.Plan{CutDir: vpipe.NoCut, Capacity: []int{0, 1, 64}[r.Intn(3)]})
					st.FailAt = 0
				} else {
					d := r.Intn(2)
					// cut offsets are drawn from the fault-free transcript length; later sessions of a
					// history are shorter, so some cuts fall beyond the end (a clean session) - fine.
					k := r.Int63n(ref.Link.Written[d] + 1)
					if r.Intn(3) == 0 { // bias towards the end of the stream (confirmation window)
						k = ref.Link.Written[d] - r.Int63n(min64(40, ref.Link.Written[d]+1))
					}
					what = fmt.Sprintf("history %d fault %d: cut after %d bytes in direction %d", h, f, k, d)
					silent := r.Intn(2) == 0
					if silent {
						what += " (buffered link: writer does not notice)"
					}
					res = w.session(vpipe.Plan{CutDir: d, CutAt: k, CutSilent: silent, Capacity: []int{0, 0, 1, 64}[r.Intn(4)]})
				}
				faults = append(faults, what)
				b2fx.CheckReturned(&o, res, what)
				if o.Poisoned {
					return o // a spinning goroutine is left behind: the worker is retired
				}
				b2fx.CheckSafety(&o, sc, w.lg.Events())
				o.Count("faulty_sessions_in_histories", 1)
			}
			if len(o.Violations) == before {
				w.converge(&o, fmt.Sprintf("history %d", h))
			}
			detail(before, map[string]any{"scenario": sc.Describe(), "faults": faults})
			o.Sig("hist %d", h)
			if o.Sample == nil {
				o.Sample = map[string]any{"kind": "history", "faults": faults, "scenario": sc.Describe()}
			}
		}
	}
	return o
}

func min64(a, b int64) int64 {
	if a < b {
		return a
	}
	return b
}
