// Package c03: no byte sequence from the remote can crash, hang or exhaust a session.
// The remote is a fixed byte string played through a scripted in-memory link followed by EOF
// (B2F alternates strictly, so a fixed remote transcript is a legal peer). Process-level monitors
// watch the real Exchange call: panic, process death, CPU spin, allocation out of proportion to
// the bytes received, connection not closed on return.
package c03

import (
	"encoding/hex"
	"fmt"
	"os"
	"path/filepath"
	"runtime"
	"runtime/debug"
	"runtime/metrics"
	"strings"
	"syscall"
	"time"

	"github.com/la5nta/wl2k-go/fbb"

	"verif/internal/b2fx"
	"verif/internal/mem"
	"verif/internal/ref/lzref"
	"verif/internal/vpipe"
	"verif/internal/vrt"
)

type params struct {
	Seed   int64  `json:"seed"`
	Kind   string `json:"kind"` // structured | bytemut | random
	Base   int    `json:"base,omitempty"`
	Shard  int    `json:"shard"`
	Shards int    `json:"shards"`
	Stride int    `json:"stride,omitempty"`
	Count  int    `json:"count,omitempty"`
}

var Check = &vrt.Check{
	ID:    "C03",
	Level: "exploration",
	Rule: "every execution feeds one remote transcript to a real Exchange: (1) a fixed list of structure-aware mutants per protocol layer (handshake, proposals, answers, frames, " +
		"compressed payload with inner checksums recomputed, decompressed message, gzip) in both roles; (2) conforming transcripts recorded from the reference peer, mutated at byte level " +
		"(truncation, 14 substitution values, deletion, 6 insertion values at every offset in the thorough tier, strided in quick); (3) PRNG bytes and line soups. " +
		"non-trivial = Exchange consumed the script past the handshake's first line; distinct = distinct (generator, mutant id) pairs",
	Assumptions: []string{
		"memory bound: heap bytes allocated during the call <= 8 MiB + 1024 x bytes received (an LZHUF stream can legitimately expand ~50x, buffers double, parsing multiplies); growth of the peak resident set (stacks included) <= that + 64 MiB",
		"spin verdict: the worker burnt >= 10 s CPU inside one Exchange call on a transcript of at most ~100 kB (the scripted link never blocks a read); slow without CPU use is inconclusive",
		"workers run under a 6 GiB address-space limit; the runtime's fatal 'out of memory' is observed as a dead worker",
	},
	SelfTest:        lzref.SelfTest,
	Plan:            plan,
	Run:             run,
	HangIsViolation: true,
	HangKey:         func(c vrt.Case) string { return "case-level" },
	MinNontrivial:   500,
}

const nShards = 16

func plan(seed int64, tier string) []vrt.Case {
	var cs []vrt.Case
	for sh := 0; sh < nShards; sh++ {
		cs = append(cs, vrt.Case{ID: fmt.Sprintf("structured-%d", sh), Params: vrt.MustParams(params{Seed: seed, Kind: "structured", Shard: sh, Shards: nShards}), TimeoutS: 900})
	}
	stride, nrand := 2, 30000
	if tier == "thorough" {
		stride, nrand = 1, 300000
	}
	for b := 0; b < numBases; b++ {
		for sh := 0; sh < 8; sh++ {
			cs = append(cs, vrt.Case{ID: fmt.Sprintf("bytemut-b%d-%d", b, sh), Params: vrt.MustParams(params{Seed: seed, Kind: "bytemut", Base: b, Shard: sh, Shards: 8, Stride: stride}), TimeoutS: 1800})
		}
	}
	per := nrand / 24
	for i := 0; i < 24; i++ {
		cs = append(cs, vrt.Case{ID: fmt.Sprintf("random-%d", i), Params: vrt.MustParams(params{Seed: seed, Kind: "random", Shard: i, Count: per}), TimeoutS: 1800})
	}
	return cs
}

// ---- the monitored execution ------------------------------------------------------------------

var allocSample = []metrics.Sample{{Name: "/gc/heap/allocs:bytes"}}

func allocBytes() uint64 {
	metrics.Read(allocSample)
	return allocSample[0].Value.Uint64()
}

// memBound is the allocation a call may make for n received bytes: LZHUF can legitimately expand
// ~50x, the decompression buffer doubles while growing, and parsing a message costs a small multiple
// of its size; 8 MiB cover fixed costs.
func memBound(n int) uint64 { return uint64(8<<20) + 1024*uint64(n) }

// maxRSS is the process's resident-set high-water mark in bytes.
func maxRSS() int64 {
	var ru syscall.Rusage
	syscall.Getrusage(syscall.RUSAGE_SELF, &ru)
	return ru.Maxrss << 10
}

func cpuMillis() int64 {
	var ru syscall.Rusage
	syscall.Getrusage(syscall.RUSAGE_SELF, &ru)
	return (ru.Utime.Sec+ru.Stime.Sec)*1000 + int64(ru.Utime.Usec+ru.Stime.Usec)/1000
}

type runner struct {
	o       *vrt.Obs
	caseID  string
	curFile string
}

func newRunner(o *vrt.Obs, c vrt.Case) *runner {
	return &runner{o: o, caseID: c.ID, curFile: filepath.Join(vrt.ScratchDir(), "c03-current-"+c.ID)}
}

// replay feeds script to a real Exchange of world w and records what the monitors see.
// progressDisplay reads what a progress display reads.
type progressDisplay struct{}

func (progressDisplay) UpdateStatus(s fbb.Status) {
	for _, p := range []*fbb.Proposal{s.Sending, s.Receiving} {
		if p != nil {
			_ = len(p.Title()) + len(p.MID()) + p.Size() + p.CompressedSize()
		}
	}
	if s.BytesTotal > 0 {
		_ = s.BytesTransferred * 100 / s.BytesTotal
	}
}

// id identifies the mutant (stable across runs); it is used in keys only through its class.
func (r *runner) replay(w *b2fx.PeerWorld, script []byte, class, id string) {
	o := r.o
	if o.Poisoned {
		return
	}
	o.Evals++
	// journal the input before running it: if the process dies the parent finds it here
	os.WriteFile(r.curFile, []byte(class+"\n"+id+"\n"+hex.EncodeToString(script)+"\n"), 0o644)
	b2fx.SetGzip(w.Gzip)
	defer b2fx.SetGzip(false)
	lg := &mem.Log{}
	st, _ := w.NewStation(lg)
	if o.Evals%4 >= 2 {
		// half of the sessions use a mailbox handler that answers a whole block in one call (the optional batched
		// interface): the station's own answers (repeated identifiers, unsupported proposal kinds) and the handler's
		// are then merged by position
		st.Batched = true
		o.Count("sessions_with_batched_handler", 1)
	}
	sess := w.NewLibSession(st.AsHandler())
	if o.Evals%2 == 0 {
		// every other session has a status updater registered (an application with a progress display):
		// the reporting goroutines then run on remote-controlled numbers too
		sess.SetStatusUpdater(progressDisplay{})
		o.Count("sessions_with_status_updater", 1)
	}
	end, link := vpipe.NewScripted(script, vpipe.Plan{Seed: int64(len(script)), Seg: w.Seg}, false)
	type result struct {
		err   error
		pan   any
		stack []byte
	}
	done := make(chan result, 1)
	a0, c0, rss0 := allocBytes(), cpuMillis(), maxRSS()
	go func() {
		var res result
		defer func() {
			if p := recover(); p != nil {
				res.pan, res.stack = p, debug.Stack()
			}
			done <- res
		}()
		_, res.err = sess.Exchange(end)
	}()
	var res result
	// The verdict on non-termination is taken on CPU time, never on wall time: the scripted link
	// cannot block a read, so an Exchange that has burnt 10 s of CPU on a few hundred bytes spins.
	// Wall time only bounds how long we look (load makes a spinning goroutine slow, not innocent).
	t0 := time.Now()
wait:
	for {
		select {
		case res = <-done:
			break wait
		case <-time.After(500 * time.Millisecond):
		}
		cpu := cpuMillis() - c0
		if cpu < 10000 && time.Since(t0) < 180*time.Second {
			continue
		}
		buf := make([]byte, 1<<20)
		buf = buf[:runtime.Stack(buf, true)]
		fr := exchangeFrame(string(buf))
		if cpu >= 10000 {
			v := o.Violate("spin:"+fr, "Exchange burnt %d ms CPU without returning after the remote's %d-byte transcript ended (%s %s)", cpu, len(script), class, id)
			v.Detail = map[string]any{"class": class, "mutant": id, "script_hex": clip(hex.EncodeToString(script)), "goroutines": clip(string(buf))}
		} else {
			o.Inconclusive = append(o.Inconclusive, fmt.Sprintf("%s %s: Exchange not back after 180 s wall but only %d ms CPU used", class, id, cpu))
		}
		o.Poisoned = true
		return
	}
	alloc := allocBytes() - a0
	stt := link.State()
	detail := func(v *vrt.Violation) {
		v.Detail = map[string]any{"class": class, "mutant": id, "script_hex": clip(hex.EncodeToString(script)), "world": w.Tag, "exchange_error": fmt.Sprint(res.err)}
	}
	if res.pan != nil {
		v := vrt.PanicViolation(res.pan, res.stack)
		v.Desc += fmt.Sprintf(" (%s %s)", class, id)
		st := v.Detail
		v.Detail = map[string]any{"class": class, "mutant": id, "script_hex": clip(hex.EncodeToString(script)), "world": w.Tag, "stack": st}
		if len(o.Violations) < vrt.MaxViolationsPerCase {
			o.Violations = append(o.Violations, v)
		} else {
			o.Count("violations_not_recorded_over_cap", 1)
		}
		o.Count("panics", 1)
	} else if !stt.Closed[0] {
		detail(o.Violate("conn-not-closed", "Exchange returned (%v) without closing the connection (%s %s)", res.err, class, id))
	}
	limit := memBound(len(script))
	if alloc > limit {
		detail(o.Violate("alloc:"+class, "Exchange allocated %d bytes for a %d-byte remote transcript (bound %d) (%s %s)", alloc, len(script), limit, class, id))
	}
	// Goroutine stacks are not heap allocations: the process's resident-set high-water mark (as the
	// kernel accounts it) catches memory of any kind. It only moves when a call exceeds every
	// earlier peak of this worker, so it can miss, never over-report.
	if grown := maxRSS() - rss0; grown > 0 && uint64(grown) > limit+(64<<20) {
		detail(o.Violate("memory:"+class, "the process's peak resident set grew by %d bytes during Exchange on a %d-byte remote transcript (bound %d) (%s %s)", grown, len(script), limit+(64<<20), class, id))
	}
	if ratio := alloc / uint64(len(script)+1); ratio > 300 && len(script) > 4096 {
		o.Count("replays_allocating_more_than_300x_received", 1)
	}
	o.Count("replays", 1)
	if res.err == nil && res.pan == nil {
		o.Count("exchange_returned_nil", 1)
	} else if res.pan == nil {
		o.Count("exchange_returned_error", 1)
	}
	o.Count("script_bytes_consumed", stt.Delivered[vpipe.BtoA])
	if stt.Delivered[vpipe.BtoA] > 20 || stt.Delivered[vpipe.BtoA] == int64(len(script)) {
		o.Sig("%s %s", class, id)
	}
	for _, e := range lg.Events() {
		if e.Kind == mem.EvProcessInbound {
			o.Count("mutants_that_delivered_a_message", 1)
			break
		}
	}
}

func clip(s string) string {
	if len(s) > 20000 {
		return s[:20000] + "...[truncated]"
	}
	return s
}

// exchangeFrame finds, in an all-goroutine dump, the innermost library frame of the goroutine that
// is inside Session.Exchange.
func exchangeFrame(dump string) string {
	for _, g := range strings.Split(dump, "\n\n") {
		if strings.Contains(g, "fbb.(*Session).Exchange") {
			if f := vrt.RepoFrame(g); f != "" {
				return f
			}
		}
	}
	return "unknown"
}

// CurrentInput is used by the parent (via Check.OnCrash) to attach the journaled input.
func currentInput(scratch, caseID string) string {
	b, err := os.ReadFile(filepath.Join(scratch, "c03-current-"+caseID))
	if err != nil {
		return ""
	}
	return clip(string(b))
}

func init() {
	Check.OnCrash = func(c vrt.Case, cr vrt.Crash) vrt.Obs {
		o := vrt.DefaultCrash(c, cr)
		in := currentInput(vrt.ScratchDir(), c.ID)
		class := ""
		if parts := strings.SplitN(in, "\n", 3); len(parts) == 3 {
			class = parts[0] + " " + parts[1]
		}
		for i := range o.Violations {
			o.Violations[i].Desc += " (input: " + class + ")"
			if m, ok := o.Violations[i].Detail.(map[string]any); ok {
				m["journaled_input"] = in
			}
		}
		return o
	}
}

var _ = fbb.Accept
